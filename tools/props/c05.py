"""C05 -- bound-constrained trust-region (SPG) solver: feasible, descends, flags honestly; projections."""
import contextlib
import io
import json
import math
import signal

import numpy as onp

from vlib import common as C
from props import c01 as P1

ID = 'C05'
READY = True
LEVEL_TEXT = ('Partial. Coq theorems over R: project is feasible, the nearest feasible point and idempotent for finite/one-sided/infinite/degenerate bounds; '
              'project_onto_tr is in the box for every value brentq may return and -- since the repair of finding F15 (repo fix: the point found by the root finder is pulled back toward xk when it overshoots) -- ALSO inside the radius for EVERY value brentq may return (feasible centre, radius >= 0; no hypothesis on the root finder left), unchanged when the projection is already inside; '
              'the clip statement alpha = min(1.0, max(0.0, alpha)) if sBs > 0 else 1.0 and project (n = 1, 2, 3) are kernels REGENERATED from the source (no hand kernel clip01 any more): '
              'the generated clip equals Rmin 1 (Rmax 0 a) / 1 and is in [0,1] for every line-search value, the list model clamp/project equals the generated project kernel; '
              'C05_every_iterate_feasible: ONE theorem about the COMPLETE solver model (model/M_C05_Full.v: find_generalized_cauchy_point with its forward/back-tracking and trust-region cut-back loops, '
              'solve_spg_subproblem with qHistory, spectral step, both line searches and the generated clip, the outer loop calling them): for arbitrary length-preserving value/gradient/Hessian-vector oracles, '
              'EVERY sequence of root-finder answers, every settings record and every feasible start, every point the solver forms (the Cauchy point, every SPG iterate x+z, every trial point, every reported/returned point) is in the box; '
              'C05_flag_honest_complete_model: the complete model reports success only at a final ConvergedAt event at the returned point with |P(y-g)-y|<tol (no hypotheses); '
              'C05_every_iterate_in_trust_region (new): the TRUST-REGION half of feasibility for the same complete model -- the trace now carries the centre x and radius trSize of every outer iteration (event FIter, '
              'compared with the arguments the implementation hands to find_generalized_cauchy_point) and the theorem says: every FIter announces the current iterate (start / last accepted point) and a radius >= 0, '
              'and the generalized Cauchy point, every SPG iterate x+z and every trial point y=x+s are within that radius of that centre, for arbitrary length-preserving oracles and EVERY sequence of root-finder answers; '
              'hypotheses tr_size>=0, t1>=0, t2>=0, cauchy_point_max_line_search_iters>=1 (with a cap of 0 the cut-back loop returns after one cut-back without raising, possibly outside the radius); '
              'ingredients: cut-back loop exit (C05_cauchy_step_in_trust_region), project_onto_tr inside the radius for every brentq answer (F15 repair), step length in [0,1], convexity of the ball along z += alpha*s (C05_spg_update_stays_in_ball); '
              'C05_complete_run_is_a_proposal_oracle_run (new, REFINEMENT): every returning run of the complete model equals bc_minimize run with the proposal sequence the complete run computes (same point, flag, callback/precond/return events); '
              'C05_trace_properties_complete_model (new): hence, for EVERY run of the complete model (RuntimeError exits included, no hypotheses): accepted objective values recomputed at the accepted point and non-increasing (default mode, eta1>=0), '
              'flag=False => returned point is the current iterate and the trace ends in TooSmall/MaxIters; '
              'outer loop for ARBITRARY value/gradient oracles and ARBITRARY step proposals (older model, kept, now the abstraction of the complete model by a Coq theorem); '
              'convex + exact projected-gradient stationarity => bound-constrained minimiser; C05_convex_pg_small_near_min (new): gradient mu-strongly monotone and L-Lipschitz towards the constrained minimiser xs => '
              'mu|x-xs| <= (1+L)|P(x-g)-x|, and C05_success_is_near_constrained_minimizer (new): a point the complete model returns with success is within (1+L)/mu*tol of xs (the bound the convex-box stream tests on the implementation); '
              'C05_cauchy_step_cap_zero_refuted: with cauchy_point_max_line_search_iters = 0 the Cauchy step can leave the radius (witness replayed on find_generalized_cauchy_point). '
              'L2 on the implementation: every reported iterate in the box (4 ulp), every Cauchy / SPG / trial point within trSize*(1+1e-9) (+ 8 ulp(|x|) sqrt(n) rounding of x+z) of its centre (new stream, worst ratio in the evidence). '
              'Not proved: the binary64 versions (a bound can be exceeded by an ulp through y = x + z, the radius by a few ulp of |x|; L2 only), '
              'descent at the converged exit is FALSE (finding F1\'), that the solver DOES report success on convex problems (global convergence; tested only).')
TECHNIQUE = 'Coq proof (Reals, lra/nra, induction over the loops) on a hand model + regenerated line-search / clip / project kernels; vm_compute/PrimFloat correspondence of complete event traces with logged root-finder answers'
GEN = ['TrustRegionSPG']
TARGETS = ['model/M_C06_Vec.vo', 'model/M_C06_CG.vo', 'model/M_C01_TR.vo', 'model/M_C05_SPG.vo', 'model/M_C05_Full.vo', 'proofs/L_C06_Vec.vo', 'proofs/L_C01.vo', 'proofs/L_C05.vo',
           'proofs/L_C05_Full.vo', 'proofs/L_C05_TR.vo', 'proofs/L_C05_Refine.vo', 'proofs/L_C05_Convex.vo']
COQ_FILES = ['base/Num.v', 'model/M_C06_Vec.v', 'model/M_C01_TR.v', 'model/M_C05_SPG.v', 'model/M_C05_Full.v', 'proofs/L_C06_Vec.v', 'proofs/L_C01.v', 'proofs/L_C05.v', 'proofs/L_C05_Full.v',
             'proofs/L_C05_TR.v', 'proofs/L_C05_Refine.v', 'proofs/L_C05_Convex.v', 'props/P_C05.v']
TRUSTED = ['Coq 8.16.1 kernel + vm_compute (no native_compute)', 'tools/vlib/py2coq.py translator for the two line-search kernels, the clip statement (extracted from solve_spg_subproblem) and project',
           'hand models model/M_C05_SPG.v and model/M_C05_Full.v tied by the correspondence; in the complete model only scipy brentq is an ORACLE (its logged answers are fed to the model by call index); '
           'in the older proposal-oracle model solve_spg_subproblem outputs are fed',
           'harness: duck-typed polynomial objectives (shared with C01), recording callback / update_precond, monkey-patched TrustRegionSPG.{solve_spg_subproblem, find_generalized_cauchy_point, subproblem_optimality, project} '
           'and optimize.brentq for logging only',
           'near-tie rule as C01 (implementation re-run with <= 2 ulp noise on oracle arguments); a check fails if fewer than 60% of the complete-model runs agree event by event',
           'theorems are over exact reals; binary64 rounding (bounds may be exceeded by an ulp through y = x + s) is covered only by L2 with 4 ulp slack']
ASSUMPTIONS = ['none on value/gradient oracles and on step proposals for descent / flag / returns-last', 'lb <= ub wherever both finite', '0 <= eta1, default (non-incremental) mode for descent',
               'brentq returns some number (no assumption for box feasibility)',
               'complete model: gradient and Hessian-vector oracles return vectors of the length of their argument (shape typing); nothing else',
               'trust-region theorem: tr_size >= 0, t1 >= 0, t2 >= 0, cauchy_point_max_line_search_iters >= 1 (each needed); descent / returns-last over the complete model: none beyond 0 <= eta1 and default mode for descent']
RULE = ('objectives as C01 (dyadic polynomials, 1..6 variables) with boxes whose components are finite, one-sided, infinite or degenerate (lb == ub), starts inside, on faces and on vertices, '
        'both line-search modes, settings forcing each exit; direct calls of project / project_onto_tr with points inside, outside the box and outside the radius; '
        'a case is non-trivial when at least one outer iteration runs (solver) or the root find is needed (project_onto_tr); distinct = distinct input tuples; '
        'complete-model stream: the same solver cases, every event (centre and radius of every outer iteration, Cauchy search projection count and alpha, every SPG iterate with its root-find count, exit kind and iteration count, '
        'trial point, callbacks) compared; trust-region stream: every Cauchy / SPG / trial point of every solver run (incl. small-radius runs that force root finds) checked against the radius of its outer iteration')
IMPORTS = ['From OV.gen Require Import Gen_TrustRegionSPG.', 'From OV.model Require Import M_C06_Vec M_C06_CG M_C01_TR M_C05_SPG M_C05_Full.']
PREAMBLE = P1.PREAMBLE.split('Definition run_poly')[0] + '''
Definition run_bc (A : list (list float)) (b c d : list float) (bs : list (@bound float)) (props : list (list float * float * bool * nat))
    (x0 : list float) (S : settings float) : list Z :=
  enc_run (@bc_minimize float NumF (pvalue A b c d) (pgrad A b c d) bs
            (fun k _ => nth k props (map (fun _ => F 0 0) x0, F 0 0, false, O)) S x0).
Definition enc_fev (e : fevent float) : list Z :=
  match e with
  | FCauchy fwd n1 n2 a => [10; if fwd then 1 else 0; Z.of_nat n1; Z.of_nat n2] ++ fenc a
  | FCauchyError ph => [11; Z.of_nat ph]
  | FSpg x k chi2 => 12 :: Z.of_nat k :: fencs x ++ fenc chi2
  | FSpgExit kd it => [13; Z.of_nat kd; Z.of_nat it]
  | FTrial y => 14 :: fencs y
  | FOut e => enc_ev e
  | FModelLimit => [15]
  | FIter x D => 16 :: fencs x ++ fenc D
  end.
Definition run_full (A E : list (list float)) (b c d : list float) (bs : list (@bound float)) (brents : list float)
    (x0 : list float) (S : settings float) (G : spg_settings float) : list Z :=
  let '(res, tr) := @full_minimize float NumF (pvalue A b c d) (pgrad A b c d) (phessvec A E c d) (fun k => nth k brents (F 0 0)) bs S G x0 in
  (match res with None => [2] | Some (x, f) => benc f ++ fencs x end) ++ flat_map enc_fev tr.
'''
INF = math.inf


def _mods():
    from vlib import shim
    shim.install()
    import jax.numpy as jnp
    import optimism  # noqa: F401
    from optimism import TrustRegionSPG as TR
    return jnp, TR


quiet, cvec, cmat = P1.quiet, P1.cvec, P1.cmat


class Timeout(Exception):
    pass


def _alarm(signum, frame):
    raise Timeout()


def cbound(lo, hi):
    return '(%s, %s)' % ('None' if lo == -INF else 'Some %s' % C.cf(lo), 'None' if hi == INF else 'Some %s' % C.cf(hi))


def cbounds(bs):
    return C.clist([cbound(lo, hi) for lo, hi in bs])


def gen_box(r, x0):
    bs, x = [], list(x0)
    for i, xi in enumerate(x0):
        k = r.randrange(6)
        if k == 0:
            lo, hi = -INF, INF
        elif k == 1:
            lo, hi = xi - P1.dy(r, 0, 2), INF
        elif k == 2:
            lo, hi = -INF, xi + P1.dy(r, 0, 2)
        elif k == 3:
            lo = hi = xi                      # degenerate
        else:
            lo, hi = xi - P1.dy(r, 0, 3), xi + P1.dy(r, 0, 3)
        if r.random() < 0.25 and lo > -INF:
            x[i] = lo                          # start on a lower face
        elif r.random() < 0.2 and hi < INF:
            x[i] = hi                          # start on an upper face
        bs.append((lo, hi))
    if r.random() < 0.12:                      # start on a vertex: every coordinate with a finite bound sits on one
        for i, (lo, hi) in enumerate(bs):
            if lo > -INF and (hi == INF or r.random() < 0.5):
                x[i] = lo
            elif hi < INF:
                x[i] = hi
    return bs, x


def gen_cases(ctx, count):
    r = ctx.rng('box')
    base = P1.gen_cases(ctx, count)
    out = []
    for c in base:
        bs, x0 = gen_box(r, c['x0'])
        st = c['st']
        s2 = dict(t1=st['t1'], t2=st['t2'], eta1=st['eta1'], eta2=st['eta2'], eta3=st['eta3'], max_trust_iters=min(st['max_trust_iters'], 12), tol=st['tol'],
                  max_spg_iters=r.choice([25, 25, 2, 5]), max_cumulative_spg_iters=r.choice([1000, 1000, 6]), tr_size=st['tr_size'], min_tr_size=st['min_tr_size'],
                  spg_use_nonmonotone=r.random() < 0.6, use_incremental_objective=st['use_incremental_objective'],
                  spg_nonmonotone_iter_limit_to_enforce_decrease=r.choice([10, 10, 1, 2]), spg_inexact_solve_ratio=r.choice([1e-4, 1e-4, 1e-1, 1e-8]),
                  cauchy_point_max_line_search_iters=r.choice([25, 25, 4]), cauchy_point_sufficient_decrease_factor=r.choice([1e-4, 1e-4, 0.3]),
                  min_spectral_step_length=r.choice([1e-12, 1e-12, 1e-2]), max_spectral_step_length=r.choice([1e12, 1e12, 10.0]),
                  use_preconditioned_inner_product_for_spg=r.random() < 0.2)
        out.append(dict(c, x0=x0, bounds=bs, st=s2, E=[[0.0] * c['n'] for _ in range(c['n'])], pk=0))
    return out


def f1p_case():
    c = P1.exact_switch_cases()[0]
    st = dict(t1=0.25, t2=1.75, eta1=1e-10, eta2=0.1, eta3=0.5, max_trust_iters=100, tol=1e-8, max_spg_iters=25, max_cumulative_spg_iters=1000,
              tr_size=2.0, min_tr_size=1e-8, spg_use_nonmonotone=True, use_incremental_objective=False)
    return dict(c, bounds=[(-10.0, 10.0)], st=st)


def run_impl(case, mods, noise=None):
    jnp, TR = mods
    obj = P1.PolyObjective(jnp, case, None, noise)
    st = TR.get_settings(**dict(case['st'], debug_info=False))
    bounds = jnp.array([[lo, hi] for lo, hi in case['bounds']])
    props = []
    orig = TR.solve_spg_subproblem

    tlog = []                                  # every value scipy's brentq returned, in call order
    KIND = {TR.cauchyString: 0, TR.boundaryString: 1, TR.interiorString + '_': 2}

    def logged(*a, **k):
        r = orig(*a, **k)
        props.append(([float(t) for t in r[0]], float(r[1]), r[3] == TR.boundaryString, int(r[4])))
        obj.log.append(('exit', KIND.get(r[3], 9), int(r[4])))
        obj.log.append(('trial', [float(t) for t in (a[0] + r[0])]))
        return r

    def cb(x, o):
        obj.log.append(('cb', [float(t) for t in x]))
    # complete-model tie: Cauchy search (number of projections it performed, returned alpha), every point handed to
    # subproblem_optimality (the Cauchy point and every SPG iterate) with the number of root finds so far
    nproj = [0]
    orig_p, orig_cp, orig_so, orig_b = TR.project, TR.find_generalized_cauchy_point, TR.subproblem_optimality, _opt(TR).brentq

    def logged_p(x, b):
        nproj[0] += 1
        return orig_p(x, b)

    def logged_cp(*a, **k):
        n0 = nproj[0]
        # start of an outer iteration: the centre x and the radius trSize of this iteration's trust region (model event FIter)
        obj.log.append(('iter', [float(t) for t in a[0]], float(a[5])))
        try:
            r = orig_cp(*a, **k)
        except RuntimeError:
            obj.log.append(('cperr',))
            raise
        obj.log.append(('cauchy', nproj[0] - n0, float(r[0])))
        return r

    def logged_so(xn, *a, **k):
        r = orig_so(xn, *a, **k)
        obj.log.append(('spg', [float(t) for t in xn], len(tlog), float(r)))
        return r

    def logged_b(f, a, b, **k):
        r = orig_b(f, a, b, **k)
        tlog.append(float(r[0] if isinstance(r, tuple) else r))
        return r
    TR.project, TR.find_generalized_cauchy_point, TR.subproblem_optimality = logged_p, logged_cp, logged_so
    if orig_b is not None:
        TR.optimize.brentq = logged_b
    alphas = []
    orig_k = TR.kouri_exact_line_search

    def logged_k(*a, **k):
        r = orig_k(*a, **k)
        alphas.append(float(r))
        return r
    TR.kouri_exact_line_search = logged_k
    TR.solve_spg_subproblem = logged
    orig_c = TR.is_converged
    margin = [math.inf]

    def logged_c(objective, xx, realO, modelO, realOpt, *a, **k):
        ro = float(realOpt)
        if ro == ro:
            margin[0] = min(margin[0], abs(ro - st.tol) / st.tol)
        return orig_c(objective, xx, realO, modelO, realOpt, *a, **k)
    TR.is_converged = logged_c
    old = signal.signal(signal.SIGALRM, _alarm)
    signal.alarm(60)
    err = None
    try:
        x, flag = quiet(TR.bound_constrained_trust_region_minimize, obj, obj.x0, bounds, st, callback=cb)
        x, flag = [float(t) for t in x], bool(flag)
    except RuntimeError as ex:
        x, flag, err = None, False, str(ex)       # documented exit of the Cauchy-point line search
    except Timeout:
        x, flag, err = None, False, 'timeout'
    except Exception as ex:                        # anything else the solver raises is a failure of the property, not of the harness
        x, flag, err = None, False, 'exception: %r' % ex
    finally:
        signal.alarm(0)
        signal.signal(signal.SIGALRM, old)
        TR.solve_spg_subproblem = orig
        TR.kouri_exact_line_search = orig_k
        TR.is_converged = orig_c
        TR.project, TR.find_generalized_cauchy_point, TR.subproblem_optimality = orig_p, orig_cp, orig_so
        if orig_b is not None:
            TR.optimize.brentq = orig_b
    return dict(x=x, flag=flag, log=[e for e in obj.log if e[0] in ('cb', 'pc')], full=list(obj.log), brents=tlog, props=props, obj=obj, settings=st, err=err, bounds=bounds, conv_margin=margin[0],
                min_alpha=min([a for a in alphas if a == a] + [0.0]))


def discrete(o):
    return (o['flag'], o['err'] is None, tuple(k for k, _ in o['log']))


def excess(p, bs):
    worst = 0.0
    for t, (lo, hi) in zip(p, bs):
        for bnd, d in ((lo, lo - t), (hi, t - hi)):
            if math.isfinite(bnd) and d > 0:
                worst = max(worst, d / (math.ulp(max(1.0, abs(bnd)))))
    return worst


def tr_excess(full):
    """trust-region half of feasibility on the implementation's own run (the conclusion of C05_every_iterate_in_trust_region): every point handed
    to subproblem_optimality (the Cauchy point, every SPG iterate) and every trial point y = x + s lies within trSize of the x of its outer
    iteration.  -> (number of points checked, worst |p - x| / allowed, first offender or None); allowed = trSize*(1 + 1e-9) + 8 ulp(max(1, |x|, |p|)) sqrt(n)
    (the points are formed by the rounded addition x + z and the distance is recomputed from them)"""
    c = d = None
    n_chk, worst, first = 0, 0.0, None
    for e in full:
        if e[0] == 'iter':
            c, d = e[1], e[2]
        elif e[0] in ('spg', 'trial') and c is not None:
            p = e[1]
            dist = math.sqrt(sum((a - b) ** 2 for a, b in zip(p, c)))
            allowed = d * (1 + 1e-9) + 8 * math.ulp(max([1.0] + [abs(t) for t in c + p if math.isfinite(t)])) * math.sqrt(len(c))
            n_chk += 1
            ratio = dist / allowed if allowed > 0 and dist == dist else (0.0 if dist == 0 else math.inf)
            worst = max(worst, ratio)
            if not dist <= allowed and first is None:
                first = (e[0], p, c, d, dist)
    return n_chk, worst, first


def concl(case, out, mods):
    jnp, TR = mods
    obj, st = out['obj'], out['settings']
    bad = []
    if out['err'] == 'timeout':
        return [('hang', 'bound_constrained_trust_region_minimize did not return within 60 s')]
    if out['err'] and out['err'].startswith('exception'):
        return [('exception', 'bound_constrained_trust_region_minimize raised ' + out['err'][11:])]
    pts = [p for k, p in out['log'] if k == 'cb']
    allpts = pts + ([out['x']] if out['x'] is not None else [])
    if not all(math.isfinite(t) for p in allpts for t in p):
        bad.append(('finite', 'a reported iterate is not finite'))
    for p in allpts:
        e = excess(p, case['bounds'])
        if e > 4:
            bad.append(('infeasible', 'reported iterate %r leaves the box by %.3g ulp' % (p, e)))
            break
    _, _, off = tr_excess(out['full'])
    if off is not None and case['st'].get('cauchy_point_max_line_search_iters', 25) >= 1:
        bad.append(('outside-trust-region', '%s point %r is %.17g away from the iterate %r of its outer iteration, trSize = %.17g'
                    % ('an SPG / Cauchy' if off[0] == 'spg' else 'the trial', off[1], off[4], off[2], off[3])))
    vals = [float(obj.value(jnp.array(p))) for p in [case['x0']] + pts]
    if not case['st']['use_incremental_objective'] and case['st']['eta1'] >= 0:
        for i in range(1, len(vals)):
            if not vals[i] <= vals[i - 1]:
                last = (i == len(vals) - 1) and out['flag']
                bad.append(('uphill-converged-exit' if last else 'uphill',
                            'objective increased from %.17g to %.17g at reported iterate %d of %d%s' % (vals[i - 1], vals[i], i, len(vals) - 1, ' (the converged exit)' if last else '')))
    if out['err'] is not None:
        return bad
    if out['flag']:
        xr = jnp.array(out['x'])
        R = TR.project(xr - obj.gradient(xr), out['bounds']) - xr
        if not float(jnp.linalg.norm(R)) < st.tol:
            bad.append(('flag', 'success reported but the projected-gradient measure %.6g >= tol %.6g' % (float(jnp.linalg.norm(R)), st.tol)))
        if not pts or pts[-1] != out['x']:
            bad.append(('last', 'success reported but the returned point is not the last reported iterate'))
    else:
        cur = pts[-1] if pts else [float(t) for t in case['x0']]
        if cur != out['x']:
            bad.append(('last', 'failure exit returned a point that is not the last accepted iterate / start'))
    return bad


def model_expr(case, out):
    st = case['st']
    s = ('{| s_t1 := %s; s_t2 := %s; s_eta1 := %s; s_eta2 := %s; s_eta3 := %s; s_max_trust_iters := %d; s_tol := %s; s_max_cg_iters := %d; '
         's_max_cumulative_cg_iters := %d; s_cg_tol := %s; s_cg_ratio := %s; s_tr_size := %s; s_min_tr_size := %s; s_use_pc_ip := false; s_use_incremental := %s |}'
         % (C.cf(st['t1']), C.cf(st['t2']), C.cf(st['eta1']), C.cf(st['eta2']), C.cf(st['eta3']), st['max_trust_iters'], C.cf(st['tol']), st['max_spg_iters'],
            st['max_cumulative_spg_iters'], C.cf(0.0), C.cf(0.0), C.cf(st['tr_size']), C.cf(st['min_tr_size']), 'true' if st['use_incremental_objective'] else 'false'))
    props = C.clist(['(%s, %s, %s, %d%%nat)' % (cvec(sv), C.cf(mo), 'true' if onb else 'false', it) for sv, mo, onb, it in out['props']])
    return 'run_bc %s %s %s %s %s %s %s %s' % (cmat(case['A']), cvec(case['b']), cvec(case['c']), cvec(case['d']), cbounds(case['bounds']), props, cvec(case['x0']), s)


SPG_DEFAULTS = dict(spg_inexact_solve_ratio=1e-4, spg_nonmonotone_iter_limit_to_enforce_decrease=10, cauchy_point_sufficient_decrease_factor=1e-4,
                    cauchy_point_decrease_tol=1e-8, cauchy_point_max_line_search_iters=25, min_spectral_step_length=1e-12, max_spectral_step_length=1e12)


def model_expr_full(case, out):
    """the COMPLETE model (model/M_C05_Full.v) on the case: only brentq's answers are taken from the implementation's run"""
    st = dict(SPG_DEFAULTS, **case['st'])
    spg_tol = st.get('spg_tol') if st.get('spg_tol') is not None else 0.2 * st['tol']
    s = ('{| s_t1 := %s; s_t2 := %s; s_eta1 := %s; s_eta2 := %s; s_eta3 := %s; s_max_trust_iters := %d; s_tol := %s; s_max_cg_iters := %d; '
         's_max_cumulative_cg_iters := %d; s_cg_tol := %s; s_cg_ratio := %s; s_tr_size := %s; s_min_tr_size := %s; s_use_pc_ip := false; s_use_incremental := %s |}'
         % (C.cf(st['t1']), C.cf(st['t2']), C.cf(st['eta1']), C.cf(st['eta2']), C.cf(st['eta3']), st['max_trust_iters'], C.cf(st['tol']), st['max_spg_iters'],
            st['max_cumulative_spg_iters'], C.cf(spg_tol), C.cf(st['spg_inexact_solve_ratio']), C.cf(st['tr_size']), C.cf(st['min_tr_size']),
            'true' if st['use_incremental_objective'] else 'false'))
    g = ('{| g_nonmonotone := %s; g_hist := %d; g_mu0 := %s; g_qtol := %s; g_max_ls := %d; g_lam_min := %s; g_lam_max := %s |}'
         % ('true' if st['spg_use_nonmonotone'] else 'false', st['spg_nonmonotone_iter_limit_to_enforce_decrease'], C.cf(st['cauchy_point_sufficient_decrease_factor']),
            C.cf(st['cauchy_point_decrease_tol']), st['cauchy_point_max_line_search_iters'], C.cf(st['min_spectral_step_length']), C.cf(st['max_spectral_step_length'])))
    return 'run_full %s %s %s %s %s %s %s %s %s %s' % (cmat(case['A']), cmat(case['E']), cvec(case['b']), cvec(case['c']), cvec(case['d']), cbounds(case['bounds']),
                                                       cvec(out['brents']), cvec(case['x0']), s, g)


def parse_full(zs, n):
    """-> (result, events): result None (RuntimeError / outside the model) or (flag, x); events in the vocabulary of run_impl's full log"""
    try:
        i = 0
        if zs[0] == 2:
            res, i = None, 1
        else:
            res, i = (bool(zs[0]), C.dec_floats(zs[1:1 + 2 * n])), 1 + 2 * n
        ev = []
        while i < len(zs):
            code = zs[i]
            i += 1
            if code == 10:
                fwd, n1, n2 = zs[i], zs[i + 1], zs[i + 2]
                ev.append(('cauchy', 1 + (1 + n1 if fwd else n1) + n2, C.dec_floats(zs[i + 3:i + 5])[0]))
                i += 5
            elif code == 11:
                ev.append(('cperr',))
                i += 1
            elif code == 12:
                ev.append(('spg', C.dec_floats(zs[i + 1:i + 1 + 2 * n]), zs[i], C.dec_floats(zs[i + 1 + 2 * n:i + 3 + 2 * n])[0]))
                i += 3 + 2 * n
            elif code == 13:
                ev.append(('exit', zs[i], zs[i + 1]))
                i += 2
            elif code == 14:
                ev.append(('trial', C.dec_floats(zs[i:i + 2 * n])))
                i += 2 * n
            elif code == 15:
                ev.append(('limit',))
            elif code == 16:
                ev.append(('iter', C.dec_floats(zs[i:i + 2 * n]), C.dec_floats(zs[i + 2 * n:i + 2 * n + 2])[0]))
                i += 2 * n + 2
            elif code == 6:
                ev.append(('fuel',))
            elif code in (0, 1, 2, 3, 4, 5):
                pt = C.dec_floats(zs[i:i + 2 * n])
                i += 2 * n + (2 if code == 1 else 0)
                if code != 4:                      # the max-iterations exit has no callback
                    ev.append(('pc' if code == 5 else 'cb', pt))
            else:
                raise ValueError('code %r' % code)
        return res, ev
    except (KeyError, IndexError, ValueError, TypeError) as ex:
        return None, [('undecodable', repr(ex))]


def disc_full(ev):
    """the discrete part of a complete trace: event kinds, projection counts of the Cauchy search, root-find counts, exit kinds and iteration counts"""
    return tuple((e[0],) + tuple(t for t in e[1:] if isinstance(t, int)) for e in ev)


def compare_full(res, mev, o):
    """None if the complete model's run equals the implementation's (discrete trace exactly, numbers within tolerance), else a description"""
    iev = o['full']
    if disc_full(mev) != disc_full(iev):
        a, b = disc_full(mev), disc_full(iev)
        k = next((i for i, (u, v) in enumerate(zip(a, b)) if u != v), min(len(a), len(b)))
        return 'discrete traces differ at event %d of %d/%d: model %s, implementation %s' % (k, len(a), len(b), a[k:k + 3], b[k:k + 3])
    for k, (u, v) in enumerate(zip(mev, iev)):
        for p, q in zip(u[1:], v[1:]):
            if isinstance(p, list) and not P1.close_vec(p, q):
                return 'event %d (%s): model point %r, implementation %r' % (k, u[0], p, q)
            if isinstance(p, float) and not P1.close_vec([p], [q], 1e-6, 1e-12):
                return 'event %d (%s): model value %r, implementation %r' % (k, u[0], p, q)
    if (res is None) != (o['err'] is not None):
        return 'model result %r but implementation %s' % (res, 'raised ' + o['err'] if o['err'] else 'returned')
    if res is not None and (res[0] != o['flag'] or not P1.close_vec(res[1], o['x'])):
        return 'model returns %r, implementation %r' % (res, (o['flag'], o['x']))
    return None


def deviation_full(mev, iev):
    """largest tolerance-normalised deviation between two complete traces with the SAME discrete part (1.0 = exactly at the tolerance of
    compare_full: points 1e-7 rel + 1e-9 abs, values 1e-6 rel + 1e-12 abs); inf when the discrete parts differ or a number is not finite in one only"""
    if disc_full(mev) != disc_full(iev):
        return float('inf')
    worst = 0.0
    for u, v in zip(mev, iev):
        for p, q in zip(u[1:], v[1:]):
            if isinstance(p, list):
                pairs, rt, at = list(zip(p, q)), 1e-7, 1e-9
            elif isinstance(p, float):
                pairs, rt, at = [(p, q)], 1e-6, 1e-12
            else:
                continue
            for a, b in pairs:
                if not (math.isfinite(a) and math.isfinite(b)):
                    if not ((a != a and b != b) or a == b):
                        return float('inf')
                    continue
                worst = max(worst, abs(a - b) / (at + rt * max(abs(a), abs(b))))
    return worst


def convex_box_cases(ctx, count):
    """strictly convex objectives (diagonally dominant A >= I, optional quartic d >= 0) over boxes whose constrained minimiser has active, inactive
    and degenerate components; default settings"""
    r = ctx.rng('convexbox')
    out = []
    for i in range(count):
        n = [1, 2, 3, 4, 6, 8][i % 6]
        a = [[0.0] * n for _ in range(n)]
        for p in range(n):
            for q in range(p):
                a[p][q] = a[q][p] = P1.dy(r, -1, 1)
        for p in range(n):
            a[p][p] = P1.dy(r, 1, 4) + sum(abs(a[p][q]) for q in range(n) if q != p)
        b = [P1.dy(r, -6, 6) for _ in range(n)]
        d = [P1.dy(r, 0, 2) if i % 2 else 0.0 for _ in range(n)]
        x0 = [P1.dy(r, -2, 2) for _ in range(n)]
        bs, x0 = gen_box(r, x0)
        st = dict(t1=0.25, t2=1.75, eta1=1e-10, eta2=0.1, eta3=0.5, max_trust_iters=100, tol=1e-8, max_spg_iters=25, max_cumulative_spg_iters=1000,
                  tr_size=2.0, min_tr_size=1e-8, spg_use_nonmonotone=(i % 4 < 2), use_incremental_objective=False)
        out.append(dict(n=n, kind='convex-box', A=a, E=[[0.0] * n for _ in range(n)], b=b, c=[0.0] * n, d=d, pk=0, x0=x0, bounds=bs, st=st))
    return out


def box_reference(case):
    """independent reference minimiser: projected Newton with an active-set guess, verified by its own projected-gradient residual"""
    a, b, d = onp.array(case['A']), onp.array(case['b']), onp.array(case['d'])
    lo = onp.array([l for l, _ in case['bounds']])
    hi = onp.array([h for _, h in case['bounds']])
    x = onp.clip(onp.array(case['x0'], dtype=float), lo, hi)
    f = lambda v: 0.5 * v @ a @ v + b @ v + d @ v ** 4
    grad = lambda v: a @ v + b + 4 * d * v ** 3
    for _ in range(2000):
        g = grad(x)
        if onp.linalg.norm(onp.clip(x - g, lo, hi) - x) < 1e-14:
            break
        act = ((x <= lo) & (g > 0)) | ((x >= hi) & (g < 0))
        fr = ~act
        step = onp.zeros_like(x)
        if fr.any():
            hfull = a + onp.diag(12 * d * x ** 2)
            step[fr] = onp.linalg.solve(hfull[onp.ix_(fr, fr)], -g[fr])
        t, moved = 1.0, False
        while t > 1e-16:
            y = onp.clip(x + t * step, lo, hi)
            if f(y) <= f(x) + 1e-4 * (g @ (y - x)) and not onp.array_equal(y, x):
                moved = True
                break
            t *= 0.5
        if not moved:                       # projected-gradient fallback
            t = 1.0
            while t > 1e-16:
                y = onp.clip(x - t * g, lo, hi)
                if f(y) < f(x):
                    moved = True
                    break
                t *= 0.5
        if not moved:
            break
        x = y
    g = grad(x)
    return x, float(onp.linalg.norm(onp.clip(x - g, lo, hi) - x))


def convex_box_stream(ctx, mods):
    """L2 for 'for convex problems that point is the bound-constrained minimizer' (+ a re-solve history from the returned point in a tightened box)"""
    jnp, TR = mods
    n_succ = n_hist = 0
    for c in convex_box_cases(ctx, ctx.n(30, 200)):
        o = run_impl(c, mods)
        ctx.count('evaluations')
        ctx.count('convex_box_cases')
        bad = list(concl(c, o, mods))
        if o['flag']:
            n_succ += 1
            xs, rres = box_reference(c)
            if rres < 1e-10:
                a = onp.array(c['A'])
                xr = onp.array(o['x'])
                mu = 1.0                                               # A - I is diagonally dominant with non-negative diagonal
                lip = float(onp.linalg.norm(a + onp.diag(12 * onp.array(c['d']) * onp.maximum(xr, xs) ** 2), 2))
                lim = (1.0 + lip) / mu * c['st']['tol'] + 1e-9
                dist = float(onp.linalg.norm(xr - xs))
                if not dist <= lim:
                    bad.append(('not-minimiser', 'success reported on a strictly convex box problem but the returned point is %.3g away from the constrained minimiser (limit %.3g)' % (dist, lim)))
            else:
                ctx.count('convex_box_reference_unconverged')
            # history: tighten the box around the solution so that the returned point (projected) starts on faces / a vertex, solve again
            if o['x'] is not None:
                rr = ctx.rng('hist' + json.dumps(c['x0']))
                nb = []
                for xi, (lo, hi) in zip(o['x'], c['bounds']):
                    k = rr.randrange(3)
                    nb.append((max(lo, xi + 0.25), hi) if k == 0 and xi + 0.25 <= hi else (lo, min(hi, xi - 0.25)) if k == 1 and xi - 0.25 >= lo else (lo, hi))
                x1 = [min(max(xi, lo), hi) for xi, (lo, hi) in zip(o['x'], nb)]
                c2 = dict(c, x0=x1, bounds=nb, kind='convex-box-history')
                o2 = run_impl(c2, mods)
                n_hist += 1
                ctx.count('evaluations')
                for tag, b in concl(c2, o2, mods):
                    ctx.fail('conclusion', 'bound_constrained_trust_region_minimize (re-solve from a returned point on the faces of a tightened box): ' + b,
                             case=dict({k: v for k, v in c2.items()}, tag=tag, impl=dict(x=o2['x'], flag=o2['flag'], log=o2['log'], err=o2['err'], min_alpha=o2['min_alpha'])), concrete=True)
        for tag, b in bad:
            ctx.fail('conclusion', 'bound_constrained_trust_region_minimize (convex, default settings): ' + b,
                     case=dict({k: v for k, v in c.items()}, tag=tag, impl=dict(x=o['x'], flag=o['flag'], log=o['log'], err=o['err'], min_alpha=o['min_alpha'])), concrete=True)
    ctx.cov['convex_box_successes'] = n_succ
    ctx.cov['convex_box_history_resolves'] = n_hist


class _NoOptimize:
    """stand-in when TrustRegionSPG no longer imports scipy.optimize (project_onto_tr rewritten without brentq): nothing to log"""
    brentq = None


def _opt(TR):
    return getattr(TR, 'optimize', None) or _NoOptimize


def gen_projection_cases(ctx, count):
    r = ctx.rng('proj')
    out = []
    for _ in range(count):
        n = r.randrange(1, 6)
        xk0 = [P1.dy(r, -2, 2) for _ in range(n)]
        bs, xk = gen_box(r, xk0)
        x = [t + r.gauss(0, 1) * 10 ** r.uniform(-2, 1) for t in xk]
        tr = 10 ** r.uniform(-3, 1)
        if n >= 2 and r.random() < 0.2:
            # badly scaled target: one displacement component 1e6..1e10 times the others (spectral step length times an ill-scaled model
            # gradient), stopped early by a bound or not, the radius reached only after that clip
            i = r.randrange(n)
            x[i] = xk[i] + r.choice((-1, 1)) * 10 ** r.uniform(6, 10)
            tr = 10 ** r.uniform(-1, 1.5)
        out.append(dict(n=n, x=x, xk=xk, bounds=bs, tr=tr))
    return out


def clip_tie(ctx):
    """fail-closed syntactic tie of spg_alpha / spg_update (model/M_C05_SPG.v; the clip itself is the regenerated kernel spg_step_clip) to the source: inside solve_spg_subproblem
    the only assignments to `alpha` must be `alpha = line_search(ds, sBs, q, qMax, settings)` followed by
    `alpha = min(1.0, max(0.0, alpha)) if sBs > 0 else 1.0`, and the update must be `z += alpha*s` (AST equality)."""
    import ast
    import os
    try:
        tree = ast.parse(open(os.path.join(C.REPO, 'optimism', 'TrustRegionSPG.py')).read())
        fn = [n for n in tree.body if isinstance(n, ast.FunctionDef) and n.name == 'solve_spg_subproblem'][0]
        d = lambda src: ast.dump(ast.parse(src).body[0])
        assigns = [ast.dump(n) for n in ast.walk(fn) if isinstance(n, ast.Assign) and any(isinstance(t, ast.Name) and t.id == 'alpha' for t in n.targets)]
        want = [d('alpha = line_search(ds, sBs, q, qMax, settings)'), d('alpha = min(1.0, max(0.0, alpha)) if sBs > 0 else 1.0')]
        augs = [ast.dump(n) for n in ast.walk(fn) if isinstance(n, ast.AugAssign) and isinstance(n.target, ast.Name) and n.target.id == 'z']
        ok = assigns == want and augs == [d('z += alpha*s')]
        msg = 'assignments to alpha: %d (expected the line search followed by the [0,1] clip); updates of z: %d' % (len(assigns), len(augs))
    except Exception as ex:
        ok, msg = False, repr(ex)
    if not ok:
        ctx.fail('translator', 'the step-length rule of solve_spg_subproblem no longer has the shape assumed by spg_alpha / spg_update of model/M_C05_SPG.v (%s)' % msg)
    ctx.cov['clip_tie'] = ok


def kernel_stream(ctx, mods):
    """exact tie of the regenerated kernels spg_step_clip / project_n1..3 (PrimFloat) to the source: the clip STATEMENT is taken out of the AST of
    solve_spg_subproblem and executed as python; project is called on jnp arrays (finite, infinite and degenerate bounds)"""
    import ast
    import os
    jnp, TR = mods
    r = ctx.rng('kernels')
    tree = ast.parse(open(os.path.join(C.REPO, 'optimism', 'TrustRegionSPG.py')).read())
    fn = [n for n in tree.body if isinstance(n, ast.FunctionDef) and n.name == 'solve_spg_subproblem'][0]
    asg = sorted((n for n in ast.walk(fn) if isinstance(n, ast.Assign) and len(n.targets) == 1 and isinstance(n.targets[0], ast.Name) and n.targets[0].id == 'alpha'),
                 key=lambda n: (n.lineno, n.col_offset))
    if len(asg) != 2:
        ctx.fail('translator', 'solve_spg_subproblem: expected 2 assignments to alpha, found %d' % len(asg))
        return
    code = compile(ast.Module(body=[asg[1]], type_ignores=[]), 'clip', 'exec')
    special = [math.nan, math.inf, -math.inf, 0.0, -0.0, 1.0, 5e-324, 0.5, 1.0 + 2.2e-16, 1.0 - 1.1e-16, -1.0, 2.0, -5e-324]
    pairs = [(a, s) for a in special for s in (math.nan, 0.0, -0.0, 1.0, -1.0, math.inf, 5e-324)]
    pairs += [(r.gauss(0, 1) * 10 ** r.uniform(-3, 1), r.gauss(0.3, 1)) for _ in range(ctx.n(60, 400))]
    ex, want = [], []
    for a, sb in pairs:
        ns = dict(alpha=a, sBs=sb)
        exec(code, {}, ns)
        want.append([float(ns['alpha'])])
        ex.append('fenc (@spg_step_clip float NumF %s %s)' % (C.cf(a), C.cf(sb)))
    nclip = len(pairs)
    for _ in range(ctx.n(90, 600)):
        n = r.randrange(1, 4)
        bs, x = [], []
        for _ in range(n):
            k = r.randrange(5)
            lo = -INF if k == 0 else P1.dy(r, -3, 1)
            hi = INF if k == 1 else lo if (k == 2 and lo > -INF) else (P1.dy(r, -1, 3) if lo == -INF else lo + P1.dy(r, 0, 3))
            bs.append((lo, hi))
            x.append(r.choice([lo, hi, r.gauss(0, 3), r.gauss(0, 3), INF, -INF]) if r.random() < 0.5 else r.gauss(0, 2))
        x = [t if t == t else 0.0 for t in x]
        p = TR.project(jnp.array(x), jnp.array([[lo, hi] for lo, hi in bs]))
        want.append([float(t) for t in p])
        args = ' '.join(C.cf(t) for t in x) + ' ' + ' '.join('%s %s' % (C.cf(lo), C.cf(hi)) for lo, hi in bs)
        if n == 1:
            ex.append('fenc (@project_n1 float NumF %s)' % args)
        elif n == 2:
            ex.append("let '(a, b) := @project_n2 float NumF %s in fenc a ++ fenc b" % args)
        else:
            ex.append("let '(a, b, c) := @project_n3 float NumF %s in fenc a ++ fenc b ++ fenc c" % args)
    res = C.coq_eval(IMPORTS, ['(%s)' % e for e in ex], 'C05k', shard=400)
    bad = 0
    for k, (zs, w) in enumerate(zip(res, want)):
        got = C.dec_floats(zs)
        same = len(got) == len(w) and all((a != a and b != b) or (a == b and math.copysign(1, a) == math.copysign(1, b)) for a, b in zip(got, w))
        if not same:
            bad += 1
            if bad <= 3:
                ctx.fail('correspondence', '%s: generated kernel gives %r, the source %r (%s)' % ('spg_step_clip' if k < nclip else 'project', got, w, ex[k][:200]))
    ctx.count('generated_kernel_comparisons', len(ex))
    ctx.count('generated_kernel_mismatches', bad)


def correspondence(ctx, model_ok):
    mods = _mods()
    jnp, TR = mods
    from scipy import optimize
    clip_tie(ctx)
    cases = [f1p_case()] + gen_cases(ctx, ctx.n(120, 1200))
    outs = []
    hist = {}
    distinct = set()
    worst = worst_tr = 0.0

    def bump(k):
        hist[k] = hist.get(k, 0) + 1
    for c in cases:
        o = run_impl(c, mods)
        outs.append(o)
        bump('exit:' + ('converged' if o['flag'] else ('cauchy-line-search-error' if o['err'] else 'failed')))
        bump('linesearch:' + ('nonmonotone' if c['st']['spg_use_nonmonotone'] else 'monotone'))
        for lo, hi in c['bounds']:
            bump('bound:' + ('free' if lo == -INF and hi == INF else 'lower' if hi == INF else 'upper' if lo == -INF else 'degenerate' if lo == hi else 'finite'))
        if o['props']:
            distinct.add(json.dumps([c['A'], c['b'], c['c'], c['d'], c['x0'], c['bounds'], c['st']], sort_keys=True))
        for p in [q for k, q in o['log'] if k == 'cb']:
            worst = max(worst, excess(p, c['bounds']))
        ntr, wtr, _ = tr_excess(o['full'])
        ctx.count('trust_region_point_checks', ntr)
        worst_tr = max(worst_tr, wtr)
        for tag, b in concl(c, o, mods):
            ctx.fail('conclusion', 'bound_constrained_trust_region_minimize: ' + b,
                     case=dict({k: v for k, v in c.items()}, tag=tag, impl=dict(x=o['x'], flag=o['flag'], log=o['log'], err=o['err'], min_alpha=o['min_alpha'])), concrete=True)
    convex_box_stream(ctx, mods)
    # ---- trust-region stream: the same problems with a SMALL radius (0.03 .. 0.3), so that the box-projected spectral steps leave the ball and
    #      project_onto_tr has to find roots / pull back inside solver runs; L2 only (box + radius + descent + flag on the implementation)
    rs = ctx.rng('smalltr')
    nsm = ctx.n(25, 150)
    step = max(1, (len(cases) - 1) // nsm)
    nroots = 0
    for c in cases[1::step][:nsm]:
        c2 = dict(c, st=dict(c['st'], tr_size=rs.choice([0.03, 0.1, 0.3]), min_tr_size=1e-8, max_trust_iters=8), kind='small-radius')
        o2 = run_impl(c2, mods)
        ctx.count('evaluations')
        ctx.count('small_radius_cases')
        nroots += len(o2['brents'])
        ntr, wtr, _ = tr_excess(o2['full'])
        ctx.count('trust_region_point_checks', ntr)
        worst_tr = max(worst_tr, wtr)
        if o2['brents']:
            distinct.add(json.dumps([c2['A'], c2['b'], c2['c'], c2['d'], c2['x0'], c2['bounds'], c2['st']], sort_keys=True))
        for tag, b in concl(c2, o2, mods):
            ctx.fail('conclusion', 'bound_constrained_trust_region_minimize (small radius): ' + b,
                     case=dict({k: v for k, v in c2.items()}, tag=tag, impl=dict(x=o2['x'], flag=o2['flag'], log=o2['log'], err=o2['err'], min_alpha=o2['min_alpha'])), concrete=True)
    ctx.count('small_radius_root_finds', nroots)
    ctx.count('solver_root_finds', nroots + sum(len(o['brents']) for o in outs))
    # ---- direct calls of project / project_onto_tr, brentq's answer logged
    pcases = gen_projection_cases(ctx, ctx.n(150, 1500))
    pouts = []
    orig_b = _opt(TR).brentq
    if orig_b is None:
        ctx.fail('correspondence', 'TrustRegionSPG no longer calls scipy.optimize.brentq: the root-find oracle of the project_onto_tr model cannot be tied')
    for c in pcases:
        tlog = []

        def logged(f, a, b, **k):
            r = orig_b(f, a, b, **k)
            tlog.append(float(r[0] if isinstance(r, tuple) else r))
            return r
        if orig_b is not None:
            TR.optimize.brentq = logged
        try:
            bj = jnp.array([[lo, hi] for lo, hi in c['bounds']])
            p = TR.project(jnp.array(c['x']), bj)
            q = TR.project_onto_tr(jnp.array(c['x']), jnp.array(c['xk']), bj, c['tr'])
        except Exception as ex:
            ctx.fail('conclusion', 'project_onto_tr raised %r on a feasible centre' % ex, case=dict(c, kind='projection'), concrete=True)
            pouts.append(None)
            continue
        finally:
            if orig_b is not None:
                TR.optimize.brentq = orig_b
        p, q = [float(t) for t in p], [float(t) for t in q]
        pouts.append(dict(p=p, q=q, t=tlog[0] if tlog else 0.0, root=bool(tlog)))
        if tlog:
            distinct.add(json.dumps([c['x'], c['xk'], c['bounds'], c['tr']]))
        bump('project_onto_tr:' + ('root-find' if tlog else 'inside'))
        # conclusions: in the box exactly; nearest point; idempotent; in the radius (brentq tolerance)
        for nm, v in (('project', p), ('project_onto_tr', q)):
            if excess(v, c['bounds']) > 0:
                ctx.fail('conclusion', '%s returned a point outside the box' % nm, case=dict(c, kind='projection', impl=v), concrete=True)
        if [float(t) for t in TR.project(jnp.array(p), bj)] != p:
            ctx.fail('conclusion', 'project is not idempotent', case=dict(c, kind='projection', impl=p), concrete=True)
        dq = math.sqrt(sum((a - b) ** 2 for a, b in zip(q, c['xk'])))
        if dq > c['tr'] * (1 + 1e-9) + 1e-11:
            ctx.fail('conclusion', 'project_onto_tr returned a point outside the trust region: %.17g > %.17g' % (dq, c['tr']), case=dict(c, kind='projection', impl=q), concrete=True)
        # nearest: compare with feasible competitors (clipped random points and the box-projected xk)
        dp = sum((a - b) ** 2 for a, b in zip(c['x'], p))
        rr = ctx.rng('near' + json.dumps(c['x']))
        for _ in range(4):
            y = [min(max(t + rr.gauss(0, 1), lo), hi) for t, (lo, hi) in zip(p, c['bounds'])]
            if sum((a - b) ** 2 for a, b in zip(c['x'], y)) < dp * (1 - 1e-12) - 1e-300:
                ctx.fail('conclusion', 'project is not the nearest feasible point', case=dict(c, kind='projection', impl=p), concrete=True)
    total = len(cases) + len(pcases)
    ctx.count('evaluations', total)
    ctx.count('distinct_nontrivial', len(distinct))
    ctx.count('conclusion_checks', total)
    ctx.cov['exit_histogram'] = hist
    # replay of the witness of C05_cauchy_step_cap_zero_refuted (a remark about the hypothesis max_line_search_iters >= 1, not a failure)
    try:
        a0, s0 = quiet(TR.find_generalized_cauchy_point, jnp.array([0.0]), jnp.array([-1.0]), lambda v: 0.01 * v, jnp.array([[-INF, INF]]), 100.0, 1.0,
                       TR.get_settings(cauchy_point_max_line_search_iters=0, debug_info=False))
        ctx.cov['cap_zero_witness'] = dict(alpha=float(a0), step=[float(t) for t in s0], outside_radius_1=bool(float(s0 @ s0) > 1.0))
    except Exception as ex:
        ctx.cov['cap_zero_witness'] = dict(raised=repr(ex)[:200])
    ctx.cov['worst_bound_excess_ulp'] = worst
    ctx.cov['worst_trust_region_ratio'] = worst_tr        # max |p - x| / (trSize*(1+1e-9) + rounding slack) over every SPG / Cauchy / trial point
    ctx.sample(dict(kind='solver', n=cases[-1]['n'], bounds=cases[-1]['bounds'], flag=outs[-1]['flag'], events=[k for k, _ in outs[-1]['log']]))
    ctx.sample(dict(kind='project_onto_tr', x=pcases[0]['x'], xk=pcases[0]['xk'], tr=pcases[0]['tr'], result=(pouts[0] or {}).get('q'), root_find=(pouts[0] or {}).get('root')))
    if not model_ok:
        return
    kernel_stream(ctx, mods)
    # ---- L1: projections
    ex = []
    pc2 = [(c, o) for c, o in zip(pcases, pouts) if o is not None]
    for c, o in pc2:
        ex.append('fencs (@project float NumF %s %s) ++ fencs (@project_onto_tr float NumF %s %s %s %s %s) ++ benc (@needs_root_find float NumF %s %s %s %s)'
                  % (cvec(c['x']), cbounds(c['bounds']), cvec(c['x']), cvec(c['xk']), cbounds(c['bounds']), C.cf(c['tr']), C.cf(o['t']),
                     cvec(c['x']), cvec(c['xk']), cbounds(c['bounds']), C.cf(c['tr'])))
    res = C.coq_eval(IMPORTS, ex, 'C05p', shard=300)
    mism = unstable = 0
    for (c, o), zs in zip(pc2, res):
        n = c['n']
        fl = C.dec_floats(zs[:4 * n])
        mp, mq, mroot = fl[:n], fl[n:], bool(zs[4 * n])
        if mp != o['p']:
            mism += 1
            ctx.fail('correspondence', 'project: model %r, implementation %r' % (mp, o['p']), case=dict(c, kind='projection'))
        if mroot != o['root']:
            d = [a - b for a, b in zip(o['p'], c['xk'])]
            dd = sum(t * t for t in d)
            if abs(dd - c['tr'] ** 2) <= 1e-12 * dd:
                unstable += 1
            else:
                mism += 1
                ctx.fail('correspondence', 'project_onto_tr: model root-find=%s, implementation %s' % (mroot, o['root']), case=dict(c, kind='projection'))
        elif not P1.close_vec(mq, o['q'], 1e-12, 1e-14):
            mism += 1
            ctx.fail('correspondence', 'project_onto_tr: model %r, implementation %r' % (mq, o['q']), case=dict(c, kind='projection'))
    # ---- L1: outer loop with the logged proposals
    idx = [i for i, o in enumerate(outs) if o['err'] is None]
    res = C.coq_eval(IMPORTS, [model_expr(cases[i], outs[i]) for i in idx], 'C05', shard=60, preamble=PREAMBLE, timeout=900)
    for i, zs in zip(idx, res):
        c, o = cases[i], outs[i]
        flag, x, ev = P1.parse_model(zs, c['n'])
        mlog = [('pc' if k == 'pc' else 'cb', p) for k, p, _ in ev if k in ('cinit', 'accept', 'conv', 'small', 'pc')]
        ok, what = True, None
        if (flag, tuple(k for k, _ in mlog)) != (o['flag'], tuple(k for k, _ in o['log'])):
            ok, what = False, 'model trace %s / flag %s but implementation trace %s / flag %s' % ([k for k, _ in mlog], flag, [k for k, _ in o['log']], o['flag'])
        else:
            for (k, p), (_, q) in zip(mlog, o['log']):
                if not P1.close_vec(p, q):
                    ok, what = False, 'reported point differs: model %r, implementation %r' % (p, q)
                    break
            if ok and not P1.close_vec(x, o['x']):
                ok, what = False, 'returned point differs: model %r, implementation %r' % (x, o['x'])
        if ok:
            continue
        stable = not o['conv_margin'] < 1e-6          # the convergence test realOptimality < tol itself was a near tie
        for k in range(8 if stable else 0):
            o2 = run_impl(c, mods, onp.random.RandomState(ctx.seed % 100000 + 17 * k))
            if discrete(o2) != discrete(o) or (o2['x'] is not None and not P1.close_vec(o2['x'], o['x'], 1e-7, 1e-9)):
                stable = False
                break
        if stable:
            mism += 1
            if mism <= 12:
                ctx.fail('correspondence', 'bound_constrained_trust_region_minimize: ' + what,
                         case=dict({k: v for k, v in c.items()}, impl=dict(x=o['x'], flag=o['flag'], log=o['log'])))
        else:
            unstable += 1
    # ---- L1: the COMPLETE model (Cauchy search + SPG + outer loop in the model; only brentq's answers are fed): every event of the run
    fidx = list(range(len(cases)))
    res = C.coq_eval(IMPORTS, [model_expr_full(cases[i], outs[i]) for i in fidx], 'C05f', shard=30, preamble=PREAMBLE, timeout=900)
    fmism = funstable = fexact = 0
    evhist = {}
    pending = []
    for i, zs in zip(fidx, res):
        c, o = cases[i], outs[i]
        if o['err'] in ('timeout',) or (o['err'] or '').startswith('exception'):
            continue
        mres, mev = parse_full(zs, c['n'])
        for e in mev:
            evhist[e[0]] = evhist.get(e[0], 0) + 1
            if e[0] == 'cauchy':
                evhist['cauchy:projections>2'] = evhist.get('cauchy:projections>2', 0) + (e[1] > 2)
            if e[0] == 'exit':
                evhist['exit:kind%d' % e[1]] = evhist.get('exit:kind%d' % e[1], 0) + 1
        what = compare_full(mres, mev, o)
        if what is None:
            fexact += 1
            continue
        pending.append((i, what, mres, mev))
    # near-tie rule for the complete traces.  A disagreement is only a correspondence failure if the run is numerically DETERMINED:
    # (a) the implementation's own complete trace is stable under <= 2 ulp noise on the oracle arguments, and
    # (b) the model's own trace is stable when the root finder's answers are moved inside brentq's own tolerance (xtol = 2e-12: any such
    #     value is a legitimate answer of the oracle) and the start point / linear term by <= 2 ulp.  SPG on non-convex problems amplifies
    #     rounding differences (dot-product summation order) by ~10x per iteration; such runs are counted as unstable, not as agreeing.
    NPERT = 8
    pex = []
    for i, what, mres, mev in pending:
        c, o = cases[i], outs[i]
        rr = ctx.rng('perturb%d' % i)
        for k in range(NPERT):
            if k < 5:
                o2 = dict(o, brents=[t * (1.0 + rr.uniform(-1, 1) * 1e-12) + rr.uniform(-1, 1) * 1e-13 for t in o['brents']])
                c2 = dict(c, b=[t * (1.0 + rr.uniform(-1, 1) * 4.4e-16) for t in c['b']])
            else:
                # exactly one rounding: every component of the start point and of the linear term moved to a NEIGHBOURING binary64 number
                # (the uniform perturbation above is rounded away for three quarters of the draws)
                o2 = o
                c2 = dict(c, x0=[min(max(math.nextafter(t, rr.choice((-math.inf, math.inf))), lo), hi) for t, (lo, hi) in zip(c['x0'], c['bounds'])],
                          b=[math.nextafter(t, rr.choice((-math.inf, math.inf))) for t in c['b']])
            pex.append(model_expr_full(c2, o2))
    pres = C.coq_eval(IMPORTS, pex, 'C05fp', shard=10, preamble=PREAMBLE, timeout=900) if pex else []
    for j, (i, what, mres, mev) in enumerate(pending):
        c, o = cases[i], outs[i]
        stable = not o['conv_margin'] < 1e-6
        spread = 0.0
        for zs in pres[j * NPERT:(j + 1) * NPERT] if stable else []:
            pr, pe = parse_full(zs, c['n'])
            spread = max(spread, deviation_full(pe, mev))
            if compare_full(pr, pe, dict(full=mev, err=None if mres is not None else 'none', flag=mres[0] if mres else None, x=mres[1] if mres else None)) is not None:
                stable = False
                break
        # (c) amplification rule: the model's own numbers move by `spread` tolerances under perturbations of the size of the oracle's tolerance
        #     and of one rounding; a model/implementation difference of the same order (<= 50 x that spread, same discrete trace) is the
        #     amplified rounding of a long SPG run, not a modelling difference.  A run whose numbers do not move at all gets no allowance.
        if stable and spread > 0.02 and deviation_full(mev, o['full']) <= 50 * spread:
            stable = False
        for k in range(8 if stable else 0):
            o2 = run_impl(c, mods, onp.random.RandomState(ctx.seed % 100000 + 17 * k))
            if disc_full(o2['full']) != disc_full(o['full']) or (o2['x'] is not None and o['x'] is not None and not P1.close_vec(o2['x'], o['x'], 1e-7, 1e-9)):
                stable = False
                break
        if stable:
            fmism += 1
            if fmism <= 12:
                ctx.fail('correspondence', 'complete model (find_generalized_cauchy_point + solve_spg_subproblem + outer loop) vs bound_constrained_trust_region_minimize: ' + what,
                         case=dict({k: v for k, v in c.items()}, impl=dict(x=o['x'], flag=o['flag'], log=o['log'], err=o['err'])))
        else:
            funstable += 1
    ctx.cov['complete_model_runs_agreeing'] = fexact
    ctx.cov['complete_model_runs_unstable_near_tie'] = funstable
    ctx.cov['complete_model_event_histogram'] = evhist
    ctx.count('complete_model_comparisons', len(fidx))
    ctx.count('complete_model_mismatches', fmism)
    # the complete-model tie must not degenerate into "everything is a near tie"
    if fexact < 0.6 * len(fidx):
        ctx.fail('correspondence', 'complete model: only %d of %d runs agree event by event (%d unstable near ties, %d mismatches)' % (fexact, len(fidx), funstable, fmism))
    ctx.count('model_vs_impl_comparisons', len(idx) + len(pcases) + len(fidx))
    ctx.count('model_vs_impl_mismatches', mism + fmism)
    ctx.count('unstable_near_tie_cases', unstable + funstable)


def search(ctx, reasons):
    import copy
    c2 = copy.copy(ctx)
    c2.tier = 'thorough'
    c2.failures, c2.counts, c2.cov, c2.samples, c2.notes = [], {}, {}, [], []
    c2.seed = ctx.seed + 1
    correspondence(c2, False)
    findings = [f for f in C.load_known_findings() if f['property'] == ID and f['status'] == 'open']
    f = [fl for fl in c2.failures if fl.get('concrete') and not any(matches_finding(fl, k) for k in findings)]
    return f[0] if f else None


def finding_fails(ctx, f):
    mods = _mods()
    if f.get('id') == 'F15':
        jnp, TR = mods
        w = f['witness']
        q = TR.project_onto_tr(jnp.array(w['x']), jnp.array(w['xk']), jnp.array([[lo if lo is not None else -INF, hi if hi is not None else INF] for lo, hi in w['bounds']]), w['tr'])
        dq = math.sqrt(sum((float(a) - b) ** 2 for a, b in zip(q, w['xk'])))
        return dq > w['tr'] * (1 + 1e-9) + 1e-11
    if f.get('id') == 'F12':
        c = dict(f['witness']['case'])
        c['bounds'] = [(lo if lo is not None else -INF, hi if hi is not None else INF) for lo, hi in c['bounds']]
        o = run_impl(c, mods)
        return o['min_alpha'] < 0 and any(t == 'infeasible' for t, _ in concl(c, o, mods))
    c = f1p_case()
    o = run_impl(c, mods)
    return [t for t, _ in concl(c, o, mods)] == ['uphill-converged-exit']


def matches_finding(fl, f):
    """F1' exactly: the only complaint is an increase at the final ConvergedAt event of a run that returned flag True.
    F12 exactly: monotone (Kouri) line search, a NEGATIVE step length was returned by kouri_exact_line_search in that run, and the
    complaint is an infeasible reported iterate (or the descent/last-iterate consequences are NOT covered: those stay violations)."""
    if fl.get('kind') != 'conclusion':
        return False
    c = fl.get('case') or {}
    if f.get('id') == "F1'":
        return c.get('tag') == 'uphill-converged-exit'
    if f.get('id') == 'F12':
        return (c.get('tag') == 'infeasible' and c.get('st', {}).get('spg_use_nonmonotone') is False
                and (c.get('impl') or {}).get('min_alpha', 0.0) < 0)
    return False


def replay(ctx, path):
    rep = json.load(open(path))
    case = rep.get('failing_input')
    print('replay of', path)
    print(json.dumps(rep.get('reasons'), indent=1)[:2500])
    if case and case.get('kind') == 'projection':
        jnp, TR = _mods()
        bj = jnp.array([[lo, hi] for lo, hi in case['bounds']])
        q = [float(t) for t in TR.project_onto_tr(jnp.array(case['x']), jnp.array(case['xk']), bj, case['tr'])]
        dq = math.sqrt(sum((a - b) ** 2 for a, b in zip(q, case['xk'])))
        bad = []
        if excess(q, [tuple(b) for b in case['bounds']]) > 0:
            bad.append('project_onto_tr returns a point outside the box: %r' % q)
        if dq > case['tr'] * (1 + 1e-9) + 1e-11:
            bad.append('project_onto_tr returns a point outside the trust region: %.17g > %.17g' % (dq, case['tr']))
        print('implementation now:', bad or 'conclusion holds (in the box, |q - xk| = %.17g <= %.17g)' % (dq, case['tr']))
        return 1 if bad else 0
    if not case or 'A' not in case:
        print('no replayable solver input recorded; broken obligations:', rep.get('broken'))
        return 1
    mods = _mods()
    case['bounds'] = [tuple(b) for b in case['bounds']]
    o = run_impl(case, mods)
    bad = concl(case, o, mods)
    print('implementation now:', bad or 'conclusion holds')
    return 1 if bad else 0
