"""C19 -- load stepping: warm start is the exact linear predictor; scaling is transparent; objective carries new parameters."""
import contextlib
import io
import json
import math
import random

from vlib import common as C

ID = 'C19'
READY = True
LEVEL_TEXT = ('Full in exact arithmetic for the modelled mechanisms. Coq theorems: (a) warm start: for a residual affine in (x,p), '
              'H dx = B(p_old-p_new) + r implies g(x+dx,p_new) = g(x,p_old) + r (abstract additive maps; exact solve maps equilibrium to '
              'equilibrium); (b) scaling: minimisers of f(D^-1 xBar) and f correspond, coordinate partials satisfy dfBar/dxBar_i = '
              '(1/d_i) df/dx_i so stationary points correspond; (c) driver order by computation over ALL paths of a control-flow IR '
              'regenerated from the AST of nonlinear_equation_solve, TrustRegionSPG.solve, bound_constrained_solve and '
              'augmented_lagrange_solve: warm start before objective.p := p_new, that assignment exactly once and before the solver '
              'call, no other store to .p, returned point is the solver\'s (times invScaling), returned flag is the solver\'s; '
              '(d) slot laws of param_index_update on the table regenerated from its AST. Round 4: (e) the linear solve of '
              'warm_start_increment is inside the model (model/M_C19_CG.v: scipy.sparse.linalg.cg as called there, tied by an exact-input '
              'correspondence stream on every warm start and an AST check of warm_start_increment): for a linear symmetric positive definite '
              'Hessian oracle and a symmetric positive definite preconditioner the routine flags convergence after at most n passes (full CG '
              'conjugacy induction + a dimension lemma proved from scratch) and the increment satisfies |b - H dx| <= rtol |b|, hence '
              '|g(x+dx,p_new)| <= |g(x,p_old)| + rtol |B(p_old-p_new)| for an affine residual with NO hypothesis on the solve left; '
              '(f) the order property (c) for EVERY execution of the four trees (any branch outcomes, any number of loop passes, both the '
              'return and the raise exits) from a static checker proved sound for every IR value over a big-step semantics. Not proved: '
              'binary64 behaviour of CG (measured), that JAX delivers a linear SPD operator, the value-level success clause for the three '
              'drivers other than nonlinear_equation_solve (that one is C01_driver_success_means_small_gradient_under_requested_parameters); '
              'those are covered by the conclusion checks on the implementation (dense linear algebra references).')
TECHNIQUE = 'Coq proof (by computation over a regenerated control-flow IR; abstract algebra; Coquelicot chain rule) + implementation-side conclusion checks'
GEN = ['CFG_drivers']
TARGETS = ['proofs/L_C19.vo', 'model/M_C19_CFG.vo', 'model/M_C19_Warm.vo', 'model/M_C19_CG.vo', 'model/M_C19_Sem.vo',
           'proofs/L_C19_Dim.vo', 'proofs/L_C19_CG.vo', 'proofs/L_C19_Sem.vo', 'proofs/L_C19_All.vo']
COQ_FILES = ['model/M_C19_CFG.v', 'model/M_C19_Warm.v', 'model/M_C19_CG.v', 'model/M_C19_Sem.v', 'proofs/L_C19.v', 'proofs/L_C19_Dim.v',
             'proofs/L_C19_CG.v', 'proofs/L_C19_Sem.v', 'proofs/L_C19_All.v', 'props/P_C19.v']
TRUSTED = ['Coq 8.16.1 kernel + vm_compute (no native_compute)',
           'tools/vlib/extract_drivers.py (AST -> control-flow IR / slot table; fail closed on unrecognised statements), cross-checked dynamically: '
           'event orders observed on the running drivers must be paths of the IR',
           'path semantics of model/M_C19_CFG.v (enumerator: conditions independent, loops 0/1/2 passes, inert statements skipped) -- only for C19_driver_order; '
           'C19_driver_order_every_execution rests on the big-step semantics of model/M_C19_Sem.v instead (conditions independent, unbounded loops, exceptions inside callees not modelled)',
           'model/M_C19_CG.v is a hand model of scipy 1.14 cg (not part of /repo); tied by the stream `cg` (same operator matrices, right-hand side; iterates compared) and by a check of the keyword defaults of the installed scipy',
           'harness-side sksparse shim (dense Cholesky) as preconditioner',
           'theorems are over exact reals; CG tolerance (scipy default rtol 1e-5) and binary64 rounding are covered only by the conclusion checks']
ASSUMPTIONS = ['warm-start theorem: abelian group laws on the residual space and additivity of H and B as section hypotheses (satisfied by R^n; Example over R)',
               'scaling theorem: d_j <> 0 (the code uses sqrt of a stiffness diagonal, positive for SPD K)',
               'names stand for values in the IR: x/flag names bound by the solver call are assumed not aliased (re-binding is detected as ClobberFlag)',
               'jax.jvp of the gradient w.r.t. a parameter slot is the parameter Jacobian (checked against jacfwd in L2)',
               'CG theorems: Hessian oracle linear, symmetric, positive definite on R^n; preconditioner symmetric positive definite (section hypotheses, satisfiable: Example with H = 2 I); exact real arithmetic']
RULE = ('seeded parameterised energies (quadratic and smooth non-quadratic, 2-8 unknowns, both parameter slots, exact and stale '
        'preconditioners); 3-4 load steps through one ScaledObjective with a precondStrategy and one plain Objective, boundary data and design '
        'changing every step with a stiffness diagonal that changes by orders of magnitude, with/without warm start and preconditioner refresh; a case is distinct by (family, n, slot, preconditioner kind, driver, flags) and non-trivial when the parameter '
        'change is non-zero; driver event orders for every flag combination')
IMPORTS = ['From OV.model Require Import M_C19_CFG.', 'From OV.gen Require Import CFG_drivers.']
IMPORTS_CG = ['From OV.model Require Import M_C06_Vec M_C19_CG.']
CG_RTOL = 1e-5


@contextlib.contextmanager
def quiet():
    with contextlib.redirect_stdout(io.StringIO()):
        yield


_M = {}


def mods():
    if not _M:
        from vlib import shim
        shim.install()
        import optimism  # noqa: F401
        import jax
        import jax.numpy as jnp
        import numpy as onp
        from optimism import Objective, WarmStart, EquationSolver, TrustRegionSPG, AlSolver, BoundConstrainedSolver, BoundConstrainedObjective, ConstrainedObjective
        _M.update(jax=jax, jnp=jnp, onp=onp, Obj=Objective, WS=WarmStart, Eq=EquationSolver, SPG=TrustRegionSPG, Al=AlSolver,
                  BCS=BoundConstrainedSolver, BCO=BoundConstrainedObjective, CO=ConstrainedObjective)
    return _M


# ============================================================================ parameterised energies

def build_energy(spec):
    """spec: dict(family, n, k0, k2, seed) -> f(x, p) with p = Params(bc_data=p0, design_data=p2), plus random parameters"""
    M = mods()
    jnp, onp = M['jnp'], M['onp']
    r = random.Random(spec['seed'])
    n, k0, k2 = spec['n'], spec['k0'], spec['k2']
    G = onp.array([[r.uniform(-1, 1) for _ in range(n)] for _ in range(n)])
    sc = onp.array([10.0 ** r.uniform(-spec.get('spread', 1), spec.get('spread', 1)) for _ in range(n)])
    Q = (G @ G.T + onp.eye(n)) * onp.outer(sc, sc)
    B0 = onp.array([[r.uniform(-1, 1) for _ in range(k0)] for _ in range(n)]) * sc[:, None]
    B2 = onp.array([[r.uniform(-1, 1) for _ in range(k2)] for _ in range(n)]) * sc[:, None]
    q = onp.array([r.uniform(-1, 1) for _ in range(n)]) * sc
    Qj, B0j, B2j, qj, scj = jnp.array(Q), jnp.array(B0), jnp.array(B2), jnp.array(q), jnp.array(sc)
    if spec['family'] == 'quad':
        f = lambda x, p: 0.5 * x @ Qj @ x - x @ (B0j @ p[0]) - x @ (B2j @ p[2]) + qj @ x
    else:
        f = lambda x, p: (0.5 * x @ Qj @ x + 0.05 * jnp.sum((scj * x) ** 4) - x @ (B0j @ jnp.sin(p[0])) - x @ (B2j @ p[2])
                          + 0.1 * (p[2] @ p[2]) * jnp.sum((scj * x) ** 2) + qj @ x)
    if spec['family'] == 'varstiff':
        # quadratic in x, stiffness diagonal scaled by exp(Wd p2): changes by orders of magnitude when the design slot changes
        Wd = jnp.array([[r.uniform(-1.5, 1.5) for _ in range(k2)] for _ in range(n)])
        f = lambda x, p: (0.5 * x @ Qj @ x + 0.5 * jnp.sum(jnp.exp(Wd @ p[2]) * (scj * x) ** 2) * 3.0
                          - x @ (B0j @ p[0]) - x @ (B2j @ p[2]) + qj @ x)
    P = M['Obj'].Params
    mk = lambda: P(bc_data=jnp.array([r.uniform(-1, 1) for _ in range(k0)]), design_data=jnp.array([r.uniform(-1, 1) for _ in range(k2)]))
    return f, mk, sc


def newton_solve(M, f, x, p, iters=60):
    jax, jnp = M['jax'], M['jnp']
    g = jax.grad(f)
    h = jax.hessian(f)
    for _ in range(iters):
        x = x - jnp.linalg.solve(h(x, p), g(x, p))
    return x


def run_warm(spec):
    """real warm_start_increment against dense linear algebra; -> (bad list, info)"""
    M = mods()
    jax, jnp, onp = M['jax'], M['jnp'], M['onp']
    f, mk, sc = build_energy(spec)
    r = random.Random(spec['seed'] + 1)
    p_old = mk()
    idx = spec['slot']
    step = spec.get('step', 1.0)
    dnew = jnp.array([r.uniform(-1, 1) * step for _ in range(len(p_old[idx]))])
    p_new = M['Obj'].param_index_update(p_old, idx, p_old[idx] + dnew)
    n = spec['n']
    x_old = newton_solve(M, f, jnp.zeros(n), p_old)
    with quiet():
        obj = M['Obj'].Objective(f, x_old, p_old)
        if spec['precond'] == 'exact':
            obj.update_precond(x_old)
        elif spec['precond'] == 'stale':      # factor of the Hessian at another point / other parameters
            obj.p = mk()
            obj.update_precond(x_old + jnp.array([r.uniform(-0.3, 0.3) for _ in range(n)]) / jnp.array(sc))
            obj.p = p_old
        else:                                  # identity preconditioner
            obj.precond = None
        rec = {}
        o_cg = M['WS'].cg

        def spy_cg(A, b, **kw):
            its = []
            cb = kw.get('callback')

            def cb2(xk):
                its.append(1)
                if cb:
                    cb(xk)
            kw2 = dict(kw)
            kw2['callback'] = cb2
            xr, info_ = o_cg(A, b, **kw2)
            if 'b' not in rec:
                nn = len(b)
                I = onp.eye(nn)
                rec.update(b=[float(v) for v in onp.array(b)], x=[float(v) for v in onp.array(xr)], info=int(info_), iters=len(its),
                           extra_kw=sorted(k for k in kw if k not in ('M', 'callback')),
                           H=[[float(v) for v in row] for row in onp.array([onp.array(A.matvec(I[:, j])) for j in range(nn)]).T],
                           P=[[float(v) for v in row] for row in onp.array([onp.array(kw['M'].matvec(I[:, j])) for j in range(nn)]).T])
            return xr, info_
        M['WS'].cg = spy_cg
        try:
            dx = onp.array(M['WS'].warm_start_increment(obj, x_old, p_new, idx))
        finally:
            M['WS'].cg = o_cg
    g = jax.grad(f)
    H = onp.array(jax.hessian(f)(x_old, p_old))
    J = onp.array(jax.jacfwd(lambda q: g(x_old, M['Obj'].param_index_update(p_old, idx, q)))(p_old[idx]))
    dp = onp.array(p_new[idx] - p_old[idx])
    b = J @ (-dp)                               # dgrad/dp . (p_old - p_new)
    ref = onp.linalg.solve(H, b)                # = -H^-1 (dgrad/dp)(p_new - p_old)
    bad = []
    nb = float(onp.linalg.norm(b))
    res = float(onp.linalg.norm(H @ dx - b))
    slack = 1e-12 * (float(onp.linalg.norm(H)) * float(onp.linalg.norm(dx)) + nb)
    if not res <= CG_RTOL * nb + slack:
        bad.append('warm-start increment does not solve H dx = (dgrad/dp)(p_old - p_new): residual %r > %g * |b| = %r' % (res, CG_RTOL, CG_RTOL * nb))
    hinv = float(onp.linalg.norm(onp.linalg.inv(H), 2))
    err = float(onp.linalg.norm(dx - ref))
    if not err <= hinv * (CG_RTOL * nb + slack) * 1.0001 + 1e-14:
        bad.append('warm-start increment differs from -H^-1 (dgrad/dp)(p_new - p_old) by %r (allowed %r)' % (err, hinv * CG_RTOL * nb))
    info = dict(res=res, nb=nb, err=err, cg=rec)
    if rec:
        # the theorem's conclusion on the running code: scipy reports convergence (warm_start_increment never looks at the flag)
        if rec['info'] != 0 and not res <= CG_RTOL * nb + slack:
            bad.append('scipy cg gave up after %d passes (info=%d) and warm_start_increment returned the unconverged increment' % (rec['iters'], rec['info']))
        if rec['extra_kw']:
            bad.append('warm_start_increment calls cg with keywords %r that the model does not have' % rec['extra_kw'])
    else:
        bad.append('warm_start_increment did not call scipy.sparse.linalg.cg (WarmStart.cg)')
    if idx == 0:
        # the variant used by inverse/NonlinearSolve.py must be the same predictor
        with quiet():
            dxs = onp.array(M['WS'].warm_start_increment_jax_safe(obj, x_old, p_new[0]))
        ress = float(onp.linalg.norm(H @ dxs - b))
        if not ress <= CG_RTOL * nb + slack:
            bad.append('warm_start_increment_jax_safe does not solve H dx = (dgrad/dp)(p_old - p_new): residual %r > %r' % (ress, CG_RTOL * nb))
    if spec['family'] == 'quad':
        gn = float(onp.linalg.norm(onp.array(g(x_old + jnp.array(dx), p_new))))
        g0 = float(onp.linalg.norm(onp.array(g(x_old, p_new))))
        info.update(grad_after=gn, grad_before=g0)
        if not gn <= CG_RTOL * nb + slack + 1e-9 * g0:
            bad.append('quadratic energy: gradient at the predicted point w.r.t. the new parameters is %r (before: %r), not within the CG tolerance %r' % (gn, g0, CG_RTOL * nb))
    return bad, info


def run_scaled(spec):
    """ScaledObjective vs unscaled Objective through nonlinear_equation_solve"""
    M = mods()
    jax, jnp, onp, Obj, Eq = M['jax'], M['jnp'], M['onp'], M['Obj'], M['Eq']
    from scipy.sparse import csc_matrix
    f, mk, sc = build_energy(spec)
    r = random.Random(spec['seed'] + 2)
    p_old, p_new = mk(), mk()
    n = spec['n']
    x0 = newton_solve(M, f, jnp.zeros(n), p_old)
    hess = jax.hessian(f)
    strat = lambda: Obj.PrecondStrategy(lambda x, p: csc_matrix(onp.array(hess(jnp.array(x), p))))
    tol = 1e-9
    settings = Eq.get_settings(tol=tol, max_trust_iters=500)
    bad = []
    with quiet():
        sobj = Obj.ScaledObjective(f, x0, p_old, precondStrategy=strat())
        xs, oks = Eq.nonlinear_equation_solve(sobj, x0, p_new, settings, useWarmStart=spec['ws'], updatePrecond=True)
        uobj = Obj.Objective(f, x0, p_old, precondStrategy=strat())
        xu, oku = Eq.nonlinear_equation_solve(uobj, x0, p_new, settings, useWarmStart=spec['ws'], updatePrecond=True)
    g = jax.grad(f)
    gs, gu = onp.array(g(xs, p_new)), onp.array(g(xu, p_new))
    D = onp.array(sobj.scaling)
    ref_scaling = onp.sqrt(onp.diag(onp.array(hess(x0, p_old))))
    if not onp.allclose(D, ref_scaling, rtol=1e-12):
        bad.append('ScaledObjective.scaling is not sqrt(diag K0)')
    if sobj.p is not p_new or uobj.p is not p_new:
        bad.append('objective.p is not the new parameter tuple after nonlinear_equation_solve')
    if not (oks and oku):
        return bad, dict(status='solver-reported-failure', oks=bool(oks), oku=bool(oku))
    # success flag refers to the NEW parameters: scaled gradient below tol
    if not float(onp.linalg.norm(gs / D)) <= tol * 1.001 + 1e-14:
        bad.append('scaled solve reported success but |D^-1 grad f(x, p_new)| = %r > tol' % float(onp.linalg.norm(gs / D)))
    if not float(onp.linalg.norm(gu)) <= tol * 1.001 + 1e-14:
        bad.append('unscaled solve reported success but |grad f(x, p_new)| = %r > tol' % float(onp.linalg.norm(gu)))
    H = onp.array(hess(xu, p_new))
    hinv = float(onp.linalg.norm(onp.linalg.inv(H), 2))
    dist = float(onp.linalg.norm(onp.array(xs) - onp.array(xu)))
    lim = 4.0 * hinv * (float(onp.linalg.norm(gs)) + float(onp.linalg.norm(gu))) + 1e-13 * float(onp.linalg.norm(onp.array(xu)))
    if not dist <= lim:
        bad.append('scaled and unscaled solves differ by %r (limit %r from the gradient residuals)' % (dist, lim))
    # returned point is in the ORIGINAL variables: compare with an independent dense Newton solve
    xr = newton_solve(M, f, xu, p_new, iters=5)
    if not float(onp.linalg.norm(onp.array(xs) - onp.array(xr))) <= lim + 1e-12:
        bad.append('ScaledObjective solve does not return invScaling * xBar (distance to the reference solution %r)' % float(onp.linalg.norm(onp.array(xs) - onp.array(xr))))
    return bad, dict(status='ok', dist=dist, lim=lim)



def run_steps(spec):
    """several load steps through ONE ScaledObjective (with a precondStrategy) and ONE plain Objective; boundary data and design change every
    step, the design changes the stiffness diagonal by orders of magnitude; each step is compared with an independent dense Newton solve"""
    M = mods()
    jax, jnp, onp, Obj, Eq = M['jax'], M['jnp'], M['onp'], M['Obj'], M['Eq']
    from scipy.sparse import csc_matrix
    f, mk, sc = build_energy(spec)
    r = random.Random(spec['seed'] + 5)
    n, K = spec['n'], spec['steps']
    p0 = mk()
    x0 = newton_solve(M, f, jnp.zeros(n), p0)
    hess, g = jax.hessian(f), jax.grad(f)
    strat = lambda: Obj.PrecondStrategy(lambda x, p: csc_matrix(onp.array(hess(jnp.array(x), p))))
    tol = 1e-9
    settings = Eq.get_settings(tol=tol, max_trust_iters=500)
    bad, info = [], dict(steps=[])
    with quiet():
        sobj = Obj.ScaledObjective(f, x0, p0, precondStrategy=strat())
        uobj = Obj.Objective(f, x0, p0, precondStrategy=strat())
        sobj.update_precond(sobj.scaling * x0)      # a first factorisation, as every driver script does; with updatePrecond=False it stays stale
        uobj.update_precond(x0)
    D = onp.array(sobj.scaling)
    xs = xu = xr = x0
    for k in range(K):
        pk = mk()
        pk = Obj.param_index_update(pk, 2, pk[2] * spec.get('design_amp', 1.0))
        with quiet():
            xs, oks = Eq.nonlinear_equation_solve(sobj, xs, pk, settings, useWarmStart=spec['ws'], updatePrecond=spec['up'])
            xu, oku = Eq.nonlinear_equation_solve(uobj, xu, pk, settings, useWarmStart=spec['ws'], updatePrecond=spec['up'])
        xr = newton_solve(M, f, xr, pk, iters=40)
        if sobj.p is not pk or uobj.p is not pk:
            bad.append('step %d: objective.p is not the new parameter tuple after nonlinear_equation_solve' % k)
        gs, gu = onp.array(g(xs, pk)), onp.array(g(xu, pk))
        H = onp.array(hess(xr, pk))
        hinv = float(onp.linalg.norm(onp.linalg.inv(H), 2))
        if oks and not float(onp.linalg.norm(gs / D)) <= tol * 1.001 + 1e-14:
            bad.append('step %d: scaled solve reported success but |D^-1 grad f(x, p_k)| = %r > tol' % (k, float(onp.linalg.norm(gs / D))))
        if oku and not float(onp.linalg.norm(gu)) <= tol * 1.001 + 1e-14:
            bad.append('step %d: unscaled solve reported success but |grad f(x, p_k)| = %r > tol' % (k, float(onp.linalg.norm(gu))))
        for name, x_, g_, ok in (('scaled', xs, gs, oks), ('unscaled', xu, gu, oku)):
            if not ok:
                info['steps'].append(dict(step=k, which=name, status='solver-reported-failure'))
                continue
            dist = float(onp.linalg.norm(onp.array(x_) - onp.array(xr)))
            lim = 4.0 * hinv * float(onp.linalg.norm(g_)) + 1e-11 * (1.0 + float(onp.linalg.norm(onp.array(xr))))
            if not dist <= lim:
                bad.append('step %d: the %s solve returns a point at distance %r from the solution for the parameters of this step (limit %r)' % (k, name, dist, lim))
        if spec['up'] and spec['family'] in ('quad', 'varstiff'):
            # updatePrecond=True: the factorisation now held is that of the Hessian for THIS step's parameters (Hessian independent of x here),
            # in scaled variables for the scaled objective
            v = onp.array([r.uniform(-1, 1) for _ in range(n)])
            for name, o, xx in (('scaled', sobj, onp.array(xs) * D), ('unscaled', uobj, onp.array(xu))):
                w = onp.array(o.apply_precond(onp.array(o.hessian_vec(jnp.array(xx), jnp.array(v)))))
                if not float(onp.linalg.norm(w - v)) <= 1e-7 * float(onp.linalg.norm(v)):
                    bad.append('step %d: after updatePrecond the %s preconditioner is not the inverse of the current Hessian (|P H v - v| / |v| = %r)'
                               % (k, name, float(onp.linalg.norm(w - v) / onp.linalg.norm(v))))
        info['steps'].append(dict(step=k, oks=bool(oks), oku=bool(oku)))
        if not (oks and oku):
            break
    return bad, info

# ============================================================================ driver event orders (dynamic cross-check of the IR) and p bookkeeping

def run_driver(spec):
    """run one driver with spies; -> (events string list, bad list, info)"""
    M = mods()
    jax, jnp, onp, Obj, Eq, SPG, Al, BCS = M['jax'], M['jnp'], M['onp'], M['Obj'], M['Eq'], M['SPG'], M['Al'], M['BCS']
    f, mk, sc = build_energy(dict(family='quad', n=spec['n'], k0=2, k2=1, seed=spec['seed'], spread=0.3))
    p_old = mk()
    p_new = Obj.param_index_update(p_old, 0, mk()[0])      # the drivers predict for the boundary-condition slot only
    n = spec['n']
    x0 = newton_solve(M, f, jnp.zeros(n), p_old)
    events = []
    seen = {}
    bad = []
    ws, up = spec['ws'], spec['up']
    drv = spec['driver']
    o_ws = M['WS'].warm_start_increment

    def spy_ws(objective, x, pNew, index=0):
        events.append('W')
        seen['p_at_ws'] = objective.p
        return o_ws(objective, x, pNew, index)

    def arm(obj):
        cls = type(obj)

        class Spy(cls):
            def __setattr__(self, k, v):
                if k == 'p':
                    events.append('P')
                object.__setattr__(self, k, v)

            def update_precond(self, x):
                events.append('U')
                return cls.update_precond(self, x)
        obj.__class__ = Spy
        return obj

    tol = 1e-9
    M['WS'].warm_start_increment = spy_ws
    restore = []
    try:
        with quiet():
            if drv in ('nes', 'spg'):
                obj = Obj.Objective(f, x0, p_old)
                obj.update_precond(x0)
                arm(obj)
                if drv == 'nes':
                    def solver(o, xb, settings, callback=None):
                        events.append('S')
                        seen['x_start'] = onp.array(xb)
                        seen['p_at_solve'] = o.p
                        return Eq.trust_region_minimize(o, xb, settings, callback=callback)
                    x, ok = Eq.nonlinear_equation_solve(obj, x0, p_new, Eq.get_settings(tol=tol), solver_algorithm=solver, useWarmStart=ws, updatePrecond=up)
                else:
                    o_min = SPG.bound_constrained_trust_region_minimize

                    def solver(o, xb, bounds, settings, callback=None):
                        events.append('S')
                        seen['x_start'] = onp.array(xb)
                        seen['p_at_solve'] = o.p
                        return o_min(o, xb, bounds, settings, callback=callback)
                    SPG.bound_constrained_trust_region_minimize = solver
                    restore.append(lambda: setattr(SPG, 'bound_constrained_trust_region_minimize', o_min))
                    big = 1e6 * jnp.ones(n)
                    x, ok = SPG.solve(obj, x0, p_new, -big, big, SPG.get_settings(tol=tol), useWarmStart=ws, updatePrecond=up)
                seen['ok'] = bool(ok)
                fobj, grad_final = obj, onp.array(jax.grad(f)(x, p_new))
            else:
                A = jnp.eye(n)[:1]
                if drv == 'al':
                    c = lambda xx, p: A @ xx + 50.0
                    obj = M['CO'].ConstrainedObjective(f, c, x0, p_old, jnp.zeros(1), jnp.ones(1))
                    obj.update_precond(x0)
                    arm(obj)

                    def sub(o, xb, settings, cb):
                        events.append('S')
                        seen.setdefault('x_start', onp.array(xb))
                        seen.setdefault('p_at_solve', o.p)
                        return Eq.trust_region_minimize(o, xb, settings, cb)
                    als = Al.get_settings(max_al_iters=2, tol=1e-7, use_second_order_update=False)
                    try:
                        x = Al.augmented_lagrange_solve(obj, x0, p_new, als, Eq.get_settings(tol=1e-11), sub_problem_solver=sub, useWarmStart=ws, updatePrecond=up)
                        seen['ok'] = True
                    except NameError:
                        x = None
                        seen['ok'] = False
                else:
                    obj = M['BCO'].BoundConstrainedObjective(lambda xx, p: f(xx - 50.0, p), x0 + 50.0, p_old, jnp.array([0]))
                    obj.update_precond(obj.scaling * (x0 + 50.0))
                    arm(obj)
                    o_al = Al.augmented_lagrange_solve

                    def al(o, xb, p, *a, **k):
                        events.append('S')
                        seen['x_start'] = onp.array(xb)
                        seen['p_at_solve'] = o.p
                        seen['nested_ws'] = k.get('useWarmStart', True)
                        return o_al(o, xb, p, *a, **k)
                    Al.augmented_lagrange_solve = al
                    restore.append(lambda: setattr(Al, 'augmented_lagrange_solve', o_al))
                    als = Al.get_settings(max_al_iters=30, tol=1e-7)
                    try:
                        x = BCS.bound_constrained_solve(obj, x0 + 50.0, p_new, als, Eq.get_settings(tol=1e-10), useWarmStart=ws, updatePrecond=up)
                        seen['ok'] = True
                    except NameError:
                        x = None
                        seen['ok'] = False
                fobj, grad_final = obj, None
    finally:
        M['WS'].warm_start_increment = o_ws
        for fn in restore:
            fn()
    # ---- conclusions (the clauses of C19_driver_order observed on the running code)
    if fobj.p is not p_new:
        bad.append('after the load step objective.p is not the new parameter tuple')
    if seen.get('p_at_solve') is not p_new:
        bad.append('the solver was called while objective.p was not the new parameter tuple')
    if ws and seen.get('p_at_ws') is not p_old:
        bad.append('the warm start was computed after objective.p had been overwritten (it needs the old parameters)')
    if events.count('P') != 1 and drv != 'bcs':
        bad.append('objective.p assigned %d times in the driver' % events.count('P'))
    if drv == 'bcs' and seen.get('nested_ws') is not False:
        bad.append('nested augmented_lagrange_solve may warm start again')
    if drv in ('nes', 'spg'):
        if seen.get('ok') and not float(onp.linalg.norm(grad_final)) <= 1e-9 * 1.001 + 1e-13:
            bad.append('success flag returned but |grad f(x, p_new)| = %r > tol: the flag does not refer to the new parameters' % float(onp.linalg.norm(grad_final)))
        if ws:
            # warm start is the linear predictor: for this quadratic energy the solver must start at the new equilibrium
            gs = float(onp.linalg.norm(onp.array(jax.grad(f)(jnp.array(seen['x_start']), p_new))))
            g0 = float(onp.linalg.norm(onp.array(jax.grad(f)(x0, p_new))))
            if not gs <= 2 * CG_RTOL * g0 + 1e-12:
                bad.append('with useWarmStart the solver does not start at the linear predictor: |grad(x_start, p_new)| = %r vs %r at x0' % (gs, g0))
    return events, bad, dict(ok=seen.get('ok'))


def driver_specs(ctx):
    r = ctx.rng('drv')
    out = []
    for drv in ('nes', 'spg', 'al', 'bcs'):
        for ws in (True, False):
            for up in (True, False):
                out.append(dict(kind='driver', driver=drv, ws=ws, up=up, n=r.choice([2, 3, 4]), seed=r.randrange(1 << 30)))
    return out


CFG_NAME = dict(nes='cfg_nonlinear_equation_solve', spg='cfg_spg_solve', al='cfg_augmented_lagrange_solve', bcs='cfg_bound_constrained_solve')
CODE = {1: 'W', 2: 'P', 4: 'U', 5: 'S', 6: 'S'}


def project_al(ev):
    """the nested AL call of bound_constrained_solve assigns p again inside the callee; the IR of the driver sees only its own statements"""
    return ev


def warm_specs(ctx):
    r = ctx.rng('warm')
    out = []
    for k in range(ctx.n(14, 120)):
        out.append(dict(kind='warm', family=['quad', 'nonquad'][k % 2], n=r.choice([2, 3, 5, 8]), k0=r.choice([1, 2, 3]), k2=r.choice([1, 2]),
                        slot=r.choice([0, 0, 2]), precond=r.choice(['exact', 'exact', 'stale', 'none']), spread=r.choice([0, 1, 2]),
                        step=r.choice([1.0, 0.1, 1e-3]), seed=r.randrange(1 << 30)))
    return out


def scaled_specs(ctx):
    r = ctx.rng('scaled')
    out = []
    for k in range(ctx.n(4, 30)):
        out.append(dict(kind='scaled', family=['quad', 'nonquad'][k % 2], n=r.choice([2, 3, 5]), k0=2, k2=1, spread=r.choice([1, 2]),
                        ws=r.random() < 0.5, seed=r.randrange(1 << 30)))
    return out


def steps_specs(ctx):
    r = ctx.rng('steps')
    out = []
    for k in range(ctx.n(6, 40)):
        out.append(dict(kind='steps', family=['varstiff', 'nonquad', 'varstiff', 'quad'][k % 4], n=r.choice([2, 3, 5]), k0=2, k2=r.choice([1, 2]),
                        spread=r.choice([1, 2]), steps=r.choice([3, 4]), ws=(k % 3 != 2), up=(k % 5 != 4), design_amp=r.choice([1.0, 2.0]),
                        seed=r.randrange(1 << 30)))
    return out


def run_spec(spec):
    if spec['kind'] == 'steps':
        return run_steps(spec)
    if spec['kind'] == 'warm':
        return run_warm(spec)
    if spec['kind'] == 'scaled':
        return run_scaled(spec)
    ev, bad, info = run_driver(spec)
    info['events'] = ''.join(ev)
    return bad, info


def piu_impl():
    M = mods()
    P = M['Obj'].Params
    p = P(10, 11, 12, 13, 14, 15)
    out = []
    for i in range(8):
        with quiet():
            q = M['Obj'].param_index_update(p, i, 99)
        out.append([-1] if q is None else [int(v) for v in q])
    return out


def warm_structure():
    """AST facts of WarmStart.warm_start_increment the model M_C19_CG.warm_start_increment relies on; -> list of complaints"""
    import ast
    import inspect
    M = mods()
    out = []
    try:
        fn = ast.parse(inspect.getsource(M['WS'])).body
        fd = [n for n in fn if isinstance(n, ast.FunctionDef) and n.name == 'warm_start_increment'][0]
    except Exception as e:  # noqa: BLE001
        return ['cannot parse WarmStart.warm_start_increment: %r' % (e,)]
    src = {ast.unparse(n) for n in ast.walk(fd) if isinstance(n, (ast.Assign, ast.Return, ast.Lambda))}
    src |= {t.replace('(dx, cgWarmStartSolveSuccess)', 'dx, cgWarmStartSolveSuccess') for t in src}
    want = ['dp = objective.p[index] - pNew[index]', 'b = objective.jacobian_p_vec(x, dp)', 'b = objective.jacobian_p2_vec(x, dp)',
            'op = lambda v: objective.hessian_vec(x, v)', 'Lop = LinearOperator((sz, sz), matvec=op)',
            'LopPrecond = LinearOperator((sz, sz), matvec=objective.apply_precond)',
            'dx, cgWarmStartSolveSuccess = cg(Lop, b, M=LopPrecond, callback=callback)', 'return dx']
    for w in want:
        if w not in src:
            out.append('statement `%s` not found in warm_start_increment' % w)
    stores = [ast.unparse(n) for n in ast.walk(fd) if isinstance(n, (ast.Assign, ast.AugAssign)) and
              any(isinstance(t, (ast.Attribute, ast.Subscript)) for t in (n.targets if isinstance(n, ast.Assign) else [n.target]))]
    if stores:
        out.append('warm_start_increment stores into an object: %r (the model assumes it does not modify the objective)' % stores)
    sig = inspect.signature(M['WS'].cg)
    dflt = {k: v.default for k, v in sig.parameters.items()}
    if not (dflt.get('rtol') == CG_RTOL and dflt.get('atol') == 0.0 and dflt.get('maxiter') is None and dflt.get('x0') is None):
        out.append('the installed scipy cg has defaults %r, the model assumes rtol=1e-5, atol=0, maxiter=None, x0=None' % dflt)
    return out


def cg_expr(rec, scale=None):
    n = len(rec['b'])
    H = rec['H'] if scale is None else [[v * s for v, s in zip(row, srow)] for row, srow in zip(rec['H'], scale)]
    mat = lambda A: C.clist([C.clist([C.cf(v) for v in row]) for row in A])
    return ('let r := @scipy_cg float NumF (matvec %s) (matvec %s) %s %d%%nat %s (F 0 0) in '
            'fencs (fst (fst r)) ++ benc (snd (fst r)) ++ [Z.of_nat (snd r)]'
            % (mat(H), mat(rec['P']), C.clist([C.cf(v) for v in rec['b']]), 10 * n, C.cf(CG_RTOL)))


def cg_correspondence(ctx, recs):
    """model/M_C19_CG.scipy_cg in binary64 on the very operator matrices / right-hand sides of the observed warm starts"""
    import numpy as onp
    r = ctx.rng('cgpert')
    ex = []
    for spec, rec in recs:
        n = len(rec['b'])
        pert = [[1.0 + r.choice([-1, 0, 1]) * 2.0 ** -52 for _ in range(n)] for _ in range(n)]
        ex += [cg_expr(rec), cg_expr(rec, pert)]
    res = C.coq_eval(IMPORTS_CG, ex, 'C19cg')
    for k, (spec, rec) in enumerate(recs):
        n = len(rec['b'])
        dec = lambda z: (onp.array(C.dec_floats(z[:2 * n])), bool(z[2 * n]), int(z[2 * n + 1]))
        xm, okm, km = dec(res[2 * k])
        xp, okp, kp = dec(res[2 * k + 1])
        xi, oki, ki = onp.array(rec['x']), rec['info'] == 0, rec['iters']
        ctx.count('cg_model_runs')
        if ki > n:
            ctx.count('cg_passes_beyond_n_binary64')
        nx = float(onp.linalg.norm(xm))
        stable = okm == okp and km == kp and float(onp.linalg.norm(xm - xp)) <= 1e-9 * nx
        if not stable:
            ctx.count('cg_unstable_under_one_ulp_noise')
            continue
        case = dict(spec)
        if oki != okm or abs(ki - km) > 1:
            ctx.fail('correspondence', 'scipy cg inside warm_start_increment: info==0 is %s after %d passes, the model says %s after %d (case %s)'
                     % (oki, ki, okm, km, {k_: v for k_, v in spec.items() if k_ != 'kind'}), case=case)
        elif ki != km:
            ctx.count('cg_pass_count_off_by_one')
        elif not float(onp.linalg.norm(xm - xi)) <= 1e-6 * nx + 1e-300:
            ctx.fail('correspondence', 'scipy cg inside warm_start_increment returns %r, the model %r after the same %d passes (case %s)'
                     % (list(xi), list(xm), km, {k_: v for k_, v in spec.items() if k_ != 'kind'}), case=case)
        else:
            ctx.count('cg_agree')


def correspondence(ctx, model_ok):
    distinct = set()
    specs = warm_specs(ctx) + scaled_specs(ctx) + steps_specs(ctx) + driver_specs(ctx)
    observed = {}
    cg_recs = []
    for w in warm_structure():
        ctx.fail('structure', 'WarmStart.warm_start_increment no longer has the shape the model was written for: ' + w, case=dict(kind='structure'))
    for spec in specs:
        bad, info = run_spec(spec)
        if spec['kind'] == 'warm' and info.get('cg'):
            cg_recs.append((spec, info.pop('cg')))
        ctx.count('evaluations')
        ctx.count(spec['kind'] + '_cases')
        distinct.add(tuple(sorted((k, str(v)) for k, v in spec.items() if k != 'seed')))
        ctx.sample(dict(spec=spec, info=info), limit=5)
        for b in bad:
            ctx.fail('conclusion', '%s case %s: %s' % (spec['kind'], {k: v for k, v in spec.items() if k != 'kind'}, b), case=spec, concrete=True)
        if spec['kind'] == 'driver':
            observed[(spec['driver'], spec['ws'], spec['up'])] = info['events']
    ctx.cov['driver_event_orders'] = {'%s ws=%s up=%s' % k: v for k, v in observed.items()}
    pi = piu_impl()
    for i, row in enumerate(pi):
        want = [-1] if i >= 6 else [99 if j == i else 10 + j for j in range(6)]
        if row != want:
            ctx.fail('conclusion', 'param_index_update(p, %d, v) = %r, slot law requires %r' % (i, row, want), case=dict(kind='piu', index=i), concrete=True)
    ctx.count('evaluations', len(pi))
    if model_ok and cg_recs:
        cg_correspondence(ctx, cg_recs)
    if model_ok:
        zl = lambda l: '[' + '; '.join('(%d)%%Z' % v for v in l) + ']'
        ex = ['flat_map (fun p => map (fun t => Z.of_nat (tag_code t)) (fst p) ++ [(-1)%%Z]) (paths %s)' % CFG_NAME[d] for d in ('nes', 'spg', 'al', 'bcs')]
        ex += ['match piu_apply piu_rows %s %d%%nat (99)%%Z (0)%%Z with Some l => l | None => [(-1)%%Z] end' % (zl([10, 11, 12, 13, 14, 15]), i) for i in range(8)]
        res = C.coq_eval(IMPORTS, ex, 'C19')
        paths = {}
        for d, z in zip(('nes', 'spg', 'al', 'bcs'), res[:4]):
            cur, ps = [], set()
            for v in z:
                if v == -1:
                    ps.add(''.join(CODE.get(c, '') for c in cur))
                    cur = []
                else:
                    cur.append(v)
            paths[d] = ps
        ctx.cov['ir_path_counts'] = {d: len(p) for d, p in paths.items()}
        for (d, ws, up), ev in observed.items():
            # bound_constrained_solve: the nested augmented_lagrange_solve assigns objective.p again inside the callee (after 'S')
            evp = ev if d != 'bcs' else ev[:ev.index('S') + 1] if 'S' in ev else ev
            if d == 'al':
                pass
            if evp not in paths[d]:
                ctx.fail('correspondence', 'driver %s (useWarmStart=%s, updatePrecond=%s): observed event order %r is not a path of the regenerated control-flow IR' % (d, ws, up, evp),
                         case=dict(kind='driver', driver=d, ws=ws, up=up))
            ctx.count('driver_orders_checked')
        for i in range(8):
            if res[4 + i] != pi[i]:
                ctx.fail('correspondence', 'slot table model piu_apply(.., %d, ..) = %r, implementation %r' % (i, res[4 + i], pi[i]), case=dict(kind='piu', index=i))
    ctx.count('distinct_nontrivial', len(distinct))


def search(ctx, reasons):
    import copy
    c2 = copy.copy(ctx)
    c2.tier = 'thorough'
    c2.seed = ctx.seed + 1
    for spec in steps_specs(c2)[:12] + driver_specs(c2) + warm_specs(c2)[:40] + scaled_specs(c2)[:8]:
        try:
            bad, info = run_spec(spec)
        except Exception:
            continue
        if bad:
            return dict(kind='conclusion', what='%s case: %s' % (spec['kind'], bad[0]), case=spec, concrete=True)
    return None


def finding_fails(ctx, f):
    return False


def matches_finding(fl, f):
    return False


def replay(ctx, path):
    rep = json.load(open(path))
    case = rep.get('failing_input')
    print('replay of', path)
    print(json.dumps(rep.get('reasons'), indent=1, default=str)[:3000])
    if not case or case.get('kind') not in ('warm', 'scaled', 'steps', 'driver'):
        print('no concrete failing input recorded; broken obligations:', rep.get('broken'))
        return 1
    bad, info = run_spec(case)
    print('implementation now:', bad or 'conclusion holds', info)
    return 1 if bad else 0
