"""C09 -- J2 plasticity update (optimism/material/J2Plastic.py, Hardening.py): irreversible, isochoric, yield-consistent, variational."""
import json
import math

from vlib import common as C

ID = 'C09'
READY = True
LEVEL_TEXT = ('Partial. Coq theorems over R: the regenerated flow direction is traceless with N:N = 3/2 (both branches); the regenerated elastic '
              'energy along the return direction reduces to the scalar quadratic, so d(potential)/d(eqps) = -(s - 3 mu D) + Y (residual form); for the '
              'scalar radial return with the C17 root-finder model inside and ANY flow stress that does not drop over the bracket: Delta eqps >= 0, '
              'eqps non-decreasing over any history, yield consistency to the solver tolerance, idempotence for rate-independent hardening; a '
              '(nearly) stationary point of the incremental potential minimises it over eqps >= eqps_old when the hardening is convex; flow stresses of '
              'linear / Voce / power-law hardening are the derivatives of the regenerated energies and are monotone; isochoric flow given '
              'det(exp A) = exp(tr A); the elastic-branch threshold of the yield test must equal the root tolerance (overstress bound max(thr, tol), tight). '
              'Round 3: RATE SENSITIVITY proved -- the overstress k_flow is the derivative of the regenerated kinetic potential for eqps > eqps_old, its '
              'one-sided difference quotient at eqps_old tends to k_flow(eqps_old) = 0, k_slope is the derivative of k_flow, k_flow is non-negative and '
              '(strictly) monotone; hence for the three laws with admissible constants, with rate sensitivity: Delta eqps >= 0, yield consistency with '
              'flow stress + overstress, and minimality of the incremental potential over eqps >= eqps_old although it is differentiable only on the open '
              'half line (new lemma: derivative on (lo, oo) + right-continuity at lo suffice). TENSOR LEVEL for the kinematics with an additive state '
              "update ('small deformations': regenerated linear strain, executed and tied at binary64; 'seth hill': regenerated strain with pow_symm an "
              'arbitrary function): the residual handed to the root finder (derivative of the regenerated deviatoric energy along the return direction + '
              'flow stress) is the scalar residual, so the tensor update is the scalar update; along ANY history of (displacement gradient, dt), all laws, '
              'with or without rate sensitivity, eqps is non-decreasing and the plastic strain keeps its trace (exactly isochoric, no assumption); committing '
              'the state (rate-independent, deviators above the flow-direction threshold 1e-16): same elastic strain, stress on/inside the yield surface '
              'in tensor terms, tensor-level idempotence, SAME ENERGY DENSITY before and after committing. '
              "Round 4: FINITE-DEFORMATION kinematics ('large deformations', multiplicative update) at tensor level -- model/M_C09F.v = regenerated "
              'logarithmic trial strain + state increment + the REGENERATED tail FpNew = exp_symm(dEp) @ FpOld of compute_state_new_finite_deformations, '
              'log_sqrt_symm / exp_symm the spectral functions V diag(f(lam)) V^T over eigen-solvers: along ANY history of (displacement gradient, dt), all '
              'laws, with or without rate sensitivity, from any state, eqps is non-decreasing and det Fp keeps its value (det(exp_symm A) = exp(tr A) is '
              'PROVED from the eigh contract on symmetric matrices, no premise on the solver of log_sqrt_symm; with the solver constructed from the '
              'spectral theorem of L_C11e.v NO premise on the matrix functions is left and det Fp = 1 from the virgin state); committing the state '
              '(rate independent, F and Fp invertible, deviators above 1e-16): the recomputed trial strain is Ee_trial - d N (coaxial update), stress '
              'on/inside the yield surface in tensor terms, tensor-level idempotence of eqps AND Fp (exp_symm(0) = I for every decomposition), same energy '
              'density, same det Fp. "NEVER NaN": for every flow stress that does not drop over the bracket (all rate-independent laws) the ONLY NaN exit '
              'is the iteration cap of the root finder (not-bracketed, 0/0, fuel excluded by the C17 result contract); flat hardening returns the '
              'elastic-predictor bound; LINEAR hardening never returns NaN (one Newton step of the regenerated loop body is proved to converge). '
              'Remaining conditional on the root finder returning a number: Voce / power-law hardening and rate sensitivity (iteration cap: C17 finding F7, here F13). '
              'NOT proved: that jax.grad of the energy before committing equals the elastic stress of the committed state (envelope argument) -- tested on '
              'the code (L2); the eigen-solver eigen_sym33_unit itself (C12) -- theorems hold for every solver meeting the eigh contract; jax.grad of the '
              'regenerated hardening energies = written-out flow stresses is tied by the stream flow_stress; that the material FACTORIES hand out the '
              'model the property set asks for when several models are created in one process is tied by the stream factory_history.')
TECHNIQUE = 'Coq proof (Reals + Coquelicot) over kernels regenerated from the Python AST and a scalar state machine reusing the C17 model and the C11 spectral-function development; vm_compute/PrimFloat correspondence'
GEN = ['ScalarRootFind', 'Hardening', 'TensorMath', 'J2Flow', 'J2Elastic', 'J2Finite']
TARGETS = ['proofs/L_C09.vo', 'proofs/L_C09r.vo', 'proofs/L_C09T.vo', 'proofs/L_C09F.vo', 'proofs/L_C09G.vo', 'proofs/L_C09N.vo', 'proofs/L_C09L.vo', 'proofs/L_C09V.vo',
           'model/M_C09.vo', 'model/M_C09T.vo', 'model/M_C09F.vo']
COQ_FILES = ['base/Num.v', 'model/M_C17.v', 'model/M_C09.v', 'model/M_C09T.v', 'model/M_C09F.v', 'model/M_C11s.v', 'proofs/L_C17.v', 'proofs/L_C09.v', 'proofs/L_C09r.v',
             'proofs/L_C09T.v', 'proofs/L_C09F.v', 'proofs/L_C09G.v', 'proofs/L_C09N.v', 'proofs/L_C09L.v', 'proofs/L_C09V.v', 'proofs/L_C11s.v', 'proofs/L_C11t.v', 'proofs/L_C11e.v',
             'proofs/L_C11u.v', 'props/P_C09.v']
TRUSTED = ['Coq 8.16.1 kernel + vm_compute (no native_compute)',
           'tools/vlib/py2coq.py translator (Hardening.{linear,voce,power_law,power_law_rate_sensitivity}, J2Plastic.compute_flow_direction, '
           'elastic_deviatoric_free_energy, TensorMath.dev, ScalarRootFind loop kernels)',
           'hand-written scalar reduction model/M_C09.v (yield test, bracket, guess, settings), tied by the correspondence: model Delta eqps at binary64 '
           'vs compute_state_new on seeded histories for all kinematics x hardening laws +- rate sensitivity',
           'flow stresses/slopes written out in the model (jax.grad of the hardening energy in the code); proved to be the derivatives of the regenerated '
           'energies for the three laws and the rate term; compared at binary64 with jax.grad / jax.grad(jax.grad) of the code (stream flow_stress)',
           'hand-written tensor-level model/M_C09T.v of compute_state_increment / compute_state_new_small_deformations / _energy_density / '
           'incremental_potential (strain kernels regenerated), tied by the stream tensor_small (state, energy density, potential at binary64)',
           'hand-written glue of model/M_C09F.v (compute_state_new_finite_deformations = regenerated logarithmic strain -> state_increment -> regenerated tail; statement '
           'order checked on the AST every run), tied by the stream tensor_finite (trial strain, increment, FpNew, energy density at binary64 with the code\'s own '
           'log_sqrt_symm / exp_symm values as oracles); spectral form of exp_symm / log_sqrt_symm = model/M_C11s.v (C11; tied there and by C12)',
           'binary64 exp/ln of the model are approximations (1e-15 relative) used only for execution']
ASSUMPTIONS = ['C09_tensor_residual_is_scalar_residual: Section hypotheses DelT = d/d(eqps) of the regenerated deviatoric energy along the return direction and D2T = its derivative (what jax.jacfwd / jax.grad deliver), sum rule for the flow-stress term', 'commit invariance: deviators of the trial and of the committed elastic strain above the flow-direction threshold 1e-16 (stated premise), 0 < Y0, eqps_old >= 0', 'exact real arithmetic in theorems (flat hardening: the residual at the upper bracket end is within the tolerance, the repaired root finder returns that end; F12 fixed)', 'Section hypothesis det(exp A) = exp(tr A) for TensorMath.exp_symm (old C09_isochoric only; C09_finite_* prove it for the spectral exponential)',
               'C09_finite_* : the eigen-solver used by exp_symm (for commit invariance also the one used by log_sqrt_symm) returns an orthogonal V and lam with V diag(lam) V^T = A at every symmetric A (eigh contract; such a solver exists: L_C11e.eigh_sym, and the _unconditional theorems use it)',
               'C09_finite_commit_invariance: det(F) <> 0, det(Fp) <> 0 (stated premises)',
               'flow stress does not drop between eqps_old and the elastic-predictor bound (holds for H >= 0, Ysat >= Y0, n > 0; stated as a premise)',
               'the root finder returns a number (otherwise NaN state: C17 finding F7)',
               'jax.grad / jacfwd of the potential is its derivative']
RULE = ('inputs: seeded material constants (E, nu, Y0, hardening parameters, rate parameters) for sampled combinations of kinematics x hardening law '
        'x rate sensitivity (quick: 6 of 18 per run covering every kinematics and law; thorough: all 18), batches of multi-step displacement-gradient '
        'histories (monotonic, reversing, non-proportional random walks, repeated states, lanes of tiny increments sweeping the overstress from 1e-12 to 1e-6 Y0 across yield, E/Y0 from 30 to 1e4, perfect plasticity and a saturating Voce law in every run, increments from 1e-3 to 30 yield strains with the accumulated strain norm kept below 0.8, time steps 1e-3..10); '
        'a step is non-trivial when it yields; distinct = distinct (configuration, history, step) triples that yield; factory histories: pairs of property sets differing in exactly one option group (rate sensitivity on/off, hardening law, kinematics) created one after the other in one process, both orders, fresh constants per pair')
IMPORTS = ['From OV.gen Require Import Gen_Hardening Gen_J2Flow.', 'From OV.model Require Import M_C09 M_C09T M_C09F.']

KINS = ['large deformations', 'small deformations', 'seth hill']
LAWS = ['linear', 'voce', 'power law']


# ----------------------------------------------------------------------------- configurations and histories

def gen_props(r, kin, law, rate, flat=False):
    E = 10.0 ** r.uniform(1, 3)
    nu = r.uniform(0.05, 0.45)
    Y0 = E * 10.0 ** r.uniform(-4, -1.5)          # E/Y0 from 30 to 1e4 (stiff materials included)
    p = {'elastic modulus': E, 'poisson ratio': nu, 'yield strength': Y0, 'kinematics': kin, 'hardening model': law}
    if law == 'linear':
        p['hardening modulus'] = 0.0 if flat else r.choice([0.0, E * 10.0 ** r.uniform(-3, -0.5)])      # flat: perfect plasticity
    elif law == 'voce':
        p['saturation strength'] = Y0 * (r.uniform(1.0, 1.5) if flat else r.uniform(1.0, 3.0))
        p['reference plastic strain'] = Y0 / E * r.uniform(0.2, 1) if flat else 10.0 ** r.uniform(-3, -1)   # flat: saturates within a few yield strains
    else:
        p['hardening exponent'] = r.uniform(1.5, 12.0)
        p['reference plastic strain'] = Y0 / E * r.uniform(0.5, 2)
    if rate:
        p['rate sensitivity'] = 'power law'
        p['rate sensitivity stress'] = Y0 * r.uniform(0.02, 0.5)
        p['rate sensitivity exponent'] = r.uniform(1.5, 10.0)
        p['reference plastic strain rate'] = 10.0 ** r.uniform(-3, 0)
    return p


def gen_configs(ctx):
    r = ctx.rng('configs')
    allc = [(k, l, rt) for k in KINS for l in LAWS for rt in (False, True)]
    if ctx.quick():
        ks = list(KINS)
        r.shuffle(ks)
        # always: perfect plasticity and a saturating Voce law without rate sensitivity, a rate-sensitive power law; every kinematics once
        chosen = [(ks[0], 'linear', False), (ks[1], 'voce', False), (ks[2], 'power law', True)]
        rest = [c for c in allc if c not in chosen]
        r.shuffle(rest)
        allc = chosen + rest[:3]
    flat_done = set()
    out = []
    for (k, l, rt) in allc:
        flat = (not rt) and l in ('linear', 'voce') and l not in flat_done
        if flat:
            flat_done.add(l)
        out.append(dict(kin=k, law=l, rate=rt, flat=flat, props=gen_props(r, k, l, rt, flat)))
    return out


def gen_histories(ctx, cfg, nb, ns):
    """-> (H[nb][ns][3][3], dt[nb][ns]) as nested lists"""
    import numpy as onp
    from scipy.linalg import expm
    r = ctx.rng('hist|%s|%s|%s' % (cfg['kin'], cfg['law'], cfg['rate']))
    ey = cfg['props']['yield strength'] / cfg['props']['elastic modulus']
    Hs, dts = [], []

    def rand_dir():
        a = onp.array([[r.gauss(0, 1) for _ in range(3)] for _ in range(3)])
        s = 0.5 * (a + a.T)
        if r.random() < 0.5:
            s = s - onp.trace(s) / 3 * onp.eye(3) * r.choice([1.0, 0.7])
        return s / onp.linalg.norm(s)

    P = cfg['props']
    mu_ = P['elastic modulus'] / (2 * (1 + P['poisson ratio']))
    nt = ctx.n(3, 6)                       # lanes sweeping tiny overstress increments across yield
    for b in range(nb):
        mode = b % 5 if b < nb - nt else 5
        amp = ey * r.choice([1e-3, 0.3, 3.0, 3.0, 30.0]) if mode != 4 else ey * r.choice([0.3, 3.0])
        amp = min(amp, 0.8 / ns)            # admissible deformations: accumulated strain norm stays below ~0.8 (stretches within e^+-0.8)
        d0 = rand_dir()
        w = onp.array([[0, r.gauss(0, 1), r.gauss(0, 1)], [0, 0, r.gauss(0, 1)], [0, 0, 0]])
        w = (w - w.T) * r.choice([0.0, 0.02, 0.2])
        eps = onp.zeros((3, 3))
        seq, dseq = [], []
        for k in range(ns):
            if mode == 0:                                   # monotonic proportional
                eps = (k + 1) * amp * d0
            elif mode == 1:                                 # reversing (triangular wave)
                ph = (k % 8)
                tri = ph if ph <= 4 else 8 - ph
                eps = (tri - 2) * amp * d0 * 1.5
            elif mode == 2:                                 # non-proportional random walk
                eps = eps + amp * rand_dir()
            elif mode == 3:                                 # load, then hold the same state (exactly at yield), tiny steps
                if k < 3:
                    eps = (k + 1) * amp * d0
                elif k % 2 == 1:
                    eps = eps + 1e-3 * ey * rand_dir() * r.choice([0.0, 1.0])
            elif mode == 5:                                 # load 2% past yield, then increments adding overstress 1e-12 .. 1e-6 Y0
                if k == 0:
                    dd = d0 - onp.trace(d0) / 3 * onp.eye(3)
                    dd = dd / onp.linalg.norm(dd)
                    unit = P['yield strength'] / (2 * mu_ * math.sqrt(1.5))
                    eps = 1.02 * unit * dd
                    w = w * 0.0
                else:
                    theta = 10.0 ** (-12 + 6.0 * (k - 1) / max(ns - 2, 1) + r.uniform(-0.3, 0.3))
                    eps = eps + theta * unit * dd
            else:                                           # rotating direction
                eps = eps + amp * (math.cos(k) * d0 + math.sin(k) * rand_dir())
            if cfg['kin'] == 'small deformations':
                H = eps + w * (k + 1) / ns
            else:
                H = expm(eps + w * (k + 1) / ns) - onp.eye(3)
            seq.append(H.tolist())
            dseq.append(10.0 ** r.uniform(-3, 1))
        Hs.append(seq)
        dts.append(dseq)
    return Hs, dts


# ----------------------------------------------------------------------------- the implementation, one jitted step per configuration

_STEP = {}


def make_step(cfg, light=False):
    """light: skip the stress (jax.grad of the energy through the root solve) before/after committing -- by far the most expensive part to
    compile; used by the factory-history stream in the quick tier"""
    import jax
    import jax.numpy as jnp
    import optimism  # noqa: F401
    from optimism.material import J2Plastic as J2
    from optimism.material import Hardening
    from optimism import TensorMath
    P = cfg['props']
    mm = J2.create_material_model_functions(P)
    props = J2.make_properties(P['elastic modulus'], P['poisson ratio'], P['yield strength'])
    hm = Hardening.create_hardening_model(P)
    mu = props[J2.PROPS_MU]
    strain_fn = {'large deformations': J2.compute_elastic_logarithmic_strain, 'small deformations': J2.compute_elastic_linear_strain,
                 'seth hill': J2.compute_elastic_seth_hill_strain}[cfg['kin']]
    finite = cfg['kin'] == 'large deformations'
    grid = jnp.concatenate([jnp.linspace(0.0, 1.5, 46), jnp.array([1e-3, 1e-2, 0.99, 1.01, 2.0, 4.0])])

    def step(H, state, dt):
        eo = state[0]
        new = mm.compute_state_new(H, state, dt)
        Etr = strain_fn(H, state)
        N = J2.compute_flow_direction(Etr)
        s = 2 * mu * jnp.tensordot(TensorMath.dev(Etr), N)
        Yo = hm.compute_flow_stress(eo, eo, dt)
        width = jnp.maximum(s - Yo, 0.0) / (3 * mu)
        Y_ub = hm.compute_flow_stress(eo + width, eo, dt)
        e_near = jnp.maximum(eo + width * 2.0 ** -45, jnp.nextafter(eo, jnp.inf))
        r_near = -s + 3 * mu * (e_near - eo) + hm.compute_flow_stress(e_near, eo, dt)     # residual a hair above eqps_old
        dY_new = jax.grad(hm.compute_flow_stress)(new[0], eo, dt)
        # residual of the scalar return-mapping equation at the binary64 neighbours of the returned eqps (not below eqps_old)
        e_hi = jnp.nextafter(new[0], jnp.inf)
        e_lo = jnp.maximum(eo, jnp.nextafter(new[0], -jnp.inf))
        r_hi = -s + 3 * mu * (e_hi - eo) + hm.compute_flow_stress(e_hi, eo, dt)
        r_lo = -s + 3 * mu * (e_lo - eo) + hm.compute_flow_stress(e_lo, eo, dt)
        Enew = strain_fn(H, new)
        s_new = 2 * mu * jnp.tensordot(TensorMath.dev(Enew), N)
        Y_new = hm.compute_flow_stress(new[0], eo, dt)
        W_old = mm.compute_energy_density(H, state, dt)
        W_new = mm.compute_energy_density(H, new, dt)
        if light:
            P_old = P_new = jnp.zeros((3, 3))
        else:
            P_old = jax.grad(mm.compute_energy_density)(H, state, dt)
            P_new = jax.grad(mm.compute_energy_density)(H, new, dt)
        new2 = mm.compute_state_new(H, new, dt)
        span = jnp.maximum(s - Yo, 0.0) / (3 * mu) + 1e-7
        es = eo + grid * span
        phi = jax.vmap(lambda e: J2.incremental_potential(Etr, e, eo, dt, props, hm))(es)
        phi_star = J2.incremental_potential(Etr, new[0], eo, dt, props, hm)
        M = new[1:].reshape((3, 3))
        iso = jnp.where(finite, jnp.linalg.det(M) - 1.0, jnp.trace(M))
        if finite:
            # stream `tensor_finite`: what the code's own log_sqrt_symm / exp_symm return on this step (fed to the model as oracle values),
            # and the intermediate results the model is compared with
            Fp = state[1:].reshape((3, 3))
            Fe = (H + jnp.eye(3)) @ TensorMath.inv(Fp)
            o_lss = TensorMath.log_sqrt_symm(Fe.T @ Fe).ravel()
            o_inc = J2.compute_state_increment(Etr, state, dt, props, hm)
            o_expm = TensorMath.exp_symm(o_inc[1:].reshape((3, 3))).ravel()
        else:
            o_lss, o_inc, o_expm = jnp.zeros(9), jnp.zeros(10), jnp.zeros(9)
        return dict(o_lss=o_lss, o_inc=o_inc, o_expm=o_expm, o_Etr=Etr.ravel(), new=new, s=s, Yo=Yo, Y_ub=Y_ub, r_near=r_near, r_hi=r_hi, r_lo=r_lo, dY_new=dY_new, s_new=s_new, Y_new=Y_new, W_old=W_old, W_new=W_new, dP=jnp.max(jnp.abs(P_old - P_new)), Pn=jnp.max(jnp.abs(P_old)),
                    new2=new2, es=es, phi=phi, phi_star=phi_star, iso=iso, trN=jnp.trace(N), NN=jnp.tensordot(N, N), mu=mu + 0 * eo)

    return jax.jit(jax.vmap(step)), mm


def run_config(ctx, cfg, nb, ns, light=False):
    """-> list of per-step records (python floats)"""
    import jax.numpy as jnp
    stepf, mm = make_step(cfg, light)
    Hs, dts = gen_histories(ctx, cfg, nb, ns)
    Hs, dts = jnp.array(Hs), jnp.array(dts)
    st0 = mm.compute_initial_state()
    state = jnp.tile(jnp.asarray(st0).reshape((1, -1))[:, :10], (nb, 1))
    recs = []
    for k in range(ns):
        o = stepf(Hs[:, k], state, dts[:, k])
        for b in range(nb):
            recs.append(dict(b=b, k=k, H=[[float(x) for x in row] for row in Hs[b, k]], dt=float(dts[b, k]), state=[float(x) for x in state[b]],
                             new=[float(x) for x in o['new'][b]], new2=[float(x) for x in o['new2'][b]],
                             es=[float(x) for x in o['es'][b]], phi=[float(x) for x in o['phi'][b]],
                             **{q: [float(x) for x in o[q][b]] for q in ('o_lss', 'o_inc', 'o_expm', 'o_Etr')},
                             **{q: float(o[q][b]) for q in ('s', 'Yo', 'Y_ub', 'r_near', 'r_hi', 'r_lo', 'dY_new', 's_new', 'Y_new', 'W_old', 'W_new', 'dP', 'Pn', 'phi_star', 'iso', 'trN', 'NN', 'mu')}))
        state = o['new']
    return recs


# ----------------------------------------------------------------------------- factory histories (several models created in one process)

RATE_KEYS = ('rate sensitivity', 'rate sensitivity stress', 'rate sensitivity exponent', 'reference plastic strain rate')
LAW_KEYS = ('hardening model', 'hardening modulus', 'saturation strength', 'reference plastic strain', 'hardening exponent')


def ref_flow_stress(P):
    """the flow stress the property set ASKS for: derivative of the library's own primitive potentials (Hardening.linear / voce / power_law
    [+ power_law_rate_sensitivity]) evaluated directly with P's constants -- no factory, no cached objects"""
    import jax
    from optimism.material import Hardening

    def energy(e, eo, dt):
        law = P['hardening model']
        if law == 'linear':
            w = Hardening.linear(e, P['yield strength'], P['hardening modulus'])
        elif law == 'voce':
            w = Hardening.voce(e, P['yield strength'], P['saturation strength'], P['reference plastic strain'])
        else:
            w = Hardening.power_law(e, P['yield strength'], P['hardening exponent'], P['reference plastic strain'])
        if 'rate sensitivity' in P:
            w = w + Hardening.power_law_rate_sensitivity(e, eo, dt, P['rate sensitivity stress'], P['rate sensitivity exponent'], P['reference plastic strain rate'])
        return w
    return jax.grad(energy)


def factory_pairs(ctx):
    """pairs of property sets that differ in exactly ONE option group, each with a creation order; every pair has its own fresh constants"""
    r = ctx.rng('factory')
    out = []
    for order in (0, 1):
        # rate sensitivity on / off, identical hardening-law constants
        law = r.choice(LAWS)
        Pr = gen_props(r, 'small deformations', law, True)
        Pn = {k: v for k, v in Pr.items() if k not in RATE_KEYS}
        out.append(('rate', order, [Pr, Pn] if order == 0 else [Pn, Pr]))
        # hardening law differs, everything else identical (same yield strength)
        l1, l2 = r.sample(LAWS, 2)
        P1 = gen_props(r, 'small deformations', l1, False)
        P2 = gen_props(r, 'small deformations', l2, False)
        ratio = P1['yield strength'] / P2['yield strength']
        P2 = dict({k: v for k, v in P1.items() if k not in LAW_KEYS}, **{k: v for k, v in P2.items() if k in LAW_KEYS})
        if 'saturation strength' in P2:
            P2['saturation strength'] *= ratio          # admissible constants: saturation strength relative to the SHARED yield strength
        out.append(('law', order, [P1, P2]))
        # kinematics differs
        k1, k2 = r.sample(KINS, 2)
        P1 = gen_props(r, k1, r.choice(LAWS), r.random() < 0.5)
        P2 = dict(P1, kinematics=k2)
        out.append(('kin', order, [P1, P2]))
    return out


def _cfg_of(P):
    return dict(kin=P['kinematics'], law=P['hardening model'], rate='rate sensitivity' in P, flat=False, props=P)


def factory_flow_checks(ctx, group, order, Ps, hms):
    """the hardening object handed out by the factory for each property set of the pair (created in this order, in this process)
    against the flow stress that property set asks for"""
    r = ctx.rng('factory_flow|%s|%d' % (group, order))
    nbad = 0
    for i, (P, hm) in enumerate(zip(Ps, hms)):
        ref = ref_flow_stress(P)
        Y0 = P['yield strength']
        for _ in range(4):
            eo = r.choice([0.0, 10.0 ** r.uniform(-5, -1)])
            e = eo + 10.0 ** r.uniform(-6, -1)
            dt = 10.0 ** r.uniform(-3, 1)
            got, want = float(hm.compute_flow_stress(e, eo, dt)), float(ref(e, eo, dt))
            ctx.count('factory_flow_comparisons')
            if not C.close(got, want, rtol=1e-11, atol=1e-13 * Y0):
                nbad += 1
                if nbad <= 2:
                    ctx.fail('conclusion', 'factory history [%s, creation order %d]: the hardening model created as #%d of %d for %s has flow stress %r at eqps=%r eqps_old=%r dt=%r; '
                             'the library\'s own potentials with these constants give %r' % (group, order, i + 1, len(Ps), P, got, e, eo, dt, want),
                             case=dict(clause='factory_flow_stress', sig=None, factory=dict(group=group, order=order, created=Ps, index=i), eqps=e, eqps_old=eo, dt=dt,
                                       cfg=dict(_cfg_of(P))), concrete=True)
    return nbad


def factory_checks(ctx):
    """stream `factory_history`: Python-state histories of the material FACTORIES.  For pairs of property sets differing in exactly one option
    group (rate sensitivity on/off, hardening law, kinematics) model A is created, then model B, in one process (both orders, fresh constants
    per pair).  (1) every hardening object handed out is compared with the flow stress its property set asks for (library potentials evaluated
    directly); (2) both J2 models are driven through a short history and ALL clause predicates of `concl` are evaluated on both, plus yield
    consistency against the directly evaluated flow stress.  Quick: (2) only for one rate-sensitivity pair; thorough: every pair."""
    import optimism  # noqa: F401
    from optimism.material import Hardening
    from optimism.material import J2Plastic as J2
    pairs = factory_pairs(ctx)
    r = ctx.rng('factory_pick')
    run_update = set(range(len(pairs))) if not ctx.quick() else {r.choice([i for i, p in enumerate(pairs) if p[0] == 'rate'])}
    dist = {}
    for pi, (group, order, Ps) in enumerate(pairs):
        # creation order = list order: J2 model (its factory creates the hardening model inside), then the bare hardening model
        mms, hms = [], []
        for P in Ps:
            mms.append(J2.create_material_model_functions(P))
            hms.append(Hardening.create_hardening_model(P))
        factory_flow_checks(ctx, group, order, Ps, hms)
        key = '%s/order%d' % (group, order)
        dist[key] = dict(models=len(Ps), update_predicates=pi in run_update)
        if pi not in run_update:
            continue
        nb, ns = ctx.n(6, 10), ctx.n(5, 8)
        for i, P in enumerate(Ps):
            cfg = _cfg_of(P)
            ref = ref_flow_stress(P)
            recs = run_config(ctx, cfg, nb, ns, light=True)
            ny = 0
            for rec in recs:
                ctx.count('factory_steps')
                fac = dict(group=group, order=order, created=Ps, index=i)
                if rec['new'][0] > rec['state'][0]:
                    ny += 1
                for clause, text, sig in concl(cfg, rec, rec['k']):
                    case = dict(cfg=dict(kin=cfg['kin'], law=cfg['law'], rate=cfg['rate'], props=P), H=rec['H'], dt=rec['dt'], state=rec['state'], new=rec['new'],
                                clause=clause, sig=sig, step=rec['k'], factory=fac)
                    ctx.fail('conclusion', 'factory history [%s, creation order %d, model #%d of %d] %s step %d of history %d: %s'
                             % (group, order, i + 1, len(Ps), clause, rec['k'], rec['b'], text), case=case, concrete=True)
                # yield consistency against the flow stress the property set asks for (not the factory's object)
                eo, en = rec['state'][0], rec['new'][0]
                if en == en and en > eo:
                    Yref = float(ref(en, eo, rec['dt']))
                    tol = 1e-10 * P['yield strength']
                    rnd = 1e-9 * (abs(rec['s']) + P['yield strength'])
                    if rec['dY_new'] == rec['dY_new'] and not math.isinf(rec['dY_new']):
                        rnd += 8 * abs(rec['dY_new']) * math.ulp(max(en, 1e-300))      # conditioning w.r.t. rounding of the stored eqps (as in concl)
                    if abs(rec['s_new'] - Yref) > tol + rnd and not (cfg['rate'] and rec['r_lo'] <= 0.0 <= rec['r_hi']):
                        ctx.fail('conclusion', 'factory history [%s, creation order %d, model #%d of %d] plastic step %d of history %d: |stress - flow stress asked for| = %r '
                                 '(stress %r, flow stress of the library potentials with these constants %r, flow stress of the factory object %r)'
                                 % (group, order, i + 1, len(Ps), rec['k'], rec['b'], abs(rec['s_new'] - Yref), rec['s_new'], Yref, rec['Y_new']),
                                 case=dict(cfg=dict(kin=cfg['kin'], law=cfg['law'], rate=cfg['rate'], props=P), H=rec['H'], dt=rec['dt'], state=rec['state'], new=rec['new'],
                                           clause='factory_yield_consistent', sig=None, step=rec['k'], factory=fac), concrete=True)
            dist[key]['yielding_model_%d' % (i + 1)] = ny
            ctx.count('evaluations', len(recs))
    ctx.cov['factory_history_stream'] = dist
    ctx.count('factory_pairs', len(pairs))


# ----------------------------------------------------------------------------- L2: conclusions on the implementation's outputs

WITHIN_ULP = [0]     # steps whose exact root lies within one ulp of the returned eqps while the residual there exceeds the tolerance


def concl(cfg, rec, nsteps_so_far):
    P = cfg['props']
    Y0, E = P['yield strength'], P['elastic modulus']
    tol = 1e-10 * Y0
    mu = rec['mu']
    eo, en = rec['state'][0], rec['new'][0]
    bad = []
    if any(x != x for x in rec['state']):
        return bad                      # the history already broke down at an earlier step (reported there)
    if any(x != x for x in rec['new']):
        # flat hardening over the bracket (perfect plasticity, saturated Voce): the upper bracket end is the root in exact arithmetic,
        # in binary64 the residual there is rounding noise of either sign -> the sign-change test of the root finder fails
        flat = abs(rec['Y_ub'] - rec['Yo']) <= 1e-12 * (abs(rec['s']) + abs(rec['Yo']))
        # rate sensitivity: the overstress has an infinite slope at eqps_old, so for a barely yielding step the root lies within
        # width * 2^-45 (or one ulp) of the lower bracket end and 50 iterations cannot resolve it (the C17 iteration-cap finding F7 inside the J2 update)
        steep = cfg['rate'] and rec['r_near'] > 0
        bad.append(('no_nan', 'state contains NaN after the update (eqps_old=%r, trial stress %r, flow stress %r, flow stress at the bracket end %r)'
                    % (eo, rec['s'], rec['Yo'], rec['Y_ub']), 'flat_hardening_nan' if flat else 'rate_sensitivity_cap_nan' if steep else 'nan'))
        return bad
    d = en - eo
    if d < -4 * math.ulp(max(abs(eo), 1e-300)):
        bad.append(('irreversible', 'eqps decreased: %r -> %r' % (eo, en), None))
    lim_iso = 1e-11 * (nsteps_so_far + 1) * (1 + abs(rec['iso']) * 0)
    if abs(rec['iso']) > lim_iso:
        bad.append(('isochoric', '%s = %r after %d steps' % ('det(Fp)-1' if cfg['kin'] == 'large deformations' else 'tr(plastic strain)', rec['iso'], nsteps_so_far + 1), None))
    if abs(rec['trN']) > 1e-12 or abs(rec['NN'] - 1.5) > 1e-12:
        bad.append(('flow_direction', 'tr N = %r, N:N = %r' % (rec['trN'], rec['NN']), None))
    rnd = 1e-11 * (abs(rec['s']) + Y0)
    if d > 0 and rec['dY_new'] == rec['dY_new'] and not math.isinf(rec['dY_new']):
        rnd += 8 * abs(rec['dY_new']) * math.ulp(max(en, 1e-300))      # conditioning of the flow stress w.r.t. rounding of the stored eqps
    f_new = rec['s_new'] - rec['Y_new']
    # Rate sensitivity: the power-law overstress has an infinite slope at eqps_old, so for a barely yielding step the exact root can lie
    # closer to eqps_old than one ulp of eqps; no binary64 eqps then meets the tolerance.  The clause "to the solver tolerance" is read as:
    # the residual is within tolerance, OR the returned eqps is the best binary64 can do (the residual of the scalar return-mapping equation
    # changes sign between the two binary64 neighbours of the returned value, i.e. the exact root is within one ulp of it).
    if cfg['rate'] and abs(f_new) > tol + rnd and rec['r_lo'] <= 0.0 <= rec['r_hi']:
        WITHIN_ULP[0] += 1
        f_new = 0.0
    if f_new > tol + rnd:
        bad.append(('yield_consistent', 'after the update trial stress - flow stress = %r > tolerance %r' % (f_new, tol), None))
    if d > 0 and abs(f_new) > tol + rnd:
        bad.append(('yield_consistent', 'plastic step but |stress - flow stress| = %r > tolerance %r' % (abs(f_new), tol), None))
    # minimality: scan of the scalar incremental potential over admissible eqps >= eqps_old
    slack = 1e-12 * (abs(rec['phi_star']) + Y0 * (abs(d) + Y0 / E))
    for e, ph in zip(rec['es'], rec['phi']):
        if ph == ph and ph < rec['phi_star'] - slack - (tol + rnd) * abs(e - en):
            bad.append(('variational', 'potential(%r) = %r < potential(eqps_new=%r) = %r' % (e, ph, en, rec['phi_star']), None))
            break
    if not cfg['rate']:
        d2 = rec['new2'][0] - en
        if abs(d2) > 20 * tol / (3 * mu) + 1e-14 * max(en, 1e-3):
            bad.append(('idempotent', 'repeating the update at the same deformation changes eqps by %r' % d2, None))
        dm = max(abs(a - b) for a, b in zip(rec['new2'][1:], rec['new'][1:]))
        if dm > 20 * tol / (3 * mu) + 1e-12:
            bad.append(('idempotent', 'repeating the update changes the plastic distortion by %r' % dm, None))
        if abs(rec['W_old'] - rec['W_new']) > 1e-9 * (abs(rec['W_old']) + Y0 * Y0 / E):
            bad.append(('commit_invariance', 'energy before/after committing the state: %r vs %r' % (rec['W_old'], rec['W_new']), None))
        if rec['dP'] > 1e-7 * (rec['Pn'] + Y0):
            bad.append(('commit_invariance', 'stress before/after committing the state differs by %r (|P| = %r)' % (rec['dP'], rec['Pn']), None))
    return bad


# ----------------------------------------------------------------------------- L1: model expressions

def coq_law(P):
    cf = C.cf
    if P['hardening model'] == 'linear':
        return '(Linear %s %s)' % (cf(P['yield strength']), cf(P['hardening modulus']))
    if P['hardening model'] == 'voce':
        return '(Voce %s %s %s)' % (cf(P['yield strength']), cf(P['saturation strength']), cf(P['reference plastic strain']))
    return '(PowerLaw %s %s %s)' % (cf(P['yield strength']), cf(P['hardening exponent']), cf(P['reference plastic strain']))


def coq_rate(P):
    if 'rate sensitivity' not in P:
        return 'NoRate'
    return '(Rate %s %s %s)' % (C.cf(P['rate sensitivity stress']), C.cf(P['rate sensitivity exponent']), C.cf(P['reference plastic strain rate']))


def kernel_checks(ctx):
    """regenerated kernels at binary64 vs the implementation: flow direction and hardening energies"""
    import jax.numpy as jnp
    import optimism  # noqa: F401
    from optimism.material import J2Plastic as J2
    from optimism.material import Hardening
    r = ctx.rng('kernels')
    ex, want = [], []
    for i in range(ctx.n(30, 200)):
        sc = 10.0 ** r.uniform(-9, 0)
        A = [[r.gauss(0, 1) * sc for _ in range(3)] for _ in range(3)]
        if i % 5 == 0:
            t = r.uniform(-1, 1)
            A = [[t, 0.0, 0.0], [0.0, t, 0.0], [0.0, 0.0, t]]               # vanishing deviator -> dummy direction
        ex.append('enc_m9 (compute_flow_direction %s)' % ' '.join(C.cf(A[a][b]) for a in range(3) for b in range(3)))
        want.append([float(x) for x in J2.compute_flow_direction(jnp.array(A)).ravel()])
    for i in range(ctx.n(30, 200)):
        e, Y0, H = r.uniform(0, 0.5), r.uniform(0.1, 10), r.uniform(0, 10)
        Ys, e0, n = Y0 * r.uniform(1, 3), 10.0 ** r.uniform(-3, -1), r.uniform(1.5, 12)
        eo, dt, S, m, ed0 = e * r.uniform(0, 1), 10.0 ** r.uniform(-3, 1), r.uniform(0.1, 2), r.uniform(1.5, 10), 10.0 ** r.uniform(-3, 0)
        cf = C.cf
        ex.append('fencs [linear %s %s %s; voce %s %s %s %s; power_law %s %s %s %s; power_law_rate_sensitivity %s %s %s %s %s %s]'
                  % (cf(e), cf(Y0), cf(H), cf(e), cf(Y0), cf(Ys), cf(e0), cf(e), cf(Y0), cf(n), cf(e0), cf(e), cf(eo), cf(dt), cf(S), cf(m), cf(ed0)))
        want.append([float(Hardening.linear(e, Y0, H)), float(Hardening.voce(e, Y0, Ys, e0)), float(Hardening.power_law(e, Y0, n, e0)),
                     float(Hardening.power_law_rate_sensitivity(e, eo, dt, S, m, ed0))])
    res = C.coq_eval(IMPORTS, ex, 'C09k', shard=200)
    mism = 0
    for e_, w, rr in zip(ex, want, res):
        got = C.dec_floats(rr)
        sc = max(abs(x) for x in w) + 1e-300
        for a, b in zip(got, w):
            if not C.close(a, b, rtol=1e-11, atol=1e-13 * sc):
                mism += 1
                if mism <= 5:
                    ctx.fail('correspondence', 'regenerated kernel gives %r, implementation %r on %s' % (got, w, e_[:200]), case=dict(expr=e_, model=got, impl=w))
                break
    ctx.count('kernel_comparisons', len(ex))
    ctx.count('evaluations', len(ex))
    return mism


def flow_stress_checks(ctx):
    """stream `flow_stress`: the flow stresses / slopes WRITTEN OUT in the model (h_flow + k_flow, h_slope + k_slope; proved in Coq to be
    the derivatives of the regenerated energies) at binary64 vs what the code uses: jax.grad of the hardening energy (and its grad)."""
    import jax
    import optimism  # noqa: F401
    from optimism.material import Hardening
    r = ctx.rng('flow_stress')
    ex, want, meta = [], [], []
    dist = {}
    for i in range(ctx.n(60, 400)):
        law = LAWS[i % 3]
        rate = (i // 3) % 2 == 1
        Y0 = 10.0 ** r.uniform(-2, 1)
        P = {'yield strength': Y0, 'hardening model': law}
        if law == 'linear':
            P['hardening modulus'] = r.choice([0.0, Y0 * 10.0 ** r.uniform(-1, 2)])
        elif law == 'voce':
            P['saturation strength'] = Y0 * r.uniform(1.0, 3.0)
            P['reference plastic strain'] = 10.0 ** r.uniform(-3, -1)
        else:
            P['hardening exponent'] = r.uniform(1.5, 12.0)
            P['reference plastic strain'] = 10.0 ** r.uniform(-4, -1)
        if rate:
            P['rate sensitivity'] = 'power law'
            P['rate sensitivity stress'] = Y0 * r.uniform(0.02, 0.5)
            P['rate sensitivity exponent'] = r.uniform(1.5, 10.0)
            P['reference plastic strain rate'] = 10.0 ** r.uniform(-3, 0)
        hm = Hardening.create_hardening_model(P)
        eo = r.choice([0.0, 10.0 ** r.uniform(-6, -0.3)])
        at_old = rate and (i // 6) % 2 == 1                      # eqps = eqps_old: the overstress is 0, its slope infinite (slope not compared there)
        e = eo if at_old else eo + 10.0 ** r.uniform(-12, -0.5)
        dt = 10.0 ** r.uniform(-3, 1)
        key = '%s/%s%s' % (law, 'rate' if rate else 'no-rate', '/at-eqps_old' if at_old else '')
        dist[key] = dist.get(key, 0) + 1
        cf = C.cf
        ex.append('fencs [@nadd _ _ (h_flow %s %s) (k_flow %s %s %s %s); @nadd _ _ (h_slope %s %s) (k_slope %s %s %s %s)]'
                  % (coq_law(P), cf(e), coq_rate(P), cf(e), cf(eo), cf(dt), coq_law(P), cf(e), coq_rate(P), cf(e), cf(eo), cf(dt)))
        want.append([float(hm.compute_flow_stress(e, eo, dt)), float(jax.grad(hm.compute_flow_stress)(e, eo, dt))])
        meta.append((P, e, eo, dt, at_old))
    res = C.coq_eval(IMPORTS, ex, 'C09f', shard=200)
    mism = 0
    for e_, w, rr, (P, e, eo, dt, at_old) in zip(ex, want, res, meta):
        got = C.dec_floats(rr)
        # e - eo is formed by both sides from the same binary64 inputs; a power x**(1/m - 1) of it amplifies nothing beyond a few ulp
        # Voce: jax differentiates expm1(x) as expm1(x) + 1, which near saturation (exp(x) ~ 1e-15) carries an ABSOLUTE error of an ulp of 1,
        # i.e. ~2e-16 (Ysat - Y0)/eps0 in the slope; the model evaluates exp(x) directly.  Hence an absolute term at the scale of the slope at eqps = 0.
        sl0 = {'linear': lambda: abs(P['hardening modulus']), 'voce': lambda: (P['saturation strength'] - P['yield strength']) / P['reference plastic strain'],
               'power law': lambda: P['yield strength'] / (P['hardening exponent'] * P['reference plastic strain'])}[P['hardening model']]()
        ok = C.close(got[0], w[0], rtol=1e-11, atol=1e-13 * abs(w[0])) and (at_old or C.close(got[1], w[1], rtol=1e-10, atol=1e-12 * abs(w[1]) + 1e-14 * sl0))
        if not ok:
            mism += 1
            if mism <= 5:
                ctx.fail('correspondence', 'model flow stress / slope %r, implementation (jax.grad of the hardening energy) %r for %s at eqps=%r eqps_old=%r dt=%r'
                         % (got, w, P, e, eo, dt), case=dict(expr=e_, model=got, impl=w, props=P, eqps=e, eqps_old=eo, dt=dt))
    ctx.count('flow_stress_comparisons', len(ex))
    ctx.count('evaluations', len(ex))
    ctx.cov['flow_stress_stream'] = dist
    return mism


def tensor_small_checks(ctx, l1):
    """stream `tensor_small`: the tensor-level model of the small-deformation update (model/M_C09T.v: regenerated linear strain, flow direction,
    scalar root solve, stateOld + stateInc, _energy_density, incremental_potential) at binary64 vs compute_state_new / compute_energy_density /
    incremental_potential on the steps of this run's small-deformation histories."""
    from optimism.material import J2Plastic as J2
    r = ctx.rng('tensor_small')
    cand = [x for x in l1 if x[0]['kin'] == 'small deformations']
    yl = [x for x in cand if x[1]['new'][0] > x[1]['state'][0]]
    el = [x for x in cand if not x[1]['new'][0] > x[1]['state'][0]]
    r.shuffle(yl)
    r.shuffle(el)
    sel = yl[:ctx.n(50, 400)] + el[:ctx.n(15, 100)]
    cf = C.cf

    def m9(v):
        return '(%s)' % ', '.join(cf(x) for x in v)

    ex = []
    for cfg, rec in sel:
        P = cfg['props']
        kappa = float(J2.make_properties(P['elastic modulus'], P['poisson ratio'], P['yield strength'])[J2.PROPS_KAPPA])
        H = [x for row in rec['H'] for x in row]
        st = '(%s, %s)' % (cf(rec['state'][0]), m9(rec['state'][1:]))
        lw, rt, mu, dt = coq_law(P), coq_rate(P), cf(rec['mu']), cf(rec['dt'])
        ex.append('enc_tstate (state_new_small %s %s %s %s %s %s)' % (lw, rt, mu, dt, m9(H), st))
        ex.append('enc_optf (energy_small %s %s %s %s %s %s %s)' % (lw, rt, mu, cf(kappa), dt, m9(H), st))
        ex.append('fencs [potential_tensor %s %s %s %s (strain_small %s %s) %s %s]' % (lw, rt, mu, dt, m9(H), st, cf(rec['state'][0]), cf(rec['new'][0])))
    res = C.coq_eval(IMPORTS, ex, 'C09t', shard=90)
    mism = skipped = 0
    for i, (cfg, rec) in enumerate(sel):
        P = cfg['props']
        Y0, E = P['yield strength'], P['elastic modulus']
        tol = 1e-10 * Y0
        if abs(rec['s'] - rec['Yo'] - tol) < 1e-9 * (abs(rec['s']) + tol):
            skipped += 1
            continue
        rs, re_, rp = res[3 * i], res[3 * i + 1], res[3 * i + 2]
        what = None
        d_impl = rec['new'][0] - rec['state'][0]
        lim = 6 * tol / (3 * rec['mu']) + 1e-8 * abs(d_impl) + 1e-16
        if rs[0] == 0 or re_[0] == 0:
            what = 'model state / energy is NaN, implementation gives eqps %r -> %r' % (rec['state'][0], rec['new'][0])
        else:
            got = C.dec_floats(rs[1:])
            if abs((got[0] - rec['state'][0]) - d_impl) > lim:
                what = 'model eqps_new = %r, implementation %r' % (got[0], rec['new'][0])
            else:
                dm = max(abs(a - b) for a, b in zip(got[1:], rec['new'][1:]))
                if dm > 1.3 * lim + 1e-13 * max(abs(x) for x in rec['new'][1:] + [1e-300]):
                    what = 'model plastic strain differs from the implementation by %r (model %r, implementation %r)' % (dm, got[1:], rec['new'][1:])
            w_model = C.dec_floats(re_[1:])[0]
            if what is None and not C.close(w_model, rec['W_old'], rtol=1e-9, atol=1e-9 * Y0 * Y0 / E):
                what = 'model energy density %r, implementation %r' % (w_model, rec['W_old'])
            p_model = C.dec_floats(rp)[0]
            if what is None and not C.close(p_model, rec['phi_star'], rtol=1e-10, atol=1e-10 * Y0 * Y0 / E):
                what = 'model incremental potential %r, implementation %r' % (p_model, rec['phi_star'])
        if what:
            mism += 1
            if mism <= 5:
                ctx.fail('correspondence', 'tensor-level small-deformation model: %s (%s rate=%s, step %d of history %d)' % (what, cfg['law'], cfg['rate'], rec['k'], rec['b']),
                         case=dict(props=P, H=rec['H'], state=rec['state'], dt=rec['dt'], impl_new=rec['new']))
    ctx.count('tensor_small_comparisons', len(sel))
    ctx.count('tensor_small_yielding', min(len(yl), ctx.n(50, 400)))
    ctx.count('tensor_small_near_tie_skipped', skipped)
    ctx.count('tensor_small_mismatches', mism)
    ctx.count('evaluations', len(sel))


def structure_checks(ctx):
    """structural tie of model/M_C09F.v: compute_state_new_finite_deformations is, statement by statement,
         elasticTrialStrain = compute_elastic_logarithmic_strain(dispGrad, stateOld)           -> M_C09F.strain_log (regenerated kernel)
         stateInc = compute_state_increment(elasticTrialStrain, stateOld, dt, props, hardening_model)  -> M_C09T.state_increment
         eqpsNew / FpOld / FpNew                                                                -> regenerated tail (Gen_J2Finite)
         return np.hstack((eqpsNew, FpNew.ravel()))                                             -> M_C09F.tail_fin
    read off the source AST on every run."""
    import ast
    import os
    src = open(os.path.join(C.REPO, 'optimism', 'material', 'J2Plastic.py')).read()
    fns = {n.name: n for n in ast.parse(src).body if isinstance(n, ast.FunctionDef)}
    bad = []
    fn = fns.get('compute_state_new_finite_deformations')
    if fn is None:
        bad.append('compute_state_new_finite_deformations not found')
    else:
        got = [ast.unparse(st) for st in fn.body]
        args = [a.arg for a in fn.args.args]
        if args != ['dispGrad', 'stateOld', 'dt', 'props', 'hardening_model']:
            bad.append('parameters %r' % args)
        want = {0: 'elasticTrialStrain = compute_elastic_logarithmic_strain(dispGrad, stateOld)',
                1: 'stateInc = compute_state_increment(elasticTrialStrain, stateOld, dt, props, hardening_model)',
                len(got) - 1: 'return np.hstack((eqpsNew, FpNew.ravel()))'}
        for i, w in want.items():
            if i >= len(got) or got[i] != w:
                bad.append('statement %d is %r, the model assumes %r' % (i, got[i] if i < len(got) else None, w))
        assigned = [t.id for st in fn.body if isinstance(st, ast.Assign) for t in st.targets if isinstance(t, ast.Name)]
        if assigned != ['elasticTrialStrain', 'stateInc', 'eqpsNew', 'FpOld', 'FpNew']:
            bad.append('assignments %r' % assigned)
    for b in bad:
        ctx.fail('correspondence', 'structure of compute_state_new_finite_deformations differs from model/M_C09F.v: ' + b, case=dict(what=b))
    ctx.count('structure_checks', 1)
    return len(bad)


def tensor_finite_checks(ctx, l1):
    """stream `tensor_finite`: the tensor-level model of the FINITE-DEFORMATION update (model/M_C09F.v: regenerated logarithmic trial strain,
    flow direction, scalar root solve, regenerated multiplicative tail exp_symm(dEp) @ FpOld, _energy_density) at binary64 vs
    compute_elastic_logarithmic_strain / compute_state_increment / compute_state_new / compute_energy_density on the steps of this run's
    large-deformation histories.  The two spectral functions are oracles: the model is fed what the code's own log_sqrt_symm / exp_symm
    returned on that step (their spectral form is model/M_C11s.v, tied by C11/C12)."""
    from optimism.material import J2Plastic as J2
    r = ctx.rng('tensor_finite')
    cand = [x for x in l1 if x[0]['kin'] == 'large deformations']
    yl = [x for x in cand if x[1]['new'][0] > x[1]['state'][0]]
    el = [x for x in cand if not x[1]['new'][0] > x[1]['state'][0]]
    r.shuffle(yl)
    r.shuffle(el)
    sel = yl[:ctx.n(40, 400)] + el[:ctx.n(12, 100)]
    cf = C.cf

    def m9(v):
        return '(%s)' % ', '.join(cf(x) for x in v)

    def const9(v):
        return '(fun _ _ _ _ _ _ _ _ _ => %s)' % m9(v)

    ex = []
    for cfg, rec in sel:
        P = cfg['props']
        kappa = float(J2.make_properties(P['elastic modulus'], P['poisson ratio'], P['yield strength'])[J2.PROPS_KAPPA])
        H = [x for row in rec['H'] for x in row]
        st = '(%s, %s)' % (cf(rec['state'][0]), m9(rec['state'][1:]))
        lw, rt, mu, dt = coq_law(P), coq_rate(P), cf(rec['mu']), cf(rec['dt'])
        lss, expm = const9(rec['o_lss']), const9(rec['o_expm'])
        ex.append('enc_m9 (strain_log %s %s %s)' % (lss, m9(H), st))
        ex.append('enc_tstate (state_increment %s %s %s %s (strain_log %s %s %s) %s)' % (lw, rt, mu, dt, lss, m9(H), st, cf(rec['state'][0])))
        ex.append('enc_tstate (state_new_fin %s %s %s %s %s %s %s %s)' % (lss, expm, lw, rt, mu, dt, m9(H), st))
        ex.append('enc_optf (energy_fin %s %s %s %s %s %s %s %s)' % (lss, lw, rt, mu, cf(kappa), dt, m9(H), st))
    res = C.coq_eval(IMPORTS, ex, 'C09F', shard=80)
    mism = skipped = 0
    for i, (cfg, rec) in enumerate(sel):
        P = cfg['props']
        Y0, E = P['yield strength'], P['elastic modulus']
        tol = 1e-10 * Y0
        re0, ri, rs, re_ = res[4 * i:4 * i + 4]
        what = None
        # (a) the regenerated trial-strain kernel (glue around log_sqrt_symm): always compared
        got_E = C.dec_floats(re0)
        sc = max(abs(x) for x in rec['o_Etr']) + 1e-300
        dE = max(abs(a - b) for a, b in zip(got_E, rec['o_Etr']))
        if dE > 1e-12 * sc + 1e-15:
            what = 'model trial strain differs from compute_elastic_logarithmic_strain by %r' % dE
        if what is None and abs(rec['s'] - rec['Yo'] - tol) < 1e-9 * (abs(rec['s']) + tol):
            skipped += 1
            continue
        d_impl = rec['new'][0] - rec['state'][0]
        lim = 6 * tol / (3 * rec['mu']) + 1e-8 * abs(d_impl) + 1e-16
        if what is None and (ri[0] == 0 or rs[0] == 0 or re_[0] == 0):
            what = 'model increment / state / energy is NaN, implementation gives eqps %r -> %r' % (rec['state'][0], rec['new'][0])
        if what is None:
            inc = C.dec_floats(ri[1:])
            if abs(inc[0] - rec['o_inc'][0]) > lim:
                what = 'model Delta eqps = %r, compute_state_increment gives %r' % (inc[0], rec['o_inc'][0])
            else:
                dm = max(abs(a - b) for a, b in zip(inc[1:], rec['o_inc'][1:]))
                if dm > 1.3 * lim + 1e-13 * max(abs(x) for x in rec['o_inc'][1:] + [1e-300]):
                    what = 'model plastic increment Delta eqps * N differs from compute_state_increment by %r' % dm
        if what is None:
            got = C.dec_floats(rs[1:])
            if abs((got[0] - rec['state'][0]) - d_impl) > lim:
                what = 'model eqps_new = %r, implementation %r' % (got[0], rec['new'][0])
            else:
                # the model multiplies the code's OWN exp_symm value with FpOld: only the product and its order are compared here
                dm = max(abs(a - b) for a, b in zip(got[1:], rec['new'][1:]))
                if dm > 1e-12 * max(abs(x) for x in rec['new'][1:]):
                    what = 'model FpNew = exp_symm(dEp) @ FpOld differs from the implementation by %r (model %r, implementation %r)' % (dm, got[1:], rec['new'][1:])
        if what is None:
            w_model = C.dec_floats(re_[1:])[0]
            if not C.close(w_model, rec['W_old'], rtol=1e-9, atol=1e-9 * Y0 * Y0 / E):
                what = 'model energy density %r, implementation %r' % (w_model, rec['W_old'])
        if what:
            mism += 1
            if mism <= 5:
                ctx.fail('correspondence', 'tensor-level finite-deformation model: %s (%s rate=%s, step %d of history %d)' % (what, cfg['law'], cfg['rate'], rec['k'], rec['b']),
                         case=dict(props=P, H=rec['H'], state=rec['state'], dt=rec['dt'], impl_new=rec['new']))
    ctx.count('tensor_finite_comparisons', len(sel))
    ctx.count('tensor_finite_yielding', min(len(yl), ctx.n(40, 400)))
    ctx.count('tensor_finite_near_tie_skipped', skipped)
    ctx.count('tensor_finite_mismatches', mism)
    ctx.count('evaluations', len(sel))


def correspondence(ctx, model_ok):
    cfgs = gen_configs(ctx)
    nb, ns = ctx.n(13, 36), ctx.n(8, 16)
    total = yielding = 0
    distinct = set()
    l1 = []
    hist = {}
    for ci, cfg in enumerate(cfgs):
        recs = run_config(ctx, cfg, nb, ns)
        tag = '%s/%s/%s' % (cfg['kin'], cfg['law'], 'rate' if cfg['rate'] else 'no-rate')
        ny = 0
        for rec in recs:
            total += 1
            d = rec['new'][0] - rec['state'][0]
            if d > 0 or rec['new'][0] != rec['new'][0]:
                ny += 1
                distinct.add((ci, rec['b'], rec['k']))
            for clause, text, sig in concl(cfg, rec, rec['k']):
                case = dict(cfg=dict(kin=cfg['kin'], law=cfg['law'], rate=cfg['rate'], props=cfg['props']), H=rec['H'], dt=rec['dt'], state=rec['state'],
                            new=rec['new'], clause=clause, sig=sig, step=rec['k'])
                ctx.fail('conclusion', '%s [%s] step %d of history %d: %s' % (clause, tag, rec['k'], rec['b'], text), case=case, concrete=True)
            if rec['new'][0] == rec['new'][0]:
                l1.append((cfg, rec))
        hist[tag] = dict(steps=len(recs), yielding=ny)
        yielding += ny
        if ci == 0:
            ctx.sample(dict(config=tag, props=cfg['props'], step=dict(eqps_old=recs[-1]['state'][0], eqps_new=recs[-1]['new'][0], trial_mises=recs[-1]['s'], flow_stress_old=recs[-1]['Yo'])))
    ctx.count('evaluations', total)
    ctx.count('distinct_nontrivial', len(distinct))
    ctx.count('yielding_steps', yielding)
    ctx.count('rate_steps_root_within_one_ulp_of_result', WITHIN_ULP[0])
    ctx.cov['configurations'] = hist
    structure_checks(ctx)
    ctx.log('implementation histories and conclusions done (%d steps)' % total)
    factory_checks(ctx)
    ctx.log('stream factory_history done')
    if not model_ok:
        return
    # ---- L1: regenerated kernels, then the scalar radial-return model against compute_state_new
    kernel_checks(ctx)
    flow_stress_checks(ctx)
    tensor_small_checks(ctx, l1)
    ctx.log('streams kernels, flow_stress, tensor_small done')
    tensor_finite_checks(ctx, l1)
    ctx.log('stream tensor_finite done')
    r = ctx.rng('l1')
    pick = [x for x in l1 if x[1]['new'][0] > x[1]['state'][0]]
    rest = [x for x in l1 if not x[1]['new'][0] > x[1]['state'][0]]
    r.shuffle(pick)
    r.shuffle(rest)
    sel = pick[:ctx.n(220, 1500)] + rest[:ctx.n(60, 300)]
    ex = []
    for cfg, rec in sel:
        P = cfg['props']
        ex.append('enc_delta (delta_eqps %s %s %s %s %s %s)' % (coq_law(P), coq_rate(P), C.cf(rec['mu']), C.cf(rec['s']), C.cf(rec['state'][0]), C.cf(rec['dt'])))
    res = C.coq_eval(IMPORTS, ex, 'C09', shard=100)
    mism = 0
    for (cfg, rec), rr in zip(sel, res):
        d_impl = rec['new'][0] - rec['state'][0]
        tol = 1e-10 * cfg['props']['yield strength']
        marg = abs(rec['s'] - rec['Yo'] - tol)
        if marg < 1e-9 * (abs(rec['s']) + tol):
            ctx.count('near_tie_yield_test_skipped')
            continue
        if rr[0] == 0:
            mism += 1
            ctx.fail('correspondence', 'model update is NaN but the implementation gives Delta eqps = %r (%s)' % (d_impl, cfg['props']), case=dict(props=cfg['props'], s=rec['s'], eo=rec['state'][0], dt=rec['dt']))
            continue
        d_model = C.dec_floats(rr[1:])[0]
        lim = 6 * tol / (3 * rec['mu']) + 1e-8 * abs(d_impl) + 1e-16
        if abs(d_model - d_impl) > lim:
            mism += 1
            if mism <= 10:
                ctx.fail('correspondence', 'model Delta eqps = %r, implementation %r (trial stress %r, flow stress %r, eqps_old %r, dt %r, %s/%s rate=%s)'
                         % (d_model, d_impl, rec['s'], rec['Yo'], rec['state'][0], rec['dt'], cfg['kin'], cfg['law'], cfg['rate']),
                         case=dict(props=cfg['props'], s=rec['s'], eo=rec['state'][0], dt=rec['dt'], model=d_model, impl=d_impl))
    ctx.count('model_vs_impl_comparisons', len(sel))
    ctx.count('model_vs_impl_mismatches', mism)


def search(ctx, reasons):
    import copy
    known = [f for f in C.load_known_findings() if f['property'] == ID and f['status'] == 'open']
    for k in range(2):
        c2 = copy.copy(ctx)
        c2.tier = 'quick'
        c2.failures, c2.counts, c2.cov, c2.samples = [], {}, {}, []
        c2.seed = ctx.seed + 1 + k
        correspondence(c2, False)
        for f in c2.failures:
            if f.get('concrete') and not any(matches_finding(f, kf) for kf in known):
                return f
    return None


def _replay_case(case):
    cfg = case['cfg']
    fac = case.get('factory')
    if fac:
        # a Python-state history: re-create the models of the pair in the recorded order first
        import optimism  # noqa: F401
        from optimism.material import Hardening
        from optimism.material import J2Plastic as J2
        hms = []
        for P in fac['created']:
            J2.create_material_model_functions(P)
            hms.append(Hardening.create_hardening_model(P))
        if case.get('clause') == 'factory_flow_stress':
            P = fac['created'][fac['index']]
            got = float(hms[fac['index']].compute_flow_stress(case['eqps'], case['eqps_old'], case['dt']))
            want = float(ref_flow_stress(P)(case['eqps'], case['eqps_old'], case['dt']))
            bad = [] if C.close(got, want, rtol=1e-11, atol=1e-13 * P['yield strength']) else [('factory_flow_stress', 'flow stress %r, asked for %r' % (got, want), None)]
            return bad, dict(state=[case['eqps_old']], new=[case['eqps']])
    stepf, mm = make_step(cfg)
    import jax.numpy as jnp
    o = stepf(jnp.array([case['H']]), jnp.array([case['state']]), jnp.array([case['dt']]))
    rec = dict(b=0, k=case.get('step', 0), H=case['H'], dt=case['dt'], state=case['state'], new=[float(x) for x in o['new'][0]], new2=[float(x) for x in o['new2'][0]],
               es=[float(x) for x in o['es'][0]], phi=[float(x) for x in o['phi'][0]],
               **{q: float(o[q][0]) for q in ('s', 'Yo', 'Y_ub', 'r_near', 'r_hi', 'r_lo', 'dY_new', 's_new', 'Y_new', 'W_old', 'W_new', 'dP', 'Pn', 'phi_star', 'iso', 'trN', 'NN', 'mu')})
    return concl(cfg, rec, case.get('step', 0)), rec


def finding_fails(ctx, f):
    bad, _ = _replay_case(f['witness'])
    return any(b[0] == f['witness'].get('clause') for b in bad)


def matches_finding(fl, f):
    c = fl.get('case') or {}
    w = f['witness']
    return fl.get('kind') == 'conclusion' and c.get('clause') == w.get('clause') and w.get('sig') is not None and c.get('sig') == w.get('sig')


def replay(ctx, path):
    rep = json.load(open(path))
    case = rep.get('failing_input')
    print('replay of', path)
    print(json.dumps(rep.get('reasons'), indent=1)[:3000])
    if not case or 'cfg' not in case:
        print('no concrete failing input recorded; broken obligations:', rep.get('broken'))
        return 1
    bad, rec = _replay_case(case)
    print('implementation now: eqps %r -> %r;' % (rec['state'][0], rec['new'][0]), [b[:2] for b in bad] or 'all clauses hold')
    return 1 if bad else 0
