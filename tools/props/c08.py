"""C08 -- elastic energies are objective, isotropic and stress-free at rest."""
import contextlib
import io
import json
import math

from vlib import common as C

ID = 'C08'
READY = True
LEVEL_TEXT = ('Partial. Coq theorems over R about the energy kernels re-translated from the source on every run: invariance of '
              'F^T F / det F / F:F under rotations; objectivity and isotropy of both neo-Hookean variants, Gent, linear-elastic with '
              'Green-Lagrange and logarithmic strain, J2 (logarithmic and "seth hill" kinematics, elastic regime), the complete '
              'single-branch AND the complete three-branch (Prony) viscoelastic incremental energies, the phase-field threshold model; '
              'isotropy of the stateful models holds for every admissible internal state (state tensors rotated with the reference '
              'configuration), objectivity for every state; zero rest energy for every model and option; zero rest stress (Coquelicot '
              'derivative along every straight path) for the closed-form models and, under the stated hypotheses that log_sqrt_symm / '
              'pow_symm(., m) are differentiable at the identity with derivative 1/2 sym / m sym (LogSqrtDiffAtId, PowDiffAtId, checked on '
              'the implementation by jax.jvp and difference quotients), for every option that goes through the spectral functions '
              'including J2 "seth hill" and the complete viscoelastic energies; Kirchhoff-stress symmetry as a derivative statement: with '
              'the explicit first Piola-Kirchhoff tensor for both neo-Hookean variants, Gent, the equilibrium viscoelastic energies and '
              'linear-elastic/Green-Lagrange (compared with jax.grad), and FROM OBJECTIVITY (general theorem: rotation-invariant + '
              'differentiable along every curve through H with gradient P => P F^T symmetric) for every model that goes through the '
              'spectral functions (linear-elastic/logarithmic, J2 logarithmic and seth hill with any internal state, undamaged phase '
              'field, complete single- and three-branch viscoelastic energies with any viscous state) under the hypothesis that the '
              'spectral function is Hadamard-differentiable at the one argument it is called on (LogSqrtDiffAt / PowDiffAt, tied by the '
              'stream spec_diff_checks). The hypotheses LogSqrtSpec / PowSpec (equivariance, values at I and 0) are now THEOREMS for the '
              'spectral functions V diag(f(lam)) V^T (lss_spec / pw_spec, tied to TensorMath.log_sqrt_symm / pow_symm with the '
              "implementation's eigen-pairs as oracle) over every eigen-solver that decomposes every symmetric matrix, and such a solver "
              'exists (spectral theorem, proofs/L_C11e.v); the differentiability hypotheses AT THE IDENTITY (LogSqrtDiffAtId, PowDiffAtId) '
              'are theorems for these spectral functions as well (any scalar function with a quadratic expansion at 1; squeeze argument '
              'on the Frobenius norm, independent of how the solver picks eigenvectors): isotropy, rest energies AND zero rest stress hold '
              'unconditionally for lss_R / pw_R. NOT proved: the differentiability hypotheses of the Kirchhoff theorems at a general SPD '
              'argument (Daleckii-Krein) for the spectral functions; Kirchhoff '
              'symmetry of the damaged phase-field model (kink of the volumetric split at det F = 1); that eigen_sym33_unit meets the '
              'eigen-solver contract in binary64 (C12) -- these are tested on the implementation (L2).  The L2 invariance streams evaluate '
              'single compiled calls AND compiled batches jit(vmap); states with two or three equal principal stretches (also as loading '
              'steps of the state updates) are checked inside batches at the same tolerance as everywhere else: the findings EIGVMAP / '
              'EIGVMAP-SH (batched eigen_sym33_unit lost orthogonality at double eigenvalues) were repaired in /repo e63b801, no longer '
              'excuse anything, and their witnesses are replayed (batch vs single compiled call, rotated orbit) on every run.')
TECHNIQUE = 'Coq proof (Reals + Coquelicot + nsatz) over kernels regenerated from the Python AST; vm_compute/PrimFloat correspondence'
GEN = ['Math', 'TensorMath', 'LinearElastic', 'Neohookean', 'Gent', 'J2Elastic', 'HyperViscoelastic', 'MultiBranchHyperViscoelastic',
       'PhaseFieldThreshold']
TARGETS = ['model/M_C08.vo', 'model/M_C08b.vo', 'model/M_C08s.vo', 'proofs/L_C08.vo', 'proofs/L_C08b.vo', 'proofs/L_C08c.vo', 'proofs/L_C08d.vo',
           'proofs/L_C08e.vo', 'proofs/L_C08s.vo', 'proofs/L_C08t.vo']
COQ_FILES = ['base/Num.v', 'model/M_C08.v', 'model/M_C08b.v', 'model/M_C08s.v', 'model/M_C11s.v', 'proofs/L_C08.v', 'proofs/L_C08b.v', 'proofs/L_C08c.v',
             'proofs/L_C08d.v', 'proofs/L_C08e.v', 'proofs/L_C08s.v', 'proofs/L_C08t.v', 'proofs/L_C11s.v', 'proofs/L_C11t.v', 'proofs/L_C11e.v', 'proofs/L_C11u.v',
             'props/P_C08.v']
BUILD_TIMEOUT = 1500
TRUSTED = ['Coq 8.16.1 kernel + vm_compute (no native_compute)',
           'tools/vlib/py2coq.py translator (Python ast -> Gallina over Num T; np.linalg.det/inv on 3x3 modelled by cofactor formulas), '
           'cross-checked by running every generated energy at binary64 against the implementation',
           'model/M_C08.v: the two-line closures of the material factories (strain = _strain(H); energy(strain, props)) and the unrolled '
           '3-branch loop are composed by hand from generated kernels; tied by the same correspondence',
           'model/M_C08s.v pw_spec and model/M_C11s.v lss_spec (V diag(f(lam)) V^T) stand for TensorMath.pow_symm / log_sqrt_symm: tied by the stream '
           'l1_spectral (binary64 evaluation inside Coq with the eigen-pairs of eigen_sym33_unit as oracle, rtol 1e-11)',
           'correspondence harness: float<->(mantissa,exponent) exchange; tolerance rtol 1e-9 (model-side exp/ln are 1e-15 approximations)',
           'theorems are over exact reals; binary64 rounding is covered only by the correspondence and the conclusion checks']
ASSUMPTIONS = ['exact real arithmetic in theorems',
               'LogSqrtSpec: TensorMath.log_sqrt_symm is equivariant under rotations on symmetric arguments and vanishes at the identity',
               'LogSqrtDiffAtId: for every differentiable curve C of symmetric matrices with C(0) = I, t -> log_sqrt_symm(C(t)) is differentiable at 0 '
               'with derivative C\'(0)/2 (differentiability of log_sqrt_symm at the identity with derivative 1/2 sym); tied to the implementation by '
               'the stream lss_derivative_checks (jax.jvp at I = X/2 exactly to rounding; difference quotients along (I+hD)^T(I+hD) converge at rate h)',
               'PowDiffAtId: for every m and every differentiable curve C of symmetric matrices with C(0) = I, t -> pow_symm(C(t), m) is differentiable at 0 with '
               'derivative m C\'(0); tied by the stream pow_derivative_checks (jax.jvp at I = m X to rounding for m in {1/4, 1/2, -1, 2}; difference quotients)',
               'LogSqrtDiffAt lss C0 L / PowDiffAt pw m C0 L (Kirchhoff theorems of the spectral models): L is linear and for every differentiable curve C of symmetric '
               'matrices with C(0) = C0, t -> lss(C(t)) is differentiable at 0 with derivative L(C\'(0)) (Hadamard differentiability at C0 = F^T F or (F Fv^-1)^T (F Fv^-1)); '
               'tied by the stream spec_diff_checks (jax.jvp of log_sqrt_symm / pow_symm(., 1/4) at C0 is linear and equals the central difference quotient along the '
               'curve (F + hD)^T (F + hD), including doubly and triply degenerate C0)',
               'solver_ok eigh (theorems C08_*_of_spectral_function): eigh returns V, lam with V^T V = V V^T = I and V diag(lam) V^T = A for every symmetric A; '
               'discharged in exact arithmetic by eigh_sym (proofs/L_C11e.v); for TensorMath.eigen_sym33_unit in binary64 it is measured by C11/C12',
               'Gent Kirchhoff theorem: inside the limiting-extensibility domain 1 - (I1bar - 3)/Jm > 0, Jm != 0',
               'PowSpec (J2 seth hill): pow_symm is equivariant under rotations on symmetric arguments, pow(I,m)=I (and pow(0,m)=0 for the F4 regression witness)',
               'rotation Q is stated as Q^T Q = Q Q^T = I, det Q = 1 (the two orthogonality equations are equivalent for square matrices)',
               'J2 and viscoelastic models: elastic regime / virgin internal state as stated in each theorem; dt > 0, tau > 0; det F > 0 where ln/pow of J occurs',
               'jax.grad of the primitives used is the derivative (conclusion checks on stresses)']
RULE = ('factory histories: for every factory and option, model 1 is created, the caller\'s dictionary is edited and model 2 created, then both are '
        'evaluated for the first time and compared with freshly created models on private copies + objectivity/isotropy/rest predicates; '
        'inputs: seeded displacement gradients H = R1 diag(stretches) R2 - I with strain magnitude over 1e-6..0.5 (several decades), '
        'principal stretches distinct / two equal / three equal (dilation) / uniaxial along an in-plane axis / in-plane block form '
        '(none of them skipped or down-weighted in compiled batches), '
        'det F > 0; rotations from random unit quaternions and in-plane rotations; a case is non-trivial when H != 0 and the rotation '
        'is not the identity; distinct = distinct (model, H, Q) tuples')
IMPORTS = ['From OV.gen Require Import Gen_TensorMath Gen_LinearElastic Gen_Neohookean Gen_Gent Gen_J2Elastic Gen_HyperViscoelastic '
           'Gen_MultiBranchHyperViscoelastic Gen_PhaseFieldThreshold.',
           'From OV.model Require Import M_C08 M_C08b M_C11s M_C08s.']

E_MOD, NU = 10.0, 0.25
KAPPA = E_MOD / 3.0 / (1.0 - 2.0 * NU)
MU = 0.5 * E_MOD / (1.0 + NU)
LAM = E_MOD * NU / (1 + NU) / (1 - 2 * NU)
HV_PROPS = (8.0, 1.5, 3.0, 0.7)
MB_PROPS = (8.0, 1.5, 3.0, 0.7, 2.0, 7.0, 1.0, 70.0)
GENT_PROPS = (8.0, 1.5, 30.0)
PF_PROPS = (E_MOD, NU, MU, KAPPA, 0.3, 0.05)
DT = 0.3


# ----------------------------------------------------------------------------- linear algebra helpers (plain python)

def mm(A, B):
    return [[sum(A[i][k] * B[k][j] for k in range(3)) for j in range(3)] for i in range(3)]


def tr(A):
    return [[A[j][i] for j in range(3)] for i in range(3)]


def ident():
    return [[1.0 if i == j else 0.0 for j in range(3)] for i in range(3)]


def sub(A, B):
    return [[A[i][j] - B[i][j] for j in range(3)] for i in range(3)]


def det3(A):
    return (A[0][0] * (A[1][1] * A[2][2] - A[1][2] * A[2][1]) - A[0][1] * (A[1][0] * A[2][2] - A[1][2] * A[2][0])
            + A[0][2] * (A[1][0] * A[2][1] - A[1][1] * A[2][0]))


def fro(A):
    return math.sqrt(sum(x * x for r in A for x in r))


def quat_rot(r, inplane=False):
    if inplane:
        t = r.uniform(0, 2 * math.pi)
        c, s = math.cos(t), math.sin(t)
        return [[c, -s, 0.0], [s, c, 0.0], [0.0, 0.0, 1.0]]
    while True:
        q = [r.gauss(0, 1) for _ in range(4)]
        n = math.sqrt(sum(x * x for x in q))
        if n > 1e-3:
            break
    w, x, y, z = [v / n for v in q]
    return [[1 - 2 * (y * y + z * z), 2 * (x * y - z * w), 2 * (x * z + y * w)],
            [2 * (x * y + z * w), 1 - 2 * (x * x + z * z), 2 * (y * z - x * w)],
            [2 * (x * z - y * w), 2 * (y * z + x * w), 1 - 2 * (x * x + y * y)]]


def gen_H(r):
    """-> (H, kind).  F = R1 diag(l) R2 with det > 0"""
    s = 10.0 ** r.uniform(-6, -0.3)
    kind = r.choice(['generic', 'two_equal', 'dilation', 'uniaxial_inplane', 'inplane_block', 'equibiaxial', 'generic'])
    e = [s * r.uniform(-1, 1) for _ in range(3)]
    inplane = kind in ('uniaxial_inplane', 'inplane_block', 'equibiaxial')
    if kind == 'two_equal':
        e[1] = e[0]
    elif kind == 'dilation':
        e[1] = e[2] = e[0]
    elif kind == 'uniaxial_inplane':
        e[1] = e[2] = 0.0
    elif kind == 'equibiaxial':
        e[1] = e[0]
        e[2] = 0.0
    lam = [[1.0 + e[0], 0, 0], [0, 1.0 + e[1], 0], [0, 0, 1.0 + e[2]]]
    R1 = quat_rot(r, inplane)
    R2 = tr(R1) if (kind in ('two_equal', 'dilation', 'uniaxial_inplane', 'equibiaxial') and r.random() < 0.7) else quat_rot(r, inplane)
    F = mm(R1, mm(lam, R2))
    H = sub(F, ident())
    if kind in ('uniaxial_inplane', 'equibiaxial', 'inplane_block'):
        for i in range(3):
            for j in range(3):
                if (i == 2) != (j == 2):
                    H[i][j] = 0.0
        if kind != 'inplane_block':
            H[2][2] = 0.0
    return H, kind


def rotL(Q, H):
    F = [[H[i][j] + (1.0 if i == j else 0.0) for j in range(3)] for i in range(3)]
    return sub(mm(Q, F), ident())


def rotR(Q, H):
    F = [[H[i][j] + (1.0 if i == j else 0.0) for j in range(3)] for i in range(3)]
    return sub(mm(F, Q), ident())


# ----------------------------------------------------------------------------- the implementation's models

_MODELS = None


def models():
    """name -> dict(energy=f(H) for the virgin state, finite=bool, scale=modulus, extra...)"""
    global _MODELS
    if _MODELS is not None:
        return _MODELS
    import jax.numpy as np
    import optimism  # noqa: F401
    from optimism.material import LinearElastic, Neohookean, Gent, J2Plastic, HyperViscoelastic, MultiBranchHyperViscoelastic
    from optimism.phasefield import PhaseFieldThreshold
    out = {}
    with contextlib.redirect_stdout(io.StringIO()):
        for sm in ('linear', 'green lagrange', 'logarithmic'):
            m = LinearElastic.create_material_model_functions({'elastic modulus': E_MOD, 'poisson ratio': NU, 'strain measure': sm})
            st = m.compute_initial_state()
            out['LinearElastic/' + sm] = dict(f=(lambda H, m=m, st=st: m.compute_energy_density(H, st, DT)), finite=(sm != 'linear'))
        for ver in ('adagio', 'coupled'):
            m = Neohookean.create_material_model_functions({'elastic modulus': E_MOD, 'poisson ratio': NU, 'version': ver})
            st = m.compute_initial_state()
            out['Neohookean/' + ver] = dict(f=(lambda H, m=m, st=st: m.compute_energy_density(H, st, DT)), finite=True)
        m = Gent.create_material_functions({'bulk modulus': GENT_PROPS[0], 'shear modulus': GENT_PROPS[1], 'Jm parameter': GENT_PROPS[2]})
        st = m.compute_initial_state()
        out['Gent'] = dict(f=(lambda H, m=m, st=st: m.compute_energy_density(H, st, DT)), finite=True)
        for kin in ('large deformations', 'small deformations', 'seth hill'):
            m = J2Plastic.create_material_model_functions({'elastic modulus': E_MOD, 'poisson ratio': NU, 'yield strength': 1e9,
                                                           'hardening model': 'linear', 'hardening modulus': 1.0, 'kinematics': kin})
            st = np.ravel(m.compute_initial_state())
            out['J2Plastic/' + kin] = dict(f=(lambda H, m=m, st=st: m.compute_energy_density(H, st, DT)), finite=(kin != 'small deformations'),
                                           model=m)
        for kin in ('large deformations', 'seth hill'):
            m = J2Plastic.create_material_model_functions({'elastic modulus': E_MOD, 'poisson ratio': NU, 'yield strength': 0.02 * E_MOD,
                                                           'hardening model': 'linear', 'hardening modulus': 0.1 * E_MOD, 'kinematics': kin})
            out['J2Plastic/' + kin]['yielding'] = m
        m = HyperViscoelastic.create_material_model_functions({'equilibrium bulk modulus': HV_PROPS[0], 'equilibrium shear modulus': HV_PROPS[1],
                                                               'non equilibrium shear modulus': HV_PROPS[2], 'relaxation time': HV_PROPS[3]})
        st = m.compute_initial_state()
        out['HyperViscoelastic'] = dict(f=(lambda H, m=m, st=st: m.compute_energy_density(H, st, DT)), finite=True, model=m)
        mbp = {'equilibrium bulk modulus': MB_PROPS[0], 'equilibrium shear modulus': MB_PROPS[1]}
        for b in range(3):
            mbp['non equilibrium shear modulus %d' % (b + 1)] = MB_PROPS[2 + 2 * b]
            mbp['relaxation time %d' % (b + 1)] = MB_PROPS[3 + 2 * b]
        m = MultiBranchHyperViscoelastic.create_material_model_functions(mbp)
        st = m.compute_initial_state()
        out['MultiBranchHyperViscoelastic'] = dict(f=(lambda H, m=m, st=st: m.compute_energy_density(H, st, DT)), finite=True, model=m)
        for kin in ('large deformations', 'small deformations'):
            m = PhaseFieldThreshold.create_material_model_functions({'elastic modulus': E_MOD, 'poisson ratio': NU,
                                                                     'critical energy release rate': PF_PROPS[4],
                                                                     'regularization length': PF_PROPS[5], 'kinematics': kin})
            st = m.compute_initial_state()
            out['PhaseFieldThreshold/' + kin] = dict(
                f=(lambda H, m=m, st=st: m.compute_energy_density(H, 0.0, np.zeros(3), st, DT)),
                fpf=(lambda H, ph, g, m=m, st=st: m.compute_energy_density(H, ph, g, st, DT)), finite=(kin == 'large deformations'))
    import jax
    for md in out.values():
        md['jf'] = jax.jit(md['f'])
        md['jg'] = jax.jit(jax.grad(md['f']))
        if 'fpf' in md:
            md['jfpf'] = jax.jit(md['fpf'])
        if 'model' in md:
            md['jm'] = jax.jit(md['model'].compute_energy_density)
    _MODELS = out
    return out


def tol_energy(H, e):
    # det/ln of J ~ 1 carry an ABSOLUTE rounding error of a few ulp(1), i.e. modulus * 1e-15 in the energy, whatever the strain
    s = fro(H)
    return 1.6e-14 * 4 * E_MOD * (1 + s) ** 2 + 2e-12 * abs(e)


# ----------------------------------------------------------------------------- L2: conclusions on the implementation

def check_rest(ctx, names=None):
    """rest-state energy and stress of every model/option; returns list of failure dicts (not yet reported)"""
    import jax
    import jax.numpy as np
    import numpy as onp
    fails = []
    H0 = np.zeros((3, 3))
    for name, md in models().items():
        if names and name not in names:
            continue
        e = float(md['jf'](H0))
        g = onp.array(md['jg'](H0))
        ctx.count('rest_checks', 2)
        if not abs(e) <= 1e-13 * E_MOD:
            fails.append(dict(kind='conclusion', what='%s: undeformed virgin state has energy %r (must be 0)' % (name, e),
                              case=dict(model=name, check='rest_energy', H=[[0.0] * 3] * 3, value=e), concrete=True))
        if not (onp.all(onp.isfinite(g)) and float(onp.max(onp.abs(g))) <= 1e-13 * E_MOD):
            fails.append(dict(kind='conclusion', what='%s: undeformed virgin state has stress %r (must be 0)' % (name, g.ravel().tolist()),
                              case=dict(model=name, check='rest_stress', H=[[0.0] * 3] * 3, value=[float(x) for x in g.ravel()]), concrete=True))
    return fails


def l2_cases(ctx, n):
    r = ctx.rng('l2')
    cases = []
    for _ in range(n):
        H, kind = gen_H(r)
        Q = quat_rot(r, inplane=(r.random() < 0.3))
        cases.append((H, kind, Q))
    return cases


def check_invariance(ctx, cases, batch):
    """objectivity, isotropy, Kirchhoff-stress symmetry on the implementation; single calls or one vmap+jit batch"""
    import jax
    import jax.numpy as np
    import numpy as onp
    fails = []
    Hs = np.array([c[0] for c in cases])
    HL = np.array([rotL(c[2], c[0]) for c in cases])
    HR = np.array([rotR(c[2], c[0]) for c in cases])
    for name, md in models().items():
        if not md['finite']:
            continue
        f = md['f']
        if batch:
            vf = jax.jit(jax.vmap(f))
            e0, eL, eR = onp.array(vf(Hs)), onp.array(vf(HL)), onp.array(vf(HR))
            P = onp.array(jax.jit(jax.vmap(jax.grad(f)))(Hs))
        else:
            e0 = onp.array([float(md['jf'](h)) for h in Hs])      # one compiled call per evaluation
            eL = onp.array([float(md['jf'](h)) for h in HL])
            eR = onp.array([float(md['jf'](h)) for h in HR])
            P = onp.array([onp.array(md['jg'](h)) for h in Hs])
        for i, (H, kind, Q) in enumerate(cases):
            t = tol_energy(H, e0[i])
            ctx.count('invariance_checks', 3)
            for lab, ev, Hx in (('superposed rotation (objectivity)', eL[i], HL[i]), ('rotation of the reference (isotropy)', eR[i], HR[i])):
                if not abs(ev - e0[i]) <= t:
                    fails.append(dict(kind='conclusion', concrete=True,
                                      what='%s [%s, %s]: energy changes under a %s: %r -> %r (tol %.3g)' % (name, kind, 'vmap+jit' if batch else 'single', lab, float(e0[i]), float(ev), t),
                                      case=dict(model=name, check='objectivity' if 'super' in lab else 'isotropy', H=H, Q=Q, batch=batch,
                                                e0=float(e0[i]), e1=float(ev))))
            F = onp.array(H) + onp.eye(3)
            tau = P[i] @ F.T
            asym = float(onp.max(onp.abs(tau - tau.T)))
            s = fro(H)
            if not asym <= 1e-13 * 4 * E_MOD * (1 + s) ** 2:
                fails.append(dict(kind='conclusion', concrete=True,
                                  what='%s [%s]: Kirchhoff stress dW/dH F^T is not symmetric: max asymmetry %.3g' % (name, kind, asym),
                                  case=dict(model=name, check='kirchhoff', H=H, Q=Q, batch=batch, value=asym)))
    return fails


STATEFUL = ('J2Plastic/large deformations', 'J2Plastic/seth hill', 'HyperViscoelastic', 'MultiBranchHyperViscoelastic')


def rot_state(name, st, Q):
    """internal state of `name` after a rotation Q of the reference configuration (tensors T -> Q^T T Q, scalars unchanged)"""
    import numpy as onp
    st = onp.array(st, dtype=float)
    Qn = onp.array(Q)
    rt = lambda T: (Qn.T @ T.reshape(3, 3) @ Qn).ravel()
    if name.startswith('J2Plastic'):
        return onp.hstack((st[0], rt(st[1:10])))
    return onp.hstack([rt(st[9 * b:9 * b + 9]) for b in range(len(st) // 9)])


def check_state_invariance(ctx, cases, batch):
    """the elastic regime of the plastic and viscous models with NON-VIRGIN internal states: (i) random admissible states,
    (ii) states produced by the model's own compute_state_new along a non-coaxial loading step.  Objectivity (state unchanged),
    isotropy (state rotated with the reference), Kirchhoff-stress symmetry, and rotation-independence of the state update."""
    import jax
    import jax.numpy as np
    import numpy as onp
    fails = []
    r = ctx.rng('state' + ('b' if batch else 's'))
    M = models()
    for name in STATEFUL:
        md = M[name]
        m = md['model']
        en = m.compute_energy_density
        upd = md.get('yielding', m).compute_state_new
        Hs, Qs, H1s, sts, kinds = [], [], [], [], []
        for (H, kind, Q) in cases:
            G, _ = gen_H(r)
            sc = 0.25 * r.uniform(0.05, 1) / max(fro(G), 1e-30)
            T = onp.eye(3) + sc * onp.array(G)
            if name.startswith('J2Plastic'):
                T = T / onp.cbrt(onp.linalg.det(T)) if 'large' in name else 0.5 * (T + T.T) - onp.eye(3)
                st = onp.hstack((r.uniform(0, 0.1), T.ravel()))
            elif name == 'HyperViscoelastic':
                st = (T / onp.cbrt(onp.linalg.det(T))).ravel()
            else:
                G2, _ = gen_H(r)
                T2 = onp.eye(3) + 0.2 * onp.array(G2) / max(fro(G2), 1e-30)
                st = onp.hstack(((T / onp.cbrt(onp.linalg.det(T))).ravel(), onp.eye(3).ravel(), (T2 / onp.cbrt(onp.linalg.det(T2))).ravel()))
            # the loading step: every deformation kind, INCLUDING two / three equal principal stretches (until /repo e63b801 such steps
            # were redrawn because of the then open finding EIGVMAP; they are now checked at the normal tolerance)
            H1, k1 = gen_H(r)
            ctx.count('state_update_loading_step_%s' % ('degenerate' if stretch_gap(H1) <= 1e-9 else 'distinct'))
            H1 = (onp.array(H1) * (0.15 / max(fro(H1), 1e-30) if fro(H1) < 0.15 else 1.0)).tolist()     # a loading step that does something
            Hs.append(H); Qs.append(Q); H1s.append(H1); sts.append(st); kinds.append(kind)
        Hs_, H1s_, sts_ = np.array(Hs), np.array(H1s), np.array(sts)
        HL = np.array([rotL(q, h) for q, h in zip(Qs, Hs)])
        HR = np.array([rotR(q, h) for q, h in zip(Qs, Hs)])
        H1L = np.array([rotL(q, h) for q, h in zip(Qs, H1s)])
        stR = np.array([rot_state(name, st, q) for st, q in zip(sts, Qs)])
        st0 = np.array([onp.ravel(onp.array(m.compute_initial_state())) for _ in cases])
        if batch:
            ev = jax.jit(jax.vmap(lambda h, st: en(h, st, DT)))
            gv = jax.jit(jax.vmap(jax.grad(lambda h, st: en(h, st, DT))))
            uv = jax.jit(jax.vmap(lambda h, st: upd(h, st, DT)))
        else:
            e1, g1, u1 = jax.jit(lambda h, st: en(h, st, DT)), jax.jit(jax.grad(lambda h, st: en(h, st, DT))), jax.jit(lambda h, st: upd(h, st, DT))
            ev = lambda A, B: np.array([e1(a, b) for a, b in zip(A, B)])
            gv = lambda A, B: np.array([g1(a, b) for a, b in zip(A, B)])
            uv = lambda A, B: np.array([u1(a, b) for a, b in zip(A, B)])
        # (ii) states from a loading step, and the same step seen by a rotated observer
        stH = uv(H1s_, st0)
        stHL = uv(H1L, st0)
        for label, S, SR in (('random state', sts_, stR), ('state after a non-coaxial loading step', stH, None)):
            if SR is None:
                SR = np.array([rot_state(name, st, q) for st, q in zip(onp.array(S), Qs)])
            e0, eL, eR = onp.array(ev(Hs_, S)), onp.array(ev(HL, S)), onp.array(ev(HR, SR))
            P = onp.array(gv(Hs_, S))
            for i in range(len(cases)):
                t = 4 * tol_energy(Hs[i], e0[i])
                ctx.count('invariance_checks', 3)
                base = dict(model=name, H=Hs[i], Q=Qs[i], batch=batch, state=[float(x) for x in onp.array(S[i])], state_kind=label)
                for lab, evv in (('objectivity', eL[i]), ('isotropy', eR[i])):
                    if not abs(evv - e0[i]) <= t:
                        fails.append(dict(kind='conclusion', concrete=True,
                                          what='%s [%s, %s, %s]: %s violated with a non-virgin internal state: energy %r -> %r (tol %.3g)'
                                          % (name, kinds[i], label, 'vmap+jit' if batch else 'single', lab, float(e0[i]), float(evv), t),
                                          case=dict(base, check=lab, e0=float(e0[i]), e1=float(evv))))
                F = onp.array(Hs[i]) + onp.eye(3)
                tau = P[i] @ F.T
                asym = float(onp.max(onp.abs(tau - tau.T)))
                if not asym <= 4e-13 * 4 * E_MOD * (1 + fro(Hs[i])) ** 2:
                    fails.append(dict(kind='conclusion', concrete=True,
                                      what='%s [%s, %s]: Kirchhoff stress not symmetric with a non-virgin state: max asymmetry %.3g' % (name, kinds[i], label, asym),
                                      case=dict(base, check='kirchhoff', value=asym)))
        # the updated (reference-configuration) state must not depend on the observer
        dS = onp.abs(onp.array(stH) - onp.array(stHL)).max(axis=1)
        for i in range(len(cases)):
            ctx.count('invariance_checks')
            if not dS[i] <= 1e-10:
                fails.append(dict(kind='conclusion', concrete=True,
                                  what='%s: compute_state_new depends on a superposed rotation of the loading step: max state difference %.3g' % (name, float(dS[i])),
                                  case=dict(model=name, check='objectivity', state_update=True, H=H1s[i], Q=Qs[i], batch=batch, e0=0.0, e1=float(dS[i]))))
    return fails



def check_pf_gradient(ctx, cases):
    """phase field with non-zero phase and reference gradient: objectivity (g fixed) and isotropy (g -> Q^T g)"""
    import jax.numpy as np
    fails = []
    r = ctx.rng('pf')
    md = models()['PhaseFieldThreshold/large deformations']
    for (H, kind, Q) in cases:
        ph = r.uniform(0, 0.9)
        g = [r.uniform(-1, 1) for _ in range(3)]
        gq = [sum(Q[i][j] * g[i] for i in range(3)) for j in range(3)]
        e0 = float(md['jfpf'](np.array(H), ph, np.array(g)))
        eL = float(md['jfpf'](np.array(rotL(Q, H)), ph, np.array(g)))
        eR = float(md['jfpf'](np.array(rotR(Q, H)), ph, np.array(gq)))
        t = tol_energy(H, e0)
        ctx.count('invariance_checks', 2)
        for lab, ev in (('objectivity', eL), ('isotropy', eR)):
            if not abs(ev - e0) <= t:
                fails.append(dict(kind='conclusion', concrete=True,
                                  what='PhaseFieldThreshold with phase=%r grad=%r: %s violated: %r -> %r' % (ph, g, lab, e0, ev),
                                  case=dict(model='PhaseFieldThreshold/large deformations', check=lab, H=H, Q=Q, phase=ph, grad=g, e0=e0, e1=ev)))
    return fails


def check_lss_derivative(ctx, n):
    """tie of the hypotheses LogSqrtSpec.lss_identity and LogSqrtDiffAtId (coq/proofs/L_C08c.v) to TensorMath.log_sqrt_symm:
    value 0 at I; jax.jvp at I in a symmetric direction X is X/2; the difference quotient along the curve C(h) = (I+hD)^T (I+hD)
    (the curve used by the rest-stress theorems) tends to (D+D^T)/2 at rate h."""
    import jax
    import jax.numpy as np
    import numpy as onp
    from optimism import TensorMath
    fails = []
    r = ctx.rng('lssd')
    lss = jax.jit(TensorMath.log_sqrt_symm)
    jvp = jax.jit(lambda X: jax.jvp(TensorMath.log_sqrt_symm, (np.eye(3),), (X,)))
    for _ in range(n):
        D = onp.array([[r.uniform(-1, 1) for _ in range(3)] for _ in range(3)])
        X = D + D.T
        y, dy = jvp(np.array(X))
        e0 = float(onp.abs(onp.array(y)).max())
        e1 = float(onp.abs(onp.array(dy) - 0.5 * X).max())
        ctx.count('lss_derivative_checks', 2)
        if not (e0 <= 1e-15 and e1 <= 1e-13):
            fails.append(dict(kind='conclusion', concrete=True,
                              what='log_sqrt_symm at the identity: value %.3g (must be 0), jvp differs from X/2 by %.3g' % (e0, e1),
                              case=dict(model='TensorMath.log_sqrt_symm', check='lss_derivative', D=D.tolist(), value=[e0, e1])))
        errs = []
        for h in (1e-3, 1e-5):
            F = onp.eye(3) + h * D
            q = onp.array(lss(np.array(F.T @ F))) / h
            errs.append(float(onp.abs(q - 0.5 * X).max()))
            ctx.count('lss_derivative_checks')
        nd = float(onp.abs(D).max()) ** 2 + 1e-3
        if not (errs[0] <= 20 * 1e-3 * nd and errs[1] <= 20 * 1e-5 * nd + 1e-9):
            fails.append(dict(kind='conclusion', concrete=True,
                              what='log_sqrt_symm: difference quotient along (I+hD)^T(I+hD) does not tend to (D+D^T)/2: errors %r at h=1e-3,1e-5' % errs,
                              case=dict(model='TensorMath.log_sqrt_symm', check='lss_derivative', D=D.tolist(), value=errs)))
    return fails


POW_EXPONENTS = (0.25, 0.5, -1.0, 2.0)
_JITD = {}


def check_pow_derivative(ctx, n):
    """tie of PowSpec.pw_identity and PowDiffAtId (coq/proofs/L_C08d.v) to TensorMath.pow_symm: value I at I; jax.jvp at I in a
    symmetric direction X is m X; the difference quotient along C(h) = (I+hD)^T (I+hD) (the curve of C08_rest_stress_j2_seth_hill)
    tends to m (D+D^T) at rate h.  m = 1/4 is the Seth-Hill exponent of J2Plastic; the other exponents exercise the 'for every m'."""
    import jax
    import jax.numpy as np
    import numpy as onp
    from optimism import TensorMath
    fails = []
    r = ctx.rng('powd')
    for m in POW_EXPONENTS:
        if ('pow', m) not in _JITD:
            _JITD[('pow', m)] = (jax.jit(lambda A, m=m: TensorMath.pow_symm(A, m)),
                                 jax.jit(lambda X, m=m: jax.jvp(lambda A: TensorMath.pow_symm(A, m), (np.eye(3),), (X,))))
    for k in range(n):
        m = POW_EXPONENTS[k % len(POW_EXPONENTS)]
        pw, jvp = _JITD[('pow', m)]
        D = onp.array([[r.uniform(-1, 1) for _ in range(3)] for _ in range(3)])
        X = D + D.T
        y, dy = jvp(np.array(X))
        e0 = float(onp.abs(onp.array(y) - onp.eye(3)).max())
        e1 = float(onp.abs(onp.array(dy) - m * X).max())
        ctx.count('pow_derivative_checks', 2)
        if not (e0 <= 1e-15 and e1 <= 1e-13 * max(1.0, abs(m))):
            fails.append(dict(kind='conclusion', concrete=True,
                              what='pow_symm(., %r) at the identity: value differs from I by %.3g, jvp differs from m X by %.3g' % (m, e0, e1),
                              case=dict(model='TensorMath.pow_symm', check='pow_derivative', m=m, D=D.tolist(), value=[e0, e1])))
        errs = []
        for h in (1e-3, 1e-5):
            F = onp.eye(3) + h * D
            q = (onp.array(pw(np.array(F.T @ F))) - onp.eye(3)) / h
            errs.append(float(onp.abs(q - m * X).max()))
            ctx.count('pow_derivative_checks')
        nd = (float(onp.abs(D).max()) ** 2 + 1e-3) * max(1.0, abs(m)) * (1 + abs(m))
        if not (errs[0] <= 30 * 1e-3 * nd and errs[1] <= 30 * 1e-5 * nd + 1e-9):
            fails.append(dict(kind='conclusion', concrete=True,
                              what='pow_symm(., %r): difference quotient along (I+hD)^T(I+hD) does not tend to m (D+D^T): errors %r at h=1e-3,1e-5' % (m, errs),
                              case=dict(model='TensorMath.pow_symm', check='pow_derivative', m=m, D=D.tolist(), value=errs)))
    return fails


def check_spec_diff(ctx, cases):
    """tie of the hypotheses LogSqrtDiffAt / PowDiffAt (coq/proofs/L_C08e.v: Hadamard differentiability of the spectral function at the
    argument it is called on) to TensorMath.log_sqrt_symm and pow_symm(., 1/4): at C0 = Fe^T Fe (Fe = F for the virgin state, F Fv^-1 with
    a random viscous/plastic distortion otherwise; all deformation kinds incl. two and three equal principal stretches) the implementation's
    derivative L = jax.jvp at C0 (i) is linear and (ii) equals the central difference quotient of the function along the symmetric curve
    C(h) = (Fe + hD)^T (Fe + hD) through C0, whose tangent is Fe^T D + D^T Fe -- the curve of the Kirchhoff theorems."""
    import jax
    import jax.numpy as np
    import numpy as onp
    from optimism import TensorMath
    fails = []
    r = ctx.rng('specd')
    if 'spec' not in _JITD:
        fl = TensorMath.log_sqrt_symm
        fp = lambda A: TensorMath.pow_symm(A, 0.25)
        _JITD['spec'] = [(name, jax.jit(f), jax.jit(lambda A, X, f=f: jax.jvp(f, (A,), (X,))[1]))
                         for name, f in (('TensorMath.log_sqrt_symm', fl), ('TensorMath.pow_symm(.,1/4)', fp))]
    worst = 0.0
    for k, (H, kind, Q) in enumerate(cases):
        if isinstance(kind, dict):                   # replay of a stored failing input: the very same Fe and direction
            Fe, D, kind = onp.array(kind['Fe']), onp.array(kind['D']), 'replay'
        else:
            Fe = onp.array(H) + onp.eye(3)
            if k % 2:
                G, _ = gen_H(r)
                T = onp.eye(3) + 0.2 * r.uniform(0.05, 1) * onp.array(G) / max(fro(G), 1e-30)
                Fe = Fe @ onp.linalg.inv(T / onp.cbrt(onp.linalg.det(T)))
            D = onp.array([[r.uniform(-1, 1) for _ in range(3)] for _ in range(3)])
        C0 = Fe.T @ Fe
        D2 = onp.array([[r.uniform(-1, 1) for _ in range(3)] for _ in range(3)])
        X, Y = Fe.T @ D + D.T @ Fe, Fe.T @ D2 + D2.T @ Fe
        a, b = r.uniform(-2, 2), r.uniform(-2, 2)
        h = 1e-5
        Cp, Cm = (Fe + h * D).T @ (Fe + h * D), (Fe - h * D).T @ (Fe - h * D)
        ctx.count('spec_diff_%s' % ('virgin' if k % 2 == 0 else 'with_state'))
        for name, f, jv in _JITD['spec']:
            LX, LY = onp.array(jv(np.array(C0), np.array(X))), onp.array(jv(np.array(C0), np.array(Y)))
            LXY = onp.array(jv(np.array(C0), np.array(a * X + b * Y)))
            sc = max(1.0, float(onp.abs(LX).max()), float(onp.abs(LY).max()))
            e_lin = float(onp.abs(LXY - a * LX - b * LY).max()) / sc
            q = (onp.array(f(np.array(Cp))) - onp.array(f(np.array(Cm)))) / (2 * h)
            e_dq = float(onp.abs(q - LX).max()) / sc
            worst = max(worst, e_dq)
            ctx.count('spec_diff_checks', 2)
            if not (onp.isfinite(LX).all() and e_lin <= 1e-12 and e_dq <= 2e-8):
                fails.append(dict(kind='conclusion', concrete=True,
                                  what='%s at C0 = Fe^T Fe [%s]: jax.jvp is not the derivative along the symmetric curve (Fe+hD)^T(Fe+hD): linearity defect %.3g, '
                                       'jvp vs central difference quotient %.3g (relative)' % (name, kind, e_lin, e_dq),
                                  case=dict(model=name, check='spec_diff', H=H, Q=Q, Fe=Fe.tolist(), D=D.tolist(), value=[e_lin, e_dq])))
    ctx.cov['spec_diff_worst_quotient_error'] = worst
    return fails


MAT9 = '(fun A : mat PrimFloat.float => [m00 A; m01 A; m02 A; m10 A; m11 A; m12 A; m20 A; m21 A; m22 A])'


def l1_spectral(ctx, n):
    """ties the spectral models the theorems C08_*_of_spectral_function are about (model/M_C08s.v pw_spec, model/M_C11s.v lss_spec:
    V diag(f(lam)) V^T) to TensorMath.pow_symm / log_sqrt_symm, with the eigen-pairs returned by TensorMath.eigen_sym33_unit as the oracle
    (same formula, rounding only), evaluated in binary64 inside Coq; incl. degenerate spectra and the identity."""
    import jax
    import jax.numpy as np
    import numpy as onp
    from optimism import TensorMath
    if 'l1s' not in _JITD:
        _JITD['l1s'] = (jax.jit(TensorMath.eigen_sym33_unit), jax.jit(TensorMath.log_sqrt_symm))
    f_eig, f_lss = _JITD['l1s']
    r = ctx.rng('l1spec')
    exprs, want, info = [], [], []
    for k in range(n):
        H, kind = gen_H(r)
        if k == 0:
            H, kind = [[0.0] * 3 for _ in range(3)], 'rest'
        F = onp.array(H) + onp.eye(3)
        C0 = F.T @ F
        m = POW_EXPONENTS[k % len(POW_EXPONENTS)]
        lam, V = (onp.asarray(x) for x in f_eig(np.array(C0)))
        if ('pow', m) not in _JITD:
            check_pow_derivative(ctx, 0)               # creates the jitted pow_symm(., m)
        P = onp.asarray(_JITD[('pow', m)][0](np.array(C0)))
        L = onp.asarray(f_lss(np.array(C0)))
        if not (onp.isfinite(lam).all() and onp.isfinite(V).all() and onp.isfinite(P).all()):
            ctx.fail('correspondence', 'TensorMath.eigen_sym33_unit / pow_symm return non-finite values for C = F^T F [%s]' % kind,
                     case=dict(model='TensorMath.pow_symm', check='correspondence', H=H, m=m))
            continue
        eig = '(fun _ => ((%s, %s, %s), %s))' % (C.cf(float(lam[0])), C.cf(float(lam[1])), C.cf(float(lam[2])), cm(V))
        exprs.append('fencs (%s (pw_spec %s %s %s) ++ %s (lss_spec %s %s))' % (MAT9, eig, cm(C0), C.cf(m), MAT9, eig, cm(C0)))
        want.append(P.ravel().tolist() + L.ravel().tolist())
        info.append(dict(H=H, kind=kind, m=m, scale=max(1.0, float(onp.abs(P).max()), float(onp.abs(L).max()))))
        ctx.count('spectral_kind_%s' % kind)
    res = C.coq_eval(IMPORTS, exprs, 'C08s', shard=100, timeout=900)
    mism = 0
    for zs, ws, inf in zip(res, want, info):
        got = C.dec_floats(zs)
        for i, (g, w) in enumerate(zip(got, ws)):
            ctx.count('spectral_model_vs_impl_comparisons')
            # same formula as the implementation; np.power / np.log against the model's exp(m ln x) / ln (few-ulp approximations)
            if not C.close(g, w, rtol=1e-11, atol=4e-13 * inf['scale']):
                mism += 1
                if mism <= 10:
                    ctx.fail('correspondence', 'spectral model of %s: entry %d = %r but the implementation gives %r [%s]'
                             % ('TensorMath.pow_symm(., %r)' % inf['m'] if i < 9 else 'TensorMath.log_sqrt_symm', i % 9, g, w, inf['kind']),
                             case=dict(model='spectral', check='correspondence', H=inf['H'], m=inf['m'], output=i, model_value=g, impl=w))
    ctx.count('spectral_model_vs_impl_mismatches', mism)
    if info:
        ctx.sample(dict(fn='L1-spectral', H=info[-1]['H'], kind=info[-1]['kind'], m=info[-1]['m'], impl=want[-1][:9]))


# ----------------------------------------------------------------------------- factory histories (Python-state histories of the factories)

def _factories():
    """name -> (factory, base properties, option key or None, option values, finite(option) predicate, kind of call)"""
    from optimism.material import LinearElastic, Neohookean, Gent, J2Plastic, HyperViscoelastic, MultiBranchHyperViscoelastic
    from optimism.phasefield import PhaseFieldThreshold
    mbp = {'equilibrium bulk modulus': MB_PROPS[0], 'equilibrium shear modulus': MB_PROPS[1]}
    for b in range(3):
        mbp['non equilibrium shear modulus %d' % (b + 1)] = MB_PROPS[2 + 2 * b]
        mbp['relaxation time %d' % (b + 1)] = MB_PROPS[3 + 2 * b]
    return {
        'LinearElastic': (LinearElastic.create_material_model_functions, {'elastic modulus': E_MOD, 'poisson ratio': NU}, 'strain measure',
                          ('linear', 'green lagrange', 'logarithmic'), lambda o: o != 'linear', 'plain'),
        'Neohookean': (Neohookean.create_material_model_functions, {'elastic modulus': E_MOD, 'poisson ratio': NU}, 'version',
                       ('adagio', 'coupled'), lambda o: True, 'plain'),
        'J2Plastic': (J2Plastic.create_material_model_functions, {'elastic modulus': E_MOD, 'poisson ratio': NU, 'yield strength': 1e9,
                                                                  'hardening model': 'linear', 'hardening modulus': 1.0}, 'kinematics',
                      ('large deformations', 'small deformations', 'seth hill'), lambda o: o != 'small deformations', 'ravel'),
        'PhaseFieldThreshold': (PhaseFieldThreshold.create_material_model_functions,
                                {'elastic modulus': E_MOD, 'poisson ratio': NU, 'critical energy release rate': PF_PROPS[4],
                                 'regularization length': PF_PROPS[5]}, 'kinematics', ('large deformations', 'small deformations'),
                                lambda o: o == 'large deformations', 'pf'),
        'Gent': (Gent.create_material_functions, {'bulk modulus': GENT_PROPS[0], 'shear modulus': GENT_PROPS[1], 'Jm parameter': GENT_PROPS[2]},
                 None, (None,), lambda o: True, 'plain'),
        'HyperViscoelastic': (HyperViscoelastic.create_material_model_functions,
                              {'equilibrium bulk modulus': HV_PROPS[0], 'equilibrium shear modulus': HV_PROPS[1],
                               'non equilibrium shear modulus': HV_PROPS[2], 'relaxation time': HV_PROPS[3]}, None, (None,), lambda o: True, 'plain'),
        'MultiBranchHyperViscoelastic': (MultiBranchHyperViscoelastic.create_material_model_functions, mbp, None, (None,), lambda o: True, 'plain'),
    }


def _energy_of(model, call):
    import jax.numpy as np
    if call == 'pf':
        st = model.compute_initial_state()
        return lambda H: model.compute_energy_density(H, 0.0, np.zeros(3), st, DT)
    st = model.compute_initial_state()
    if call == 'ravel':
        st = np.ravel(st)
    return lambda H: model.compute_energy_density(H, st, DT)


def _edit_numbers(d):
    """what an analysis script does to the dictionary for the next material: other moduli, other length / time scales"""
    for k in list(d):
        if isinstance(d[k], (int, float)) and not isinstance(d[k], bool):
            if k == 'poisson ratio':
                d[k] = 0.3 if d[k] != 0.3 else 0.2
            elif k == 'yield strength':
                pass
            else:
                d[k] = d[k] * 3.0


def factory_history_one(ctx, fname, o1, o2, H, Q, full=True):
    """one history of one factory: d(o1) -> model 1 = create(d) -> d[option] = o2 (same moduli; factories without a discrete option: other
    moduli) -> model 2 = create(d) -> the numbers of d are edited and the option dropped -> ONLY NOW the models are evaluated for the
    first time (compiled single calls; model 1 also op-by-op where that is cheap).  Each model must be the model of the options it was
    created with: equal to a model freshly created from a private copy of the dictionary as it was at its creation, zero energy at rest,
    objective / isotropic when its option is a finite-deformation one, and the two models (different options) must differ.
    full=False (quick tier): the fresh twin of model 2 is not compiled (model 2 is still checked by the predicates and the difference)."""
    import copy
    import jax
    import jax.numpy as np
    fac, base, key, opts, finite, call = _factories()[fname]
    fails = []
    d = dict(base)
    if key is not None:
        d[key] = o1
    with contextlib.redirect_stdout(io.StringIO()):
        snap1 = copy.deepcopy(d)
        m1 = fac(d)
        if key is not None:
            d[key] = o2
        else:
            _edit_numbers(d)
        snap2 = copy.deepcopy(d)
        m2 = fac(d)
        _edit_numbers(d)
        if key is not None:
            d.pop(key)                      # ... and the option is dropped (the default applies to whatever is created next)
        fresh1 = fac(copy.deepcopy(snap1))
        fresh2 = fac(copy.deepcopy(snap2)) if full else None
    Hn, H0 = np.array(H), np.zeros((3, 3))
    HLn, HRn = np.array(rotL(Q, H)), np.array(rotR(Q, H))
    cheap = fname in ('LinearElastic', 'Neohookean', 'Gent')
    skip2 = (not full) and fname == 'MultiBranchHyperViscoelastic'        # 2.3 s per compilation
    values = {}
    for which, m, snap, ref, opt in (('model 1', m1, snap1, fresh1, o1), ('model 2', m2, snap2, fresh2, o2)):
        if which == 'model 2' and skip2:
            continue
        f = _energy_of(m, call)
        modes = [('compiled single call', jax.jit(f))] + ([('op-by-op', f)] if (which == 'model 1' and (cheap or full)) else [])
        er = float(jax.jit(_energy_of(ref, call))(Hn)) if ref is not None else None
        for mode, g in modes:
            e0 = float(g(Hn))
            erest = float(g(H0))
            values[which] = e0
            ctx.count('factory_history_checks', 2)
            scale = 3.0
            base_case = dict(model=fname, check='factory_history', option=key, created_with=opt, o1=o1, o2=o2, which=which, mode=mode, H=H, Q=Q)
            if er is not None and not abs(e0 - er) <= 1e-11 * abs(er) + 1e-15 * E_MOD:
                fails.append(dict(kind='conclusion', concrete=True,
                                  what='%s factory, %s (created with %s=%r, properties %r), evaluated (%s) after the caller\'s dictionary was edited and a second model '
                                       'was created: energy %r, but a model freshly created from a private copy of the same properties gives %r'
                                       % (fname, which, key, opt, snap, mode, e0, er),
                                  case=dict(base_case, clause='fresh', e0=er, e1=e0)))
            if not abs(erest) <= 1e-13 * E_MOD * scale:
                fails.append(dict(kind='conclusion', concrete=True,
                                  what='%s factory, %s (%s=%r) after a factory history: rest energy %r (must be 0)' % (fname, which, key, opt, erest),
                                  case=dict(base_case, clause='rest', e0=0.0, e1=erest)))
            if finite(opt):
                t = scale * tol_energy(H, e0)
                for lab, Hx in (('objectivity', HLn), ('isotropy', HRn)):
                    ev = float(g(Hx))
                    ctx.count('factory_history_checks')
                    if not abs(ev - e0) <= t:
                        fails.append(dict(kind='conclusion', concrete=True,
                                          what='%s factory, %s (created with %s=%r) after a factory history (dictionary edited, second model with %r created), %s: '
                                               '%s violated: energy %r -> %r (tol %.3g)' % (fname, which, key, opt, o2 if which == 'model 1' else o1, mode, lab, e0, ev, t),
                                          case=dict(base_case, clause=lab, e0=e0, e1=ev)))
    if len(values) == 2:
        ctx.count('factory_history_checks')
        e1, e2 = values['model 1'], values['model 2']
        if not abs(e1 - e2) > 1e-6 * max(abs(e1), abs(e2)):
            fails.append(dict(kind='conclusion', concrete=True,
                              what='%s factory: the model created with %s and the model created afterwards with %s give the SAME energy %r at principal stretches 1 +- 0.05..0.25 '
                                   '(a model built for other options was handed out)' % (fname, snap1, snap2, e1),
                              case=dict(model=fname, check='factory_history', option=key, created_with=o2, o1=o1, o2=o2, which='model 2', mode='compiled single call',
                                        H=H, Q=Q, clause='distinct', e0=e1, e1=e2)))
    return fails


def check_factory_history(ctx, every_pair):
    """Python-state histories of every material factory (optimism/material/*.py, phasefield/PhaseFieldThreshold.py) and every option:
    a factory must read its options at creation (not lazily from the caller's dictionary at evaluation / trace time) and must not hand
    out a model built for other options (module-level caches under an incomplete key).  quick tier: one ordered pair of options per
    factory drawn from the seed (LinearElastic: two); thorough: every ordered pair."""
    r = ctx.rng('fhist')
    fails = []
    for fname, (fac, base, key, opts, finite, call) in _factories().items():
        pairs = [(a, b) for a in opts for b in opts if a != b] or [(None, None)]
        if not every_pair:
            r.shuffle(pairs)
            pairs = pairs[: (2 if fname == 'LinearElastic' else 1)]
        for (o1, o2) in pairs:
            # a genuinely strained state (principal stretches 1 +- 0.05..0.25, distinct, arbitrary axes): the strain measures /
            # kinematics options differ visibly here
            e = [r.choice([-1, 1]) * r.uniform(0.05 + 0.07 * i, 0.10 + 0.07 * i) for i in range(3)]
            r.shuffle(e)
            F = mm(quat_rot(r), mm([[1.0 + e[0], 0, 0], [0, 1.0 + e[1], 0], [0, 0, 1.0 + e[2]]], quat_rot(r)))
            H = sub(F, ident())
            Q = quat_rot(r)
            ctx.count('factory_histories')
            fails += factory_history_one(ctx, fname, o1, o2, H, Q, full=every_pair)
    return fails


def pk1_closed_form(name, H):
    """the explicit first Piola-Kirchhoff tensors of coq/proofs/L_C08c.v (P_neo_coupled, P_adagio, P_gent, P_le_gl), plain numpy"""
    import numpy as onp
    F = onp.array(H, dtype=float) + onp.eye(3)
    J = float(onp.linalg.det(F))
    I1v = float((F * F).sum())
    cof = J * onp.linalg.inv(F).T
    lnJ = math.log(J)
    ex = math.exp(-2.0 / 3.0 * lnJ)

    def adagio(k, mu):
        return 0.5 * mu * ex, 0.5 * mu * I1v * ex * (-2.0 / 3.0) / J + 0.5 * k * (J - 1.0 / J)
    if name == 'Neohookean/coupled':
        a, b = 0.5 * MU, (LAM * lnJ - MU) / J
    elif name == 'Neohookean/adagio':
        a, b = adagio(KAPPA, MU)
    elif name == 'Gent':
        k, mu, Jm = GENT_PROPS
        u = 1.0 - (ex * I1v - 3.0) / Jm
        a = 0.5 * mu * ex / u
        b = 0.5 * mu / u * I1v * ex * (-2.0 / 3.0) / J + 0.5 * k * (J - 1.0 / J)
    elif name == 'LinearElastic/green lagrange':
        E = 0.5 * (F.T @ F - onp.eye(3))
        S = KAPPA * onp.trace(E) * onp.eye(3) + 2 * MU * (E - onp.trace(E) / 3.0 * onp.eye(3))
        return F @ S
    else:
        return None
    return 2 * a * F + b * cof


PK1_MODELS = ('Neohookean/coupled', 'Neohookean/adagio', 'Gent', 'LinearElastic/green lagrange')


def check_pk1(ctx, cases):
    """conclusion of the C08_kirchhoff_symmetric_* theorems on the implementation: jax.grad of the energy w.r.t. the displacement
    gradient equals the explicit P of the theorem (and P F^T is symmetric).  The equilibrium viscoelastic energies are not exposed
    separately by the implementation (their P is that of Neohookean/adagio with other moduli), so the four elastic models are compared."""
    import numpy as onp
    import jax.numpy as np
    fails = []
    M = models()
    for (H, kind, Q) in cases:
        for name in PK1_MODELS:
            P = pk1_closed_form(name, H)
            G = onp.array(M[name]['jg'](np.array(H)))
            F = onp.array(H) + onp.eye(3)
            s = fro(H)
            tol = 1e-13 * 4 * E_MOD * (1 + s) ** 2
            err = float(onp.abs(P - G).max())
            tau = P @ F.T
            asym = float(onp.abs(tau - tau.T).max())
            ctx.count('pk1_checks', 2)
            if not (err <= tol and asym <= tol):
                fails.append(dict(kind='conclusion', concrete=True,
                                  what='%s [%s]: jax.grad of the energy differs from the closed-form first Piola-Kirchhoff tensor of the theorem by %.3g '
                                       '(tol %.3g); asymmetry of P F^T %.3g' % (name, kind, err, tol, asym),
                                  case=dict(model=name, check='pk1', H=H, Q=Q, batch=False, value=err)))
    return fails


# ----------------------------------------------------------------------------- L1: generated kernels at binary64 vs implementation

def cm(A):
    return '(mk ' + ' '.join(C.cf(float(A[i][j])) for i in range(3) for j in range(3)) + ')'


def ctup(p):
    return '(' + ', '.join(C.cf(float(x)) for x in p) + ')'


def l1_cases(ctx, n):
    r = ctx.rng('l1')
    out = []
    for k in range(n):
        H, kind = gen_H(r)
        if k % 7 == 0:
            H = [[0.0] * 3 for _ in range(3)]
            kind = 'rest'
        # a non-virgin internal state close to the identity for the models that carry one
        G, _ = gen_H(r)
        sc = 0.2 / max(fro(G), 1e-30) * r.uniform(0, 1)
        Fv = [[(1.0 if i == j else 0.0) + sc * G[i][j] for j in range(3)] for i in range(3)]
        if det3(Fv) <= 0.2:
            Fv = ident()
        out.append((H, kind, Fv))
    return out


def l1_run(ctx, cases):
    import jax.numpy as np
    import numpy as onp
    import optimism  # noqa: F401
    from optimism import TensorMath
    from optimism.material import J2Plastic, HyperViscoelastic, MultiBranchHyperViscoelastic
    M = models()
    le_p = (E_MOD, NU, MU, KAPPA)
    nh_p = (E_MOD, NU, MU, KAPPA, LAM)
    j2_p = (E_MOD, NU, MU, KAPPA, 1e9)
    exprs, want, labels = [], [], []

    import jax
    jlss = jax.jit(TensorMath.log_sqrt_symm)
    jpow = jax.jit(lambda A: TensorMath.pow_symm(A, 0.25))

    def lss_of(Fe):
        Cm = Fe.T @ Fe
        return onp.array(jlss(np.array(Cm)))

    def fn_const(A, nargs=1):
        return '(fun ' + ' '.join(['_'] * nargs) + ' => ' + cm(A) + ')'

    for (H, kind, Fv) in cases:
        Hn = np.array(H)
        F = onp.array(H) + onp.eye(3)
        Fvn = onp.array(Fv)
        L_I = lss_of(F)
        L_v = lss_of(F @ onp.linalg.inv(Fvn))
        PW = onp.array(jpow(np.array(F.T @ F)))
        hm = cm(H)
        items = []
        items.append(('LinearElastic/linear', 'E_le_linear %s %s' % (ctup(le_p), hm), float(M['LinearElastic/linear']['jf'](Hn))))
        items.append(('LinearElastic/green lagrange', 'E_le_gl %s %s' % (ctup(le_p), hm), float(M['LinearElastic/green lagrange']['jf'](Hn))))
        items.append(('LinearElastic/logarithmic', 'E_le_log %s %s %s' % (fn_const(L_I), ctup(le_p), hm), float(M['LinearElastic/logarithmic']['jf'](Hn))))
        items.append(('Neohookean/coupled', 'E_neo_coupled %s %s' % (ctup(nh_p), hm), float(M['Neohookean/coupled']['jf'](Hn))))
        items.append(('Neohookean/adagio', 'E_neo_adagio %s %s' % (ctup(nh_p), hm), float(M['Neohookean/adagio']['jf'](Hn))))
        items.append(('Gent', 'E_gent %s %s' % (ctup(GENT_PROPS), hm), float(M['Gent']['jf'](Hn))))
        # J2 with a non-virgin plastic distortion / plastic strain, elastic regime (huge yield strength)
        stF = np.hstack((0.0, np.array(Fv).ravel()))
        Ep = [[0.05 * (Fv[i][j] - (1.0 if i == j else 0.0)) for j in range(3)] for i in range(3)]
        stE = np.hstack((0.0, np.array(Ep).ravel()))
        z = C.cf(0.0)
        items.append(('J2Plastic/large deformations', 'E_j2_log %s %s %s %s %s' % (fn_const(L_v), ctup(j2_p), z, cm(Fv), hm),
                      float(M['J2Plastic/large deformations']['jm'](Hn, stF, DT))))
        items.append(('J2Plastic/small deformations', 'E_j2_linear %s %s %s %s' % (ctup(j2_p), z, cm(Ep), hm),
                      float(M['J2Plastic/small deformations']['jm'](Hn, stE, DT))))
        items.append(('J2Plastic/seth hill', 'E_j2_seth_hill %s %s %s %s %s' % (fn_const(PW, 2), ctup(j2_p), z, cm(Ep), hm),
                      float(M['J2Plastic/seth hill']['jm'](Hn, stE, DT))))
        items.append(('HyperViscoelastic', 'E_hv %s %s %s %s %s' % (fn_const(L_v), ctup(HV_PROPS), cm(Fv), C.cf(DT), hm),
                      float(M['HyperViscoelastic']['jm'](Hn, np.array(Fv).ravel(), DT))))
        # three-branch model: branch 1 carries Fv, branch 2 the identity, branch 3 Fv^T
        FvT = tr(Fv)
        L_2 = L_I
        L_3 = lss_of(F @ onp.linalg.inv(onp.array(FvT)))
        # E_mb3 (model/M_C08b.v) = E_mb with the three log_sqrt_symm call sites separated (P_C08.C08_multibranch_three_call_sites):
        # each call site receives what the implementation's log_sqrt_symm returned there
        stmb = np.hstack((np.array(Fv).ravel(), np.eye(3).ravel(), np.array(FvT).ravel()))
        mbexpr = 'E_mb3 %s %s %s %s %s %s %s %s %s' % (fn_const(L_v), fn_const(L_2), fn_const(L_3), ctup(MB_PROPS), cm(Fv), cm(ident()),
                                                       cm(FvT), C.cf(DT), hm)
        items.append(('MultiBranchHyperViscoelastic', mbexpr,
                      float(M['MultiBranchHyperViscoelastic']['jm'](Hn, stmb, DT))))
        ph, g = 0.37, (0.2, -0.4, 0.1)
        for kin, fnm in (('large deformations', 'E_pf_log %s' % fn_const(L_I)), ('small deformations', 'E_pf_linear')):
            items.append(('PhaseFieldThreshold/' + kin, '%s %s %s %s %s %s %s' % (fnm, ctup(PF_PROPS), C.cf(ph), C.cf(g[0]), C.cf(g[1]), C.cf(g[2]), hm),
                          float(M['PhaseFieldThreshold/' + kin]['jfpf'](Hn, ph, np.array(g)))))
        exprs.append('fencs [' + '; '.join(x[1] for x in items) + ']')
        want.append([x[2] for x in items])
        labels.append([x[0] for x in items])
    res = C.coq_eval(IMPORTS, exprs, 'C08', shard=40, timeout=900)
    mism = 0
    for (H, kind, Fv), zs, ws, ls in zip(cases, res, want, labels):
        got = C.dec_floats(zs)
        s = fro(H)
        for gv, wv, lab in zip(got, ws, ls):
            ctx.count('model_vs_impl_comparisons')
            atol = 1e-9 * 4 * E_MOD * s * s + 4e-14 * E_MOD * (1 + s) ** 2    # absolute rounding of det/ln near J = 1
            if not C.close(gv, wv, rtol=1e-9, atol=atol):
                mism += 1
                if mism <= 12:
                    ctx.fail('correspondence', 'generated model of %s gives %r but the implementation %r at H=%r (%s)' % (lab, gv, wv, H, kind),
                             case=dict(model=lab, check='correspondence', H=H, Fv=Fv, model_value=gv, impl=wv))
    ctx.count('model_vs_impl_mismatches', mism)
    if cases:
        ctx.sample(dict(fn='L1', H=cases[-1][0], kind=cases[-1][1], models=labels[-1], impl=want[-1]))


# ----------------------------------------------------------------------------- driver hooks

def _report(ctx, fails):
    # The cap of 40 reported failures must not be consumed by failures that are exactly an OPEN known finding (the driver drops
    # those afterwards).  C08 has no open finding at present (EIGVMAP / EIGVMAP-SH repaired in /repo e63b801: matches_finding excuses
    # nothing for them), so every failure is fresh; the split is kept for future open findings.  Fresh failures are reported first.
    known = [k for k in C.load_known_findings() if k['property'] == ID and k['status'] == 'open']
    fresh, old = [], []
    for f in fails:
        (old if any(matches_finding(f, k) for k in known) else fresh).append(f)
    for f in fresh[:40] + old[:40]:
        ctx.fail(f['kind'], f['what'], case=f['case'], concrete=f['concrete'])


def correspondence(ctx, model_ok):
    n = ctx.n(40, 400)
    cases = l2_cases(ctx, n)
    fails = check_rest(ctx)
    fails += check_invariance(ctx, cases, batch=True)
    fails += check_invariance(ctx, cases[: ctx.n(6, 40)], batch=False)
    fails += check_state_invariance(ctx, cases[: ctx.n(12, 80)], batch=True)
    fails += check_state_invariance(ctx, cases[: ctx.n(3, 12)], batch=False)
    fails += check_pf_gradient(ctx, cases[: ctx.n(10, 100)])
    fails += check_lss_derivative(ctx, ctx.n(6, 60))
    fails += check_pow_derivative(ctx, ctx.n(8, 80))
    fails += check_spec_diff(ctx, cases[: ctx.n(20, 200)])
    fails += check_pk1(ctx, cases[: ctx.n(12, 120)])
    fails += check_factory_history(ctx, every_pair=(ctx.n(0, 1) == 1))
    nfin = sum(1 for m in models().values() if m['finite'])
    ctx.count('evaluations', len(cases) * nfin * 3 + 2 * len(models()))
    ctx.count('distinct_nontrivial', len({(json.dumps(c[0]), json.dumps(c[2])) for c in cases if fro(c[0]) > 0}) * nfin)
    kinds = {}
    for c in cases:
        kinds[c[1]] = kinds.get(c[1], 0) + 1
    ctx.cov['deformation_kinds'] = kinds
    ctx.cov['strain_decades'] = [min(fro(c[0]) for c in cases), max(fro(c[0]) for c in cases)]
    ctx.sample(dict(fn='L2', H=cases[0][0], kind=cases[0][1], Q=cases[0][2]))
    _report(ctx, fails)
    if model_ok:
        lc = l1_cases(ctx, ctx.n(21, 240))
        l1_run(ctx, lc)
        ctx.count('evaluations', len(lc) * 14)
        ns = ctx.n(16, 160)
        l1_spectral(ctx, ns)
        ctx.count('evaluations', ns * 2)


def search(ctx, reasons):
    import copy
    c2 = copy.copy(ctx)
    c2.tier = 'thorough'
    c2.failures, c2.counts, c2.cov, c2.samples = [], {}, {}, []
    c2.seed = ctx.seed + 1
    fails = check_rest(c2)
    cases = l2_cases(c2, 300)
    fails += check_invariance(c2, cases, batch=True)
    fails += check_state_invariance(c2, cases[:60], batch=False)
    fails += check_pf_gradient(c2, cases[:60])
    fails += check_lss_derivative(c2, 40)
    fails += check_pow_derivative(c2, 40)
    fails += check_spec_diff(c2, cases[:100])
    fails += check_pk1(c2, cases[:60])
    fails += check_factory_history(c2, every_pair=True)
    known = [f for f in C.load_known_findings() if f['property'] == ID and f['status'] == 'open']
    for f in fails:
        if f.get('concrete') and not any(matches_finding(f, k) for k in known):
            return f
    return None


SPECTRAL = ('LinearElastic/logarithmic', 'J2Plastic/large deformations', 'J2Plastic/seth hill', 'HyperViscoelastic',
            'MultiBranchHyperViscoelastic', 'PhaseFieldThreshold/large deformations')


def stretch_gap(H):
    """smallest relative gap between two eigenvalues of C = F^T F"""
    import numpy as onp
    F = onp.array(H, dtype=float) + onp.eye(3)
    w = onp.linalg.eigvalsh(F.T @ F)
    return float(min(w[1] - w[0], w[2] - w[1]) / max(abs(w[2]), 1e-300))


WITNESS_ROTATIONS = (
    # fixed proper rotations (unit quaternions with rational components) used when a witness does not carry its own
    [[-1.0 / 3, 2.0 / 3, 2.0 / 3], [2.0 / 3, -1.0 / 3, 2.0 / 3], [2.0 / 3, 2.0 / 3, -1.0 / 3]],
    [[0.36, 0.48, -0.8], [-0.8, 0.6, 0.0], [0.48, 0.64, 0.6]],
    [[0.0, -1.0, 0.0], [1.0, 0.0, 0.0], [0.0, 0.0, 1.0]],
)


def witness_recurs(ctx, model, H, Qs):
    """Replay of a (repaired) batch finding: the witness state H and its rotated images Q F, F Q (Q in Qs), evaluated inside compiled
    batches jit(vmap) of size 2 (two copies), of size 3 and of the whole orbit, against the same states as single compiled calls.
    A recurrence is: a batched energy differs from the single compiled call of the SAME state, or the batched energies of the orbit are
    not equal (objectivity / isotropy), or the batched gradient differs from the single one / its Kirchhoff stress is not symmetric --
    all at the NORMAL tolerances of check_invariance (tol_energy; 1e-13 * 4 E (1+s)^2 for stresses).  -> list of descriptions."""
    import jax
    import jax.numpy as np
    import numpy as onp
    md = models()[model]
    if 'vf' not in md:
        md['vf'] = jax.jit(jax.vmap(md['f']))
        md['vg'] = jax.jit(jax.vmap(jax.grad(md['f'])))
    orbit = [('the witness state', H)]
    for k, Q in enumerate(Qs):
        orbit.append(('superposed rotation %d' % k, rotL(Q, H)))
        orbit.append(('rotated reference %d' % k, rotR(Q, H)))
    singles = [float(md['jf'](np.array(h))) for _, h in orbit]
    gsingle = onp.array(md['jg'](np.array(H)))
    e0 = singles[0]
    t = tol_energy(H, e0)
    ts = 1e-13 * 4 * E_MOD * (1 + fro(H)) ** 2
    bad = []
    batches = [[0, 0], [0, 1, 2], list(range(len(orbit)))] + [[k, 0] for k in range(1, len(orbit))]
    for idx in batches:
        Hb = np.array([orbit[i][1] for i in idx])
        eb = onp.array(md['vf'](Hb))
        ctx.count('finding_witness_replays', len(idx))
        for j, i in enumerate(idx):
            if not abs(float(eb[j]) - singles[i]) <= t:
                bad.append('%s: %s inside a compiled batch of %d has energy %r, as a single compiled call %r (tol %.3g)'
                           % (model, orbit[i][0], len(idx), float(eb[j]), singles[i], t))
            if not abs(float(eb[j]) - e0) <= t:
                bad.append('%s: %s inside a compiled batch of %d has energy %r, the unrotated state %r (tol %.3g)'
                           % (model, orbit[i][0], len(idx), float(eb[j]), e0, t))
        if 0 in idx and len(idx) <= 3:          # stresses in the batches of 2 and 3 (one compilation per batch size)
            j = idx.index(0)
            P = onp.array(md['vg'](Hb))[j]
            F = onp.array(H) + onp.eye(3)
            tau = P @ F.T
            dg, asym = float(onp.abs(P - gsingle).max()), float(onp.abs(tau - tau.T).max())
            if not (onp.isfinite(P).all() and dg <= ts and asym <= ts):
                bad.append('%s: the stress dW/dH of the witness state inside a compiled batch of %d differs from the single compiled call by %.3g, '
                           'Kirchhoff asymmetry %.3g (tol %.3g)' % (model, len(idx), dg, asym, ts))
    for i in range(1, len(orbit)):
        if not abs(singles[i] - e0) <= t:
            bad.append('%s: %s as a single compiled call has energy %r, the unrotated state %r (tol %.3g)' % (model, orbit[i][0], singles[i], e0, t))
    return bad


def finding_fails(ctx, f):
    w = f['witness']
    if f['id'] == 'F4':
        # fixed in /repo 60fe5f7: does the rest state of the J2 'seth hill' option still have non-zero energy or stress?
        return bool(check_rest(ctx, names=[w['model']]))
    if f['id'] in ('EIGVMAP', 'EIGVMAP-SH'):
        # fixed in /repo e63b801 (eigen_sym33_non_unit evaluates the in-plane direction once): every witness (doubly degenerate F^T F)
        # is replayed on every run inside compiled batches against single compiled calls, at the normal tolerances
        Qs = ([w['Q']] if 'Q' in w else []) + list(WITNESS_ROTATIONS)
        bad = []
        for Hw in [w['H']] + [x['H'] for x in w.get('more', [])]:
            bad += witness_recurs(ctx, w['model'], Hw, Qs)
        for b in bad[:6]:
            ctx.log('finding %s recurs: %s' % (f['id'], b))
        return bool(bad)
    return False


def matches_finding(fl, f):
    """Only OPEN findings excuse a failure, and C08 has none: EIGVMAP / EIGVMAP-SH (energies through eigen_sym33_unit inside compiled
    batches at doubly degenerate states) were repaired in /repo e63b801 and F4 in 60fe5f7, so for them nothing matches -- a batched energy
    that loses invariance at a degenerate state is a violation like any other.  The F4 signature (rest-state energy 18 kappa / NaN
    rest-state stress of J2 'seth hill') is kept for the record of what the regression looks like."""
    if f.get('status') != 'open':
        return False
    c = fl.get('case') or {}
    w = f['witness']
    if f['id'] in ('EIGVMAP', 'EIGVMAP-SH'):
        return False
    if c.get('model') != w['model']:
        return False
    if c.get('check') == 'rest_energy':
        return abs(c.get('value', 0.0) - w['energy']) <= 1e-9 * abs(w['energy'])
    if c.get('check') == 'rest_stress':
        return all(v != v for v in c.get('value', [0.0]))
    return False


def replay(ctx, path):
    rep = json.load(open(path))
    case = rep.get('failing_input')
    print('replay of', path)
    print(json.dumps(rep.get('reasons'), indent=1)[:3000])
    if not case:
        print('no concrete failing input recorded; broken obligations:', rep.get('broken'))
        return 1
    import jax.numpy as np
    if case.get('check') == 'lss_derivative':
        fails = check_lss_derivative(ctx, 12)
        print('implementation now:', [x['what'] for x in fails] or 'conclusion holds')
        return 1 if fails else 0
    if case.get('check') == 'factory_history':
        fails = factory_history_one(ctx, case['model'], case['o1'], case['o2'], case['H'], case['Q'])
        print('implementation now:', [x['what'] for x in fails][:4] or 'conclusion holds')
        return 1 if fails else 0
    if case.get('check') == 'pow_derivative':
        fails = check_pow_derivative(ctx, 16)
        print('implementation now:', [x['what'] for x in fails] or 'conclusion holds')
        return 1 if fails else 0
    if case.get('check') == 'spec_diff':
        fails = check_spec_diff(ctx, [(case['H'], dict(Fe=case['Fe'], D=case['D']), case['Q'])])
        print('implementation now:', [x['what'] for x in fails] or 'conclusion holds')
        return 1 if fails else 0
    md = models().get(case.get('model'))
    if md is None:
        print('unknown model in replay')
        return 1
    chk = case.get('check')
    if chk in ('rest_energy', 'rest_stress'):
        fails = [x for x in check_rest(ctx, names=[case['model']]) if x['case']['check'] == chk]
        print('implementation now:', [x['what'] for x in fails] or 'conclusion holds')
        return 1 if fails else 0
    if chk in ('objectivity', 'isotropy', 'kirchhoff'):
        fails = check_invariance(ctx, [(case['H'], 'replay', case['Q'])], batch=bool(case.get('batch')))
        fails = [x for x in fails if x['case']['model'] == case['model'] and x['case']['check'] == chk]
        if 'phase' in case:
            fails = check_pf_gradient(ctx, [(case['H'], 'replay', case['Q'])])
        print('implementation now:', [x['what'] for x in fails] or 'conclusion holds')
        return 1 if fails else 0
    if chk == 'pk1':
        fails = [x for x in check_pk1(ctx, [(case['H'], 'replay', case['Q'])]) if x['case']['model'] == case['model']]
        print('implementation now:', [x['what'] for x in fails] or 'conclusion holds')
        return 1 if fails else 0
    print('case kind', chk, 'is replayed by re-running the check')
    return 1
