"""C10 -- stress and tangent from autodiff match the energy's true derivatives."""
import contextlib
import io
import json
import math
import random
from decimal import Decimal, getcontext

from vlib import common as C

ID = 'C10'
READY = True
LEVEL_TEXT = ('Partial. Proved (Coq/Coquelicot/Interval) about what optimism adds to JAX: the custom_root tangent solve y/g(1) inverts every '
              'non-degenerate linear map and with the scalar implicit-function theorem gives the derivative of the root -- with no interiority '
              'hypothesis: also for a root on an end of the bracket (perfect plasticity) it is -b/a, non-zero, and equal to the derivative of the end point; the '
              'total-derivative / envelope theorem (stress = partial derivative at fixed internal variable when the internal variable is stationary '
              'or frozen, i.e. on either side of the yield switch); the safe_sqrt JVP rule (v*0.5/sqrt x = v*sqrt\'(x) for x>0, 0 for x<=0) on the '
              'regenerated kernel; the sqrt/exp/log/pow relative-difference kernels equal the divided differences (f l1 - f l2)/(l1 - l2); the '
              'Taylor branch of the reference log kernel is within 1e-9 relative on |l1-l2| <= 0.05 min(l1,l2) (mean value theorem + interval); '
              'the x2==x1 guard yields the first divided difference f[x1,x2]; the JVP helper on a diagonal argument is the Hadamard product of '
              'the divided-difference matrix with sym(Cdot), which for monomials is the derivative of the matrix power (Daleckii-Krein); for '
              'non-diagonal arguments under the eigh contract (V orthogonal, A = V diag(lam) V^T) the helper is the derivative of every matrix '
              'polynomial. Round 4: the WHOLE helper is a regenerated kernel (Gen_TensorMathJVP, eigen-solver opaque, func / relative_difference / '
              'jacfwd(func) oracles) proved equal to the hand model on whatever pair the eigen-solver returns, Daleckii-Krein restated over it; the '
              'helper output and the primal V diag(f(lam)) V^T are independent of which eigen-decomposition the solver returns (rotated eigenspaces, '
              'permuted eigenvalues); Daleckii-Krein for a GENERAL f given by a derivative hypothesis at the eigenvalues, distinct or coinciding, for '
              'the primal computed with any eigen-solver satisfying the contract along the line -- under the hypothesis (not proved: Rellich) that '
              'some eigen-decomposition of A + t sym(Cdot) is differentiable at t = 0; finding F14 characterised by a refutation theorem with an exact '
              'witness (the generated helper at dual numbers = forward mode over the rule: at A = diag(1,1,2), f = x^2, it yields second derivative 1 '
              'where it is 2 with the eigen-solver tangent JAX produces -- replayed on the implementation every run -- and 0 where it is 1 even with '
              'an exact eigen-path tangent, through the x2==x1 guard). '
              'Not proved: that JAX differentiates the remaining primitives correctly -- every material model is compared on every run: jax.grad '
              'and jax.jvp(jax.grad) of the energy density versus 6th-order central differences of the same energy.')
TECHNIQUE = 'Coq proof (Reals + Coquelicot + Interval) over regenerated kernels and hand models; binary64 correspondence; AD-vs-finite-difference comparison of every material model'
GEN = ['Math', 'TensorMathFun', 'TensorMathAD', 'TensorMathJVP']
TARGETS = ['model/M_C10.vo', 'model/M_C10_Dual.vo', 'proofs/L_C10.vo', 'proofs/L_C10_DK.vo', 'proofs/L_C10_End.vo', 'proofs/L_C10_DKV.vo',
           'proofs/L_C10_Gen.vo', 'proofs/L_C10_Inv.vo', 'proofs/L_C10_DKF.vo', 'proofs/L_C10_F14.vo']
COQ_FILES = ['base/Num.v', 'model/M_C10.v', 'model/M_C10_Dual.v', 'proofs/L_C10.v', 'proofs/L_C10_DK.v', 'proofs/L_C10_End.v', 'proofs/L_C10_DKV.v',
             'proofs/L_C10_Gen.v', 'proofs/L_C10_Inv.v', 'proofs/L_C10_DKF.v', 'proofs/L_C10_F14.v', 'props/P_C10.v']
TRUSTED = ['Coq 8.16.1 kernel + vm_compute (no native_compute)',
           'tools/vlib/py2coq.py translator (expm1(x) -> exp x - 1, log1p(x) -> ln(1 + x): exact over R, less accurate in binary64 near 0)',
           'hand models of the x2==x1 guard / _symmetric_matrix_function_jvp_helper (M_C10.v), tied by binary64 correspondence given the '
           'implementation\'s own eigen-pairs AND proved equal over R to the regenerated body Gen_TensorMathJVP.jvp_helper_gen (C10_generated_helper_is_model; '
           'the regenerated body is also run at binary64 against the implementation); the log / pow relative-difference kernels are regenerated: Gen_TensorMathFun',
           'translator handling of function-valued parameters (oracles), jax.jacfwd(func) as the derivative oracle and the opaque eigen_sym33_unit in module TensorMathJVP',
           'dual-number instance M_C10_Dual.NumD as a model of JAX forward mode over the rule (selects on values; tied to the implementation on the F14 witness only)',
           'model-side binary64 exp/ln approximations (|rel err| < 1e-14) used only to execute models',
           'JAX autodiff of all other primitives: not proved, compared with finite differences of the energy density',
           'the sqrt/exp/plain-log *_relative_difference_exact lemmas of proofs/L_C12.v and the argsort log / pow kernel lemmas of proofs/L_C12_RD.v (restated)']
ASSUMPTIONS = ['theorems over exact reals; binary64 behaviour only through the correspondence',
               'envelope / implicit-function theorems assume Frechet differentiability of the potential / residual at the point (Coquelicot filterdiff) '
               'and differentiability of the internal variable; at the yield switch itself nothing is claimed; the bracket handed to find_root '
               'does not occur in the hypotheses (end-point roots are NOT excluded: C10_scalar_ift_at_bracket_end), only differentiability of the '
               'residual at the root is needed (fails for the power-law rate term at eqps = eqpsOld, never the root of a yielding step)',
               'relative-difference theorems need positive arguments where sqrt/log/real powers are involved and l1 <> l2',
               'finite-difference comparisons reject stencils that straddle a constitutive switch (yield surface, tension/compression split)',
               'general-f Daleckii-Krein (C10_daleckii_krein_eigenpath / _eigh_solver / _path): hypothesis that SOME eigen-decomposition of A + t sym(Cdot) is '
               'differentiable at t = 0 (Rellich; not proved), f differentiable at the three eigenvalues, rel = divided difference of f off the diagonal; '
               'directional (Gateaux) derivatives entry by entry',
               'eigh contract (V orthogonal, A = V diag(lam) V^T) is a hypothesis on the opaque eigen-solver (the solver itself is property C12)']
RULE = ('L1: kernels at random positive arguments over 8 decades plus near-cancellation streams l2 = l1(1+d), d = 1e-1..1e-13, and exactly equal '
        'arguments; helper on random SPD tensors incl. exactly repeated eigenvalues, hand model AND regenerated body (Gen_TensorMathJVP) at binary64; the F14 '
        'witness (eigen-solver tangent and second derivative of pow_symm(., 2) at diag(1,1,2)) replayed against the dual-number theorem. L2: every material family each run (J2 options rotate in the quick '
        'tier, all 18 kinematics x hardening x rate combinations in thorough; plus flat hardening -- linear H = 0 and voce with Ysat = Y0, '
        'i.e. perfect plasticity with the root of the internal solve on the upper bracket end -- for every kinematics option, actively yielding '
        'generic points only, one combination per quick run, all 6 in thorough), random admissible constants, states from 1-3 random load steps, '
        'evaluation points on the elastic and on the yielding side, gradient (all 9 components) and tangent action in random and coordinate '
        'directions versus 6th-order central differences at steps h and 2h; non-trivial = internal state evolved or nonlinear kinematics; '
        'distinct = distinct (model, options, state, point, direction)')
IMPORTS = ['From OV.gen Require Import Gen_Math Gen_TensorMathFun Gen_TensorMathAD Gen_TensorMathJVP.', 'From OV.model Require Import M_C10.']

EPS = 2.220446049250313e-16
C1 = [(-3, -1.0 / 60), (-2, 3.0 / 20), (-1, -3.0 / 4), (1, 3.0 / 4), (2, -3.0 / 20), (3, 1.0 / 60)]
S1 = sum(abs(c) for _, c in C1)


def quiet():
    return contextlib.redirect_stdout(io.StringIO())


# ============================================================================= L1 / L2 for the kernels

def gen_pairs(ctx):
    r = ctx.rng('kernels')
    out = []
    for _ in range(ctx.n(60, 600)):
        l1 = 10.0 ** r.uniform(-4, 4)
        mode = r.randrange(4)
        if mode == 0:
            l2 = 10.0 ** r.uniform(-4, 4)
        elif mode == 1:
            l2 = l1 * (1.0 + r.choice([-1, 1]) * 10.0 ** r.uniform(-13, -1))
        elif mode == 2:
            l2 = l1 * (1.0 + r.choice([-1, 1]) * r.uniform(0.04, 0.06))      # around the Taylor switch of the reference log kernel
        else:
            l2 = l1 * r.uniform(0.2, 5.0)
        if l2 != l1 and l2 > 0:
            out.append((l1, l2))
    return out


def dd_exact(kind, l1, l2, m=None):
    getcontext().prec = 80
    a, b = Decimal(l1), Decimal(l2)
    if kind == 'sqrt':
        f = lambda x: x.sqrt()
    elif kind == 'exp':
        f = lambda x: x.exp()
    elif kind == 'log':
        f = lambda x: x.ln()
    else:
        f = lambda x: (Decimal(m) * x.ln()).exp()
    return float((f(a) - f(b)) / (a - b))


def kernels_layer(ctx, model_ok):
    import numpy as onp
    import jax
    import jax.numpy as np
    import optimism  # noqa: F401
    from optimism import TensorMath as TM, Math, ScalarRootFind
    pairs = gen_pairs(ctx)
    impl = []
    M = 0.25
    for (l1, l2) in pairs:
        small = max(l1, l2) < 300.0
        impl.append(dict(
            sqrt=float(TM._sqrt_relative_difference(l1, l2)),
            exp=float(TM._exp_relative_difference(l1, l2)) if small else None,
            log=float(TM._log_relative_difference(l1, l2)),
            logref=float(TM._relative_log_difference(l1, l2)),
            taylor=float(TM._relative_log_difference_taylor(l1, l2)),
            plain=float(TM._relative_log_difference_no_tolerance_check(l1, l2)),
            pow=float(TM._pow_relative_difference(l1, l2, M))))
    # ---- L2: the theorems' conclusions on the implementation (exact divided differences in 80-digit decimal arithmetic)
    for (l1, l2), o in zip(pairs, impl):
        ctx.count('evaluations')
        d = abs(l1 - l2) / max(l1, l2)
        ratio = max(l1, l2) / min(l1, l2)
        # log1p(small/big - 1): forming small/big - 1 costs an absolute eps, i.e. a relative eps*ratio/|ln ratio| of the result when the
        # arguments are far apart (rounding of the expression as written, not a defect)
        # (XLA's CPU log1p itself is only accurate to ~120 ulp, measured against 60-digit arithmetic: floor of 512 ulp)
        log_tol = 512 * EPS + 16 * EPS * (ratio / math.log(ratio) if ratio > 1.5 else 0.0)
        checks = [('sqrt', o['sqrt'], 8 * EPS), ('log', o['log'], log_tol), ('logref', o['logref'], 1e-9)]
        if o['exp'] is not None:
            checks.append(('exp', o['exp'], 8 * EPS * (1 + abs(l1) + abs(l2))))
        # since /repo 28ca86b the pow kernel uses expm1(m*log1p(x))/x near lam1 = lam2 (no cancellation any more: no eps/d term);
        # what remains is the accuracy of XLA's CPU log1p (~120 ulp, same floor as for the log kernel) and of lam_big**(m-1),
        # evaluated as exp((m-1) ln lam_big): relative rounding ~ |m-1| |ln lam_big| eps
        checks.append(('pow', o['pow'], 512 * EPS + 16 * EPS * (1 + abs(M - 1) * abs(math.log(max(l1, l2))))))
        if abs(l1 - l2) <= 0.05 * min(l1, l2):
            checks.append(('taylor', o['taylor'], 1e-9))
        for kind, got, rtol in checks:
            want = dd_exact({'logref': 'log', 'taylor': 'log'}.get(kind, kind), l1, l2, M)
            if not abs(got - want) <= rtol * abs(want):
                ctx.fail('conclusion', '%s relative-difference kernel at (%r, %r) returns %r, the divided difference is %r (rel. tol %.2g)'
                         % (kind, l1, l2, got, want, rtol), case=dict(layer='kernel', kind=kind, l1=l1, l2=l2), concrete=True)
    # safe_sqrt rule and tangent solve on the implementation
    r = ctx.rng('scalar')
    for _ in range(ctx.n(20, 200)):
        ctx.count('evaluations')
        x = r.choice([0.0, -1.0, -10.0 ** r.uniform(-8, 2), 10.0 ** r.uniform(-12, 6)])
        v = r.uniform(-3, 3)
        p, t = jax.jvp(Math.safe_sqrt, (x,), (v,))
        want = v * 0.5 / math.sqrt(x) if x > 0 else 0.0
        if not abs(float(t) - want) <= 4 * EPS * abs(want):
            ctx.fail('conclusion', 'safe_sqrt JVP at x=%r, v=%r gives tangent %r, the rule proved is %r' % (x, v, float(t), want),
                     case=dict(layer='safe_sqrt', x=x, v=v), concrete=True)
    settings = ScalarRootFind.get_settings(x_tol=1e-14, r_tol=0.0)
    for _ in range(ctx.n(12, 120)):
        ctx.count('evaluations')
        a, b, p0 = r.uniform(0.3, 3), r.uniform(0.2, 2), r.uniform(0.2, 2)
        # F(x, p) = a x^3 + b x - p^2 - 1: unique root in [0, 10]; dx/dp = 2p / (3 a x^2 + b)
        root = lambda p: ScalarRootFind.find_root(lambda x: a * x ** 3 + b * x - p ** 2 - 1.0, 1.0, np.array([0.0, 10.0]), settings)[0]
        x0 = float(root(p0))
        got = float(jax.grad(root)(p0))
        want = 2 * p0 / (3 * a * x0 ** 2 + b)
        if not abs(got - want) <= 1e-10 * abs(want):
            ctx.fail('conclusion', 'jax.grad through find_root gives %r, the implicit-function value -F_p/F_x is %r (a=%r b=%r p=%r)' % (got, want, a, b, p0),
                     case=dict(layer='ift', a=a, b=b, p=p0), concrete=True)
    # the same rule with the root ON AN END of the (parameter-independent) bracket: C10_scalar_ift_at_bracket_end -- the derivative theorem
    # has no interiority hypothesis, the sensitivity is still -F_p/F_x (rtsafe_ returns such an end without iterating)
    for i in range(ctx.n(4, 24)):
        ctx.count('evaluations')
        ctx.count('ift_root_on_bracket_end')
        a, p0, w = r.uniform(0.3, 3), r.uniform(0.2, 2), r.uniform(0.5, 3)
        br = [p0, p0 + w] if i % 2 == 0 else [p0 - w, p0]           # root x(p) = p sits on the lower / upper end at p = p0
        # F(x, p) = a (x - p) (1 + (x - p)^2): exactly zero at x = p; dx/dp = 1
        root = lambda p: ScalarRootFind.find_root(lambda x: a * (x - p) * (1.0 + (x - p) ** 2), 0.5 * (br[0] + br[1]), np.array(br), settings)[0]
        x0 = float(root(p0))
        got = float(jax.grad(root)(p0))
        if not (x0 == p0 and abs(got - 1.0) <= 1e-12):
            ctx.fail('conclusion', 'find_root with the root on the %s end of the bracket %r returns %r with derivative %r w.r.t. the parameter; the '
                     'implicit-function value -F_p/F_x is 1 (F = a (x - p)(1 + (x - p)^2), a=%r, p=%r)' % (['lower', 'upper'][i % 2], br, x0, got, a, p0),
                     case=dict(layer='ift_end', a=a, p=p0, bracket=br), concrete=True)
    if not model_ok:
        return
    # ---- L1: regenerated / hand kernels at binary64 vs the implementation
    ex = []
    for (l1, l2) in pairs:
        a = '%s %s' % (C.cf(l1), C.cf(l2))
        ex.append('fencs [_sqrt_relative_difference %s; _exp_relative_difference %s; _log_relative_difference %s; ad_rel_log %s; ad_rel_log_taylor %s; ad_rel_log_plain %s; _pow_relative_difference %s %s]'
                  % (a, a, a, a, a, a, a, C.cf(M)))
    res = C.coq_eval(IMPORTS, ex, 'C10k', shard=300)
    nm = 0
    for (l1, l2), o, zs in zip(pairs, impl, res):
        v = C.dec_floats(zs)
        d = abs(l1 - l2) / max(l1, l2)
        # tolerances reflect the expressions as written: exp x - 1 / ln(1 + x) / x**m - 1 in the model lose ~eps/d near cancellation
        # (the model-side exp/ln are accurate to ~1e-14 relative, so exp(x) - 1 and ln(1 + x) carry ~1e-14/|x| near x = 0)
        ratio = max(l1, l2) / min(l1, l2)
        far = 16 * EPS * ratio
        tols = dict(sqrt=8 * EPS, exp=1e-12 + 8 * EPS * (abs(l1) + abs(l2)) + 4e-14 / abs(l1 - l2), log=1e-12 + 4e-14 / d + far,
                    logref=1e-12 + (4e-14 / d + far if abs(l1 - l2) > 0.05 * min(l1, l2) else 0), taylor=64 * EPS, plain=1e-12 + 4e-14 / d + far,
                    pow=1e-12 + 1e-13 / d + far)
        for k, name in enumerate(['sqrt', 'exp', 'log', 'logref', 'taylor', 'plain', 'pow']):
            if o[name] is None:
                continue
            ctx.count('model_vs_impl_comparisons')
            # the branch decision of the reference kernel is skipped within a few ulp of its switch
            if name == 'logref' and abs(abs(l1 - l2) - 0.05 * min(l1, l2)) <= 8 * EPS * max(l1, l2):
                continue
            if not abs(v[k] - o[name]) <= tols[name] * abs(o[name]):
                nm += 1
                ctx.fail('correspondence', 'kernel %s(%r, %r): model %r, implementation %r (rel. tol %.2g)' % (name, l1, l2, v[k], o[name], tols[name]),
                         case=dict(layer='kernel', kind=name, l1=l1, l2=l2))
    # safe_sqrt_jvp kernel
    xs = [(x, v) for x in (0.0, -2.0, 1e-300, 0.25, 3.0, 1e10) for v in (1.0, -0.7)]
    res = C.coq_eval(IMPORTS, ['fencs [fst (safe_sqrt_jvp %s %s); snd (safe_sqrt_jvp %s %s)]' % (C.cf(x), C.cf(v), C.cf(x), C.cf(v)) for x, v in xs], 'C10s')
    for (x, v), zs in zip(xs, res):
        m = C.dec_floats(zs)
        p, t = jax.jvp(Math.safe_sqrt, (x,), (v,))
        ctx.count('model_vs_impl_comparisons')
        if not (C.close(m[0], float(p), rtol=4 * EPS, atol=0) and C.close(m[1], float(t), rtol=4 * EPS, atol=0)):
            nm += 1
            ctx.fail('correspondence', 'safe_sqrt_jvp(%r, %r): model %r, implementation %r' % (x, v, m, (float(p), float(t))), case=dict(layer='safe_sqrt', x=x, v=v))
    # the JVP helper given the implementation's own eigen-pairs
    hr = ctx.rng('helper')
    hc, hex_ = [], []
    DF = dict(sqrt='(fun x => ndiv nhalf (nsqrt x))', exp='nexp', log='(fun x => ndiv nunit x)')
    REL = dict(sqrt='_sqrt_relative_difference', exp='_exp_relative_difference', log='_log_relative_difference')
    FUN = dict(sqrt=(Math.safe_sqrt, TM._sqrt_relative_difference), exp=(np.exp, TM._exp_relative_difference), log=(np.log, TM._log_relative_difference))
    for i in range(ctx.n(18, 150)):
        kind = ['sqrt', 'exp', 'log'][i % 3]
        Cm = spd(hr, ['distinct', 'double', 'triple'][(i // 3) % 3])
        Cd = onp.array([[hr.uniform(-1, 1) for _ in range(3)] for _ in range(3)])
        lam, V = TM.eigen_sym33_unit(np.array(Cm))
        sol = TM._symmetric_matrix_function_jvp_helper(FUN[kind][0], FUN[kind][1], (np.array(Cm),), (np.array(Cd),))
        lam, V, sol = [onp.asarray(z) for z in (lam, V, sol)]
        fl = lambda A: '[' + '; '.join(C.cf(float(x)) for x in onp.asarray(A).ravel()) + ']'
        # the relative-difference kernel is an oracle here (it is tied separately above, and near-equal eigenvalues are exactly where the
        # binary64 model of exp x - 1 / ln(1 + x) is inaccurate): the values the implementation's kernel returns are fed to the model
        pr = [(0, 1), (1, 2), (2, 0)]
        rv = [float(FUN[kind][1](float(lam[a]), float(lam[b]))) if lam[a] != lam[b] else 0.0 for a, b in pr]
        rel = '(fun a b => if andb (neqb a %s) (neqb b %s) then %s else if andb (neqb a %s) (neqb b %s) then %s else %s)' % (
            C.cf(float(lam[0])), C.cf(float(lam[1])), C.cf(rv[0]), C.cf(float(lam[1])), C.cf(float(lam[2])), C.cf(rv[1]), C.cf(rv[2]))
        hex_.append('fencs (list_of_mat (jvp_helper %s %s (fun i => nth i %s nzero) (mat_of_list %s) (mat_of_list %s)))'
                    % (DF[kind], rel, fl(lam), fl(V), fl(Cd)))
        # the REGENERATED body of the helper (Gen_TensorMathJVP.jvp_helper_gen): the opaque eigen-solver is the constant function returning the
        # implementation's own (lam, V); func is unused by the rule; relative_difference / jacfwd(func) are the same oracles as for the hand model
        sp = lambda A: ' '.join(C.cf(float(x)) for x in onp.asarray(A).ravel())
        tup = '(' + ', '.join(C.cf(float(x)) for x in list(lam) + list(onp.asarray(V).ravel())) + ')'
        hex_.append("(let '(a, b, c, d, e, f, g, h, i) := jvp_helper_gen (fun _ _ _ _ _ _ _ _ _ => %s) (fun x => x) %s %s %s %s in fencs [a; b; c; d; e; f; g; h; i])"
                    % (tup, rel, DF[kind], sp(Cm), sp(Cd)))
        hc.append((kind, Cm, Cd, lam, sol))
    res = C.coq_eval(IMPORTS, hex_, 'C10h', shard=60)
    for k, (kind, Cm, Cd, lam, sol) in enumerate(hc):
        for which, zs in (('hand model', res[2 * k]), ('regenerated body', res[2 * k + 1])):
            m = onp.array(C.dec_floats(zs)).reshape(3, 3)
            ctx.count('model_vs_impl_comparisons')
            ctx.count('helper_%s_cases' % which.split()[0])
            sc = max(1.0, float(onp.abs(sol).max()))
            if not onp.abs(m - sol).max() <= 1e-11 * sc:
                nm += 1
                ctx.fail('correspondence', 'JVP helper (%s, eigenvalues %s): %s and implementation differ by %.3g' % (kind, list(lam), which, float(onp.abs(m - sol).max())),
                         case=dict(layer='helper', kind=kind, C=Cm.tolist(), Cdot=Cd.tolist()))
    ctx.count('model_vs_impl_mismatches', nm)


def f14_witness_layer(ctx):
    """C10_second_derivative_refuted (a), replayed: at A = diag(1,1,2) the eigen-solver returns lam = (1,1,2), V = [[0,1,0],[-1,0,0],[0,0,1]] and JAX's
    tangent of it in the direction e00 is dlam = (1/2,1/2,0), dV = 0; with these the rule's second derivative of X -> X^2 in (e00, e00) is 1 in
    entry (0,0) (dual-number evaluation of the regenerated helper); the true value is 2.  Three outcomes: the implementation reproduces the theorem's
    numbers (F14 open, as recorded); it returns 2 (F14 repaired: the refutation no longer describes the code -- a note); anything else means the
    dual-number model does not describe how the rule is differentiated (correspondence failure)."""
    import numpy as onp
    import jax
    import jax.numpy as np
    from optimism import TensorMath as TM
    ctx.count('evaluations')
    A = np.diag(np.array([1.0, 1.0, 2.0]))
    e00 = np.array(onp.diag([1.0, 0.0, 0.0]))
    (lam, V), (dlam, dV) = jax.jvp(TM.eigen_sym33_unit, (A,), (e00,))
    f = lambda X: TM.pow_symm(X, 2)
    first = onp.asarray(jax.jvp(f, (A,), (e00,))[1])
    second = onp.asarray(jax.jvp(lambda X: jax.jvp(f, (X,), (e00,))[1], (A,), (e00,))[1])
    got = dict(lam=onp.asarray(lam).tolist(), V=onp.asarray(V).tolist(), dlam=onp.asarray(dlam).tolist(), dV=onp.asarray(dV).tolist(),
               first_00=float(first[0, 0]), second_00=float(second[0, 0]))
    Vw = onp.array([[0.0, 1.0, 0.0], [-1.0, 0.0, 0.0], [0.0, 0.0, 1.0]])
    premise = (onp.abs(onp.asarray(lam) - [1, 1, 2]).max() <= 1e-12 and onp.abs(onp.asarray(V) - Vw).max() <= 1e-12
               and onp.abs(onp.asarray(dlam) - [0.5, 0.5, 0]).max() <= 1e-12 and onp.abs(onp.asarray(dV)).max() <= 1e-12)
    ctx.cov['f14_witness'] = got
    if abs(first[0, 0] - 2.0) > 1e-12:
        ctx.fail('conclusion', 'first derivative of pow_symm(., 2) at diag(1,1,2) in direction e00 is %r in entry (0,0); A E + E A gives 2' % float(first[0, 0]),
                 case=dict(layer='f14_witness'), concrete=True)
    if abs(second[0, 0] - 2.0) <= 1e-9:
        ctx.count('f14_witness_repaired')
        ctx.notes.append('F14 witness: the second derivative of pow_symm(., 2) at diag(1,1,2) is now 2 (correct); C10_second_derivative_refuted no longer describes the implementation')
    elif premise and abs(second[0, 0] - 1.0) <= 1e-9:
        ctx.count('f14_witness_reproduced')
    elif premise:
        ctx.fail('correspondence', 'F14 witness: with the eigen-solver tangent of the theorem the dual-number evaluation of the regenerated helper gives second '
                 'derivative 1 in entry (0,0); jax.jvp of the rule gives %r' % float(second[0, 0]), case=dict(layer='f14_witness', got=got))
    else:
        ctx.count('f14_witness_premise_changed')
        ctx.notes.append('F14 witness: the eigen-solver (or its JAX tangent) at diag(1,1,2), direction e00, no longer returns the pair of the theorem: %s' % json.dumps(got))


def spd(r, pattern):
    """random symmetric positive definite 3x3 with a prescribed eigenvalue pattern (exactly repeated where asked)"""
    import numpy as onp
    A = onp.array([[r.gauss(0, 1) for _ in range(3)] for _ in range(3)])
    Q, _ = onp.linalg.qr(A)
    a, b, c = (r.uniform(0.5, 2.0) for _ in range(3))
    lam = dict(distinct=[a, b, c], double=[a, a, c], triple=[a, a, a])[pattern]
    M = Q @ onp.diag(lam) @ Q.T
    if pattern == 'triple':
        M = a * onp.eye(3)
    return 0.5 * (M + M.T)


# ============================================================================= L2: AD vs finite differences of the energy density

def material_configs(ctx):
    """every model family; J2 options rotate in the quick tier and are enumerated in the thorough tier"""
    r = ctx.rng('configs')
    cfgs = []
    E = lambda: round(r.uniform(5.0, 20.0), 3)
    nu = lambda: round(r.uniform(0.1, 0.4), 3)
    lin = ['linear', 'green lagrange', 'logarithmic']
    for sm in (lin if ctx.tier != 'quick' else [lin[ctx.seed % 3]]):
        cfgs.append(dict(family='LinearElastic', props={'elastic modulus': E(), 'poisson ratio': nu(), 'strain measure': sm}))
    for ver in (['adagio', 'coupled'] if ctx.tier != 'quick' else [['adagio', 'coupled'][ctx.seed % 2]]):
        cfgs.append(dict(family='Neohookean', props={'elastic modulus': E(), 'poisson ratio': nu(), 'version': ver}))
    cfgs.append(dict(family='Gent', props={'bulk modulus': round(r.uniform(5, 50), 3), 'shear modulus': round(r.uniform(0.5, 3), 3), 'Jm parameter': round(r.uniform(3, 20), 3)}))
    kins = ['small deformations', 'large deformations', 'seth hill']
    hards = ['linear', 'voce', 'power law']
    combos = [(k, h, rate) for k in kins for h in hards for rate in (False, True)]
    if ctx.tier == 'quick':
        s = ctx.seed
        combos = [(kins[s % 3], hards[(s // 3) % 3], True), (kins[(s + 1) % 3], hards[(s // 3 + 1) % 3], False)]
    for (k, h, rate) in combos:
        Y0 = round(r.uniform(0.05, 0.3), 4)
        p = {'elastic modulus': E(), 'poisson ratio': nu(), 'yield strength': Y0, 'kinematics': k, 'hardening model': h}
        if h == 'linear':
            p['hardening modulus'] = round(r.uniform(0.1, 3.0), 3)
        elif h == 'voce':
            p.update({'saturation strength': round(Y0 * r.uniform(1.5, 3), 4), 'reference plastic strain': round(r.uniform(0.02, 0.3), 4)})
        else:
            p.update({'hardening exponent': round(r.uniform(2, 8), 3), 'reference plastic strain': round(r.uniform(0.005, 0.05), 4)})
        if rate:
            p.update({'rate sensitivity': True, 'rate sensitivity stress': round(Y0 * r.uniform(0.1, 1), 4),
                      'rate sensitivity exponent': round(r.uniform(1.5, 6), 3), 'reference plastic strain rate': round(r.uniform(0.1, 10), 3)})
        cfgs.append(dict(family='J2Plastic', props=p))
    cfgs.append(dict(family='HyperViscoelastic', props={'equilibrium bulk modulus': round(r.uniform(20, 200), 2), 'equilibrium shear modulus': round(r.uniform(0.5, 3), 3),
                                                        'non equilibrium shear modulus': round(r.uniform(0.5, 5), 3), 'relaxation time': round(r.uniform(0.05, 5), 3)}))
    if ctx.tier != 'quick' or ctx.seed % 2 == 0:
        p = {'equilibrium bulk modulus': round(r.uniform(20, 200), 2), 'equilibrium shear modulus': round(r.uniform(0.5, 3), 3)}
        for n in (1, 2, 3):
            p['non equilibrium shear modulus %d' % n] = round(r.uniform(0.5, 5), 3)
            p['relaxation time %d' % n] = round(10.0 ** r.uniform(-2, 1), 4)
        cfgs.append(dict(family='MultiBranchHyperViscoelastic', props=p))
    pk = ['large deformations', 'small deformations']
    for k in (pk if ctx.tier != 'quick' else [pk[ctx.seed % 2]]):
        cfgs.append(dict(family='PhaseFieldThreshold', props={'elastic modulus': E(), 'poisson ratio': nu(), 'critical energy release rate': round(r.uniform(0.5, 3), 3),
                                                              'regularization length': round(r.uniform(0.05, 0.5), 3), 'kinematics': k}))
    for c in cfgs:
        c['seed'] = r.randrange(1 << 30)
    # flat hardening (rate-independent PERFECT plasticity): the flow stress is constant, so the root of the consistency residual IS the upper
    # end of the bracket handed to find_root, ub = eqpsOld + (trialMises - Y)/(3 mu), and rtsafe_ returns that end without iterating.  This is
    # the one place where the derivative of the root must come from the implicit-function rule AT a bracket end (the IFT theorem has no
    # interiority hypothesis: see C10_scalar_ift_at_bracket_end); the tangent then carries the whole plastic correction.  Only actively
    # yielding points are judged.  Every kinematics option x {linear H = 0, voce saturated from the start}; the quick tier rotates.
    flats = [(k, f) for k in kins for f in ('linear H=0', 'voce Ysat=Y0')]
    if ctx.tier == 'quick':
        flats = [flats[(2 * ctx.seed + ctx.seed // 3) % 6]]
    rf = ctx.rng('configs_flat')             # own stream: the constants of the configurations above do not move
    for (k, f) in flats:
        Y0 = round(rf.uniform(0.05, 0.3), 4)
        p = {'elastic modulus': round(rf.uniform(5.0, 20.0), 3), 'poisson ratio': round(rf.uniform(0.1, 0.4), 3), 'yield strength': Y0, 'kinematics': k}
        if f == 'linear H=0':
            p.update({'hardening model': 'linear', 'hardening modulus': 0.0})
        else:
            p.update({'hardening model': 'voce', 'saturation strength': Y0, 'reference plastic strain': round(rf.uniform(0.02, 0.3), 4)})
        cfgs.append(dict(family='J2Plastic', props=p, flat=f, seed=rf.randrange(1 << 30)))
    return cfgs


class Model:
    """uniform view of a material model: W(H, state, dt), state update, and the constitutive switch (None if smooth)"""

    def __init__(self, cfg):
        import importlib
        import jax
        import jax.numpy as np
        fam, props = cfg['family'], cfg['props']
        self.cfg = cfg
        self.switch = None
        if fam == 'PhaseFieldThreshold':
            mod = importlib.import_module('optimism.phasefield.PhaseFieldThreshold')
            mm = mod.create_material_model_functions(props)
            rr = random.Random(cfg['seed'])
            phase, pg = rr.uniform(0.05, 0.9), np.array([rr.uniform(-1, 1), rr.uniform(-1, 1), 0.0])
            self.W = lambda H, q, dt: mm.compute_energy_density(H, phase, pg, q, dt)
            self.state0 = np.zeros(1)
            self.update = lambda H, q, dt: q
            strain = mod.compute_logarithmic_strain if props['kinematics'] == 'large deformations' else mod.compute_linear_strain
            self.switch = lambda H, q, dt: np.trace(strain(H)) > 0.0          # tension / compression split of the volumetric energy
            self.evolves = False
        else:
            mod = importlib.import_module('optimism.material.' + fam)
            with quiet():
                mm = (mod.create_material_functions if fam == 'Gent' else mod.create_material_model_functions)(props)
            self.W = mm.compute_energy_density
            self.state0 = np.atleast_1d(np.asarray(mm.compute_initial_state(), dtype=float)).ravel()
            self.update = mm.compute_state_new
            self.evolves = fam in ('J2Plastic', 'HyperViscoelastic', 'MultiBranchHyperViscoelastic')
            if fam == 'J2Plastic':
                self.switch = lambda H, q, dt: mm.compute_state_new(H, q, dt)[0] > q[0]       # is the step yielding?
        W = self.W
        self.Wb = jax.jit(jax.vmap(W, (0, None, None)))
        self.grad = jax.jit(jax.grad(W))
        self.tang = jax.jit(lambda H, q, dt, E: jax.jvp(lambda X: jax.grad(W)(X, q, dt), (H,), (E,))[1])
        self.upd = jax.jit(self.update)
        self.swb = jax.jit(jax.vmap(self.switch, (0, None, None))) if self.switch is not None else None
        self.h = 4e-4 if self.switch is not None else 1e-3
        self.solver_tol = 1e-9 if fam == 'J2Plastic' else 0.0


def rand_H(r, amp):
    import numpy as onp
    return onp.array([[r.gauss(0, 1) for _ in range(3)] for _ in range(3)]) * amp / 1.7


def fd_check(model, H, q, dt, dirs):
    """-> (list of violated clauses, info) or None when the stencil straddles a constitutive switch / is not smooth enough to judge"""
    import numpy as onp
    import jax.numpy as np
    h = model.h
    info = {}
    out = []
    ks = [k for k, _ in C1]
    cs = onp.array([c for _, c in C1])
    e = onp.eye(9).reshape(9, 3, 3)
    P1 = {s: onp.array([H + k * s * h * e[ij] for ij in range(9) for k in ks]) for s in (1, 2)}
    P2 = {(d, s): onp.array([H + k * s * h * E + l * s * h * e[ij] for ij in range(9) for k in ks for l in ks]) for d, E in enumerate(dirs) for s in (1, 2)}
    allpts = onp.concatenate([P1[1], P1[2]] + [P2[k] for k in P2] + [H[None]])
    if onp.linalg.det(allpts + onp.eye(3)).min() < 0.2:
        return None
    if model.swb is not None:
        sw = onp.asarray(model.swb(np.array(allpts), q, dt))
        if sw.any() != sw.all():
            return None                       # the differences would cross the switch: not a derivative of either branch
        info['side'] = bool(sw[0])
    Wv = {s: onp.asarray(model.Wb(np.array(P1[s]), q, dt)).reshape(9, 6) for s in (1, 2)}
    if not onp.all(onp.isfinite(Wv[1])) or not onp.all(onp.isfinite(Wv[2])):
        return None
    Wmax = max(float(onp.abs(Wv[2]).max()), 1e-300)
    G = {s: (Wv[s] @ cs / (s * h)).reshape(3, 3) for s in (1, 2)}
    g = onp.asarray(model.grad(np.array(H), q, dt))
    gs = max(1.0, float(onp.abs(g).max()))
    rich = float(onp.abs(G[1] - G[2]).max())
    if rich > 1e-4 * gs:
        return None
    # models with an internal root solve (J2: residual tolerance 1e-10 * Y0) deliver the stress to that tolerance, not to rounding
    # (the energy itself is evaluated with cancellation between terms larger than |W|, hence the generous rounding factor)
    tol = 512 * EPS * S1 * Wmax / h + rich / 8 + (1e-11 + model.solver_tol) * gs
    err = float(onp.abs(G[1] - g).max()) if onp.all(onp.isfinite(g)) else float('inf')
    info.update(grad_err=err, grad_tol=tol, grad_scale=gs)
    if not err <= tol:
        ij = int(onp.nanargmax(onp.abs(G[1] - g))) if onp.all(onp.isfinite(g)) else 0
        out.append('stress (jax.grad of the energy density) differs from the 6th-order central difference of the energy by %.3g (tolerance %.3g, scale %.3g) in component %d'
                   % (err, tol, gs, ij))
    for d, E in enumerate(dirs):
        T = onp.asarray(model.tang(np.array(H), q, dt, np.array(E)))
        W2 = {s: onp.asarray(model.Wb(np.array(P2[(d, s)]), q, dt)).reshape(9, 6, 6) for s in (1, 2)}
        if not all(onp.all(onp.isfinite(W2[s])) for s in (1, 2)):
            return None
        F = {s: onp.einsum('ikl,k,l->i', W2[s], cs, cs).reshape(3, 3) / (s * h) ** 2 for s in (1, 2)}
        ts = max(1.0, float(onp.abs(T).max()) if onp.all(onp.isfinite(T)) else 1.0)
        rich2 = float(onp.abs(F[1] - F[2]).max())
        if rich2 > 1e-3 * ts:
            return None
        tol2 = 512 * EPS * S1 * S1 * max(Wmax, float(onp.abs(W2[2]).max())) / h ** 2 + rich2 / 8 + (1e-9 + 10 * model.solver_tol) * ts
        err2 = float(onp.abs(F[1] - T).max()) if onp.all(onp.isfinite(T)) else float('inf')
        info['tangent_err_%d' % d], info['tangent_tol_%d' % d], info['tangent_scale'] = err2, tol2, ts
        if not err2 <= tol2:
            out.append('tangent action (jax.jvp of jax.grad) in direction %d differs from the second central difference of the energy by %.3g (tolerance %.3g, scale %.3g)'
                       % (d, err2, tol2, ts))
    return out, info


def run_material(ctx, cfg, npoints):
    """-> list of (violations, case, info)"""
    import numpy as onp
    import jax.numpy as np
    model = Model(cfg)
    r = random.Random(cfg['seed'])
    results = []
    sides = {}
    tries = 0
    while len(results) < npoints and tries < 12 * npoints:
        tries += 1
        # a random history of 1-3 load steps
        q = model.state0
        steps = []
        nsteps = r.randrange(1, 4) if model.evolves else 0
        Hs = onp.zeros((3, 3))
        for _ in range(nsteps):
            Hs = Hs + rand_H(r, r.uniform(0.02, 0.12))
            dts = round(10.0 ** r.uniform(-1.5, 0.3), 4)
            steps.append((Hs.tolist(), dts))
            q = model.upd(np.array(Hs), q, dts)
        dt = round(10.0 ** r.uniform(-1.5, 0.3), 4)
        flat = bool(cfg.get('flat'))                                     # flat hardening stream: actively yielding, generic points only
        want = 'elastic' if (len(results) % 2 == 0 and not flat) else 'plastic'
        if cfg['family'] == 'J2Plastic' and want == 'elastic':
            H = Hs * r.uniform(0.8, 0.99) + rand_H(r, 0.002)           # partial unloading from the last converged state
        else:
            H = Hs + rand_H(r, r.uniform(0.02, 0.15))
        pattern = ['generic', 'generic', 'double', 'triple'][tries % 4] if cfg['family'] != 'J2Plastic' or (want == 'plastic' and not flat) else 'generic'
        if pattern != 'generic':
            # repeated principal stretches (uniaxial / equibiaxial / volumetric states in a rotated frame): where the repeated-eigenvalue
            # handling of the spectral tensor functions is exercised
            Qm, _ = onp.linalg.qr(onp.array([[r.gauss(0, 1) for _ in range(3)] for _ in range(3)]))
            a, b = 1.0 + r.uniform(-0.12, 0.15), 1.0 + r.uniform(-0.12, 0.15)
            U = Qm @ onp.diag([a, b, b] if pattern == 'double' else [a, a, a]) @ Qm.T
            U = 0.5 * (U + U.T)
            if r.random() < 0.5:
                w = onp.array([r.gauss(0, 1) for _ in range(3)]) * 0.1
                K = onp.array([[0, -w[2], w[1]], [w[2], 0, -w[0]], [-w[1], w[0], 0]])
                Rm = onp.eye(3) + K + 0.5 * K @ K                    # nearly a rotation; F = Rm U is a valid deformation gradient
                U = Rm @ U
            H = U - onp.eye(3)
        dirs = [rand_H(r, 1.0)]
        e = onp.zeros((3, 3))
        e[r.randrange(3), r.randrange(3)] = 1.0
        dirs.append(e)
        res = fd_check(model, H, q, dt, dirs)
        ctx.count('fd_points_tried')
        if res is None:
            ctx.count('fd_points_rejected_switch_or_nonsmooth')
            continue
        bad, info = res
        if cfg['family'] == 'J2Plastic':
            side = 'plastic' if info.get('side') else 'elastic'
            if flat and side == 'elastic':
                continue
            if not flat and sides.get(side, 0) >= (npoints + 1) // 2 and tries < 8 * npoints:
                continue                                             # keep both sides of the yield switch represented
            sides[side] = sides.get(side, 0) + 1
        info['eqps_or_state_norm'] = float(onp.abs(onp.asarray(q) - onp.asarray(model.state0)).max()) if model.evolves else 0.0
        info['pattern'] = pattern
        case = dict(layer='material', cfg=cfg, steps=steps, dt=dt, H=H.tolist(), dirs=[d.tolist() for d in dirs], pattern=pattern,
                    clauses=['stress' if b.startswith('stress') else 'tangent' for b in bad])
        results.append((bad, case, info))
    return results, sides


def replay_material(case):
    import numpy as onp
    import jax.numpy as np
    model = Model(case['cfg'])
    q = model.state0
    for Hs, dts in case['steps']:
        q = model.upd(np.array(onp.array(Hs)), q, dts)
    return fd_check(model, onp.array(case['H']), q, case['dt'], [onp.array(d) for d in case['dirs']])


def materials_layer(ctx, cfgs=None):
    cfgs = cfgs if cfgs is not None else material_configs(ctx)
    distinct = 0
    fams = {}
    for cfg in cfgs:
        try:
            results, sides = run_material(ctx, cfg, ctx.n(3, 4) if cfg.get('flat') else ctx.n(4, 8))
        except Exception as ex:
            ctx.count('evaluations')
            ctx.fail('conclusion', '%s %s: differentiating the energy density raised %s: %s' % (cfg['family'], json.dumps(cfg['props']), type(ex).__name__, str(ex)[:200]),
                     case=dict(layer='material_error', cfg=cfg), concrete=True)
            continue
        opts = {k: v for k, v in cfg['props'].items() if isinstance(v, (str, bool))}
        if cfg.get('flat'):
            opts['flat hardening'] = cfg['flat']
            ctx.count('flat_hardening_yielding_points', len(results))
        worst = max([i.get('grad_err', 0) / i.get('grad_tol', 1) for _, _, i in results] + [0])
        worst2 = max([i.get('tangent_err_0', 0) / i.get('tangent_tol_0', 1) for _, _, i in results] + [0])
        ctx.log('L2 %-28s %-70s points %d %s worst err/tol: grad %.2g tangent %.2g' % (cfg['family'], json.dumps(opts)[:70], len(results), sides or '', worst, worst2))
        fams[cfg['family']] = fams.get(cfg['family'], 0) + len(results)
        if not results:
            ctx.notes.append('no admissible evaluation point found for %s %s' % (cfg['family'], opts))
        for bad, case, info in results:
            ctx.count('evaluations')
            distinct += 1
            ctx.sample(dict(model=cfg['family'], options=opts, info={k: (round(v, 16) if isinstance(v, float) else v) for k, v in info.items()}), limit=8)
            for b in bad:
                ctx.fail('conclusion', '%s %s: %s' % (cfg['family'], json.dumps(opts), b), case=case, concrete=True)
    ctx.cov['material_points'] = fams
    return distinct


# ----------------------------------------------------------------------------- tensor-function JVPs at repeated eigenvalues

def tensor_jvp_layer(ctx):
    import numpy as onp
    import jax
    import jax.numpy as np
    from optimism import TensorMath as TM
    r = ctx.rng('tensorjvp')
    funs = [('log_symm', TM.log_symm), ('sqrt_symm', TM.sqrt_symm), ('exp_symm', TM.exp_symm),
            ('pow_symm m=0.25', lambda A: TM.pow_symm(A, 0.25)), ('pow_symm m=3', lambda A: TM.pow_symm(A, 3))]
    n = 0
    cs = onp.array([c for _, c in C1])
    ks = [k for k, _ in C1]
    for name, f in funs:
        fb = jax.jit(jax.vmap(f))
        jv = jax.jit(lambda A, E: jax.jvp(f, (A,), (E,))[1])
        for pat in ['distinct', 'double', 'triple'] * ctx.n(1, 4):
            A = spd(r, pat)
            E = rand_H(r, 1.0)
            E = 0.5 * (E + E.T)
            ctx.count('evaluations')
            n += 1
            T = onp.asarray(jv(np.array(A), np.array(E)))
            h = 2e-3
            F = {}
            for s in (1, 2):
                vals = onp.asarray(fb(np.array(onp.array([A + k * s * h * E for k in ks]))))
                F[s] = onp.tensordot(cs, vals, 1) / (s * h)
            sc = max(1.0, float(onp.abs(T).max()))
            rich = float(onp.abs(F[1] - F[2]).max())
            # the primal near (but not at) a repeated eigenvalue goes through the closed-form 3x3 eigen-solver, whose accuracy
            # (property C12) limits the difference quotient: allow 1e-7 relative there
            tol = rich / 8 + 64 * EPS * S1 * float(onp.abs(vals).max()) / h + (1e-7 if pat != 'distinct' else 1e-9) * sc
            err = float(onp.abs(F[1] - T).max())
            if not err <= tol:
                ctx.fail('conclusion', 'custom JVP of %s at a tensor with %s eigenvalues differs from the central difference of the function by %.3g (tolerance %.3g)'
                         % (name, pat, err, tol), case=dict(layer='tensorjvp', fn=name, pattern=pat, A=A.tolist(), E=E.tolist()), concrete=True)
    return n


# ============================================================================= driver hooks

def correspondence(ctx, model_ok, only_l2=False):
    kernels_layer(ctx, model_ok and not only_l2)
    f14_witness_layer(ctx)
    d1 = materials_layer(ctx)
    d2 = tensor_jvp_layer(ctx)
    ctx.count('distinct_nontrivial', d1 + d2 + ctx.counts.get('model_vs_impl_comparisons', 0))
    ctx.cov['fd'] = 'stencil 6th order, steps h and 2h (h = 1e-3, 4e-4 for models with a switch); tolerance 512 eps S^k |W|max/h^k + |FD_h - FD_2h|/8 + (1e-11 | 1e-9 + solver tolerance) * scale'


def search(ctx, reasons):
    import copy
    c2 = copy.copy(ctx)
    c2.tier = 'thorough'
    c2.failures, c2.counts, c2.cov, c2.samples, c2.notes = [], {}, {}, [], []
    c2.seed = ctx.seed + 1
    correspondence(c2, False, only_l2=True)
    conc = [f for f in c2.failures if f.get('concrete')]
    return conc[0] if conc else None


def finding_fails(ctx, f):
    import numpy as onp
    w = f.get('witness_tensor') or f['witness']      # F13 is replayed on pow_symm's own JVP (its material witness also trips F14)
    if w.get('layer') == 'material':
        res = replay_material(w)
        return bool(res is not None and res[0])
    if w.get('layer') == 'tensorjvp':
        return tensor_jvp_error(w['fn'], onp.array(w['A']), onp.array(w['E']))[0] > 1e-6
    return False


SPECTRAL = {'LinearElastic': ('strain measure', ('logarithmic',)), 'HyperViscoelastic': None, 'MultiBranchHyperViscoelastic': None,
            'PhaseFieldThreshold': ('kinematics', ('large deformations',)), 'J2Plastic': ('kinematics', ('large deformations', 'seth hill'))}


def uses_spectral(cfg):
    fam = cfg.get('family')
    if fam not in SPECTRAL:
        return False
    return SPECTRAL[fam] is None or cfg.get('props', {}).get(SPECTRAL[fam][0], 'large deformations') in SPECTRAL[fam][1]


def matches_finding(fl, f):
    """F13: the derivative rule of pow_symm with a non-integer exponent is wrong when two eigenvalues are nearly (not exactly) equal;
    it surfaces in pow_symm's own JVP and in J2 with Seth-Hill kinematics at repeated principal stretches -- nowhere else.
    F14: the custom JVP rules of the spectral tensor functions are not correctly differentiable a second time where exactly/nearly two
    eigenvalues coincide: the TANGENT (never the stress) of the log-strain based models is off at states with a double principal stretch."""
    if fl.get('kind') != 'conclusion':
        return False
    case = fl.get('case') or {}
    what = fl.get('what', '')
    if f['id'] == 'F13':
        if case.get('layer') == 'tensorjvp':
            return case.get('fn') == 'pow_symm m=0.25' and case.get('pattern') in ('double', 'triple')
        if case.get('layer') == 'material':
            cfg = case.get('cfg', {})
            return (cfg.get('family') == 'J2Plastic' and cfg.get('props', {}).get('kinematics') == 'seth hill'
                    and case.get('pattern') in ('double', 'triple'))
    if f['id'] == 'F14':
        if case.get('layer') == 'material':
            return (uses_spectral(case.get('cfg', {})) and case.get('pattern') in ('double', 'triple') and 'tangent action' in what
                    and 'stress' not in case.get('clauses', []))
    return False


def tensor_jvp_error(name, A, E):
    import numpy as onp
    import jax
    import jax.numpy as np
    from optimism import TensorMath as TM
    f = {'log_symm': TM.log_symm, 'sqrt_symm': TM.sqrt_symm, 'exp_symm': TM.exp_symm,
         'pow_symm m=0.25': lambda X: TM.pow_symm(X, 0.25), 'pow_symm m=3': lambda X: TM.pow_symm(X, 3)}[name]
    T = onp.asarray(jax.jvp(f, (np.array(A),), (np.array(E),))[1])
    h = 2e-3
    F = sum(c * onp.asarray(f(np.array(A + k * h * E))) for k, c in C1) / h
    return float(onp.abs(F - T).max()), float(onp.abs(T).max())


def replay(ctx, path):
    rep = json.load(open(path))
    case = rep.get('failing_input')
    print('replay of', path)
    print(json.dumps(rep.get('reasons'), indent=1)[:3000])
    if not case:
        print('no concrete failing input recorded; broken obligations:', rep.get('broken'))
        return 1
    lay = case.get('layer')
    if lay == 'material':
        res = replay_material(case)
        print('implementation now:', res if res is None else (res[0] or 'AD agrees with the finite differences', res[1]))
        return 1 if (res is not None and res[0]) else 0
    if lay == 'kernel':
        import optimism  # noqa: F401
        from optimism import TensorMath as TM
        fn = dict(sqrt=TM._sqrt_relative_difference, exp=TM._exp_relative_difference, log=TM._log_relative_difference,
                  logref=TM._relative_log_difference, taylor=TM._relative_log_difference_taylor, plain=TM._relative_log_difference_no_tolerance_check,
                  pow=lambda a, b: TM._pow_relative_difference(a, b, 0.25))[case['kind']]
        got = float(fn(case['l1'], case['l2']))
        want = dd_exact({'logref': 'log', 'taylor': 'log', 'plain': 'log'}.get(case['kind'], case['kind']), case['l1'], case['l2'], 0.25)
        print('kernel now returns', got, 'divided difference', want)
        return 1 if abs(got - want) > 1e-8 * abs(want) else 0
    if lay == 'ift_end':
        import jax
        import jax.numpy as np
        import optimism  # noqa: F401
        from optimism import ScalarRootFind
        st = ScalarRootFind.get_settings(x_tol=1e-14, r_tol=0.0)
        a, p0, br = case['a'], case['p'], case['bracket']
        root = lambda p: ScalarRootFind.find_root(lambda x: a * (x - p) * (1.0 + (x - p) ** 2), 0.5 * (br[0] + br[1]), np.array(br), st)[0]
        got = float(jax.grad(root)(p0))
        print('d root / d p through find_root with the root on a bracket end now:', got, '(implicit-function value 1)')
        return 1 if abs(got - 1.0) > 1e-12 else 0
    print('case of layer %s is replayed by re-running the check' % lay)
    return 1
