"""C16 -- contact geometry: closest points, signed gaps, mortar integrals, penalty energy, level-set constraints."""
import json
import math
from fractions import Fraction

from vlib import common as C

ID = 'C16'
READY = True
LEVEL_TEXT = ('Full in exact arithmetic: Coq theorems over R about the closest-point kernels re-translated from the source on every run '
              '(cpp on the segment and nearest point, |cpp_distance| = Euclidean distance to the segment, sign = side of the outward normal '
              'with 0 -> +, end-point distance beyond the ends, rotation+translation invariance, reflection flips the sign) and about a hand '
              'model of compute_intersection/integrate_with_mortar/penalty energy (Cramer solve solves the intended system, rigid invariance '
              'for both common-normal rules, non-negativity, zero without overlap or when touching at a point, parallel segments: overlap '
              'length within l(|A|+|B|)/2 and gap integral = h * area integral -- for facing segments with BOTH rules and for same-orientation '
              'segments with the one-sided rule (round 4) --, penalty energy >= 0 and = 0 iff no sample penetrates, level-set kernels; mesh-level '
              'level-set / penalty functions over a hand model of the gathers). The hand models are tied to the implementation by executing them '
              'at binary64 on seeded segment pairs and real meshes (mesh model: exact comparison of the gathered sample points). '
              'Binary64 (round 4): the sign clause 0 -> + of the regenerated cpp_distance at PrimFloat for points exactly on the line is a Coq '
              'theorem on a stated grid of 147168 dyadic inputs (bounded, not all floats), replayed on the implementation; the witnesses of the '
              'open findings C16-F1/F2 are theorems about the binary64 model (NaN / lost overlap). '
              'Proposed patches (round 4, NOT applied to /repo, text in tools/vlib/c16_patches.py, models in model/M_C16_Patched.v): theorems '
              'C16_patchF1_* (fall-back normal: unit, rigid, equals the source rule when |nA-nB| > eps, no division by a norm <= eps in any '
              'numeric type, same-orientation parallel segments give the overlap length) and C16_patchF2_* (toleranced mask + clipping: tol=0 '
              'is the source, parameters in [0,1], rigid invariance, non-negativity, no end of the exact overlap lost by more than a perturbation '
              'd <= tol, and for facing parallel segments the area integral within (l/2 + 3(tol+d))(|A|+|B|) of the overlap length on every '
              'd-perturbed candidate list; the un-toleranced mask is refuted over R); the patched Python is executed against its models and '
              'against the clauses. Otherwise binary64 rounding and NaN/inf paths are covered by the correspondence only: that rounding perturbs '
              'the parameters by at most tol is a hypothesis, there is no all-floats statement for the patches.')
TECHNIQUE = 'Coq proof (Reals) over kernels regenerated from the Python AST + hand model; vm_compute/PrimFloat correspondence'
GEN = ['Surface', 'SmoothFunctions', 'EdgeCpp', 'MortarContact', 'Levelset']
TARGETS = ['proofs/L_C16.vo', 'proofs/L_C16m.vo', 'proofs/L_C16h.vo', 'proofs/L_C16p.vo', 'proofs/L_C16f.vo', 'proofs/L_C16r.vo', 'model/M_C16_Mortar.vo', 'model/M_C16_Mesh.vo',
           'model/M_C16_Patched.vo']
COQ_FILES = ['base/Num.v', 'base/Piecewise.v', 'model/M_C16_Mortar.v', 'model/M_C16_Mesh.v', 'model/M_C16_Patched.v', 'proofs/L_C18.v', 'proofs/L_C16.v',
             'proofs/L_C16m.v', 'proofs/L_C16h.v', 'proofs/L_C16p.v', 'proofs/L_C16f.v', 'proofs/L_C16r.v', 'props/P_C16.v']
TRUSTED = ['Coq 8.16.1 kernel + vm_compute (no native_compute)',
           'tools/vlib/py2coq.py translator (Python ast -> Gallina over Num T), cross-checked by running the generated kernels at binary64 against the implementation',
           'hand model model/M_C16_Mortar.v (Cramer instead of LU, first-extremum selection, -1 -> last entry), cross-checked at binary64 against compute_intersection / integrate_with_mortar / assemble_* / penalty energy',
           'correspondence harness: float<->(mantissa,exponent) exchange; tolerances: kernels 1e-12*scale, mortar 1e-9 relative on well-conditioned 2x2 systems (|sin angle| > 1e-3), near-tie cases compared on values only',
           'hand model model/M_C16_Mesh.v (gathers of the mesh-level level-set / penalty functions), cross-checked exactly (sample points) / to 1e-12 (energies) against LevelsetConstraint / PenaltyContact on structured meshes',
           'models of the PROPOSED patches model/M_C16_Patched.v, cross-checked at binary64 against the patched Python text tools/vlib/c16_patches.py (not part of /repo)',
           'theorems are over exact reals except the stated binary64 grid / witness theorems; binary64 rounding, NaN and inf are otherwise covered only by the correspondence']
ASSUMPTIONS = ['exact real arithmetic in theorems (division total: x/0 = 0 side cases excluded by the explicit guards a <> b, det <> 0)',
               'rigid motion = rotation + translation (a reflection flips the sign of the distance: proved)',
               'mortar theorems hold for every quadrature list with non-negative weights (sum 1 for the parallel case); the implementation uses the 2-point Gauss rule, whose points/weights are read from the implementation and fed to the model',
               'monotone smoothing needs 0 < l <= 1/2 (relativeSmoothingSize)',
               '`jnp.any(xiA == jnp.nan)` in integrate_with_mortar is identically False; the model always takes the active branch']
RULE = ('segments: random position/orientation, lengths over 3 decades; query points: near, beyond either end, on the line, at end points, '
        'plus dyadic axis-aligned cases exactly on t=0, t=1 and distance 0; segment pairs: roughly anti-parallel with random tilt, none / partial / '
        'nested / touching overlap, same-orientation and perpendicular pairs; rigid motions with exact Pythagorean rotations; real structured '
        'meshes with random displacement fields against plane / corner / circle obstacles (the same meshes are fed to the mesh-level hand model); '
        'round 4: random points of the dyadic grid of C16_binary64_on_line_counts_as_positive (points exactly on the line, any direction with '
        '|d_i| <= 3), parallel pairs of the same orientation (dyadic axis-aligned = bitwise equal normals, and generically rotated), facing '
        'and conforming (node-aligned) pairs for the proposed patches. A case is non-trivial when a clamp, an end-point branch, '
        'a sign switch or a validity mask is active or within 1e-6 of switching; distinct = distinct input tuples')
IMPORTS = ['From OV.gen Require Import Gen_Surface Gen_SmoothFunctions Gen_EdgeCpp Gen_MortarContact Gen_Levelset.',
           'From OV.model Require Import M_C16_Mortar M_C16_Mesh M_C16_Patched.']

PYTH = [(3, 4, 5), (5, 12, 13), (8, 15, 17), (20, 21, 29), (-3, 4, 5), (12, -5, 13), (-15, -8, 17), (0, 1, 1), (-1, 0, 1)]
INTEGRANDS = [
    ('one', lambda xa, xb, g: 1.0, '(fun xa xb g => nunit)', True),
    ('gap', lambda xa, xb, g: g, '(fun xa xb g => g)', False),
    ('gapleft', lambda xa, xb, g: g * (1.0 - xa), '(fun xa xb g => nmul g (nsub nunit xa))', False),
    ('sq', lambda xa, xb, g: g * g + xa * xb, '(fun xa xb g => nadd (nmul g g) (nmul xa xb))', True),
]
LSMOOTH = [1e-7, 1e-3, 0.25, 0.5]


def fl(x):
    return C.cf(float(x))


def rot(c, s, tx, ty, p):
    return (c * p[0] - s * p[1] + tx, s * p[0] + c * p[1] + ty)


# ----------------------------------------------------------------------------------------------- generators

def gen_cpp_cases(ctx):
    r = ctx.rng('cpp')
    out = []
    for _ in range(ctx.n(260, 3000)):
        L = 10.0 ** r.uniform(-2, 1)
        ang = r.uniform(0, 2 * math.pi)
        a = (r.uniform(-2, 2), r.uniform(-2, 2))
        b = (a[0] + L * math.cos(ang), a[1] + L * math.sin(ang))
        mode = r.randrange(8)
        t = (r.uniform(0, 1) if mode in (0, 5) else r.uniform(-2, 0) if mode == 1 else r.uniform(1, 3) if mode == 2
             else r.choice([0.0, 1.0]) if mode in (3, 4) else r.uniform(-1, 2))
        h = 0.0 if mode in (4, 5) else L * r.choice([-1, 1]) * 10.0 ** r.uniform(-6, 0.5)
        if mode == 7:
            h = L * r.choice([-1, 1]) * 10.0 ** r.uniform(-14, -9)
        nx, ny = math.sin(ang), -math.cos(ang)
        p = (a[0] + t * (b[0] - a[0]) + h * nx, a[1] + t * (b[1] - a[1]) + h * ny)
        if mode == 3 and r.random() < 0.5:
            p = a if t == 0.0 else b
        out.append((a, b, p, 'rand%d' % mode))
    # exact-switch stream: axis aligned dyadic data, everything computes without rounding
    for _ in range(ctx.n(40, 200)):
        k = r.randrange(-3, 4)
        Lx = math.ldexp(r.randrange(1, 9), k)
        a = (math.ldexp(r.randrange(-8, 9), k), math.ldexp(r.randrange(-8, 9), k))
        horiz = r.random() < 0.5
        sg = r.choice([-1, 1])
        b = (a[0] + sg * Lx, a[1]) if horiz else (a[0], a[1] + sg * Lx)
        tt = r.choice([0.0, 1.0, -0.5, 1.5, 0.5, 0.25])
        hh = r.choice([0.0, 0.0, math.ldexp(1, k - 2), -math.ldexp(1, k - 2)])
        if horiz:
            p = (a[0] + tt * sg * Lx, a[1] + hh)
        else:
            p = (a[0] + hh, a[1] + tt * sg * Lx)
        out.append((a, b, p, 'exact'))
    return out


def gen_pairs(ctx):
    """segment pairs for the mortar model: (A0, A1, B0, B1, kind)"""
    r = ctx.rng('mortar')
    out = []
    for _ in range(ctx.n(150, 1400)):
        LA = 10.0 ** r.uniform(-1, 1)
        LB = LA * 10.0 ** r.uniform(-1, 1)
        ang = r.uniform(0, 2 * math.pi)
        tA = (math.cos(ang), math.sin(ang))
        nA = (tA[1], -tA[0])
        a0 = (r.uniform(-1, 1), r.uniform(-1, 1))
        a1 = (a0[0] + LA * tA[0], a0[1] + LA * tA[1])
        kind = r.choice(['partial', 'partial', 'nested', 'none', 'touch', 'same', 'perp', 'tilt', 'cross'])
        tilt = r.uniform(-0.6, 0.6) if kind in ('tilt', 'cross') else r.uniform(-0.05, 0.05) if r.random() < 0.5 else 0.0
        angB = ang + math.pi + tilt
        if kind == 'same':
            angB = ang + (r.uniform(-0.3, 0.3) if r.random() < 0.5 else 0.0)
        if kind == 'perp':
            angB = ang + math.pi / 2 * r.choice([-1, 1]) + r.uniform(-0.2, 0.2)
        tB = (math.cos(angB), math.sin(angB))
        h = LA * r.choice([-1, 1, 1]) * 10.0 ** r.uniform(-3, -0.3)
        if kind == 'cross':
            h = LA * r.uniform(-0.05, 0.05)
        # B starts at parameter s0 of A (units of LA) and, being (roughly) anti-parallel, runs back to s0 - LB/LA
        rel = LB / LA
        if kind == 'none':
            s0 = r.uniform(-3, -0.2) if r.random() < 0.5 else 1.2 + rel + r.uniform(0, 2)
        elif kind == 'nested':
            s0 = r.uniform(rel, 1.0) if rel < 1 else r.uniform(1.0, rel)
        elif kind == 'touch':
            s0 = r.choice([0.0, 1.0 + rel])
        else:
            s0 = r.uniform(-0.2, 1.2 + rel)
        b0 = (a0[0] + s0 * LA * tA[0] + h * nA[0], a0[1] + s0 * LA * tA[1] + h * nA[1])
        b1 = (b0[0] + LB * tB[0], b0[1] + LB * tB[1])
        out.append((a0, a1, b0, b1, kind))
    # node-aligned pairs (conforming meshes): end points of B lie exactly on the normals through end points of A before a
    # rotation by a generic angle, so the projected parameters are 0 or 1 up to rounding (known finding C16-F2 lives here)
    for _ in range(ctx.n(60, 1000)):
        L = r.choice([1.0, 0.5, 2.0, r.uniform(0.1, 3)])
        h = r.uniform(0.01, 0.3)
        mode = r.randrange(3)
        pts = [(0.0, 0.0), (L, 0.0), (L, -h), (0.0, -h)] if mode == 0 else [(0.0, 0.0), (L, 0.0), (2 * L, -h), (0.0, -h)] if mode == 1 \
            else [(0.0, 0.0), (L, 0.0), (L, -h), (-L, -h)]
        ang = r.uniform(0, 2 * math.pi)
        mot = (math.cos(ang), math.sin(ang), r.uniform(-3, 3), r.uniform(-3, 3))
        q = [rot(*mot, p) for p in pts]
        out.append((q[0], q[1], q[2], q[3], 'aligned'))
    # exact stream: axis-aligned dyadic pairs (exact arithmetic on both sides): shared end projections, touching, nested, none
    for _ in range(ctx.n(40, 150)):
        k = r.randrange(-2, 3)
        u = lambda lo, hi: math.ldexp(r.randrange(lo, hi), k - 2)
        LA = u(2, 17)
        a0 = (u(-8, 9), u(-8, 9))
        a1 = (a0[0] + LA, a0[1])
        h = r.choice([u(1, 5), -u(1, 5), 0.0])
        st = r.choice([0.0, LA, u(-8, 25), u(0, 9)])
        LB = r.choice([LA, u(1, 17), st if st > 0 else LA])
        b0 = (a0[0] + st, a0[1] - h)
        b1 = (b0[0] - LB, b0[1])
        if r.random() < 0.15:
            b0, b1 = b1, b0          # same orientation
        out.append((a0, a1, b0, b1, 'exact'))
    return out


# ----------------------------------------------------------------------------------------------- implementation

_IMPL = {}


def impl():
    if _IMPL:
        return _IMPL
    import jax
    import jax.numpy as jnp
    import optimism  # noqa: F401
    from optimism.contact import EdgeCpp, MortarContact, Contact, Levelset, PenaltyContact, LevelsetConstraint
    from optimism import Surface, QuadratureRule, Mesh
    q = QuadratureRule.create_quadrature_rule_1D(degree=2)
    _IMPL.update(jax=jax, jnp=jnp, EdgeCpp=EdgeCpp, MC=MortarContact, Contact=Contact, Levelset=Levelset, Penalty=PenaltyContact,
                 LC=LevelsetConstraint, Surface=Surface, QR=QuadratureRule, Mesh=Mesh,
                 quad=[(float(x), float(w)) for x, w in zip(q.xigauss, q.wgauss)])
    _IMPL['cpp'] = jax.jit(jax.vmap(EdgeCpp.cpp))
    _IMPL['cpp_line'] = jax.jit(jax.vmap(EdgeCpp.cpp_line))
    _IMPL['cpp_distance'] = jax.jit(jax.vmap(EdgeCpp.cpp_distance))
    _IMPL['normal'] = jax.jit(jax.vmap(Surface.compute_normal))
    _IMPL['mnormal'] = jax.jit(jax.vmap(MortarContact.compute_normal))
    _IMPL['smooth_distance'] = jax.jit(jax.vmap(EdgeCpp.smooth_distance, (0, 0, 0)))
    _IMPL['area'] = jax.jit(jax.vmap(EdgeCpp.area))
    rules = dict(from_a=MortarContact.compute_normal_from_a, average=MortarContact.compute_average_normal)
    _IMPL['rules'] = rules
    for rn, rule in rules.items():
        _IMPL['isect_' + rn] = jax.jit(jax.vmap(lambda A, B, rule=rule: MortarContact.compute_intersection(A, B, rule)))
        _IMPL['nrm_' + rn] = jax.jit(jax.vmap(rule))
        for fname, f, _, _ in INTEGRANDS:
            _IMPL['int_%s_%s' % (rn, fname)] = jax.jit(jax.vmap(
                lambda A, B, l, rule=rule, f=f: MortarContact.integrate_with_mortar(A, B, rule, f, l)))
    return _IMPL


def run_cpp_impl(cases):
    I = impl()
    jnp = I['jnp']
    E = jnp.array([[c[0], c[1]] for c in cases])
    P = jnp.array([c[2] for c in cases])
    q, t = I['cpp'](E, P)
    ql, tl = I['cpp_line'](E, P)
    d = I['cpp_distance'](E, P)
    n = I['normal'](E)
    f = lambda a: [[float(x) for x in row] for row in a] if a.ndim == 2 else [float(x) for x in a]
    return dict(q=f(q), t=f(t), ql=f(ql), tl=f(tl), d=f(d), n=f(n))


def run_pairs_impl(pairs, ls):
    I = impl()
    jnp = I['jnp']
    A = jnp.array([[p[0], p[1]] for p in pairs])
    B = jnp.array([[p[2], p[3]] for p in pairs])
    L = jnp.array(ls)
    out = {}
    nA, nB = I['mnormal'](A), I['mnormal'](B)
    out['dn'] = [float(x) for x in jnp.max(jnp.abs(nA - nB), axis=1)]
    for rn in ('from_a', 'average'):
        xa, xb, g = I['isect_' + rn](A, B)
        out['isect_' + rn] = [[float(v) for v in (xa[i][0], xa[i][1], xb[i][0], xb[i][1], g[i][0], g[i][1])] for i in range(len(pairs))]
        out['nrm_' + rn] = [[float(v) for v in row] for row in I['nrm_' + rn](A, B)]
        for fname, _, _, _ in INTEGRANDS:
            out['int_%s_%s' % (rn, fname)] = [float(v) for v in I['int_%s_%s' % (rn, fname)](A, B, L)]
    return out


# ----------------------------------------------------------------------------------------------- conclusions (L2)

def scale_of(*pts):
    return max([abs(x) for p in pts for x in p] + [1e-300])


def concl_cpp(a, b, p, q, t, d, nrm, exact=False):
    """clauses of C16_cpp_on_segment / _nearest / _signed_distance_* evaluated on implementation outputs"""
    bad = []
    if not all(math.isfinite(x) for x in (q[0], q[1], t, d, nrm[0], nrm[1])):
        return ['non-finite output for a non-degenerate segment: q=%r t=%r d=%r normal=%r' % (q, t, d, nrm)]
    L = math.hypot(b[0] - a[0], b[1] - a[1])
    sc = max(scale_of(a, b, p), L)
    far = math.hypot(p[0] - a[0], p[1] - a[1]) + L
    tol = 2e-12 * (sc + far) * max(1.0, far / L)
    if not (0.0 <= t <= 1.0):
        bad.append('parameter %r outside [0,1]' % t)
    lx, ly = (1 - t) * a[0] + t * b[0], (1 - t) * a[1] + t * b[1]
    if abs(q[0] - lx) > tol or abs(q[1] - ly) > tol:
        bad.append('returned point is not (1-t)a + t b')
    # nearest: dense scan, exact rational arithmetic on the float outputs
    F = Fraction
    dq = (F(p[0]) - F(q[0])) ** 2 + (F(p[1]) - F(q[1])) ** 2
    tol2 = F(tol) * (2 * F(far) + F(tol))
    for k in range(0, 65):
        s = F(k, 64)
        x = (1 - s) * F(a[0]) + s * F(b[0])
        y = (1 - s) * F(a[1]) + s * F(b[1])
        ds = (F(p[0]) - x) ** 2 + (F(p[1]) - y) ** 2
        if dq > ds + tol2:
            bad.append('point at s=%s of the segment is closer (%.17g < %.17g)' % (s, math.sqrt(float(ds)), math.sqrt(float(dq))))
            break
    dist = math.hypot(p[0] - q[0], p[1] - q[1])
    if abs(abs(d) - dist) > tol:
        bad.append('|cpp_distance| = %r but distance to the segment is %r' % (abs(d), dist))
    s = ((b[1] - a[1]) * (p[0] - a[0]) - (b[0] - a[0]) * (p[1] - a[1])) / L
    if s > tol and not d >= 0:
        bad.append('point on the normal side (n.(p-a) = %r) has negative distance %r' % (s, d))
    if exact and s == 0.0 and not d >= 0:
        bad.append('point exactly on the line must count as + (convention 0 -> +) but distance is %r' % d)
    if s < -tol and not d < 0:
        bad.append('point opposite the normal (n.(p-a) = %r) has non-negative distance %r' % (s, d))
    if abs(nrm[0] ** 2 + nrm[1] ** 2 - 1) > 1e-12 or abs(nrm[0] * (b[0] - a[0]) + nrm[1] * (b[1] - a[1])) > 1e-12 * L:
        bad.append('normal is not a unit vector perpendicular to the edge')
    tt = ((b[0] - a[0]) * (p[0] - a[0]) + (b[1] - a[1]) * (p[1] - a[1])) / (L * L)
    margin = 1e-9 * max(1.0, far / L)
    if tt < -margin and abs(abs(d) - math.hypot(p[0] - a[0], p[1] - a[1])) > tol:
        bad.append('beyond end a the magnitude is not the end-point distance')
    if tt > 1 + margin and abs(abs(d) - math.hypot(p[0] - b[0], p[1] - b[1])) > tol:
        bad.append('beyond end b the magnitude is not the end-point distance')
    return bad


def sign_unstable(a, b, p):
    """beyond an end and (numerically) on the line: the sign of a rounding-level quantity decides +-|p - end|"""
    L = math.hypot(b[0] - a[0], b[1] - a[1])
    tt = ((b[0] - a[0]) * (p[0] - a[0]) + (b[1] - a[1]) * (p[1] - a[1])) / (L * L)
    s = ((b[1] - a[1]) * (p[0] - a[0]) - (b[0] - a[0]) * (p[1] - a[1])) / L
    far = math.hypot(p[0] - a[0], p[1] - a[1]) + L
    return (tt < 1e-9 or tt > 1 - 1e-9) and abs(s) < 1e-10 * (scale_of(a, b, p) + far)


def pair_geometry(a0, a1, b0, b1):
    LA = math.hypot(a1[0] - a0[0], a1[1] - a0[1])
    LB = math.hypot(b1[0] - b0[0], b1[1] - b0[1])
    tA = ((a1[0] - a0[0]) / LA, (a1[1] - a0[1]) / LA)
    tB = ((b1[0] - b0[0]) / LB, (b1[1] - b0[1]) / LB)
    return LA, LB, tA, tB


def conditioning(n, tA, tB):
    """|sin| of the angles between the common normal and either edge: small => the 2x2 systems are ill conditioned"""
    if not all(math.isfinite(x) for x in n):
        return 0.0
    return min(abs(tA[0] * n[1] - tA[1] * n[0]), abs(tB[0] * n[1] - tB[1] * n[0]))


def tie_margin(a0, a1, b0, b1, n):
    """distance of the validity masks of compute_intersection from switching: the four projected parameters are recomputed here
    (plain Cramer in Python) and the smallest distance of any of them to 0 or 1 is returned (0 when not finite)"""
    if not all(math.isfinite(x) for x in n):
        return 0.0

    def xi(xa, e0, e1, nn):
        m00, m01, m10, m11 = e0[0] - e1[0], nn[0], e0[1] - e1[1], nn[1]
        det = m00 * m11 - m01 * m10
        if det == 0.0:
            return math.inf
        return ((e0[0] - xa[0]) * m11 - m01 * (e0[1] - xa[1])) / det
    vals = [xi(a0, b0, b1, n), xi(a1, b0, b1, n), xi(b0, a0, a1, (-n[0], -n[1])), xi(b1, a0, a1, (-n[0], -n[1]))]
    if not all(math.isfinite(v) for v in vals):
        return 0.0
    return min(min(abs(v), abs(v - 1)) for v in vals)


def tie_margin_hp(a0, a1, b0, b1, rule):
    """the same margin in 60-digit decimal arithmetic on the exact values of the float inputs (normal rule recomputed in high
    precision): 0 means an end point is EXACTLY aligned for these inputs, a tiny positive value means aligned up to the rounding
    of the coordinates"""
    from decimal import Decimal, getcontext
    getcontext().prec = 60
    D = lambda p: (Decimal(p[0]), Decimal(p[1]))
    a0, a1, b0, b1 = D(a0), D(a1), D(b0), D(b1)

    def nrm(e0, e1):
        t = (e1[0] - e0[0], e1[1] - e0[1])
        L = (t[0] * t[0] + t[1] * t[1]).sqrt()
        return (t[1] / L, -t[0] / L)
    n = nrm(a0, a1)
    if rule == 'average':
        nb = nrm(b0, b1)
        d = (n[0] - nb[0], n[1] - nb[1])
        L = (d[0] * d[0] + d[1] * d[1]).sqrt()
        if L == 0:
            return None
        n = (d[0] / L, d[1] / L)

    def xi(xa, e0, e1, nn):
        m00, m01, m10, m11 = e0[0] - e1[0], nn[0], e0[1] - e1[1], nn[1]
        det = m00 * m11 - m01 * m10
        if det == 0:
            return None
        return ((e0[0] - xa[0]) * m11 - m01 * (e0[1] - xa[1])) / det
    vals = [xi(a0, b0, b1, n), xi(a1, b0, b1, n), xi(b0, a0, a1, (-n[0], -n[1])), xi(b1, a0, a1, (-n[0], -n[1]))]
    if any(v is None for v in vals):
        return None
    return float(min(min(abs(v), abs(v - 1)) for v in vals))


# ----------------------------------------------------------------------------------------------- correspondence

def correspondence(ctx, model_ok):
    I = impl()
    quad = I['quad']
    ctx.cov['quadrature_rule_read_from_implementation'] = quad
    if abs(sum(w for _, w in quad) - 1) > 1e-15 or any(w <= 0 or not 0 <= x <= 1 for x, w in quad):
        ctx.fail('conclusion', 'mortar quadrature rule is not a positive rule of total weight 1 on [0,1]: %r' % (quad,), case=dict(fn='quad'), concrete=True)
    distinct = set()
    evals = 0

    # ================= closest point / signed distance =================
    cases = gen_cpp_cases(ctx)
    out = run_cpp_impl(cases)
    evals += len(cases)
    unstable = 0
    for i, (a, b, p, kind) in enumerate(cases):
        t = out['t'][i]
        if t in (0.0, 1.0) or kind == 'exact' or abs(out['d'][i]) < 1e-6:
            distinct.add((a, b, p))
        if sign_unstable(a, b, p) and kind != 'exact':
            unstable += 1
            bad = [x for x in concl_cpp(a, b, p, out['q'][i], t, out['d'][i], out['n'][i]) if 'normal side' not in x and 'opposite the normal' not in x]
        else:
            bad = concl_cpp(a, b, p, out['q'][i], t, out['d'][i], out['n'][i], exact=(kind == 'exact'))
        for msg in bad:
            ctx.fail('conclusion', 'cpp/cpp_distance edge=(%r,%r) p=%r: %s' % (a, b, p, msg),
                     case=dict(fn='cpp', a=a, b=b, p=p, exact=(kind == 'exact')), concrete=True)
    # rigid-motion invariance on the implementation (exact Pythagorean rotations)
    r = ctx.rng('rigid')
    rc = []
    for (a, b, p, kind) in cases[:ctx.n(150, 800)]:
        x, y, z = r.choice(PYTH)
        c, s = x / z, y / z
        tx, ty = math.ldexp(r.randrange(-16, 17), -2), math.ldexp(r.randrange(-16, 17), -2)
        rc.append((rot(c, s, tx, ty, a), rot(c, s, tx, ty, b), rot(c, s, tx, ty, p), (c, s, tx, ty)))
    out2 = run_cpp_impl(rc)
    evals += len(rc)
    for i, (a2, b2, p2, mot) in enumerate(rc):
        a, b, p, kind = cases[i]
        L = math.hypot(b[0] - a[0], b[1] - a[1])
        far = math.hypot(p[0] - a[0], p[1] - a[1]) + L
        tol = 4e-12 * (scale_of(a, b, p, a2, b2, p2) + far) * max(1.0, far / L)
        if sign_unstable(a, b, p):
            continue
        if not (abs(out2['d'][i] - out['d'][i]) <= tol and abs(out2['t'][i] - out['t'][i]) <= tol / L):
            ctx.fail('conclusion', 'signed distance / parameter not invariant under rotation %r: d %r -> %r, t %r -> %r'
                     % (mot, out['d'][i], out2['d'][i], out['t'][i], out2['t'][i]), case=dict(fn='cpp_rigid', a=a, b=b, p=p, motion=mot), concrete=True)
        qx, qy = rot(*mot, out['q'][i])
        if not (abs(out2['q'][i][0] - qx) <= tol and abs(out2['q'][i][1] - qy) <= tol):
            ctx.fail('conclusion', 'closest point does not move with the rigid motion %r' % (mot,), case=dict(fn='cpp_rigid', a=a, b=b, p=p, motion=mot), concrete=True)
    ctx.count('sign_unstable_cases_skipped', unstable)

    ctx.log('closest-point conclusions done')
    # ================= several edges: get_closest_distance, smooth_distance =================
    jnp = I['jnp']
    poly = []
    rp = ctx.rng('poly')
    for _ in range(ctx.n(60, 150)):
        n = rp.randrange(2, 6)
        pts = [(rp.uniform(-1, 1), rp.uniform(-1, 1))]
        for _k in range(n):
            ang = rp.uniform(0, 2 * math.pi)
            L = 10 ** rp.uniform(-1, 0.3)
            pts.append((pts[-1][0] + L * math.cos(ang), pts[-1][1] + L * math.sin(ang)))
        p = (rp.uniform(-2, 2), rp.uniform(-2, 2))
        poly.append((pts, p))
    poly_res = []
    for pts, p in poly:
        coordsM = jnp.array([[pts[k], pts[k + 1]] for k in range(len(pts) - 1)])
        dcl = float(I['Contact'].get_closest_distance(coordsM, jnp.array(p)))
        ds = [float(x) for x in I['jax'].vmap(I['EdgeCpp'].cpp_distance, (0, None))(coordsM, jnp.array(p))]
        poly_res.append((dcl, ds))
        evals += 1
        # L2: magnitude is the distance to the polyline (dense scan over all edges)
        best = min(math.hypot(p[0] - ((1 - k / 200) * pts[e][0] + k / 200 * pts[e + 1][0]), p[1] - ((1 - k / 200) * pts[e][1] + k / 200 * pts[e + 1][1]))
                   for e in range(len(pts) - 1) for k in range(201))
        if not (abs(dcl) <= best + 1e-12 * (1 + best)) or dcl not in ds:
            ctx.fail('conclusion', 'get_closest_distance=%r but the polyline has a point at distance %r' % (dcl, best),
                     case=dict(fn='closest', pts=pts, p=p), concrete=True)
    # smooth_distance: tie of the generated kernel + rigid invariance
    sd = []
    for _ in range(ctx.n(80, 300)):
        ang = rp.uniform(0, 2 * math.pi)
        L0, L1 = 10 ** rp.uniform(-1, 0.5), 10 ** rp.uniform(-1, 0.5)
        v = (rp.uniform(-1, 1), rp.uniform(-1, 1))
        turn = rp.uniform(-2.5, 2.5)
        e0 = ((v[0] - L0 * math.cos(ang), v[1] - L0 * math.sin(ang)), v)
        e1 = (v, (v[0] + L1 * math.cos(ang + turn), v[1] + L1 * math.sin(ang + turn)))
        p = (v[0] + rp.uniform(-1, 1) * L0, v[1] + rp.uniform(-1, 1) * L0)
        sd.append((e0, e1, p, 10 ** rp.uniform(-6, -1)))
    TE = jnp.array([[list(map(list, c[0])), list(map(list, c[1]))] for c in sd])
    sd_impl = [float(x) for x in I['smooth_distance'](TE, jnp.array([c[2] for c in sd]), jnp.array([c[3] for c in sd]))]
    evals += len(sd)
    sd_rot = []
    for (e0, e1, p, tol_) in sd:
        x, y, z = rp.choice(PYTH)
        mot = (x / z, y / z, math.ldexp(rp.randrange(-16, 17), -2), math.ldexp(rp.randrange(-16, 17), -2))
        sd_rot.append(((rot(*mot, e0[0]), rot(*mot, e0[1])), (rot(*mot, e1[0]), rot(*mot, e1[1])), rot(*mot, p), tol_, mot))
    TE2 = jnp.array([[list(map(list, c[0])), list(map(list, c[1]))] for c in sd_rot])
    sd_impl2 = [float(x) for x in I['smooth_distance'](TE2, jnp.array([c[2] for c in sd_rot]), jnp.array([c[3] for c in sd_rot]))]
    for i, (e0, e1, p, tol_) in enumerate(sd):
        sc = scale_of(e0[0], e0[1], e1[1], p) + 5
        # the sign of a1+a2 and the 1e-14 cut on crossN are discrete switches: skip rounding-level cases
        if not (math.isfinite(sd_impl[i]) and math.isfinite(sd_impl2[i])):
            ctx.fail('conclusion', 'smooth_distance is not finite: %r / %r' % (sd_impl[i], sd_impl2[i]), case=dict(fn='smooth_distance_rigid', e0=e0, e1=e1, p=p, tol=tol_, motion=sd_rot[i][4]), concrete=True)
        elif abs(sd_impl2[i] - sd_impl[i]) > 1e-10 * sc:
            a1 = 0.5 * ((e0[0][0] * (e0[1][1] - e1[0][1]) + e0[1][0] * (e1[0][1] - e0[0][1]) + e1[0][0] * (e0[0][1] - e0[1][1])))
            a2 = 0.5 * ((e1[0][0] * (e1[1][1] - e0[0][1]) + e1[1][0] * (e0[0][1] - e1[0][1]) + e0[0][0] * (e1[0][1] - e1[1][1])))
            if abs(a1 + a2) > 1e-9:
                ctx.fail('conclusion', 'smooth_distance not invariant under the rigid motion %r: %r -> %r' % (sd_rot[i][4], sd_impl[i], sd_impl2[i]),
                         case=dict(fn='smooth_distance_rigid', e0=e0, e1=e1, p=p, tol=tol_, motion=sd_rot[i][4]), concrete=True)

    ctx.log('polyline / smooth_distance done')
    # ================= mortar =================
    pairs = gen_pairs(ctx)
    rl = ctx.rng('lsmooth')
    ls = [rl.choice(LSMOOTH) for _ in pairs]
    mo = run_pairs_impl(pairs, ls)
    evals += len(pairs) * 2
    # rigid images
    rm = ctx.rng('mrigid')
    motions = []
    for _ in pairs:
        x, y, z = rm.choice(PYTH)
        motions.append((x / z, y / z, math.ldexp(rm.randrange(-16, 17), -2), math.ldexp(rm.randrange(-16, 17), -2)))
    rpairs = [tuple(rot(*m, q) for q in pr[:4]) + (pr[4],) for pr, m in zip(pairs, motions)]
    mo2 = run_pairs_impl(rpairs, ls)
    evals += len(pairs) * 2
    kinds = {}
    stable = {}
    for i, (a0, a1, b0, b1, kind) in enumerate(pairs):
        kinds[kind] = kinds.get(kind, 0) + 1
        LA, LB, tA, tB = pair_geometry(a0, a1, b0, b1)
        l = ls[i]
        sc = max(LA, LB)
        for rn in ('from_a', 'average'):
            n = mo['nrm_' + rn][i]
            isect = mo['isect_' + rn][i]
            cond = conditioning(n, tA, tB)
            marg = tie_margin(a0, a1, b0, b1, n)
            ok_stable = cond > 1e-3 and (marg > 1e-7 or kind == 'exact')
            # average rule: (nA - nB)/|nA - nB| is ill conditioned when the unit normals nearly coincide (same orientation);
            # dn <= 1e-12 is the known finding C16-F1 (0/0 or pure rounding noise), 1e-12 < dn < 1e-3 is compared on values only
            dn = mo['dn'][i]
            degenerate_avg = rn == 'average' and dn <= 1e-12
            if rn == 'average' and 1e-12 < dn < 1e-3:
                ok_stable = False
            stable[(i, rn)] = ok_stable
            if marg < 1e-6 or kind in ('touch', 'none', 'exact'):
                distinct.add((a0, a1, b0, b1, rn))
            vals = {fn: mo['int_%s_%s' % (rn, fn)][i] for fn, _, _, _ in INTEGRANDS}
            case = dict(fn='mortar', rule=rn, a0=a0, a1=a1, b0=b0, b1=b1, l=l, kind=kind, dn=dn)
            nan = [fn for fn, v in vals.items() if v != v]
            if nan:
                ctx.fail('conclusion', 'mortar integral is NaN (rule %s, integrands %s) for A=(%r,%r) B=(%r,%r)' % (rn, nan, a0, a1, b0, b1),
                         case=dict(case, nan=True, normal=n), concrete=True)
                continue
            gsc = max(abs(isect[4]), abs(isect[5]), 1e-300) if all(math.isfinite(x) for x in isect[4:]) else 1.0
            for fn, _, _, nonneg in INTEGRANDS:
                if nonneg and not vals[fn] >= -1e-13 * sc * (1 + gsc * gsc):
                    ctx.fail('conclusion', 'mortar integral of a non-negative integrand (%s) is negative: %r' % (fn, vals[fn]), case=dict(case, integrand=fn), concrete=True)
            # no valid candidate => zero
            xa0, xa1, xb0, xb1 = isect[:4]
            inr = lambda v: 0.0 <= v <= 1.0
            if not (inr(xa0) and inr(xb0)) and (xa0 == xa1 and xb0 == xb1):
                for fn in vals:
                    if vals[fn] != 0.0:
                        ctx.fail('conclusion', 'no valid overlap candidate but integral of %s is %r' % (fn, vals[fn]), case=dict(case, integrand=fn), concrete=True)
            # definite non-overlap by geometry (projection of B on A's line clear of A by a margin, nearly parallel segments)
            if kind == 'none' and cond > 0.5:
                for fn in vals:
                    if abs(vals[fn]) > 1e-12 * sc * (1 + gsc * gsc):
                        ctx.fail('conclusion', 'segments do not overlap but integral of %s is %r' % (fn, vals[fn]), case=dict(case, integrand=fn), concrete=True)
            # rigid invariance
            if ok_stable or degenerate_avg:
                for fn in vals:
                    v2 = mo2['int_%s_%s' % (rn, fn)][i]
                    tolr = 1e-9 * sc * (1 + gsc * gsc) / max(cond, 1e-3)
                    if not abs(v2 - vals[fn]) <= tolr:
                        ctx.fail('conclusion', 'mortar integral of %s changes under the rigid motion %r: %r -> %r' % (fn, motions[i], vals[fn], v2),
                                 case=dict(case, integrand=fn, motion=motions[i]), concrete=True)
            # parallel, oppositely oriented: overlap length and gap area
            cr = tA[0] * tB[1] - tA[1] * tB[0]
            dt = tA[0] * tB[0] + tA[1] * tB[1]
            if abs(cr) < 1e-14 and dt < 0:
                u = ((b0[0] - a0[0]) * tA[0] + (b0[1] - a0[1]) * tA[1])
                v = ((b1[0] - a0[0]) * tA[0] + (b1[1] - a0[1]) * tA[1])
                h = (b0[0] - a0[0]) * tA[1] - (b0[1] - a0[1]) * tA[0]      # component of b0 - a0 along A's outward normal (tA1, -tA0)
                lo, hi = max(0.0, v), min(LA, u)
                if lo <= hi and l <= 0.5:
                    if abs(vals['one'] - (hi - lo)) > l * (LA + LB) / 2 + 1e-12 * sc:
                        ctx.fail('conclusion', 'parallel segments: area integral %r differs from the overlap length %r by more than l(|A|+|B|)/2 = %r'
                                 % (vals['one'], hi - lo, l * (LA + LB) / 2), case=dict(case, integrand='one', clause='parallel', expected=hi - lo), concrete=True)
                    if abs(vals['gap'] - h * vals['one']) > 1e-12 * sc * (1 + abs(h) + scale_of(a0, a1, b0, b1)):
                        ctx.fail('conclusion', 'parallel segments: gap integral %r is not h*area = %r' % (vals['gap'], h * vals['one']), case=dict(case, integrand='gap', clause='parallel'), concrete=True)
    ctx.cov['mortar_pair_kinds'] = kinds
    ctx.count('mortar_unstable_or_ill_conditioned', sum(1 for v in stable.values() if not v))

    ctx.log('mortar conclusions done')
    # ================= level sets and penalty energy on real meshes =================
    mesh_cases = mesh_checks(ctx, model_ok)
    evals += mesh_cases
    ctx.log('mesh level-set / penalty done')
    # ================= assembled nodal areas / gaps =================
    asm = assembly_checks(ctx)
    evals += asm['n']

    ctx.log('assembly done')
    evals += contact_mesh_checks(ctx)
    ctx.log('Contact.py mesh-level functions done')
    evals += mode_checks(ctx, cases, out, pairs, ls, mo, stable)
    ctx.log('execution modes done')
    evals += on_line_checks(ctx, model_ok)
    ctx.log('binary64 on-the-line grid done')
    evals += patched_checks(ctx, model_ok)
    ctx.log('same-orientation clause / proposed patches done')
    ctx.count('evaluations', evals)
    ctx.count('distinct_nontrivial', len(distinct))
    ctx.sample(dict(fn='cpp_distance', a=cases[0][0], b=cases[0][1], p=cases[0][2], impl=out['d'][0]))
    ctx.sample(dict(fn='integrate_with_mortar', pair=pairs[0][:4], l=ls[0], area=mo['int_from_a_one'][0], gap=mo['int_from_a_gap'][0]))
    if not model_ok:
        return

    # ================= L1: regenerated kernels and the hand model at binary64 vs the implementation =================
    ex = []
    for (a, b, p, kind) in cases:
        e = ' '.join(fl(x) for x in (a[0], a[1], b[0], b[1]))
        pp = '%s %s' % (fl(p[0]), fl(p[1]))
        ex.append("(let '(q0,q1,t) := cpp %s %s in let '(l0,l1,tl) := cpp_line %s %s in let '(n0,n1) := Gen_Surface.compute_normal %s in "
                  "let '(m0,m1) := Gen_MortarContact.compute_normal %s in fencs [q0;q1;t;l0;l1;tl;cpp_distance %s %s;n0;n1;m0;m1])" % (e, pp, e, pp, e, e, e, pp))
    n_cpp = len(ex)
    for (e0, e1, p, tol_) in sd:
        ex.append('fencs [smooth_distance %s; area %s]' % (
            ' '.join(fl(x) for x in (e0[0][0], e0[0][1], e0[1][0], e0[1][1], e1[0][0], e1[0][1], e1[1][0], e1[1][1], p[0], p[1], tol_)),
            ' '.join(fl(x) for x in (e0[0][0], e0[0][1], e0[1][0], e0[1][1], e1[0][0], e1[0][1]))))
    n_sd = len(sd)
    for (dcl, ds) in poly_res:
        ex.append('fencs [closest_distance [%s]]' % '; '.join(fl(x) for x in ds))
    n_poly = len(poly_res)
    qtxt = '[' + '; '.join('(%s, %s)' % (fl(x), fl(w)) for x, w in quad) + ']'
    for i, (a0, a1, b0, b1, kind) in enumerate(pairs):
        args = ' '.join(fl(x) for x in (a0[0], a0[1], a1[0], a1[1], b0[0], b0[1], b1[0], b1[1]))
        for rn, cr in (('from_a', 'normal_from_a'), ('average', 'average_normal')):
            ints = '; '.join('mortar %s %s %s %s %s' % (cr, args, ftxt, fl(ls[i]), qtxt) for _, _, ftxt, _ in INTEGRANDS)
            ex.append("(let '(n0,n1) := %s %s in let cs := candidates %s n0 n1 in [arg_min cs; arg_max cs] ++ "
                      "fencs [n0; n1; cxa (sel_min cs); cxa (sel_max cs); cxb (sel_min cs); cxb (sel_max cs); cg (sel_min cs); cg (sel_max cs); %s])"
                      % (cr, args, args, ints))
    res = C.coq_eval(IMPORTS, ex, 'C16', shard=300)
    mism = 0

    def bad(name, args, got, want, tol, case):
        nonlocal mism
        mism += 1
        if mism <= 12:
            ctx.fail('correspondence', 'model %s%r = %r but implementation gives %r (tol %.3g)' % (name, tuple(args), got, want, tol), case=case)

    k = 0
    for i, (a, b, p, kind) in enumerate(cases):
        v = C.dec_floats(res[k]); k += 1
        L = math.hypot(b[0] - a[0], b[1] - a[1])
        far = math.hypot(p[0] - a[0], p[1] - a[1]) + L
        sc = scale_of(a, b, p) + far
        amp = max(1.0, far / L)
        tol = (0.0 if kind == 'exact' else 1e-13 * sc * amp)
        want = out['q'][i] + [out['t'][i]] + out['ql'][i] + [out['tl'][i]]
        names = ['cpp.x', 'cpp.y', 'cpp.t', 'cpp_line.x', 'cpp_line.y', 'cpp_line.t']
        for j in range(6):
            tj = tol / L * 1.0 if j in (2, 5) else tol
            if not C.close(v[j], want[j], rtol=0, atol=tj):
                bad(names[j], (a, b, p), v[j], want[j], tj, dict(fn='cpp', a=a, b=b, p=p))
        if not (sign_unstable(a, b, p) and kind != 'exact'):
            if not C.close(v[6], out['d'][i], rtol=0, atol=tol):
                bad('cpp_distance', (a, b, p), v[6], out['d'][i], tol, dict(fn='cpp', a=a, b=b, p=p))
        for j, w in ((7, out['n'][i][0]), (8, out['n'][i][1]), (9, out['n'][i][0]), (10, out['n'][i][1])):
            if not C.close(v[j], w, rtol=0, atol=4e-16 if kind != 'exact' else 0.0):
                bad('compute_normal', (a, b), v[j], w, 4e-16, dict(fn='cpp', a=a, b=b, p=p))
    for i, (e0, e1, p, tol_) in enumerate(sd):
        v = C.dec_floats(res[k]); k += 1
        sc = scale_of(e0[0], e0[1], e1[1], p) + 5
        if not C.close(v[0], sd_impl[i], rtol=0, atol=1e-12 * sc):
            # discrete switches (sign of the summed areas, |cross| > 1e-14, band of the smooth min) may flip at rounding level
            if abs(abs(v[0]) - abs(sd_impl[i])) > 1e-9 * sc:
                bad('smooth_distance', (e0, e1, p, tol_), v[0], sd_impl[i], 1e-12 * sc, dict(fn='smooth_distance', e0=e0, e1=e1, p=p, tol=tol_))
    for i, (dcl, ds) in enumerate(poly_res):
        v = C.dec_floats(res[k]); k += 1
        if v[0] != dcl:
            bad('closest_distance', (ds,), v[0], dcl, 0.0, dict(fn='closest', pts=poly[i][0], p=poly[i][1]))
    idx_cmp = 0
    for i, (a0, a1, b0, b1, kind) in enumerate(pairs):
        LA, LB, tA, tB = pair_geometry(a0, a1, b0, b1)
        sc = max(LA, LB)
        for rn in ('from_a', 'average'):
            z = res[k]; k += 1
            imin, imax = z[0], z[1]
            v = C.dec_floats(z[2:])
            case = dict(fn='mortar', rule=rn, a0=a0, a1=a1, b0=b0, b1=b1, l=ls[i], kind=kind)
            n = mo['nrm_' + rn][i]
            for j in (0, 1):
                if not C.close(v[j], n[j], rtol=0, atol=1e-13):
                    # nA - nB of nearly equal unit vectors is ill conditioned by design (same-orientation pairs)
                    if not (rn == 'average' and mo['dn'][i] < 1e-3):
                        bad('common normal (%s)' % rn, (a0, a1, b0, b1), v[j], n[j], 1e-13, case)
            isect = mo['isect_' + rn][i]
            cond = conditioning(n, tA, tB)
            if not stable[(i, rn)] or (rn == 'average' and mo['dn'][i] <= 1e-12):
                continue
            idx_cmp += 1
            gsc = max(abs(isect[4]), abs(isect[5]), 1e-300)
            for j, nm in enumerate(['xiA[0]', 'xiA[1]', 'xiB[0]', 'xiB[1]', 'g[0]', 'g[1]']):
                tolj = (0.0 if kind == 'exact' else 1e-11 / cond * (1.0 if j < 4 else sc + gsc))
                if not C.close(v[2 + j], isect[j], rtol=0, atol=tolj):
                    bad('compute_intersection.%s (%s)' % (nm, rn), (a0, a1, b0, b1), v[2 + j], isect[j], tolj, case)
            for j, (fn, _, _, _) in enumerate(INTEGRANDS):
                w = mo['int_%s_%s' % (rn, fn)][i]
                tolj = (1e-14 if kind == 'exact' else 1e-10 / cond) * sc * (1 + gsc * gsc)
                if not C.close(v[8 + j], w, rtol=0, atol=tolj):
                    bad('integrate_with_mortar[%s] (%s)' % (fn, rn), (a0, a1, b0, b1, ls[i]), v[8 + j], w, tolj, case)
    ctx.log('model evaluated and compared')
    ctx.count('model_vs_impl_comparisons', k)
    ctx.count('mortar_cases_compared_in_full', idx_cmp)
    ctx.count('model_vs_impl_mismatches', mism)


# ----------------------------------------------------------------------------------------------- meshes

def mesh_checks(ctx, model_ok):
    """level-set constraint values and penalty energy of the implementation on structured meshes with random displacements,
    against (L2) the theorems' conclusions and (L1) the hand model fed with independently interpolated sample points"""
    import numpy as onp
    from functools import partial
    I = impl()
    jnp = I['jnp']
    r = ctx.rng('mesh')
    n = 0
    exprs, wants, metas = [], [], []
    mexprs, mwants = [], []
    for trial in range(ctx.n(6, 15)):
        Nx, Ny = r.randrange(2, 6), r.randrange(2, 5)
        xe, ye = (0.0, r.uniform(0.5, 3.0)), (0.0, r.uniform(0.5, 2.0))
        mesh = I['Mesh'].construct_structured_mesh(Nx, Ny, xe, ye)
        coords = onp.array(mesh.coords)
        conns = onp.array(mesh.conns)
        side = r.choice(['bottom', 'top', 'left', 'right'])
        pred = dict(bottom=lambda c: onp.all(c[:, 1] < 1e-12), top=lambda c: onp.all(c[:, 1] > ye[1] - 1e-12),
                    left=lambda c: onp.all(c[:, 0] < 1e-12), right=lambda c: onp.all(c[:, 0] > xe[1] - 1e-12))[side]
        edges = onp.array(I['Surface'].create_edges(mesh.coords, mesh.conns, pred))
        if edges.size == 0:
            continue
        amp = r.choice([0.0, 0.05, 0.3])
        U = onp.array([[r.uniform(-amp, amp), r.uniform(-amp, amp)] for _ in range(coords.shape[0])])
        deg = r.choice([1, 2, 3])
        qr = I['QR'].create_quadrature_rule_1D(deg)
        xg = [float(x) for x in qr.xigauss]
        wg = [float(w) for w in qr.wgauss]
        k = r.choice([1.0, 10.0 ** r.uniform(-1, 3)])
        specs = []
        which = r.choice(['plane', 'corner', 'sphere'])
        if which == 'plane':
            specs.append(('plane', (r.uniform(-0.2, ye[1] + 0.2),)))
        elif which == 'corner':
            specs.append(('corner', (r.uniform(-0.2, 0.5), r.uniform(-0.2, 0.5))))
        else:
            specs.append(('sphere', (r.uniform(-0.5, xe[1] + 0.5), r.uniform(-0.5, ye[1] + 0.5), r.uniform(0.1, 0.8))))
        # directed: a circle that dips into the INTERIOR of one edge (covers a Gauss point) while both end nodes stay outside
        el, ls_ = edges[r.randrange(len(edges))]
        n0, n1 = conns[el][ls_], conns[el][(ls_ + 1) % 3]
        x0, x1 = coords[n0] + U[n0], coords[n1] + U[n1]
        Ld = math.hypot(x1[0] - x0[0], x1[1] - x0[1])
        if Ld > 1e-6:
            sg = r.choice([-1.0, 1.0])
            nn = (sg * (x1[1] - x0[1]) / Ld, -sg * (x1[0] - x0[0]) / Ld)
            d = r.uniform(0.05, 0.15) * Ld
            gmin = min(abs(x - 0.5) for x in xg) * Ld
            lo, hi = math.hypot(d, gmin) * 1.05, math.hypot(d, Ld / 2) * 0.95
            if lo < hi:
                specs.append(('sphere', (0.5 * (x0[0] + x1[0]) + d * nn[0], 0.5 * (x0[1] + x1[1]) + d * nn[1], r.uniform(lo, hi)), 'cut'))
        for spec in specs:
            which, pars = spec[0], spec[1]
            if which == 'plane':
                ls = partial(I['Levelset'].plane, yLoc=pars[0])
                py = lambda x, pars=pars: pars[0] - x[1]
                cq = lambda x, pars=pars: 'plane %s %s %s' % (fl(x[0]), fl(x[1]), fl(pars[0]))
            elif which == 'corner':
                ls = partial(I['Levelset'].corner, xLoc=pars[0], yLoc=pars[1])
                py = lambda x, pars=pars: min(x[0] - pars[0], x[1] - pars[1])
                cq = lambda x, pars=pars: 'corner %s %s %s %s' % (fl(x[0]), fl(x[1]), fl(pars[0]), fl(pars[1]))
            else:
                ls = partial(I['Levelset'].sphere, xLoc=pars[0], yLoc=pars[1], R=pars[2])
                py = lambda x, pars=pars: math.hypot(x[0] - pars[0], x[1] - pars[1]) - pars[2]
                cq = lambda x, pars=pars: 'sphere %s %s %s %s %s' % (fl(x[0]), fl(x[1]), fl(pars[0]), fl(pars[1]), fl(pars[2]))
            cons = onp.array(I['LC'].compute_levelset_constraints(ls, jnp.array(U), mesh, qr, jnp.array(edges)))
            cpts = onp.array(I['LC'].compute_contact_point_coordinates(jnp.array(U), mesh, qr, jnp.array(edges)))
            cons2 = onp.array(I['Penalty'].evaluate_contact_constraints(ls, jnp.array(U), mesh, qr, jnp.array(edges)))
            E = float(I['Penalty'].compute_total_penalty_contact_energy(ls, jnp.array(U), mesh, qr, jnp.array(edges), k))
            Eedges = [float(I['Penalty'].compute_edge_penalty_contact_energy(ls, mesh, jnp.array(U), qr, jnp.array(e), k)) for e in edges]
            n += 1
            finite_ok = bool(onp.all(onp.isfinite(cons)) and onp.all(onp.isfinite(cons2)) and math.isfinite(E) and all(math.isfinite(x) for x in Eedges)
                             and onp.all(onp.isfinite(cpts)))
            case = dict(fn='penalty', Nx=Nx, Ny=Ny, xExtent=xe, yExtent=ye, side=side, U=U.tolist(), degree=deg, levelset=which, pars=pars,
                        stiffness=k, directed=(len(spec) > 2))
            if not finite_ok:
                ctx.fail('conclusion', 'level-set constraint values / contact point coordinates / penalty energy contain NaN or inf', case=case, concrete=True)
                continue
            # independent interpolation of the deformed sample points and independent evaluation of the energy
            etxt = []
            worst = 0.0
            worst_pt = 0.0
            anyneg_impl = False
            anyneg = False
            Eind = 0.0
            for ei, (el, ls_) in enumerate(edges):
                n0, n1 = conns[el][ls_], conns[el][(ls_ + 1) % 3]
                X0, X1 = coords[n0], coords[n1]
                x0, x1 = X0 + U[n0], X1 + U[n1]
                jac = math.hypot(X0[0] - X1[0], X0[1] - X1[1])
                wphi = []
                Ee = 0.0
                for qi, xi in enumerate(xg):
                    xq = (x0[0] + (x1[0] - x0[0]) * xi, x0[1] + (x1[1] - x0[1]) * xi)
                    phi = py(xq)
                    worst = max(worst, abs(phi - cons[ei][qi]), abs(phi - cons2[ei][qi]))
                    worst_pt = max(worst_pt, abs(xq[0] - cpts[ei][qi][0]), abs(xq[1] - cpts[ei][qi][1]))
                    anyneg_impl = anyneg_impl or cons[ei][qi] < 0
                    anyneg = anyneg or phi < -1e-13
                    Ee += jac * wg[qi] * min(0.0, phi) ** 2
                    wphi.append('(%s, %s)' % (fl(wg[qi]), cq(xq)))
                etxt.append('(%s, %s, [%s])' % (fl(k), fl(jac), '; '.join(wphi)))
                Eind += k * Ee
                if not (abs(Eedges[ei] - k * Ee) <= 1e-12 * max(k * Ee, 1e-30) + 1e-300):
                    ctx.fail('conclusion', 'edge %d: compute_edge_penalty_contact_energy = %r but stiffness * sum_q jac w_q min(0, phi(x_q))^2 = %r'
                             % (ei, Eedges[ei], k * Ee), case=case, concrete=True)
            if worst_pt > 1e-13 * (1 + scale_of(xe, ye)):
                ctx.fail('conclusion', 'compute_contact_point_coordinates differs from the deformed sample points x + u at the rule points by %r' % worst_pt, case=case, concrete=True)
            if worst > 1e-12:
                ctx.fail('conclusion', 'level-set constraint values differ from the obstacle function at the deformed sample points by %r' % worst, case=case, concrete=True)
            if not E >= 0:
                ctx.fail('conclusion', 'penalty contact energy is negative: %r' % E, case=case, concrete=True)
            if (E == 0.0) != (not anyneg_impl) or (anyneg and E == 0.0):
                ctx.fail('conclusion', 'penalty energy %r but %s sample point penetrates' % (E, 'a' if (anyneg_impl or anyneg) else 'no'), case=case, concrete=True)
            if not (abs(E - Eind) <= 1e-12 * max(Eind, 1e-30) + 1e-300):
                ctx.fail('conclusion', 'compute_total_penalty_contact_energy = %r but the independent sum over sample points is %r' % (E, Eind), case=case, concrete=True)
            if len(spec) > 2:
                ctx.count('directed_interior_cut_cases_with_penetration', 1 if anyneg else 0)
            exprs.append('fencs [penalty_total [%s]]' % '; '.join(etxt))
            wants.append(E)
            metas.append(case)
            # the mesh-level hand model (model/M_C16_Mesh.v) on the very same mesh, displacement field, rule and edge list
            phi = ('(fun x y => plane x y %s)' % fl(pars[0]) if which == 'plane' else
                   '(fun x y => corner x y %s %s)' % (fl(pars[0]), fl(pars[1])) if which == 'corner' else
                   '(fun x y => sphere x y %s %s %s)' % (fl(pars[0]), fl(pars[1]), fl(pars[2])))
            pl = lambda arr: '[' + '; '.join('(%s, %s)' % (fl(v[0]), fl(v[1])) for v in arr) + ']'
            mexprs.append("(let cs := %s in let ds := %s in let cn := [%s] in let xg := [%s] in let wg := [%s] in let es := [%s] in "
                          "fencs (flat_pts (contact_point_coordinates cs ds cn xg es) ++ concat (levelset_constraints %s cs ds cn xg es) ++ "
                          "[total_penalty_contact_energy %s cs ds cn xg wg es %s]))"
                          % (pl(coords), pl(U), '; '.join('(%d, %d, %d)' % tuple(int(v) for v in c) for c in conns),
                             '; '.join(fl(x) for x in xg), '; '.join(fl(w) for w in wg),
                             '; '.join('(%d, %d)' % (int(e[0]), int(e[1])) for e in edges), phi, phi, fl(k)))
            mwants.append(([float(v) for v in cpts.reshape(-1)], [float(v) for v in cons.reshape(-1)], E, case))
    ctx.count('mesh_cases', n)
    if model_ok and exprs:
        res = C.coq_eval(IMPORTS, exprs, 'C16m', shard=100)
        for z, w, case in zip(res, wants, metas):
            v = C.dec_floats(z)[0]
            if not C.close(v, w, rtol=1e-12, atol=1e-15):
                ctx.fail('correspondence', 'model penalty_total = %r but compute_total_penalty_contact_energy = %r' % (v, w), case=case)
    if model_ok and mexprs:
        # mesh-level model: gathered / interpolated sample points EXACTLY (same expression, no fused operation observed), obstacle values
        # to 4 ulp of the coordinate scale (sqrt in sphere), energy to 1e-12 relative (order of the dot product)
        res = C.coq_eval(IMPORTS, mexprs, 'C16M', shard=6, jobs=2)
        npt = nbad = 0
        for z, (wpts, wcons, wE, case) in zip(res, mwants):
            v = C.dec_floats(z)
            if len(v) != len(wpts) + len(wcons) + 1:
                ctx.fail('correspondence', 'mesh model returns %d values, implementation %d' % (len(v), len(wpts) + len(wcons) + 1), case=case)
                continue
            vp, vc, vE = v[:len(wpts)], v[len(wpts):len(wpts) + len(wcons)], v[-1]
            npt += len(wpts) + len(wcons)
            sc = 1 + scale_of(case['xExtent'], case['yExtent'])
            if any(a != b for a, b in zip(vp, wpts)):
                j = [a != b for a, b in zip(vp, wpts)].index(True)
                nbad += 1
                ctx.fail('correspondence', 'mesh model contact_point_coordinates entry %d = %r but compute_contact_point_coordinates gives %r (exact comparison)'
                         % (j, vp[j], wpts[j]), case=case)
            if any(not C.close(a, b, rtol=0, atol=1e-15 * sc) for a, b in zip(vc, wcons)):
                j = [not C.close(a, b, rtol=0, atol=1e-15 * sc) for a, b in zip(vc, wcons)].index(True)
                nbad += 1
                ctx.fail('correspondence', 'mesh model levelset_constraints entry %d = %r but compute_levelset_constraints gives %r' % (j, vc[j], wcons[j]), case=case)
            if not C.close(vE, wE, rtol=1e-12, atol=1e-300):
                nbad += 1
                ctx.fail('correspondence', 'mesh model total_penalty_contact_energy = %r but compute_total_penalty_contact_energy = %r' % (vE, wE), case=case)
        ctx.count('mesh_model_values_compared', npt + len(mwants))
        ctx.count('mesh_model_mismatches', nbad)
    return n


def assembly_checks(ctx):
    """assemble_nodal_areas / assemble_area_weighted_gaps on two facing polylines: non-negative nodal areas, invariance under a
    rigid motion, total area = overlap length for parallel straight surfaces, gaps = h * areas"""
    I = impl()
    jnp = I['jnp']
    MC = I['MC']
    r = ctx.rng('asm')
    n = 0
    for trial in range(ctx.n(4, 8)):
        nA, nB = r.randrange(2, 6), r.randrange(2, 6)
        LA, LB = r.uniform(1, 3), r.uniform(1, 3)
        h = r.uniform(0.05, 0.5) * r.choice([1, 1, -1])
        off = r.uniform(-0.5, 0.5)
        xa = sorted([0.0, LA] + [r.uniform(0.05, LA - 0.05) for _ in range(nA - 1)])
        xb = sorted([off, off + LB] + [off + r.uniform(0.05, LB - 0.05) for _ in range(nB - 1)], reverse=True)
        wavy = r.random() < 0.4
        ya = [(r.uniform(-0.03, 0.03) if wavy else 0.0) for _ in xa]
        yb = [-h + (r.uniform(-0.03, 0.03) if wavy else 0.0) for _ in xb]
        coords = [(x, y) for x, y in zip(xa, ya)] + [(x, y) for x, y in zip(xb, yb)]
        na = len(xa)
        segA = [[i, i + 1] for i in range(na - 1)]
        segB = [[na + i, na + i + 1] for i in range(len(xb) - 1)]
        # integration side = B (first argument of integrate_with_mortar inside the assembly), neighbours = all A segments
        neigh = [list(range(len(segA))) for _ in segB]
        # the assembly works on the CURRENT configuration coords + disp: split the same current positions into a reference part and a
        # non-zero displacement part (a result that changes means one of the two surfaces ignores the displacement)
        dsp = [(r.uniform(-0.3, 0.3), r.uniform(-0.3, 0.3)) for _ in coords]
        for rule_name, rule in I['rules'].items():
            args = lambda cs: (jnp.array([(c[0] - d[0], c[1] - d[1]) for c, d in zip(cs, dsp)]), jnp.array(dsp), jnp.array(segA), jnp.array(segB), jnp.array(neigh), rule)
            args0 = lambda cs: (jnp.array(cs), jnp.array([(0.0, 0.0)] * len(cs)), jnp.array(segA), jnp.array(segB), jnp.array(neigh), rule)
            areas = [float(x) for x in MC.assemble_nodal_areas(*args(coords))]
            gaps = [float(x) for x in MC.assemble_area_weighted_gaps(*args(coords))]
            x, y, z = r.choice(PYTH)
            mot = (x / z, y / z, math.ldexp(r.randrange(-8, 9), -1), math.ldexp(r.randrange(-8, 9), -1))
            rc = [rot(*mot, c) for c in coords]
            areas2 = [float(v) for v in MC.assemble_nodal_areas(*args(rc))]
            gaps2 = [float(v) for v in MC.assemble_area_weighted_gaps(*args(rc))]
            areas0 = [float(v) for v in MC.assemble_nodal_areas(*args0(coords))]
            gaps0 = [float(v) for v in MC.assemble_area_weighted_gaps(*args0(coords))]
            n += 6
            case = dict(fn='assembly', rule=rule_name, coords=coords, segA=segA, segB=segB, motion=mot)
            if any(not math.isfinite(a) for a in areas + gaps + areas2 + gaps2):
                ctx.fail('conclusion', 'assembled nodal areas/gaps contain NaN', case=dict(case, nan=True), concrete=True)
                continue
            if min(areas) < -1e-12:
                ctx.fail('conclusion', 'negative nodal contact area %r' % min(areas), case=case, concrete=True)
            if not (all(math.isfinite(v) for v in areas0 + gaps0) and max(abs(a - b) for a, b in zip(areas, areas0)) <= 1e-9 and max(abs(a - b) for a, b in zip(gaps, gaps0)) <= 1e-9):
                ctx.fail('conclusion', 'assembled nodal areas/gaps depend on how the current positions are split into coords + disp (max differences %.3g / %.3g)'
                         % (max(abs(a - b) for a, b in zip(areas, areas0)), max(abs(a - b) for a, b in zip(gaps, gaps0))), case=dict(case, clause='displacement'), concrete=True)
            # contributions land on the nodes of the integration side only
            nodesB = {i for sg in segB for i in sg}
            if any(abs(a) > 1e-14 for i, a in enumerate(areas) if i not in nodesB):
                ctx.fail('conclusion', 'nodal areas are assembled on nodes that do not belong to the integration side', case=dict(case, clause='scatter'), concrete=True)
            if max(abs(a - b) for a, b in zip(areas, areas2)) > 1e-9 or max(abs(a - b) for a, b in zip(gaps, gaps2)) > 1e-9:
                ctx.fail('conclusion', 'assembled nodal areas/gaps change under the rigid motion %r' % (mot,), case=case, concrete=True)
            if not wavy:
                lo, hi = max(0.0, off), min(LA, off + LB)
                tot = sum(areas)
                nseg = len(segA) * len(segB)
                if abs(tot - max(hi - lo, 0.0)) > 1e-9 * (LA + LB) * nseg + 1e-12:
                    ctx.fail('conclusion', 'parallel surfaces: total nodal area %r but overlap length %r' % (tot, hi - lo), case=case, concrete=True)
                # gap along the integration side's (B's) outward normal
                if max(abs(g - (-h) * a) for g, a in zip(gaps, areas)) > 1e-9 and max(abs(g - h * a) for g, a in zip(gaps, areas)) > 1e-9:
                    ctx.fail('conclusion', 'parallel surfaces: nodal gaps are not (signed distance) * nodal areas', case=case, concrete=True)
    return dict(n=n)



# ----------------------------------------------------------------------------------------------- execution modes

def mode_checks(ctx, cases, out, pairs, ls, mo, stable):
    """the same kernels as ONE compiled call and as an un-compiled call must agree with the compiled batch (the library calls them
    both ways: per edge inside python loops, and under vmap+jit inside the assembled functions)"""
    I = impl()
    jax, jnp = I['jax'], I['jnp']
    n = 0
    jd = jax.jit(I['EdgeCpp'].cpp_distance)
    jc = jax.jit(I['EdgeCpp'].cpp)
    for i in range(0, len(cases), max(1, len(cases) // ctx.n(25, 120))):
        a, b, p, kind = cases[i]
        if sign_unstable(a, b, p) and kind != 'exact':
            continue
        E, P = jnp.array([a, b]), jnp.array(p)
        L = math.hypot(b[0] - a[0], b[1] - a[1])
        far = math.hypot(p[0] - a[0], p[1] - a[1]) + L
        tol = 0.0 if kind == 'exact' else 1e-13 * (scale_of(a, b, p) + far) * max(1.0, far / L)
        for lab, d, (q, t) in (('single compiled call', float(jd(E, P)), jc(E, P)), ('un-compiled call', float(I['EdgeCpp'].cpp_distance(E, P)), I['EdgeCpp'].cpp(E, P))):
            n += 1
            vals = [d, float(t), float(q[0]), float(q[1])]
            want = [out['d'][i], out['t'][i], out['q'][i][0], out['q'][i][1]]
            tols = [tol, tol / L, tol, tol]
            if not all(math.isfinite(v) and abs(v - w) <= tl for v, w, tl in zip(vals, want, tols)):
                ctx.fail('conclusion', 'cpp/cpp_distance as a %s gives %r but inside the compiled batch %r (edge=(%r,%r), p=%r)' % (lab, vals, want, a, b, p),
                         case=dict(fn='cpp', a=a, b=b, p=p, exact=(kind == 'exact'), mode=lab), concrete=True)
    for i in range(0, len(pairs), max(1, len(pairs) // ctx.n(20, 100))):
        a0, a1, b0, b1, kind = pairs[i]
        A, B = jnp.array([a0, a1]), jnp.array([b0, b1])
        LA, LB, tA, tB = pair_geometry(a0, a1, b0, b1)
        for rn, rule in I['rules'].items():
            if not stable[(i, rn)] or (rn == 'average' and mo['dn'][i] <= 1e-12):
                continue
            cond = conditioning(mo['nrm_' + rn][i], tA, tB)
            isect = mo['isect_' + rn][i]
            gsc = max(abs(isect[4]), abs(isect[5]), 1e-300) if all(math.isfinite(x) for x in isect[4:]) else 1.0
            for fname, f, _, _ in INTEGRANDS:
                w = mo['int_%s_%s' % (rn, fname)][i]
                tolj = (1e-14 if kind == 'exact' else 1e-10 / cond) * max(LA, LB) * (1 + gsc * gsc)
                key = 'single_%s_%s' % (rn, fname)
                if key not in I:
                    I[key] = jax.jit(lambda A_, B_, l_, rule=rule, f=f: I['MC'].integrate_with_mortar(A_, B_, rule, f, l_))
                v1 = float(I[key](A, B, ls[i]))
                v2 = float(I['MC'].integrate_with_mortar(A, B, rule, f, ls[i])) if fname in ('one', 'gap') else v1
                n += 2
                for lab, v in (('single compiled call', v1), ('un-compiled call', v2)):
                    if not (math.isfinite(v) and abs(v - w) <= tolj):
                        ctx.fail('conclusion', 'integrate_with_mortar[%s] (%s) as a %s gives %r but inside the compiled batch %r' % (fname, rn, lab, v, w),
                                 case=dict(fn='mortar', rule=rn, a0=a0, a1=a1, b0=b0, b1=b1, l=ls[i], kind=kind, integrand=fname, mode=lab), concrete=True)
    # the documented default smoothing length (relativeSmoothingSize = 1e-7) is what a call without the argument uses
    nd = 0
    for i, (a0, a1, b0, b1, kind) in enumerate(pairs):
        if kind not in ('exact', 'partial', 'nested') or not stable[(i, 'from_a')] or nd >= ctx.n(12, 60):
            continue
        nd += 1
        A, B = jnp.array([a0, a1]), jnp.array([b0, b1])
        one = INTEGRANDS[0][1]
        vdef = float(I['MC'].integrate_with_mortar(A, B, I['rules']['from_a'], one))
        vexp = float(I['MC'].integrate_with_mortar(A, B, I['rules']['from_a'], one, 1e-7))
        n += 1
        if not (math.isfinite(vdef) and abs(vdef - vexp) <= 1e-13 * (1 + abs(vexp))):
            ctx.fail('conclusion', 'integrate_with_mortar without relativeSmoothingSize gives %r, with the documented default 1e-7 it gives %r' % (vdef, vexp),
                     case=dict(fn='mortar', rule='from_a', a0=a0, a1=a1, b0=b0, b1=b1, kind=kind, clause='default smoothing'), concrete=True)
    ctx.count('execution_mode_comparisons', n)
    return n


# ----------------------------------------------------------------------------------------------- Contact.py on real meshes

def contact_mesh_checks(ctx):
    """Contact.py: neighbour search, closest signed distance to several deformed edges, closest edges / field weights / q-coordinates,
    and MortarContact.get_closest_neighbors / get_facet_connectivities, on structured meshes with random displacement fields.
    Oracle for one (edge, point) pair is EdgeCpp.cpp_distance / cpp_line themselves (their correctness is the subject of the theorems
    and of the kernel correspondence); everything around them -- gathering deformed coordinates, interpolating sample points,
    choosing among edges, sorting neighbours -- is recomputed independently with NumPy."""
    import numpy as onp
    I = impl()
    jax, jnp = I['jax'], I['jnp']
    Contact, MC, EdgeCpp = I['Contact'], I['MC'], I['EdgeCpp']
    r = ctx.rng('contactmesh')
    n = 0
    for trial in range(ctx.n(4, 12)):
        Nx, Ny = r.randrange(3, 7), r.randrange(2, 5)
        xe, ye = (0.0, r.uniform(0.8, 3.0)), (0.0, r.uniform(0.4, 1.5))
        mesh = I['Mesh'].construct_structured_mesh(Nx, Ny, xe, ye)
        coords, conns = onp.array(mesh.coords), onp.array(mesh.conns)
        preds = dict(bottom=lambda c: onp.all(c[:, 1] < 1e-12), top=lambda c: onp.all(c[:, 1] > ye[1] - 1e-12),
                     left=lambda c: onp.all(c[:, 0] < 1e-12), right=lambda c: onp.all(c[:, 0] > xe[1] - 1e-12))
        nameM, nameI = r.sample(sorted(preds), 2)
        sM = onp.array(I['Surface'].create_edges(mesh.coords, mesh.conns, preds[nameM]))
        sI = onp.array(I['Surface'].create_edges(mesh.coords, mesh.conns, preds[nameI]))
        amp = r.choice([0.0, 0.03, 0.25]) * min(xe[1], ye[1])
        U = onp.array([[r.uniform(-amp, amp), r.uniform(-amp, amp)] for _ in range(coords.shape[0])])
        qr = I['QR'].create_quadrature_rule_1D(r.choice([1, 2, 3]))
        xg = [float(x) for x in qr.xigauss]
        k = r.randrange(1, len(sM) + 1)
        case = dict(fn='contactmesh', Nx=Nx, Ny=Ny, xExtent=xe, yExtent=ye, surfaceM=nameM, surfaceI=nameI, U=U.tolist(), maxNeighbors=k, nq=len(xg))
        cur = coords + U

        def ecoords(edge):
            el, ls_ = int(edge[0]), int(edge[1])
            return cur[conns[el][ls_]], cur[conns[el][(ls_ + 1) % 3]]
        il = onp.array(Contact.get_potential_interaction_list(jnp.array(sM), jnp.array(sI), mesh, jnp.array(U), k))
        dists = onp.array(Contact.compute_closest_distance_to_each_side(mesh, jnp.array(U), qr, jnp.array(il), jnp.array(sI)))
        ce, wts = Contact.compute_closest_edges_and_field_weights(mesh, jnp.array(U), qr, jnp.array(il), jnp.array(sI))
        ce, wts = onp.array(ce), onp.array(wts)
        qrec = onp.array(Contact.compute_q_coordinates_from_field_weights(mesh, jnp.array(U), jnp.array(ce), jnp.array(wts)))
        qpts = onp.array(Contact.compute_q_coordinates(mesh, jnp.array(U), qr, jnp.array(sI)))
        n += 5
        if not all(onp.all(onp.isfinite(x)) for x in (dists, wts, qrec, qpts)):
            ctx.fail('conclusion', 'Contact.py mesh-level functions return NaN/inf on a regular mesh', case=case, concrete=True)
            continue
        sc = 1 + scale_of(xe, ye) + amp
        for ei, eI in enumerate(sI):
            x0, x1 = ecoords(eI)
            # neighbour search: the k main-side edges with the smallest node-to-node distance (ties at rounding level tolerated)
            md = []
            for eM in sM:
                y0, y1 = ecoords(eM)
                md.append(min(float((a - b) @ (a - b)) for a in (x0, x1) for b in (y0, y1)))
            got = sorted(md[[tuple(e) for e in sM.tolist()].index(tuple(e))] for e in il[ei].tolist())
            want = sorted(md)[:k]
            if not all(abs(g - w) <= 1e-12 * sc * sc for g, w in zip(got, want)):
                ctx.fail('conclusion', 'get_potential_interaction_list: integration edge %d got neighbours at squared distances %r, the %d nearest are at %r'
                         % (ei, got, k, want), case=dict(case, clause='neighbour search'), concrete=True)
            for qi, xi in enumerate(xg):
                xq = x0 + (x1 - x0) * xi
                if max(abs(qpts[ei][qi] - xq)) > 1e-13 * sc:
                    ctx.fail('conclusion', 'compute_q_coordinates: sample point %d of edge %d is %r, expected x+u interpolated = %r' % (qi, ei, qpts[ei][qi].tolist(), xq.tolist()),
                             case=dict(case, clause='q coordinates'), concrete=True)
                ds = []
                for eM in il[ei]:
                    y0, y1 = ecoords(eM)
                    ds.append(float(EdgeCpp.cpp_distance(jnp.array([y0, y1]), jnp.array(xq))))
                best = min(abs(d) for d in ds)
                d = float(dists[ei][qi])
                if not (abs(abs(d) - best) <= 1e-12 * sc and any(abs(d - x) <= 1e-12 * sc for x in ds)):
                    ctx.fail('conclusion', 'compute_closest_distance_to_each_side: edge %d point %d gives %r; signed distances to the listed deformed edges are %r'
                             % (ei, qi, d, ds), case=dict(case, clause='closest distance'), concrete=True)
                # closest edge and its field weight: the reconstructed point is the projection of the sample point on that edge's line
                y0, y1 = ecoords(ce[ei][qi])
                dsel = float(EdgeCpp.cpp_distance(jnp.array([y0, y1]), jnp.array(xq)))
                tq = float(EdgeCpp.cpp_line(jnp.array([y0, y1]), jnp.array(xq))[1])
                rec = y0 * (1 - tq) + y1 * tq
                if not (abs(abs(dsel) - best) <= 1e-12 * sc and abs(float(wts[ei][qi]) - tq) <= 1e-12 and max(abs(qrec[ei][qi] - rec)) <= 1e-12 * sc):
                    ctx.fail('conclusion', 'closest edge / field weight / reconstructed coordinates inconsistent at edge %d point %d: |d| of chosen edge %r (best %r), weight %r (line parameter %r)'
                             % (ei, qi, abs(dsel), best, float(wts[ei][qi]), tq), case=dict(case, clause='closest edge weights'), concrete=True)
        # mortar search on the same surfaces
        fa, fb = onp.array(MC.get_facet_connectivities(mesh, jnp.array(sM))), onp.array(MC.get_facet_connectivities(mesh, jnp.array(sI)))
        for edges_, segs in ((sM, fa), (sI, fb)):
            for e_, sgm in zip(edges_, segs):
                el, ls_ = int(e_[0]), int(e_[1])
                if [int(sgm[0]), int(sgm[1])] != [int(conns[el][ls_]), int(conns[el][(ls_ + 1) % 3])]:
                    ctx.fail('conclusion', 'get_facet_connectivities: side %r maps to nodes %r, expected %r' % (e_.tolist(), sgm.tolist(), [int(conns[el][ls_]), int(conns[el][(ls_ + 1) % 3])]),
                             case=dict(case, clause='facet connectivities'), concrete=True)
        nb = onp.array(MC.get_closest_neighbors(jnp.array(fa), jnp.array(fb), mesh, jnp.array(U), k))
        n += 2
        for bi, sb in enumerate(fb):
            md = [min(float((cur[a] - cur[b]) @ (cur[a] - cur[b])) for a in sa for b in sb) for sa in fa]
            got = sorted(md[j] for j in nb[bi])
            want = sorted(md)[:k]
            if not (len(set(int(j) for j in nb[bi])) == k and all(abs(g - w) <= 1e-12 * sc * sc for g, w in zip(got, want))):
                ctx.fail('conclusion', 'get_closest_neighbors: segment %d got neighbours %r at squared distances %r, the %d nearest are at %r'
                         % (bi, nb[bi].tolist(), got, k, want), case=dict(case, clause='mortar neighbour search'), concrete=True)
    # Levelset.combined = pointwise minimum (intersection of the admissible regions)
    from functools import partial
    X = jnp.array([[r.uniform(-2, 2), r.uniform(-2, 2)] for _ in range(40)])
    l1 = partial(I['Levelset'].plane, yLoc=0.3)
    l2 = partial(I['Levelset'].sphere, xLoc=0.2, yLoc=-0.1, R=0.9)
    cmb = onp.array(I['Levelset'].combined(X, l1, l2))
    ref = onp.minimum(onp.array(l1(X)), onp.array(l2(X)))
    n += 1
    if not (onp.all(onp.isfinite(cmb)) and onp.max(onp.abs(cmb - ref)) == 0.0):
        ctx.fail('conclusion', 'Levelset.combined is not the pointwise minimum of the two obstacle functions', case=dict(fn='contactmesh', clause='combined'), concrete=True)
    ctx.count('contact_mesh_cases', n)
    return n

# ----------------------------------------------------------------------------------------------- round 4: binary64 grid, patches

GRID_ES = (-3, 0, 2)


def on_line_checks(ctx, model_ok):
    """the grid of C16_binary64_on_line_counts_as_positive replayed on the implementation: segment a = (a0,a1) 2^e, b = a + (d0,d1) 2^e,
    p = a + (k/4)(b - a) -- every quantity is exact in binary64, so the comparison with the theorem's subject (the regenerated kernel
    at PrimFloat) is exact; the clause itself (0 -> +, beyond the ends +|p - end|) is evaluated on the implementation's outputs"""
    I = impl()
    r = ctx.rng('online')
    pts = []
    for _ in range(ctx.n(1500, 12000)):
        e = r.choice(GRID_ES)
        a0, a1, d0, d1 = (r.randrange(-3, 4) for _ in range(4))
        if d0 == 0 and d1 == 0:
            continue
        pts.append((e, a0, a1, d0, d1, r.randrange(-8, 13)))
    sc = lambda m, e: math.ldexp(m, e)
    cases = [((sc(a0, e), sc(a1, e)), (sc(a0 + d0, e), sc(a1 + d1, e)), (sc(4 * a0 + k * d0, e - 2), sc(4 * a1 + k * d1, e - 2)), 'exact')
             for (e, a0, a1, d0, d1, k) in pts]
    out = run_cpp_impl(cases)
    nz = nb = 0
    for i, (e, a0, a1, d0, d1, k) in enumerate(pts):
        a, b, p, _ = cases[i]
        d = out['d'][i]
        if 0 <= k <= 4:
            nz += 1
            ok = (d == 0.0)
            want = '0 (a point on the segment counts as +)'
        else:
            nb += 1
            end = a if k < 0 else b
            w = math.sqrt((end[0] - p[0]) * (end[0] - p[0]) + (end[1] - p[1]) * (end[1] - p[1]))
            ok = (d == w and d > 0)
            want = '+|p - end| = %r' % w
        if not (ok and d >= 0):
            ctx.fail('conclusion', 'point exactly on the line of edge=(%r,%r), p=%r (t = %d/4): cpp_distance = %r, expected %s' % (a, b, p, k, d, want),
                     case=dict(fn='cpp', a=a, b=b, p=p, exact=True, grid=(e, a0, a1, d0, d1, k)), concrete=True)
    ctx.count('on_line_grid_points_on_segment', nz)
    ctx.count('on_line_grid_points_beyond_ends', nb)
    if model_ok:
        m = ctx.n(300, 1500)
        ex = ['fenc (line_dist (%d) (%d) (%d) (%d) (%d) (%d))' % t for t in pts[:m]]
        res = C.coq_eval(IMPORTS + ['From OV.proofs Require Import L_C16f.'], ex, 'C16L', shard=400, jobs=2)
        bad = 0
        for z, t, dd, cs in zip(res, pts[:m], out['d'][:m], cases[:m]):
            v = C.dec_floats(z)[0]
            if not (v == dd):
                bad += 1
                if bad <= 5:
                    ctx.fail('correspondence', 'binary64 kernel line_dist%r = %r but EdgeCpp.cpp_distance gives %r (exact comparison on dyadic data)' % (t, v, dd),
                             case=dict(fn='cpp', a=cs[0], b=cs[1], p=cs[2], exact=True))
        ctx.count('on_line_grid_model_vs_impl_exact', len(ex))
    return len(pts)


def gen_patched_pairs(ctx):
    """parallel pairs in the axis frame A = (0,0)-(LA,0), B on y = -h spanning [v,u] (v < u), then moved rigidly.
    -> (a0, a1, b0, b1, kind, (LA, LB, h, overlap))"""
    r = ctx.rng('patched')
    out = []

    def add(LA, v, u, h, same, mot, kind):
        pts = [(0.0, 0.0), (LA, 0.0)] + ([(v, -h), (u, -h)] if same else [(u, -h), (v, -h)])
        q = [rot(*mot, p) for p in pts] if mot else pts
        out.append((q[0], q[1], q[2], q[3], kind, (LA, u - v, h, max(0.0, min(LA, u) - max(0.0, v)))))
    for _ in range(ctx.n(40, 200)):              # dyadic, axis aligned (normals bitwise equal for same orientation), translated only
        k = r.randrange(-2, 3)
        d = lambda lo, hi: math.ldexp(r.randrange(lo, hi), k - 2)
        LA, v = d(2, 17), d(-8, 12)
        u = v + d(1, 17)
        mot = (1.0, 0.0, d(-8, 9), d(-8, 9))
        add(LA, v, u, r.choice([d(1, 5), -d(1, 5)]), True, mot, 'same_exact')
    for kind, same in (('same_rot', True), ('facing_rot', False)):
        for _ in range(ctx.n(50, 300)):
            LA = 10.0 ** r.uniform(-1, 1)
            while True:
                v = r.uniform(-1.5, 1.2) * LA
                u = v + LA * 10.0 ** r.uniform(-1, 0.7)
                if all(abs(x) > 0.03 * LA for x in (v, u, v - LA, u - LA)):
                    break
            ang = r.uniform(0, 2 * math.pi)
            add(LA, v, u, LA * r.choice([-1, 1, 1]) * 10.0 ** r.uniform(-3, -0.3), same, (math.cos(ang), math.sin(ang), r.uniform(-3, 3), r.uniform(-3, 3)), kind)
    for kind, same in (('aligned', False), ('aligned_same', True)):
        for _ in range(ctx.n(50, 400)):
            L = r.choice([1.0, 0.5, 2.0, r.uniform(0.1, 3)])
            v, u = r.choice([(0.0, L), (0.0, 2 * L), (-L, L), (0.0, 0.5 * L), (0.5 * L, L)])
            ang = r.uniform(0, 2 * math.pi)
            add(L, v, u, r.uniform(0.01, 0.3), same, (math.cos(ang), math.sin(ang), r.uniform(-3, 3), r.uniform(-3, 3)), kind)
    return out


def patched_checks(ctx, model_ok):
    """(a) L2 of C16_parallel_same_orientation_from_a on the UNPATCHED implementation; (b) the PROPOSED patches (tools/vlib/c16_patches.py,
    /repo untouched): clauses of C16_patchF1_* / C16_patchF2_* on the patched Python, and the patched Python against its Coq models"""
    from vlib import c16_patches as P
    I = impl()
    jax, jnp, MC = I['jax'], I['jnp'], I['MC']
    eps, tol = P.EPS_F1, P.TOL_F2
    one, gap = INTEGRANDS[0][1], INTEGRANDS[1][1]
    if 'p_ready' not in I:
        avgp = P.make_average_normal_patched(eps)
        I['p_rules'] = dict(from_a=MC.compute_normal_from_a, average_p=avgp)
        for rn, rule in I['p_rules'].items():
            for fn, f in (('one', one), ('gap', gap)):
                I['pint_%s_%s' % (rn, fn)] = jax.jit(jax.vmap(lambda A, B, l, rule=rule, f=f: P.integrate_with_mortar_patched(A, B, rule, f, l, tol)))
        I['pnrm'] = jax.jit(jax.vmap(avgp))
        I['p_ready'] = True
    pairs = gen_patched_pairs(ctx)
    rl = ctx.rng('plsmooth')
    ls = [rl.choice([1e-9, 1e-7, 1e-3, 0.25]) for _ in pairs]
    rm = ctx.rng('pmotion')
    motions = []
    for _ in pairs:
        x, y, z = rm.choice(PYTH)
        motions.append((x / z, y / z, math.ldexp(rm.randrange(-16, 17), -2), math.ldexp(rm.randrange(-16, 17), -2)))

    def run(prs):
        A = jnp.array([[p[0], p[1]] for p in prs])
        B = jnp.array([[p[2], p[3]] for p in prs])
        L = jnp.array(ls)
        o = {k: [float(v) for v in I['pint_' + k](A, B, L)] for k in ('from_a_one', 'from_a_gap', 'average_p_one', 'average_p_gap')}
        o['nrm'] = [[float(v) for v in row] for row in I['pnrm'](A, B)]
        o['nA'] = [[float(v) for v in row] for row in I['mnormal'](A)]
        o['dn'] = [float(x) for x in jnp.max(jnp.abs(I['mnormal'](A) - I['mnormal'](B)), axis=1)]
        o['avg'] = [[float(v) for v in row] for row in I['nrm_average'](A, B)]
        o['src_from_a_one'] = [float(v) for v in I['int_from_a_one'](A, B, L)]
        o['src_from_a_gap'] = [float(v) for v in I['int_from_a_gap'](A, B, L)]
        return o
    o1 = run(pairs)
    o2 = run([tuple(rot(*m, q) for q in pr[:4]) + pr[4:] for pr, m in zip(pairs, motions)])
    kinds = {}
    fallback = 0
    for i, (a0, a1, b0, b1, kind, (LA, LB, h, ov)) in enumerate(pairs):
        kinds[kind] = kinds.get(kind, 0) + 1
        l, sc = ls[i], max(LA, LB)
        case = dict(fn='mortar', a0=a0, a1=a1, b0=b0, b1=b1, l=l, kind='patched:' + kind, expected=ov)
        bound = l * (LA + LB) / 2 + 1e-9 * sc
        # (a) unpatched source, one-sided rule, same orientation (ends not aligned, or aligned exactly on dyadic data)
        if kind in ('same_exact', 'same_rot'):
            va, vg = o1['src_from_a_one'][i], o1['src_from_a_gap'][i]
            if not (abs(va - ov) <= bound and abs(vg - h * va) <= 1e-9 * sc * (1 + abs(h))):
                ctx.fail('conclusion', 'same-orientation parallel segments, one-sided rule: area %r (overlap %r, bound %r), gap %r (h*area = %r)'
                         % (va, ov, bound, vg, h * va), case=dict(case, rule='from_a', clause='parallel', integrand='one'), concrete=True)
        # (b) proposed patches
        n, nA, dn = o1['nrm'][i], o1['nA'][i], o1['dn'][i]
        if not (all(math.isfinite(x) for x in n) and abs(n[0] * n[0] + n[1] * n[1] - 1) <= 1e-12):
            ctx.fail('patch-proposal', 'patched average normal is not a unit vector: %r' % (n,), case=dict(case, rule='average_p'))
        if dn > 1e-3 and n != o1['avg'][i]:
            ctx.fail('patch-proposal', 'patched average normal %r differs from the source rule %r although |nA-nB| = %r > eps' % (n, o1['avg'][i], dn), case=dict(case, rule='average_p'))
        if dn <= 1e-12:
            fallback += 1
            if n != nA:
                ctx.fail('patch-proposal', 'coinciding normals: patched rule returns %r, expected the normal of A %r' % (n, nA), case=dict(case, rule='average_p'))
        for rn in ('from_a', 'average_p'):
            va, vg = o1[rn + '_one'][i], o1[rn + '_gap'][i]
            wa, wg = o2[rn + '_one'][i], o2[rn + '_gap'][i]
            if not (abs(va - ov) <= bound and abs(vg - h * va) <= 1e-9 * sc * (1 + abs(h))):
                ctx.fail('patch-proposal', 'patched code (rule %s): area %r but overlap %r (bound %r); gap %r, h*area %r' % (rn, va, ov, bound, vg, h * va), case=dict(case, rule=rn))
            if not (abs(wa - va) <= 1e-9 * sc and abs(wg - vg) <= 1e-9 * sc * (1 + abs(h))):
                ctx.fail('patch-proposal', 'patched code (rule %s) not invariant under the rigid motion %r: area %r -> %r, gap %r -> %r' % (rn, motions[i], va, wa, vg, wg),
                         case=dict(case, rule=rn, motion=motions[i]))
    ctx.cov['patched_stream_pair_kinds'] = kinds
    ctx.count('patched_fallback_to_normal_of_A', fallback)
    if model_ok:
        qtxt = '[' + '; '.join('(%s, %s)' % (fl(x), fl(w)) for x, w in I['quad']) + ']'
        ex = []
        for i, (a0, a1, b0, b1, kind, _) in enumerate(pairs):
            args = ' '.join(fl(x) for x in (a0[0], a0[1], a1[0], a1[1], b0[0], b0[1], b1[0], b1[1]))
            ap = '(average_normal_p %s)' % fl(eps)
            ex.append("(let '(n0,n1) := %s %s in fencs [n0; n1; mortar_p %s normal_from_a %s (fun xa xb g => nunit) %s %s; mortar_p %s normal_from_a %s (fun xa xb g => g) %s %s; "
                      "mortar_p %s %s %s (fun xa xb g => nunit) %s %s; mortar_p %s %s %s (fun xa xb g => g) %s %s])"
                      % (ap, args, fl(tol), args, fl(ls[i]), qtxt, fl(tol), args, fl(ls[i]), qtxt, fl(tol), ap, args, fl(ls[i]), qtxt, fl(tol), ap, args, fl(ls[i]), qtxt))
        res = C.coq_eval(IMPORTS, ex, 'C16P', shard=150, jobs=2)
        mism = 0
        for i, (z, (a0, a1, b0, b1, kind, (LA, LB, h, ov))) in enumerate(zip(res, pairs)):
            v = C.dec_floats(z)
            sc = max(LA, LB)
            case = dict(fn='mortar', a0=a0, a1=a1, b0=b0, b1=b1, l=ls[i], kind='patched:' + kind)
            want = o1['nrm'][i] + [o1['from_a_one'][i], o1['from_a_gap'][i], o1['average_p_one'][i], o1['average_p_gap'][i]]
            tols = [1e-13, 1e-13] + [1e-9 * sc, 1e-9 * sc * (1 + abs(h))] * 2
            names = ['normal[0]', 'normal[1]', 'area (from_a)', 'gap (from_a)', 'area (patched average)', 'gap (patched average)']
            for j in range(6):
                if not C.close(v[j], want[j], rtol=0, atol=(0.0 if kind == 'same_exact' and j < 2 else tols[j])):
                    mism += 1
                    if mism <= 8:
                        ctx.fail('correspondence', 'model of the proposed patch: %s = %r but the patched Python gives %r' % (names[j], v[j], want[j]), case=case)
        ctx.count('patched_model_vs_patched_python_comparisons', 6 * len(ex))
        ctx.count('patched_model_mismatches', mism)
    return 2 * len(pairs)


# ----------------------------------------------------------------------------------------------- protocol

def search(ctx, reasons):
    import copy
    c2 = copy.copy(ctx)
    c2.tier = 'thorough'
    c2.failures = []
    c2.counts = {}
    c2.cov = {}
    c2.samples = []
    c2.seed = ctx.seed + 1
    correspondence(c2, False)
    fs = [f for f in c2.failures if f.get('concrete')]
    findings = [f for f in C.load_known_findings() if f['property'] == ID and f['status'] == 'open']
    fs = [f for f in fs if not any(matches_finding(f, k) for k in findings)]
    return fs[0] if fs else None


def eval_mortar_case(case):
    """-> list of violated clauses for one (pair, rule) on the implementation"""
    I = impl()
    jnp = I['jnp']
    A = jnp.array([case['a0'], case['a1']])
    B = jnp.array([case['b0'], case['b1']])
    rule = I['rules'][case['rule']]
    bad = []
    for fn, f, _, nonneg in INTEGRANDS:
        v = float(I['MC'].integrate_with_mortar(A, B, rule, f, case.get('l', 1e-7)))
        if v != v:
            bad.append('NaN integral (%s)' % fn)
        elif nonneg and v < -1e-12:
            bad.append('negative integral (%s): %r' % (fn, v))
        if case.get('motion') and v == v:
            m = case['motion']
            A2 = jnp.array([rot(*m, case['a0']), rot(*m, case['a1'])])
            B2 = jnp.array([rot(*m, case['b0']), rot(*m, case['b1'])])
            v2 = float(I['MC'].integrate_with_mortar(A2, B2, rule, f, case.get('l', 1e-7)))
            if not abs(v2 - v) <= 1e-8 * (1 + abs(v)):
                bad.append('not invariant (%s): %r -> %r' % (fn, v, v2))
    return bad


def finding_fails(ctx, f):
    w = f['witness']
    if f.get('id') == 'C16-F2':
        I = impl()
        jnp = I['jnp']
        v = float(I['MC'].integrate_with_mortar(jnp.array([w['a0'], w['a1']]), jnp.array([w['b0'], w['b1']]), I['rules'][w['rule']],
                                                lambda xa, xb, g: 1.0, w['l']))
        return abs(v - w['expected_overlap_length']) > 1e-6
    if w.get('fn') == 'mortar':
        return any('NaN' in b for b in eval_mortar_case(w))
    return False


def matches_finding(fl_, f):
    """C16-F1: with the average-normal rule, two segments whose unit normals coincide (bitwise, or to within 1e-12: parallel with the
    same orientation) have no defined common normal: nA - nB is 0 or rounding noise and is normalised as 0/0 -> the integral is NaN
    or depends on the rounding noise (not invariant under a rigid motion).  Any other failure (other rule, other pair, a negative
    integral, a NaN elsewhere) is NOT this finding."""
    c = fl_.get('case') or {}
    if f.get('id') == 'C16-F2':
        # node-aligned pair: some projected end-point parameter is within 1e-12 of 0 or 1, so the un-toleranced validity mask
        # 0 <= xi <= 1 is decided by rounding; observed as a wrong overlap (parallel clause) or a value that changes under a rigid motion
        if c.get('fn') != 'mortar' or not (c.get('clause') == 'parallel' or c.get('motion')) or c.get('nan'):
            return False
        m = tie_margin_hp(tuple(c['a0']), tuple(c['a1']), tuple(c['b0']), tuple(c['b1']), c['rule'])
        return m is not None and 1e-40 < m <= 1e-12
    if f.get('id') != 'C16-F1':
        return False
    if c.get('fn') != 'mortar' or c.get('rule') != 'average' or not (c.get('nan') or c.get('motion')):
        return False
    I = impl()
    jnp = I['jnp']
    nA = I['MC'].compute_normal(jnp.array([c['a0'], c['a1']]))
    nB = I['MC'].compute_normal(jnp.array([c['b0'], c['b1']]))
    return bool(jnp.max(jnp.abs(nA - nB)) <= 1e-12)


def replay(ctx, path):
    rep = json.load(open(path))
    case = rep.get('failing_input')
    print('replay of', path)
    print(json.dumps(rep.get('reasons'), indent=1)[:3000])
    if not case:
        print('no concrete failing input recorded; broken obligations:', rep.get('broken'))
        return 1
    fn = case.get('fn')
    bad = []
    if fn in ('cpp', 'cpp_rigid'):
        a, b, p = tuple(case['a']), tuple(case['b']), tuple(case['p'])
        o = run_cpp_impl([(a, b, p, 'replay')])
        bad = concl_cpp(a, b, p, o['q'][0], o['t'][0], o['d'][0], o['n'][0], exact=bool(case.get('exact')))
        if case.get('motion'):
            m = case['motion']
            o2 = run_cpp_impl([(rot(*m, a), rot(*m, b), rot(*m, p), 'replay')])
            if abs(o2['d'][0] - o['d'][0]) > 1e-9 * (1 + abs(o['d'][0])):
                bad.append('signed distance not invariant: %r -> %r' % (o['d'][0], o2['d'][0]))
    elif fn == 'mortar':
        bad = eval_mortar_case(case)
    else:
        print('case kind', fn, 'is replayed by re-running the check with the recorded seed:', rep.get('seed'))
        return 1
    print('implementation now:', bad or 'conclusion holds')
    return 1 if bad else 0
