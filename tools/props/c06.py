"""C06 -- trust-region sub-problem solvers: truncated CG, dogleg, eigenvalue-based solver, subspace CG."""
import ast
import contextlib
import inspect
import io
import json
import math
import signal
import textwrap

import numpy as onp

from vlib import common as C

ID = 'C06'
READY = True
LEVEL_TEXT = ('Partial. Coq theorems over R: tau of project_to_boundary_with_coefs (generated kernel) lands on the boundary (disc>=0, tau>=0, '
              '|z+tau d|^2=Delta^2); solve_trust_region_minimization (hand model using the generated kernels) for ARBITRARY symmetric linear '
              'Hessian oracle and positive preconditioner oracle, both inner-product modes: model value never increases, is <= the model value of '
              'every step along the Cauchy direction inside the region, tag interior => Newton residual < cgTolSquared; Euclidean mode: |z|<=Delta '
              'and =Delta when tagged boundary/neg curve; preconditioned inner-product mode with precond = M^-1, M symmetric positive definite (full CG conjugacy induction): '
              'at every pass the loop reaches the tracked zz, zd, dd (update_step_length_squared / Gould recurrences, generated kernels) equal z.Mz, z.Md, d.Md, '
              'hence z.Mz<=Delta^2 and =Delta^2 when tagged boundary/neg curve; zero-iteration return (0 iterations <=> |g|^2 < cgTolSquared, zero step): the Cauchy clause is FALSE there unless g = 0, '
              'proved instead: m(0) - m(t d0) <= D sqrt(cgTolSquared) - t^2/2 d0.H d0 for every step along the Cauchy direction in the Euclidean ball; '
              'EquationSolverSubspace.trust_region_cg (hand model) called with Pr = precond r, HPr = hess_vec Pr: same clauses as the Euclidean mode (radius, boundary tags, decrease vs every Cauchy-direction step, interior residual, zero-iteration gap); '
              'dogleg_step is on the path 0->cp->np and inside the radius in the mat_mul norm; '
              'More-Sorensen sufficiency lemma; treigen hard case (as repaired by repo commit 5a997d7, findings F2/F2d fixed): step on the boundary and optimal up to 2|tau|eps*Delta under eigen hypotheses. '
              'treigen.solve AS REPAIRED by repo commits 4d37146 (zero Hessian, F2b fixed) and 545a5c4 (capped secular loop with stall exit, F2c fixed) (model with eigh as oracle; the cap and the loop skeleton are read off the AST on every run) returns a global minimiser, '
              'ONE theorem from the eigh contract (sig ascending, V orthogonal, A = V diag(sig) V^T; transpose_n proved to be the transpose) for EVERY matrix, radius > 0 and cap: '
              'interior |p|<Delta and optimal over the ball; hard case |p|=Delta and optimal up to 4*eps*Delta^2, eps=1e-12*mean|sig|; zero Hessian |p|<=Delta (=Delta unless b=0) and exactly optimal; '
              'secular tolerance exit | |p|-Delta | <= 1e-9*Delta and optimal over the ball of radius |p| (Newton iterates of the secular equation proved to stay on the side |p(lam)|>=Delta, so the multiplier is admissible); '
              'secular capped exit: |p| > (1+1e-9) Delta, optimal over the ball of radius |p|, possible only while cap*eps*1e-9 <= |b|/Delta - eps; the stall exit lamNew == lam is proved unreachable over R (binary64 witnesses of the stall and cap exits and of the zero-Hessian return by vm_compute). '
              'Termination of the secular Newton iteration over R for every tolerance > 0 (explicit pass bound, linear in 1/tol) and an explicit contraction (one step multiplies bError by at most 1 - (sig_0+lam)/(sig_max+lam), keeping it >= 0); the capped loop terminates by construction. '
              'Not proved (tested by correspondence/L2 only): a rate of convergence explaining why 100 passes suffice (capped exits never observed with the source cap; reached only through the recompiled small-cap variant), '
              'the eigh contract itself (measured on every run), binary64 behaviour: stalled runs are checked on the implementation (admissible multiplier, optimal for own radius, radius within 1e-12 + 2 ulp(lam)/(sig_0+lam) of Delta), '
              'the zero-iteration gap in the preconditioned-norm region; binary64 drift of the recurrences (theorems are over R; the harness measures the drift on the first 4 passes, stream gould).')
TECHNIQUE = 'Coq proof (Reals, nra/lra) on generated scalar kernels + hand models; vm_compute/PrimFloat correspondence and binary64 witnesses'
GEN = ['EquationSolver', 'EquationSolverSubspace']
TARGETS = ['model/M_C06_Vec.vo', 'model/M_C06_CG.vo', 'model/M_C06_Treigen.vo', 'proofs/L_C06_Vec.vo', 'proofs/L_C06_CG.vo',
           'proofs/L_C06_CGpc.vo', 'proofs/L_C06_CGss.vo', 'proofs/L_C06_Dogleg.vo', 'proofs/L_C06_Treigen.vo', 'proofs/L_C06_TreigenFull.vo']
COQ_FILES = ['base/Num.v', 'model/M_C06_Vec.v', 'model/M_C06_CG.v', 'model/M_C06_Treigen.v', 'proofs/L_C06_Vec.v', 'proofs/L_C06_CG.v',
             'proofs/L_C06_CGpc.v', 'proofs/L_C06_CGss.v', 'proofs/L_C06_Dogleg.v', 'proofs/L_C06_Treigen.v', 'proofs/L_C06_TreigenFull.v', 'props/P_C06.v']
TRUSTED = ['Coq 8.16.1 kernel + vm_compute (no native_compute)',
           'tools/vlib/py2coq.py translator for the scalar kernels (cross-checked at binary64 against the implementation)',
           'hand models model/M_C06_CG.v, M_C06_Treigen.v tied by the correspondence (tags, iteration counts, treigen branch / loop exit / number of updates of lam exact; vectors within stated tolerance) and, for the secular loop of treigen.solve, by a structural check of the source AST (one `for` over range(<literal>), statement skeleton with its two breaks, literal 1e-9, test sigScale == 0)',
           'the exit `range exhausted` of the secular loop is exercised on treigen.solve recompiled from its own source with only the range literal replaced (0..3 passes)',
           'harness: float<->(mantissa,exponent) exchange, near-tie rule (relative margin < 1e-9 of a branch comparison, or the result of the implementation itself moving beyond tolerance under <= 2 ulp entrywise noise on its operators => not compared, counted as unstable), reference optimum for treigen',
           'theorems are over exact reals; binary64 rounding is covered only by the correspondence']
ASSUMPTIONS = ['hess_vec_func is a symmetric linear map and precond is positive (v.Pv > 0 for v != 0) on vectors of the problem dimension (section hypotheses of the CG theorem)',
               'preconditioned-radius theorems: precond is the inverse of a symmetric positive definite operator M (M(P v) = v, a.Mb = Ma.b, v.Mv > 0 for v != 0) and hess_vec_func is symmetric',
               'mat_mul is symmetric linear positive semidefinite (dogleg theorem)', 'EquationSolverSubspace.trust_region_cg is called with Pr = precond(r) and HPr = hess_vec(Pr) (what its caller passes)', 'numpy eigh is an oracle (its output is logged and fed to the model); its contract -- sig ascending, V^T V = V V^T = I, A = V diag(sig) V^T -- is the hypothesis of C06_treigen_global_minimiser and is measured on the logged output of every run (tolerance 1e-12)',
               'settings.cg_tol != 0 and max_cg_iters >= 1', 'exact real arithmetic in theorems']
RULE = ('synthetic operators H = Q diag(sig) Q^T (sig drawn from definite / indefinite / singular / repeated families), SPD preconditioners (identity, exact, diagonal, poor), '
        'g random or orthogonal to the lowest eigenspace, radii 10^U(-6,6), both inner-product modes, max_cg_iters in {1,2,3,50}; dims 1..8 quick, 1..40 thorough; '
        'a case is non-trivial when the solver iterates at least once (CG), or the dogleg/treigen branch is not the trivial pass-through; distinct = distinct input tuples; '
        'treigen streams: general (as above), zero Hessian (A = 0 incl. -0.0 entries, b random over 12 decades / with zero entries / zero), stall-directed (sig_0 < 0, Delta*|sig_0|/|b| = 10^U(6,8.5)), small-cap variant (cap 0..3 on inputs whose run needs more passes); '
        'exact-switch stream with dyadic data placed on |z|=Delta and curvature=0; stream gould: dims 2..8, precond = inverse of a generated SPD M (cond <~ 100), 70% SPD Hessians, '
        'radii 10^U(-1,4), cg_inexact_solve_ratio 1e-3, the scalar kernels wrapped to log zz, zd, dd per pass (distribution of exits / continuing passes in branch_histogram)')
IMPORTS = ['From OV.gen Require Import Gen_EquationSolver Gen_EquationSolverSubspace.',
           'From OV.model Require Import M_C06_Vec M_C06_CG M_C06_Treigen.']
TAGS = {'interior': 0, 'boundary': 1, 'neg curve': 2, 'interior_': 3}
TIE = 1e-9


def _mods():
    from vlib import shim
    shim.install()
    import jax.numpy as jnp
    import optimism  # noqa: F401
    from optimism import EquationSolver as ES
    from optimism import EquationSolverSubspace as SS
    from optimism.treigen import treigen
    return jnp, ES, SS, treigen


def quiet(f, *a, **k):
    with contextlib.redirect_stdout(io.StringIO()):
        return f(*a, **k)


def cvec(v):
    return C.clist([C.cf(float(x)) for x in v])


def cmat(m):
    return C.clist([cvec(r) for r in m])


# ----------------------------------------------------------------------------- generators

def rand_orth(r, n):
    a = onp.array([[r.gauss(0, 1) for _ in range(n)] for _ in range(n)])
    q, _ = onp.linalg.qr(a)
    return q


def gen_spectrum(r, n):
    kind = r.choice(['spd', 'indef', 'singular', 'repeated', 'negdef'])
    if kind == 'spd':
        sig = [10 ** r.uniform(-1, 1) for _ in range(n)]
    elif kind == 'indef':
        sig = [r.choice([-1, 1]) * 10 ** r.uniform(-1, 1) for _ in range(n)]
    elif kind == 'singular':
        sig = [r.choice([0.0, 0.0, 1.0, -1.0]) * 10 ** r.uniform(-1, 1) for _ in range(n)]
    elif kind == 'repeated':
        vals = [r.choice([-2.0, -1.0, 0.0, 0.5, 1.0, 3.0]) for _ in range(2)]
        sig = [r.choice(vals) for _ in range(n)]
    else:
        sig = [-10 ** r.uniform(-1, 1) for _ in range(n)]
    return kind, sorted(sig)


def gen_operator(r, n):
    kind, sig = gen_spectrum(r, n)
    q = rand_orth(r, n)
    h = (q * onp.array(sig)) @ q.T
    h = 0.5 * (h + h.T)
    return kind, onp.array(sig), q, h


def gen_precond(r, n, h, sig, q):
    kind = r.choice(['identity', 'exact', 'diag', 'poor', 'scaled'])
    if kind == 'identity':
        p = onp.eye(n)
    elif kind == 'exact':
        s = onp.maximum(onp.abs(sig), 0.05)
        p = (q / s) @ q.T
    elif kind == 'diag':
        p = onp.diag(1.0 / onp.maximum(onp.abs(onp.diag(h)), 0.05))
    elif kind == 'scaled':
        p = onp.eye(n) * 10 ** r.uniform(-2, 2)
    else:
        b = onp.array([[r.gauss(0, 1) for _ in range(n)] for _ in range(n)])
        p = b @ b.T + 0.05 * onp.eye(n)
    return kind, 0.5 * (p + p.T)


def gen_cg_cases(ctx, stream, count, nmax):
    r = ctx.rng(stream)
    out = []
    for _ in range(count):
        n = r.randrange(1, nmax + 1) if r.random() < 0.3 else r.randrange(1, min(nmax, 10) + 1)
        skind, sig, q, h = gen_operator(r, n)
        pkind, p = gen_precond(r, n, h, sig, q)
        g = onp.array([r.gauss(0, 1) for _ in range(n)]) * 10 ** r.uniform(-2, 2)
        if r.random() < 0.2 and n > 1:
            low = onp.abs(sig - sig[0]) < 1e-12
            g = g - q[:, low] @ (q[:, low].T @ g)         # orthogonal to the lowest eigenspace
            if onp.linalg.norm(g) == 0.0:
                g = q[:, -1].copy()
        tr = 10 ** r.uniform(-6, 6)
        pc = r.random() < 0.5
        mx = r.choice([1, 2, 3, 50, 50])
        cgtol = r.choice([2e-9, 1e-6, 1e-2, 0.5])
        ratio = r.choice([1e-5, 1e-2, 0.3])
        out.append(dict(kind='cg', n=n, H=h.tolist(), P=p.tolist(), g=g.tolist(), tr=tr, pc=pc, mx=mx, cgtol=cgtol, ratio=ratio,
                        spectrum=skind, precond=pkind))
    return out


GOULD_PASSES = 4     # the drift check covers the first passes of each run (binary64 CG loses conjugacy later: see concl_gould)


def gen_gould_cases(ctx, count):
    """preconditioned inner-product mode with precond = M^-1 for a generated SPD M (kept in the case): the hypotheses of
    C06_cg_gould_recurrences / C06_cg_radius_preconditioned; spectra biased to SPD and radii to large so that several passes continue"""
    r = ctx.rng('gould')
    out = []
    for _ in range(count):
        n = r.randrange(2, 9)
        if r.random() < 0.7:
            skind, sig, q = 'spd', onp.array(sorted(10 ** r.uniform(-1, 1) for _ in range(n))), rand_orth(r, n)
            h = (q * sig) @ q.T
            h = 0.5 * (h + h.T)
        else:
            skind, sig, q, h = gen_operator(r, n)
        b = onp.array([[r.gauss(0, 1) for _ in range(n)] for _ in range(n)])
        m = b @ b.T + (0.3 + r.random()) * onp.eye(n)
        m = 0.5 * (m + m.T)
        p = onp.linalg.inv(m)
        p = 0.5 * (p + p.T)
        g = onp.array([r.gauss(0, 1) for _ in range(n)])
        out.append(dict(kind='cg', n=n, H=h.tolist(), P=p.tolist(), M=m.tolist(), g=g.tolist(), tr=10 ** r.uniform(-1, 4), pc=True, mx=50,
                        cgtol=1e-9, ratio=1e-3, spectrum=skind, precond='inverse of SPD M'))
    return out


def gen_exact_switch_cases():
    """dyadic data: every operation is exact in binary64, inputs sit exactly on / next to the branch switches"""
    out = []
    for (g, hdiag, tr) in [([3.0, 4.0], [1.0, 1.0], 5.0), ([3.0, 4.0], [1.0, 1.0], math.nextafter(5.0, 0)), ([3.0, 4.0], [1.0, 1.0], math.nextafter(5.0, 9)),
                           ([3.0, 4.0], [0.0, 0.0], 5.0), ([3.0, 4.0], [-1.0, -1.0], 10.0), ([6.0, 8.0], [2.0, 2.0], 5.0), ([1.0], [1.0], 1.0),
                           ([1.0], [0.0], 2.0), ([0.5, 0.0, 0.0], [4.0, 1.0, 1.0], 0.125), ([2.0, 0.0], [1.0, -1.0], 2.0), ([2.0, 0.0], [1.0, -1.0], 1.0)]:
        n = len(g)
        for pc in (False, True):
            out.append(dict(kind='cg', n=n, H=onp.diag(hdiag).tolist(), P=onp.eye(n).tolist(), g=g, tr=tr, pc=pc, mx=3, cgtol=2e-9, ratio=1e-5,
                            spectrum='exact-switch', precond='identity', exact=True))
    return out


def gen_dogleg_cases(ctx, count, nmax):
    r = ctx.rng('dogleg')
    out = []
    for _ in range(count):
        n = r.randrange(1, nmax + 1)
        if r.random() < 0.5:
            m = onp.eye(n)
        else:
            b = onp.array([[r.gauss(0, 1) for _ in range(n)] for _ in range(n)])
            m = b @ b.T + 0.1 * onp.eye(n)
            m = 0.5 * (m + m.T)
        cp = onp.array([r.gauss(0, 1) for _ in range(n)])
        np_ = onp.array([r.gauss(0, 1) for _ in range(n)]) * 10 ** r.uniform(-1, 1)
        if r.random() < 0.3:
            np_ = cp * r.uniform(1.0, 4.0) + 0.1 * np_
        cc = math.sqrt(cp @ m @ cp)
        nn = math.sqrt(np_ @ m @ np_)
        mode = r.randrange(4)
        tr = (cc * r.uniform(0.1, 1.0) if mode == 0 else math.sqrt(cc * nn) if mode == 1 else max(cc, nn) * r.uniform(1.0, 3.0) if mode == 2 else 10 ** r.uniform(-6, 6))
        out.append(dict(kind='dogleg', n=n, M=m.tolist(), cp=cp.tolist(), np=np_.tolist(), tr=tr))
    return out


def gen_treigen_cases(ctx, count, nmax):
    r = ctx.rng('treigen')
    out = []
    for _ in range(count):
        n = r.randrange(1, nmax + 1)
        skind, sig, q, a = gen_operator(r, n)
        b = onp.array([r.gauss(0, 1) for _ in range(n)]) * 10 ** r.uniform(-1, 1)
        orth = False
        if r.random() < 0.3 and n > 1:
            low = onp.abs(sig - sig[0]) < 1e-12
            b = b - q[:, low] @ (q[:, low].T @ b)
            orth = True
            if onp.linalg.norm(b) < 1e-8:
                b = q[:, -1].copy()
        delta = 10 ** r.uniform(-3, 3) if r.random() < 0.7 else 10 ** r.uniform(-6, 6)
        out.append(dict(kind='treigen', n=n, A=a.tolist(), b=b.tolist(), Delta=delta, spectrum=skind, orth=orth))
    return out


def gen_treigen_zero_cases(ctx, count, nmax):
    """zero model Hessian (the early return of repo commit 4d37146): A = 0 (some with -0.0 entries), b random over 12 decades, with zero
    entries, or identically zero"""
    r = ctx.rng('treigen_zero')
    out = []
    for _ in range(count):
        n = r.randrange(1, min(nmax, 10) + 1)
        a = onp.zeros((n, n)) * (-1.0 if r.random() < 0.2 else 1.0)
        u = r.random()
        if u < 0.2:
            b = onp.zeros(n)
        else:
            b = onp.array([r.gauss(0, 1) for _ in range(n)]) * 10 ** r.uniform(-6, 6)
            if u < 0.4 and n > 1:
                b[r.randrange(n)] = 0.0
        out.append(dict(kind='treigen', n=n, A=a.tolist(), b=b.tolist(), Delta=10 ** r.uniform(-6, 6), spectrum='zero', orth=False))
    return out


def gen_treigen_stall_cases(ctx, count, nmax):
    """directed at the exit `lamNew == lam` of the secular loop (repo commit 545a5c4): lowest eigenvalue negative, |sig| in 10^U(-1,1), radius
    10^U(2,6), and b scaled so that Delta*|sig_0|/|b| = 10^U(6,8.5): the root of the secular equation then sits at sig_0 + lam ~ |b|/Delta,
    a few 1e8..1e6 ulps of lam, and bError moves by more than 1e-9 per ulp of lam"""
    r = ctx.rng('treigen_stall')
    out = []
    for _ in range(count):
        n = r.randrange(1, min(nmax, 8) + 1)
        fam = r.choice(['negrep', 'neg', 'indef'])
        if fam == 'negrep':
            sig = [-10 ** r.uniform(-1, 1)] * n
        elif fam == 'neg':
            sig = sorted(-10 ** r.uniform(-1, 1) for _ in range(n))
        else:
            sig = sorted([-10 ** r.uniform(-1, 1)] + [r.choice([-1, 1]) * 10 ** r.uniform(-1, 1) for _ in range(n - 1)])
        q = rand_orth(r, n)
        a = (q * onp.array(sig)) @ q.T
        a = 0.5 * (a + a.T)
        delta = 10 ** r.uniform(2, 6)
        b = onp.array([r.gauss(0, 1) for _ in range(n)])
        if onp.linalg.norm(b) == 0.0:
            b = q[:, 0].copy()
        b = b / onp.linalg.norm(b) * (delta * abs(min(sig)) / 10 ** r.uniform(6, 8.5))
        out.append(dict(kind='treigen', n=n, A=a.tolist(), b=b.tolist(), Delta=delta, spectrum='stall:' + fam, orth=False))
    return out


# ----------------------------------------------------------------------------- implementation runs

def run_cg_impl(case, mods, which='cg', noise=None):
    jnp, ES, SS, _ = mods
    n = case['n']
    hj, pj = jnp.array(case['H']), jnp.array(case['P'])
    if noise is not None:          # near-tie detection only: operators perturbed entrywise by <= 2 ulp
        hj = hj * jnp.array(1.0 + noise.uniform(-1, 1, size=(n, n)) * 4.4e-16)
        hj = 0.5 * (hj + hj.T)
        pj = pj * jnp.array(1.0 + noise.uniform(-1, 1, size=(n, n)) * 4.4e-16)
        pj = 0.5 * (pj + pj.T)
    st = ES.get_settings(max_cg_iters=case['mx'], cg_tol=case['cgtol'], cg_inexact_solve_ratio=case['ratio'],
                         use_preconditioned_inner_product_for_cg=case['pc'])
    g = jnp.array(case['g'])
    hv = lambda v: hj @ v
    pv = lambda v: pj @ v
    if which == 'cg':
        z, cp, tag, it = quiet(ES.solve_trust_region_minimization, jnp.zeros(n), g, hv, pv, case['tr'], st)
        return dict(z=[float(v) for v in z], cp=[float(v) for v in cp], tag=tag, iters=int(it))
    pg = pv(g)
    z, tag, it = quiet(SS.trust_region_cg, jnp.zeros(n), g, pg, hv(pg), hv, pv, case['tr'], st)
    return dict(z=[float(v) for v in z], tag=tag, iters=int(it))


def run_gould_impl(case, mods):
    """solve_trust_region_minimization with the two module-level scalar kernels wrapped (looked up at call time by the solver):
    logs, for each pass that continues, the iterate z, the new direction d, the recurrence values (zd, dd) and the zz handed to the next pass"""
    jnp, ES, SS, _ = mods
    n = case['n']
    hj, pj = jnp.array(case['H']), jnp.array(case['P'])
    st = ES.get_settings(max_cg_iters=case['mx'], cg_tol=case['cgtol'], cg_inexact_solve_ratio=case['ratio'],
                         use_preconditioned_inner_product_for_cg=True)
    passes = []
    first = {}
    o1, o2 = ES.cg_inner_products_preconditioned, ES.update_step_length_squared

    def w1(alpha, beta, zd, dd, rPr, z, d):
        res = o1(alpha, beta, zd, dd, rPr, z, d)
        passes.append(dict(z=[float(v) for v in z], d=[float(v) for v in d], zd=float(res[0]), dd=float(res[1]), zz=None))
        return res

    def w2(alpha, zz, zd, dd):
        if not first:
            first.update(zz=float(zz), zd=float(zd), dd=float(dd))
        if passes and passes[-1]['zz'] is None:
            passes[-1]['zz'] = float(zz)
        return o2(alpha, zz, zd, dd)
    ES.cg_inner_products_preconditioned, ES.update_step_length_squared = w1, w2
    try:
        z, cp, tag, it = quiet(ES.solve_trust_region_minimization, jnp.zeros(n), jnp.array(case['g']), lambda v: hj @ v, lambda v: pj @ v, case['tr'], st)
    finally:
        ES.cg_inner_products_preconditioned, ES.update_step_length_squared = o1, o2
    return dict(z=[float(v) for v in z], cp=[float(v) for v in cp], tag=tag, iters=int(it), passes=passes[:GOULD_PASSES], npasses=len(passes), first=first)


def cg_margin(case, which='cg'):
    """numpy replica of the loop used ONLY to measure how close the branch comparisons are to a tie (near-tie rule)"""
    h, p, g = onp.array(case['H']), onp.array(case['P']), onp.array(case['g'])
    tr, pc = case['tr'], case['pc'] and which == 'cg'
    marg = 1.0

    def m(a, b):
        nonlocal marg
        d = abs(a - b) / (abs(a) + abs(b) + 1e-300)
        marg = min(marg, d)
    tol2 = max(case['cgtol'] ** 2, case['ratio'] ** 2 * (g @ g))
    m(g @ g, tol2)
    if g @ g < tol2:
        return marg
    r = g.copy()
    pr = p @ r
    d = -pr
    rpr = r @ pr
    z = onp.zeros(len(g))
    zz, zd, dd = 0.0, 0.0, (rpr if pc else d @ d)
    for _ in range(case['mx']):
        hd = h @ d
        curv = d @ hd
        # curvature vs 0: relative to the size of the terms of the quadratic form
        scale = onp.abs(d) @ (onp.abs(h) @ onp.abs(d)) + 1e-300
        marg = min(marg, abs(curv) / scale)
        if curv <= 0:
            return marg
        alpha = rpr / curv
        zn = z + alpha * d
        zzn = (zz + 2 * alpha * zd + alpha * alpha * dd) if which == 'cg' else zn @ zn
        m(zzn, tr * tr)
        if zzn > tr * tr:
            return marg
        z = zn
        r = r + alpha * hd
        pr = p @ r
        rprn = r @ pr
        m(r @ r, tol2)
        if r @ r < tol2:
            return marg
        beta = rprn / rpr
        rpr = rprn
        d = -pr + beta * d
        zz = zzn
        if pc:
            zd, dd = beta * (zd + alpha * dd), rpr + beta * beta * dd
        else:
            zd, dd = z @ d, d @ d
    return marg


class Timeout(Exception):
    pass


def _alarm(signum, frame):
    raise Timeout()


EXPECTED_LOOP = ['If:Break', 'Assign', 'Assign', 'If:Break', 'Assign', 'Assign', 'Assign', 'Assign']


def treigen_source_facts(treigen):
    """structural tie, recomputed from the AST of treigen.solve on every run: the secular loop is ONE `for _ in range(<int literal>)`
    (no `while`), its body has the statement skeleton of model/M_C06_Treigen.v `secular` (tolerance test + break, qNormSq, lamNew,
    fixed-point test + break, lam, pNormSq, pNorm, bError), the tolerance literal is 1e-9 and the zero-Hessian test `sigScale == 0` is there.
    Returns (cap, problems, tree)."""
    src = textwrap.dedent(inspect.getsource(treigen.solve))
    tree = ast.parse(src)
    bad = []
    fors = [n for n in ast.walk(tree) if isinstance(n, ast.For)]
    if [n for n in ast.walk(tree) if isinstance(n, ast.While)]:
        bad.append('treigen.solve contains a `while` loop (the model has a capped `for`)')
    cap = None
    if len(fors) != 1:
        bad.append('treigen.solve has %d `for` loops, the model has one' % len(fors))
    else:
        f = fors[0]
        it = f.iter
        if (isinstance(it, ast.Call) and getattr(it.func, 'id', None) == 'range' and len(it.args) == 1 and isinstance(it.args[0], ast.Constant)
                and isinstance(it.args[0].value, int)):
            cap = it.args[0].value
        else:
            bad.append('the secular loop does not iterate over range(<int literal>)')
        skel = [type(st).__name__ + (':Break' if isinstance(st, ast.If) and len(st.body) == 1 and isinstance(st.body[0], ast.Break) and not st.orelse else '')
                for st in f.body]
        if skel != EXPECTED_LOOP:
            bad.append('secular loop body has the statement skeleton %r, the model was written for %r' % (skel, EXPECTED_LOOP))
        lits = [n.value for n in ast.walk(f) if isinstance(n, ast.Constant) and isinstance(n.value, float)]
        if lits != [1e-9]:
            bad.append('float literals of the secular loop are %r, the model has [1e-9]' % lits)
    if not any(isinstance(n, ast.Compare) and isinstance(n.left, ast.Name) and n.left.id == 'sigScale' and isinstance(n.ops[0], ast.Eq)
               for n in ast.walk(tree)):
        bad.append('no test `sigScale == ...` (zero-Hessian early return) in treigen.solve')
    return cap, bad, tree


def solve_variant(treigen, cap):
    """treigen.solve recompiled from its own source with ONLY the literal of `range(...)` replaced by `cap` (same module globals, so the
    logging wrappers apply): the way the harness reaches the exit 'range exhausted', which 100 passes never reach in binary64"""
    _, _, tree = treigen_source_facts(treigen)
    for n in ast.walk(tree):
        if isinstance(n, ast.For) and isinstance(n.iter, ast.Call) and getattr(n.iter.func, 'id', None) == 'range':
            n.iter.args = [ast.Constant(cap)]
    ast.fix_missing_locations(tree)
    ns = {}
    exec(compile(tree, inspect.getsourcefile(treigen), 'exec'), treigen.__dict__, ns)
    return ns['solve']


TREIGEN_TIME_LIMIT = 20      # seconds per call of treigen.solve (a call takes milliseconds; the unrepaired loop of finding F2c never returned)


def ulp(x):
    return math.ulp(abs(x)) if math.isfinite(x) else math.nan


def run_treigen_impl(case, mods):
    """treigen.solve (or its recompiled variant with the cap case['cap']) under a time limit, with eigh, pnorm_squared and qnorm_squared wrapped
    (module-level names, looked up by solve at call time): what eigh returned, how many passes of the secular loop began (calls of
    qnorm_squared) and how many updated lam (calls of pnorm_squared - 1), the last |p|^2 and the last shifted spectrum sig + lam"""
    jnp, _, _, treigen = mods
    log = dict(q=0, pn=[])
    o_eigh, o_p, o_q = treigen.eigh, treigen.pnorm_squared, treigen.qnorm_squared

    def eigh_l(a):
        s, v = o_eigh(a)
        log['sig'], log['V'] = onp.array(s), onp.array(v)
        return s, v

    def p_l(bvv, sh):
        res = o_p(bvv, sh)
        sh = onp.array(sh)
        log['pn'].append((float(res), float(sh[0]), float(sh.min())))
        return res

    def q_l(bvv, sh):
        log['q'] += 1
        return o_q(bvv, sh)
    fn = treigen.solve if case.get('cap') is None else solve_variant(treigen, case['cap'])
    treigen.eigh, treigen.pnorm_squared, treigen.qnorm_squared = eigh_l, p_l, q_l
    old = signal.signal(signal.SIGALRM, _alarm)
    signal.alarm(TREIGEN_TIME_LIMIT)
    try:
        p = quiet(fn, jnp.array(case['A']), jnp.array(case['b']), case['Delta'])
        p = [float(v) for v in p]
    except Timeout:
        p = None
    finally:
        signal.alarm(0)
        signal.signal(signal.SIGALRM, old)
        treigen.eigh, treigen.pnorm_squared, treigen.qnorm_squared = o_eigh, o_p, o_q
    out = dict(p=p, sig=log['sig'].tolist(), V=log['V'].tolist(), exit=None, updates=None, passes=log['q'])
    out['branch'] = treigen_branch(case, out)
    if out['branch'] == 'secular' and log['pn'] and p is not None:
        upd = len(log['pn']) - 1
        pn2, mu0, mumin = log['pn'][-1]
        be = (math.sqrt(pn2) - case['Delta']) / case['Delta'] if pn2 >= 0 else math.nan
        out.update(updates=upd, bError=be, mu=mu0, mu_min=mumin,
                   exit='stalled' if log['q'] > upd else 'capped' if abs(be) > 1e-9 else 'converged')
    return out


def treigen_reference(a, b, delta):
    """independent reference: minimum value of 0.5 s.A s + s.b over |s| <= delta (eigen-decomposition + bisection, hard case handled)"""
    a, b = onp.array(a, dtype=float), onp.array(b, dtype=float)
    sig, v = onp.linalg.eigh(a)
    bv = v.T @ b
    scale = max(abs(sig).max(), 1e-300)

    def val(c):      # c: coefficients in the eigenbasis
        return 0.5 * float((sig * c * c).sum()) + float(c @ bv)
    if sig[0] > 0:
        c = -bv / sig
        if onp.linalg.norm(c) <= delta:
            return val(c)
    lo = max(0.0, -sig[0])
    # hard case candidate: components in the lowest eigenspace free
    low = onp.abs(sig - sig[0]) <= 1e-12 * scale
    best = math.inf
    if sig[0] <= 0:
        c = onp.zeros_like(bv)
        hi_idx = ~low
        c[hi_idx] = -bv[hi_idx] / (sig[hi_idx] - sig[0])
        nb = onp.linalg.norm(bv[low])
        rest = delta * delta - float(c @ c)
        if rest >= 0 and nb <= 1e-14 * max(1.0, onp.linalg.norm(bv)):
            c2 = c.copy()
            c2[onp.argmax(low)] = math.sqrt(rest)
            best = min(best, val(c2))
    # secular equation |p(lam)| = delta, lam > lo
    f = lambda lam: onp.linalg.norm(bv / (sig + lam)) - delta
    l0 = lo + 1e-16 * scale + 1e-300
    with onp.errstate(all='ignore'):
        if not f(l0) > 0:
            return min(best, val(-bv / (sig + l0)) if onp.all(onp.isfinite(bv / (sig + l0))) else best)
        l1 = lo + max(scale, onp.linalg.norm(b) / delta) * 2 + 1.0
        while f(l1) > 0:
            l1 *= 2
        for _ in range(300):
            mid = 0.5 * (l0 + l1)
            if f(mid) > 0:
                l0 = mid
            else:
                l1 = mid
        c = -bv / (sig + l1)
    return min(best, val(c))


def energy(a, b, s):
    a, b, s = onp.array(a), onp.array(b), onp.array(s)
    return 0.5 * float(s @ (a @ s)) + float(s @ b)


# ----------------------------------------------------------------------------- L2 predicates (theorem conclusions on implementation outputs)

def concl_cg(case, out, which='cg'):
    bad = []
    h, p, g = onp.array(case['H']), onp.array(case['P']), onp.array(case['g'])
    z = onp.array(out['z'])
    tr = case['tr']
    if not onp.all(onp.isfinite(z)):
        return ['non-finite step']
    pc = case['pc'] and which == 'cg'
    condp = onp.linalg.cond(p)
    if pc:
        mm = onp.linalg.inv(p)
        nrm = math.sqrt(max(float(z @ mm @ z), 0.0))
        rt = 1e-7 * max(1.0, condp)
    else:
        nrm = float(onp.linalg.norm(z))
        rt = 1e-8
    if nrm > tr * (1 + rt):
        bad.append('step outside the trust region: norm %.17g > radius %.17g (%s inner product)' % (nrm, tr, 'preconditioned' if pc else 'Euclidean'))
    if out['tag'] in ('boundary', 'neg curve') and abs(nrm - tr) > rt * tr:
        bad.append('step tagged %s has norm %.17g != radius %.17g' % (out['tag'], nrm, tr))
    mz = float(g @ z + 0.5 * z @ h @ z)
    d0 = -(p @ g)
    sc = abs(float(g @ z)) + abs(0.5 * float(z @ h @ z)) + 1e-300
    if mz > 1e-9 * sc:
        bad.append('model value increased: m(z) = %.6g' % mz)
    if out['iters'] > 0:
        dd0 = float(g @ p @ g) if pc else float(d0 @ d0)
        curv = float(d0 @ h @ d0)
        gd = float(g @ d0)
        tmax = tr / math.sqrt(dd0) if dd0 > 0 else 0.0
        tc = min(tmax, -gd / curv) if curv > 0 else tmax
        mc = tc * gd + 0.5 * tc * tc * curv
        if mz > mc + 1e-9 * (abs(mc) + sc):
            bad.append('model value %.12g worse than the Cauchy step %.12g' % (mz, mc))
    if out['iters'] == 0:
        # C06_cg_zero_iteration_return / C06_subspace_cg_step_properties: 0 iterations <=> |g|^2 < cgTolSquared, the step is zero, and the decrease
        # the Euclidean Cauchy step would have achieved is <= D sqrt(cgTolSquared) - t^2/2 d0.H d0
        tol2 = max(case['cgtol'] ** 2, case['ratio'] ** 2 * float(g @ g))
        if not float(g @ g) < tol2 * (1 + 1e-12):
            bad.append('0 iterations reported although |g|^2 = %.17g is not below cgTolSquared = %.17g' % (float(g @ g), tol2))
        if onp.any(z != 0.0):
            bad.append('0 iterations reported but the step is not zero')
        dd0e, curv, gd = float(d0 @ d0), float(d0 @ h @ d0), float(g @ d0)
        if dd0e > 0:
            tmax = tr / math.sqrt(dd0e)
            tc = min(tmax, -gd / curv) if curv > 0 else tmax
            gap = -(tc * gd + 0.5 * tc * tc * curv)
            bound = tr * math.sqrt(tol2) - 0.5 * tc * tc * curv
            if not gap <= bound + 1e-12 * (abs(bound) + abs(tc * gd) + abs(0.5 * tc * tc * curv)):
                bad.append('zero-iteration return: the Cauchy step would have decreased the model by %.12g > bound %.12g' % (gap, bound))
    elif float(g @ g) < max(case['cgtol'] ** 2, case['ratio'] ** 2 * float(g @ g)) * (1 - 1e-12):
        bad.append('|g|^2 below cgTolSquared but %d iterations reported' % out['iters'])
    if out['tag'] == 'interior':
        res = onp.linalg.norm(g + h @ z)
        tol = math.sqrt(max(case['cgtol'] ** 2, case['ratio'] ** 2 * float(g @ g)))
        slack = 1e-10 * (onp.linalg.norm(g) + onp.linalg.norm(h, 2) * onp.linalg.norm(z)) * max(1.0, out['iters'])
        if not res < tol * (1 + 1e-9) + slack:
            bad.append('tagged interior but |g + H z| = %.6g >= tolerance %.6g' % (res, tol))
    return bad


def concl_gould(case, out, tol=1e-9):
    """conclusion of C06_cg_gould_recurrences on the implementation: the tracked zz, zd, dd are the M-inner products of the iterates.
    Tolerance: 1e-9 relative (zd: relative to sqrt(z.Mz * max dd so far)), for the first GOULD_PASSES continuing passes only -- in binary64
    z.r (zero in exact arithmetic) grows by up to ~100x per pass on ill-conditioned P H, measured <= 1e-13 within these passes."""
    bad = []
    m, p, g = onp.array(case['M']), onp.array(case['P']), onp.array(case['g'])
    d0 = -(p @ g)
    f = out.get('first') or {}
    ddmax = float(d0 @ m @ d0)
    if f and not (f['zz'] == 0.0 and f['zd'] == 0.0 and abs(f['dd'] - ddmax) <= tol * ddmax):
        bad.append('start of the loop: (zz, zd, dd) = (%r, %r, %r) but the M-inner products are (0, 0, %r)' % (f['zz'], f['zd'], f['dd'], ddmax))
    for k, ps in enumerate(out['passes']):
        z, d = onp.array(ps['z']), onp.array(ps['d'])
        mzz, mzd, mdd = float(z @ m @ z), float(z @ m @ d), float(d @ m @ d)
        ddmax = max(ddmax, mdd)
        if not abs(ps['dd'] - mdd) <= tol * mdd:
            bad.append('pass %d: recurrence dd = %.17g but d.Md = %.17g' % (k + 1, ps['dd'], mdd))
        if not abs(ps['zd'] - mzd) <= tol * math.sqrt(mzz * ddmax):
            bad.append('pass %d: recurrence zd = %.17g but z.Md = %.17g' % (k + 1, ps['zd'], mzd))
        if ps['zz'] is not None and not abs(ps['zz'] - mzz) <= tol * mzz:
            bad.append('pass %d: tracked zz = %.17g but z.Mz = %.17g' % (k + 1, ps['zz'], mzz))
    return bad


def concl_dogleg(case, r):
    bad = []
    m, cp, np_ = onp.array(case['M']), onp.array(case['cp']), onp.array(case['np'])
    r = onp.array(r)
    tr = case['tr']
    nr = math.sqrt(max(float(r @ m @ r), 0.0))
    if nr > tr * (1 + 1e-9):
        bad.append('dogleg step outside the region: %.17g > %.17g' % (nr, tr))
    # on the path 0 -> cp -> np
    def dist_seg(a, b):
        ab = b - a
        t = 0.0 if float(ab @ ab) == 0 else min(1.0, max(0.0, float((r - a) @ ab) / float(ab @ ab)))
        return float(onp.linalg.norm(r - (a + t * ab)))
    d = min(dist_seg(onp.zeros_like(cp), cp), dist_seg(cp, np_))
    if d > 1e-9 * (onp.linalg.norm(cp) + onp.linalg.norm(np_)):
        bad.append('dogleg step is off the path origin -> Cauchy -> Newton by %.3g' % d)
    return bad


def treigen_branch(case, out):
    """which branch the implementation took, recomputed from the logged eigh output exactly as the source does"""
    sig, v, b = onp.array(out['sig']), onp.array(out['V']), onp.array(case['b'])
    bv = v.T @ b
    with onp.errstate(all='ignore'):
        if sig[0] > 0 and onp.linalg.norm(bv / sig) < case['Delta']:
            return 'interior'
        if onp.mean(onp.abs(sig)) == 0:
            return 'zero'
        eps = 1e-12 * onp.mean(onp.abs(sig))
        lam = -sig[0] + eps if sig[0] < eps else 0.0
        if sig[0] < eps and onp.linalg.norm(bv / (sig + lam)) < case['Delta']:
            return 'hard'
    return 'secular'


def eigh_contract(case, out, tol=1e-12):
    """hypotheses of C06_treigen_global_minimiser measured on what treigen.solve received from eigh: sig ascending, V^T V = V V^T = I,
    A = V diag(sig) V^T (entrywise, relative to max|A|); measured <= 6e-15 for n <= 40"""
    sig, v, a = onp.array(out['sig']), onp.array(out['V']), onp.array(case['A'])
    n = len(sig)
    bad = []
    if v.shape != (n, n) or a.shape != (n, n):
        return ['eigh returned shapes %r, %r for a %r matrix' % (sig.shape, v.shape, a.shape)]
    if not onp.all(onp.diff(sig) >= 0):
        bad.append('eigenvalues not ascending')
    e1 = max(float(onp.abs(v.T @ v - onp.eye(n)).max()), float(onp.abs(v @ v.T - onp.eye(n)).max()))
    if not e1 <= tol:
        bad.append('V not orthogonal: max|V^T V - I| = %.3g' % e1)
    e2 = float(onp.abs((v * sig) @ v.T - a).max()) / max(float(onp.abs(a).max()), 1e-300)
    if not e2 <= tol:
        bad.append('A != V diag(sig) V^T: relative residual %.3g' % e2)
    return bad


def stall_radius_tolerance(out):
    """relative radius tolerance of a run that left the secular loop through `lamNew == lam`.  At that exit the Newton correction
    (N/Q)*bError rounds away against lam, i.e. |(N/Q)*bError| <= ulp(lam)/2, and N/Q >= sig_0 + lam (proofs/L_C06_TreigenFull.v pq_ratio), so
    |bError| <= ulp(lam) / (2 (sig_0 + lam)); the sum sig + lam the step is formed with is itself rounded (<= ulp(max(|lam|,|sig_0|))/2 absolute,
    the same amount relative to sig_0 + lam in |p|), and bError is evaluated with a few ulp(1) of error.  Stated bound:
    1e-12 + 2 ulp(max(|lam|,|sig_0|)) / (sig_0 + lam), with sig_0 + lam the value the code itself used in its last evaluation of |p|^2
    (measured: <= 0.5 ulp(lam)/(sig_0+lam) on every stalled run, as the argument predicts; evidence key treigen_stalled_radius_miss_max_in_units_of_ulp_lam_over_mu).  The resolution of lam, not 1e-9, is what limits these runs: the equation is
    solved to the last bit of lam."""
    mu, sig0 = out['mu'], out['sig'][0]
    return 1e-12 + 2 * ulp(max(abs(mu - sig0), abs(sig0))) / mu


def concl_treigen(case, out):
    """conclusion of C06_treigen_global_minimiser on the implementation, per branch: interior |p| < Delta; hard |p| = Delta (1e-10 relative,
    measured 1e-15); zero Hessian |p| = Delta (1e-12 relative) and model value -Delta|b| (the zero step when b = 0);
    secular, tolerance exit: | |p| - Delta | <= (1e-9 + 1e-12) Delta (the loop's exit test, measured <= 9.93e-10);
    secular, stalled exit (binary64 only): the multiplier reached is admissible (every entry of sig + lam > 0), | |p| - Delta | <=
    stall_radius_tolerance * Delta, and the step is optimal over the ball of ITS OWN radius (the conclusion of C06_treigen_shifted_step_optimal);
    secular, capped exit (only reachable with the recompiled small-cap variant): |p| >= (1 - stall_radius_tolerance) Delta (over R: > (1 + 1e-9) Delta)
    and optimal over the ball of its own radius;
    model value against the independent reference optimum with the slack of the theorem's clause for the branch taken"""
    bad = []
    if out['p'] is None:
        return ['treigen.solve did not terminate within %d s' % TREIGEN_TIME_LIMIT]
    p = onp.array(out['p'])
    if not onp.all(onp.isfinite(p)):
        return ['non-finite step']
    delta = case['Delta']
    br = out.get('branch') or treigen_branch(case, out)
    ex = out.get('exit')
    pn = float(onp.linalg.norm(p))
    b = onp.array(case['b'])
    if br == 'zero':
        bn = float(onp.linalg.norm(b))
        if bn == 0.0:
            if onp.any(p != 0.0):
                bad.append('zero Hessian and zero gradient but the step is not zero')
            return bad
        if not abs(pn - delta) <= 1e-12 * delta:
            bad.append('zero-Hessian step is not on the boundary: |p| = %.17g, radius %.17g' % (pn, delta))
        if not float(p @ b) <= -delta * bn * (1 - 1e-12):
            bad.append('zero-Hessian step is not the minimiser of s.b over the ball: p.b = %.17g, optimum %.17g' % (float(p @ b), -delta * bn))
        return bad
    radius = delta
    if br == 'secular' and ex == 'stalled':
        if not out['mu_min'] > 0:
            bad.append('stalled secular run returns a step for an inadmissible multiplier: min(sig + lam) = %.17g' % out['mu_min'])
            return bad
        rt = stall_radius_tolerance(out)
        if not abs(pn - delta) <= rt * delta:
            bad.append('stalled secular step misses the boundary by more than the resolution of lam allows: |p| = %.17g, radius %.17g, '
                       'allowed relative miss %.3g' % (pn, delta, rt))
        radius = pn
    elif br == 'secular' and ex == 'capped' and case.get('cap') is None:
        # the UNMODIFIED source left its loop through the end of the range with |bError| > 1e-9: the step is not within the tolerance of the
        # boundary (over R: outside the trust region).  Never observed with the source's cap of 100; accepted only in the small-cap variant
        # stream, where the harness itself cut the range short (next clause).
        bad.append('secular loop used all its passes without reaching 1e-9: |p| = %.17g, radius %.17g, bError %.3g after %s updates'
                   % (pn, delta, out.get('bError', math.nan), out.get('updates')))
        return bad
    elif br == 'secular' and ex == 'capped':
        if not out['mu_min'] > 0:
            bad.append('capped secular run returns a step for an inadmissible multiplier: min(sig + lam) = %.17g' % out['mu_min'])
            return bad
        # over R a capped run is outside the radius (the iterates stay on the side |p| >= Delta); in binary64 the last update can land
        # inside by what one ulp of lam does to |p| -- the same resolution bound as for a stalled run
        if not pn >= delta * (1 - stall_radius_tolerance(out)):
            bad.append('capped secular run is inside the radius by more than the resolution of lam allows: |p| = %.17g, radius %.17g, allowed relative miss %.3g'
                       % (pn, delta, stall_radius_tolerance(out)))
        radius = pn
    elif pn > delta * (1 + 1e-8):
        bad.append('step outside the ball: %.17g > %.17g' % (pn, delta))
    elif br == 'interior' and not pn < delta * (1 + 1e-12):
        bad.append('interior branch but |p| = %.17g is not below the radius %.17g' % (pn, delta))
    elif br == 'hard' and not abs(pn - delta) <= 1e-10 * delta:
        bad.append('hard-case step is not on the boundary: |p| = %.17g, radius %.17g' % (pn, delta))
    elif br == 'secular' and not abs(pn - delta) <= (1e-9 + 1e-12) * delta:
        bad.append('secular step misses the boundary by more than 1e-9: |p| = %.17g, radius %.17g' % (pn, delta))
    ref = treigen_reference(case['A'], case['b'], radius)
    e = energy(case['A'], case['b'], p)
    a = onp.array(case['A'])
    scale = abs(ref) + onp.linalg.norm(case['b']) * radius + onp.linalg.norm(a, 2) * radius * radius
    # slack mirroring the theorem's clauses (was 1e-6*scale for every branch; measured gap <= 5e-15*scale on 11000 cases):
    # interior: exact optimum; hard: 4*eps*Delta^2 with eps = 1e-12*mean|sig|; secular: the radius may miss Delta by 1e-9 relative
    # (stalled / capped exits: compared with the optimum over the ball of the step's own radius, same 2e-9 slack)
    eps = 1e-12 * float(onp.mean(onp.abs(onp.array(out['sig'])))) if 'sig' in out else 0.0
    slack = {'interior': 1e-10 * scale, 'hard': 4 * eps * delta * delta + 1e-10 * scale, 'secular': 2e-9 * scale}.get(br, 1e-6 * scale)
    if e > ref + slack:
        bad.append('not a minimiser over the ball%s: model value %.17g, optimum %.17g (allowed slack %.3g)'
                   % ('' if radius == delta else ' of its own radius', e, ref, slack))
    return bad


# ----------------------------------------------------------------------------- model expressions

def cg_expr(case, which='cg'):
    n = case['n']
    args = '(matvec %s) (matvec %s)' % (cmat(case['H']), cmat(case['P']))
    if which == 'cg':
        return ('(let res := @solve_trust_region_minimization float NumF %s %s %s %s %s %d%%nat %s %s in '
                '[tag_code (cg_tag res); Z.of_nat (cg_iters res)] ++ fencs (cg_z res) ++ fencs (cg_cauchy res))'
                % (args, 'true' if case['pc'] else 'false', C.cf(case['tr']), C.cf(case['cgtol']), C.cf(case['ratio']), case['mx'],
                   cvec([0.0] * n), cvec(case['g'])))
    return ('(let Hf := matvec %s in let Pf := matvec %s in let g := %s in let Pg := Pf g in '
            'let \'(z, t, i) := @trust_region_cg float NumF Hf Pf %s %s %s %d%%nat %s g Pg (Hf Pg) in '
            '[tag_code t; Z.of_nat i] ++ fencs z)'
            % (cmat(case['H']), cmat(case['P']), cvec(case['g']), C.cf(case['tr']), C.cf(case['cgtol']), C.cf(case['ratio']), case['mx'], cvec([0.0] * n)))


def dogleg_expr(case):
    return ('(let M := matvec %s in [Z.of_nat (@dogleg_branch float NumF M %s %s %s)] ++ fencs (@dogleg_step float NumF M %s %s %s))'
            % (cmat(case['M']), cvec(case['cp']), cvec(case['np']), C.cf(case['tr']), cvec(case['cp']), cvec(case['np']), C.cf(case['tr'])))


BR_CODE = {0: ('interior', None), 1: ('hard', None), 2: ('secular', 'converged'), 4: ('zero', None), 5: ('secular', 'stalled'), 6: ('secular', 'capped')}


def treigen_expr(case, out, cap):
    """[branch/exit code; updates of lam] ++ step; the cap of the secular loop is the literal read off the source (or the variant's cap)"""
    return ('(let \'(br, p) := @treigen_solve float NumF %d%%nat %s %s %s %s in '
            '(match br with TInterior => [0; 0] | THard => [1; 0] | TSecular k => [2; Z.of_nat k] | TZero => [4; 0] '
            '| TStalled k => [5; Z.of_nat k] | TCapped k => [6; Z.of_nat k] end) ++ fencs p)'
            % (cap, cvec(out['sig']), cmat(out['V']), cvec(case['b']), C.cf(case['Delta'])))


def kernel_cases(ctx):
    r = ctx.rng('kernels')
    ks = []
    for _ in range(ctx.n(40, 300)):
        tr = 10 ** r.uniform(-6, 6)
        zz = tr * tr * r.uniform(0, 1)
        dd = 10 ** r.uniform(-6, 6)
        zd = r.uniform(-1, 1) * math.sqrt(zz * dd)
        al, be, rpr = r.uniform(-2, 2), r.uniform(0, 2), 10 ** r.uniform(-3, 3)
        ks.append((tr, zz, zd, dd, al, be, rpr))
    return ks


def vec_close(a, b, rt, at=0.0):
    a, b = onp.array(a), onp.array(b)
    if a.shape != b.shape:
        return False, math.inf
    if not (onp.all(onp.isfinite(a)) and onp.all(onp.isfinite(b))):
        return bool(onp.array_equal(onp.isnan(a), onp.isnan(b))), math.nan
    sc = max(float(onp.max(onp.abs(a), initial=0.0)), float(onp.max(onp.abs(b), initial=0.0)))
    err = float(onp.max(onp.abs(a - b), initial=0.0))
    return err <= rt * sc + at, err / (sc + 1e-300)


def shard_for(n):
    return max(8, min(300, 12000 // max(1, n * n)))


# ----------------------------------------------------------------------------- the check

def correspondence(ctx, model_ok):
    mods = _mods()
    jnp, ES, SS, treigen = mods
    nmax = ctx.n(8, 40)
    cg_cases = gen_exact_switch_cases() + gen_cg_cases(ctx, 'cg', ctx.n(140, 600), nmax) + gen_gould_cases(ctx, ctx.n(40, 200))
    ss_cases = [dict(c, pc=False) for c in gen_cg_cases(ctx, 'sscg', ctx.n(50, 200), nmax)]
    dl_cases = gen_dogleg_cases(ctx, ctx.n(80, 300), nmax)
    te_cases = (gen_treigen_cases(ctx, ctx.n(100, 300), ctx.n(8, 40)) + gen_treigen_zero_cases(ctx, ctx.n(12, 30), nmax)
                + gen_treigen_stall_cases(ctx, ctx.n(40, 100), nmax))
    cap, src_bad, _ = treigen_source_facts(treigen)
    for b in src_bad:
        ctx.fail('correspondence', 'treigen.solve no longer has the structure model/M_C06_Treigen.v was written for: ' + b, case=dict(kind='structure'))
    ctx.cov['treigen_secular_cap_in_source'] = cap
    cap = cap if cap is not None else 100
    distinct = set()
    hist = {}

    def bump(k):
        hist[k] = hist.get(k, 0) + 1

    # ---- run the implementation, L2
    cg_out = []
    gould_passes = 0
    for c in cg_cases:
        o = run_gould_impl(c, mods) if 'M' in c else run_cg_impl(c, mods, 'cg')
        cg_out.append(o)
        if 'M' in c:
            bump('gould:%s after %s continuing passes' % (o['tag'], o['npasses'] if o['npasses'] < 4 else '>=4'))
            gould_passes += len(o['passes'])
            for b in concl_gould(c, o):
                ctx.fail('conclusion', 'solve_trust_region_minimization (preconditioned inner product, precond = M^-1): ' + b,
                         case=dict(c, kind='gould', impl=dict(o, passes=None)), concrete=True)
        bump('cg:' + o['tag'] + (':pc' if c['pc'] else ':euclid'))
        if o['iters'] == 0:
            bump('cg:zero-iteration return')
        if o['iters'] > 0:
            distinct.add(('cg', json.dumps([c['H'], c['P'], c['g'], c['tr'], c['pc'], c['mx'], c['cgtol'], c['ratio']])))
        for b in concl_cg(c, o, 'cg'):
            ctx.fail('conclusion', 'solve_trust_region_minimization: ' + b, case=dict(c, impl=o), concrete=True)
    ss_out = []
    for c in ss_cases:
        o = run_cg_impl(c, mods, 'ss')
        ss_out.append(o)
        bump('sscg:' + o['tag'])
        if o['iters'] == 0:
            bump('sscg:zero-iteration return')
        if o['iters'] > 0:
            distinct.add(('ss', json.dumps([c['H'], c['P'], c['g'], c['tr'], c['mx']])))
        for b in concl_cg(c, o, 'ss'):
            ctx.fail('conclusion', 'EquationSolverSubspace.trust_region_cg: ' + b, case=dict(c, kind='sscg', impl=o), concrete=True)
    dl_out = []
    for c in dl_cases:
        mj = jnp.array(c['M'])
        r = quiet(ES.dogleg_step, jnp.array(c['cp']), jnp.array(c['np']), c['tr'], lambda v: mj @ v)
        r = [float(v) for v in r]
        dl_out.append(r)
        distinct.add(('dl', json.dumps([c['M'], c['cp'], c['np'], c['tr']])))
        for b in concl_dogleg(c, r):
            ctx.fail('conclusion', 'dogleg_step: ' + b, case=dict(c, impl=r), concrete=True)
    te_out = []
    eigh_bad = 0
    n_plain = len(te_cases)

    def te_run(c):
        nonlocal eigh_bad
        o = run_treigen_impl(c, mods)
        te_out.append(o)
        tag = 'treigen%s:%s' % ('' if c.get('cap') is None else '(cap variant)', o['branch'] + ('/' + o['exit'] if o.get('exit') else ''))
        bump(tag)
        if c['spectrum'].startswith(('zero', 'stall')):
            bump('stream %s -> %s' % (c['spectrum'].split(':')[0], o['branch'] + ('/' + o['exit'] if o.get('exit') else '')))
        distinct.add(('te', json.dumps([c['A'], c['b'], c['Delta'], c.get('cap')])))
        for b in concl_treigen(c, o):
            ctx.fail('conclusion', 'treigen.solve (%s branch%s): %s' % (o['branch'], ', exit ' + o['exit'] if o.get('exit') else '', b),
                     case=dict(c, impl=o, branch=o['branch']), concrete=True)
        for b in eigh_contract(c, o):
            eigh_bad += 1
            ctx.fail('assumption', 'eigh contract assumed by C06_treigen_global_minimiser does not hold for what treigen.solve received: ' + b,
                     case=dict(c, impl=o, branch=o['branch']))
        return o
    for c in te_cases:
        te_run(c)
    # the exit 'range exhausted': the same source recompiled with a cap of 0..3 passes, on inputs whose unmodified run needed more passes
    rc = ctx.rng('treigen_cap')
    want = ctx.n(30, 60)
    for i in range(n_plain):
        o = te_out[i]
        if (want > 0 and o['branch'] == 'secular' and o.get('updates') and not te_cases[i].get('orth') and te_cases[i]['n'] <= 10
                and (i % 3 == 0 or te_cases[i]['spectrum'].startswith('stall'))):
            k = rc.randrange(0, min(4, o['updates'] + 1))
            te_cases.append(dict(te_cases[i], cap=k))
            te_run(te_cases[-1])
            want -= 1
    stalled = [o for o in te_out if o.get('exit') == 'stalled']
    ctx.count('treigen_stalled_exits', len(stalled))
    ctx.count('treigen_capped_exits_small_cap_variant', sum(1 for o in te_out if o.get('exit') == 'capped'))
    ctx.count('treigen_zero_hessian_returns', sum(1 for o in te_out if o['branch'] == 'zero'))
    if stalled:
        ctx.cov['treigen_stalled_radius_miss_max_in_units_of_ulp_lam_over_mu'] = max(
            abs(float(onp.linalg.norm(o['p'])) - c['Delta']) / c['Delta'] / ((stall_radius_tolerance(o) - 1e-12) / 2)
            for c, o in zip(te_cases, te_out) if o.get('exit') == 'stalled')
        ctx.cov['treigen_stalled_radius_miss_max_relative'] = max(
            abs(float(onp.linalg.norm(o['p'])) - c['Delta']) / c['Delta'] for c, o in zip(te_cases, te_out) if o.get('exit') == 'stalled')
    # generated scalar kernels on the implementation
    ks = kernel_cases(ctx)
    k_impl = []
    for (tr, zz, zd, dd, al, be, rpr) in ks:
        t1 = float(ES.project_to_boundary_with_coefs(0.0, 1.0, tr, zz, zd, dd))
        t2 = float(SS.project_to_boundary_with_coefs(0.0, 1.0, tr, zz, zd, dd))
        u = float(ES.update_step_length_squared(al, zz, zd, dd))
        a, b = ES.cg_inner_products_preconditioned(al, be, zd, dd, rpr, None, None)
        k_impl.append((t1, t2, u, float(a), float(b)))
        q = zz + 2 * t1 * zd + t1 * t1 * dd
        if not (t1 >= 0 and abs(q - tr * tr) <= 1e-9 * tr * tr + 1e-9 * (abs(zz) + abs(2 * t1 * zd) + t1 * t1 * dd)):
            ctx.fail('conclusion', 'project_to_boundary_with_coefs: tau=%r does not land on the boundary (q=%r, Delta^2=%r)' % (t1, q, tr * tr),
                     case=dict(kind='tau', args=[tr, zz, zd, dd]), concrete=True)
    total = len(cg_cases) + len(ss_cases) + len(dl_cases) + len(te_cases) + len(ks)
    ctx.count('evaluations', total)
    ctx.count('distinct_nontrivial', len(distinct))
    ctx.count('conclusion_checks', total)
    ctx.count('gould_recurrence_passes_checked', gould_passes)
    ctx.count('eigh_contract_checks', len(te_cases))
    ctx.count('eigh_contract_violations', eigh_bad)
    ctx.cov['branch_histogram'] = hist
    ctx.sample(dict(kind='cg', n=cg_cases[-1]['n'], tr=cg_cases[-1]['tr'], tag=cg_out[-1]['tag'], iters=cg_out[-1]['iters']))
    ctx.sample(dict(kind='treigen', n=te_cases[0]['n'], Delta=te_cases[0]['Delta'], branch=te_out[0]['branch']))
    if not model_ok:
        return
    # ---- L1: models at binary64 against the implementation
    mism = unstable = 0

    def l1(kind, what, case):
        nonlocal mism
        mism += 1
        if mism <= 15:
            ctx.fail('correspondence', '%s: %s' % (kind, what), case=case)

    for which, cases, outs in (('cg', cg_cases, cg_out), ('ss', ss_cases, ss_out)):
        by_shard = {}
        for i, c in enumerate(cases):
            by_shard.setdefault(shard_for(c['n']), []).append(i)
        for sh, idxs in by_shard.items():
            res = C.coq_eval(IMPORTS, [cg_expr(cases[i], which) for i in idxs], 'C06' + which, shard=sh)
            for i, rr in zip(idxs, res):
                c, o = cases[i], outs[i]
                n = c['n']
                fl = C.dec_floats(rr[2:])
                mz = fl[:n]
                stable = c.get('exact') or cg_margin(c, which) > TIE
                name = 'solve_trust_region_minimization' if which == 'cg' else 'trust_region_cg'
                agree = (TAGS[o['tag']], o['iters']) == (rr[0], rr[1]) and vec_close(mz, o['z'], 1e-6 if not c.get('exact') else 1e-15, 1e-300)[0]
                if stable and not agree and not c.get('exact'):
                    # second near-tie criterion: does the implementation itself move by more than the tolerance when its operators
                    # are perturbed entrywise by <= 2 ulp?  (long CG runs on ill-conditioned / indefinite operators amplify rounding)
                    for kk in range(3):
                        o2 = run_cg_impl(c, mods, which, onp.random.RandomState(ctx.seed % 100000 + 31 * kk + i))
                        if (o2['tag'], o2['iters']) != (o['tag'], o['iters']) or not vec_close(o2['z'], o['z'], 1e-7, 1e-300)[0]:
                            stable = False
                            break
                if (TAGS[o['tag']], o['iters']) != (rr[0], rr[1]):
                    if stable:
                        l1(name, 'model (tag %d, iters %d) but implementation (%s, %d)' % (rr[0], rr[1], o['tag'], o['iters']), dict(c, impl=o))
                    else:
                        unstable += 1
                    continue
                if not stable:
                    unstable += 1
                rt = 1e-6 if not c.get('exact') else 1e-15
                ok, err = vec_close(mz, o['z'], rt, 1e-300)
                if not ok and stable:
                    l1(name, 'step differs: rel err %.3g (tag %s, iters %d)' % (err, o['tag'], o['iters']), dict(c, impl=o, model=mz))
                if which == 'cg':
                    ok, err = vec_close(fl[n:], o['cp'], 1e-12, 1e-300)
                    if not ok:
                        l1(name, 'Cauchy direction differs: rel err %.3g' % err, dict(c, impl=o))
    by_shard = {}
    for i, c in enumerate(dl_cases):
        by_shard.setdefault(shard_for(c['n']), []).append(i)
    for sh, idxs in by_shard.items():
        res = C.coq_eval(IMPORTS, [dogleg_expr(dl_cases[i]) for i in idxs], 'C06dl', shard=sh)
        for i, rr in zip(idxs, res):
            c = dl_cases[i]
            bump('dogleg:branch%d' % rr[0])
            m, cp, np_ = onp.array(c['M']), onp.array(c['cp']), onp.array(c['np'])
            cc, nn, tt = float(cp @ m @ cp), float(np_ @ m @ np_), c['tr'] ** 2
            near = min(abs(cc - tt) / (cc + tt), abs(cc - nn) / (cc + nn + 1e-300), abs(nn - tt) / (nn + tt)) < TIE
            ok, err = vec_close(C.dec_floats(rr[1:]), dl_out[i], 1e-9, 1e-300)
            if not ok:
                if near:
                    unstable += 1
                else:
                    l1('dogleg_step', 'result differs: rel err %.3g (model branch %d)' % (err, rr[0]), dict(c, impl=dl_out[i]))
    by_shard = {}
    for i, c in enumerate(te_cases):
        if te_out[i]['p'] is not None:
            by_shard.setdefault(shard_for(c['n']), []).append(i)
    exit_same = exit_diff = 0
    for sh, idxs in by_shard.items():
        res = C.coq_eval(IMPORTS, [treigen_expr(te_cases[i], te_out[i], cap if te_cases[i].get('cap') is None else te_cases[i]['cap']) for i in idxs],
                         'C06te', shard=sh)
        for i, rr in zip(idxs, res):
            c, o = te_cases[i], te_out[i]
            mbr, mex = BR_CODE.get(rr[0], ('code %d' % rr[0], None))
            mupd, mp = rr[1], C.dec_floats(rr[2:])
            sig, v, b = onp.array(o['sig']), onp.array(o['V']), onp.array(c['b'])
            bv = v.T @ b
            with onp.errstate(all='ignore'):
                eps = 1e-12 * onp.mean(onp.abs(sig))
                lam = -sig[0] + eps if sig[0] < eps else 0.0
                n1 = onp.linalg.norm(bv / sig)
                n2 = onp.linalg.norm(bv / (sig + lam))
                near = (abs(n1 - c['Delta']) / (n1 + c['Delta']) < 1e-7 or abs(n2 - c['Delta']) / (n2 + c['Delta']) < 1e-7 or abs(sig[0]) < 2 * eps)
            if mbr != o['branch']:
                if near and 'zero' not in (mbr, o['branch']):
                    unstable += 1
                else:
                    l1('treigen.solve', 'model branch %s but implementation branch %s' % (mbr, o['branch']), dict(c, impl=o))
                continue
            # secular loop: exit taken and number of updates of lam.  sens = ulp(lam)/(sig_0+lam) is what one ulp of lam does to bError:
            # where it is not negligible against the 1e-9 test (the stall regime) the last bit of the Newton correction decides between
            # `lamNew == lam`, one more update and the tolerance exit, and the sum-order of the dot products may differ between XLA and the model
            sens = 0.0
            if o['branch'] == 'secular' and o.get('exit') is not None:
                sens = ulp(max(abs(o['mu'] - sig[0]), abs(sig[0]))) / o['mu'] if o['mu'] > 0 else math.inf
                if (mex, mupd) == (o['exit'], o['updates']):
                    exit_same += 1
                else:
                    exit_diff += 1
                    touchy = sens > 1e-12 or near or abs(abs(o['bError']) - 1e-9) < 1e-14 + 4 * sens
                    if not touchy and sig[0] < eps:
                        # the start lam = -sig_0 + eps puts the weight 1/eps^2 = 1e24/mean|sig|^2 on the components of V^T b in the lowest
                        # eigenspace: when b is (numerically) orthogonal to it those components are rounding noise of the product V^T b,
                        # the first iterates depend on that noise, and so can the pass at which 1e-9 is reached
                        low = onp.abs(sig - sig[0]) <= 1e-8 * max(float(onp.abs(sig).max()), 1e-300)
                        touchy = bool(onp.any(onp.abs(bv[low]) <= 1e-10 * float(onp.linalg.norm(b))))
                    if not touchy:
                        # last resort: does the implementation itself change its exit / pass count when b is perturbed entrywise by <= 2 ulp?
                        for kk in range(4):
                            rs = onp.random.RandomState(ctx.seed % 100000 + 13 * kk + i)
                            o2 = run_treigen_impl(dict(c, b=(b * (1.0 + rs.uniform(-1, 1, size=b.shape) * 4.4e-16)).tolist()), mods)
                            if (o2.get('exit'), o2.get('updates')) != (o['exit'], o['updates']):
                                touchy = True
                                break
                    if not touchy or abs(mupd - o['updates']) > 2:
                        l1('treigen.solve', 'secular loop: model leaves by %s after %d updates, implementation by %s after %d (sensitivity %.3g)'
                           % (mex, mupd, o['exit'], o['updates'], sens), dict(c, impl=o))
                        continue
                    unstable += 1
            # the secular iteration stops at relative boundary error 1e-9 and divides by sig+lam: compare at a tolerance reflecting that
            # (plus 8 ulp(lam)/(sig_0+lam) in the stall regime);
            # the hard-case branch divides the rounding noise of bv[0] (~1e-16 |b|) by eps = 1e-12*mean|sig|: compare accordingly
            rt, at = 1e-6 + 8 * sens, 1e-300
            if o['branch'] == 'hard':
                rt, at = 1e-3, 1e-3 * float(onp.linalg.norm(b)) / max(float(onp.mean(onp.abs(sig))), 1e-300)
            if o['branch'] == 'zero':
                rt, at = 1e-14, 0.0
            ok, err = vec_close(mp, o['p'], rt, at)
            if not ok:
                # ill-conditioned secular / hard cases: accept when both are within 1e-6 in model value and radius (the L2 quantities)
                pm = onp.array(mp)
                em, ei = energy(c['A'], c['b'], pm), energy(c['A'], c['b'], o['p'])
                sc = abs(ei) + onp.linalg.norm(b) * c['Delta'] + 1e-300
                moved = False
                if o['branch'] == 'secular' and o.get('exit') == 'capped':
                    # an UNCONVERGED iterate (small-cap variant) can depend on the rounding noise of V^T b (b nearly orthogonal to the lowest
                    # eigenvector): does the implementation itself move beyond the tolerance when b is perturbed entrywise by <= 2 ulp?
                    for kk in range(3):
                        rs = onp.random.RandomState(ctx.seed % 100000 + 17 * kk + i)
                        o2 = run_treigen_impl(dict(c, b=(b * (1.0 + rs.uniform(-1, 1, size=b.shape) * 4.4e-16)).tolist()), mods)
                        if o2['p'] is None or (o2.get('exit'), o2.get('updates')) != (o['exit'], o['updates']) or not vec_close(o2['p'], o['p'], rt, at)[0]:
                            moved = True
                            break
                if moved or (o['branch'] != 'zero' and (near or (abs(em - ei) <= 1e-6 * sc and abs(onp.linalg.norm(pm) - onp.linalg.norm(o['p'])) <= 1e-6 * c['Delta']))):
                    unstable += 1
                else:
                    l1('treigen.solve', 'result differs: rel err %.3g (branch %s)' % (err, o['branch']), dict(c, impl=o, model=pm.tolist()))
    ctx.count('treigen_secular_exit_and_pass_count_equal', exit_same)
    ctx.count('treigen_secular_exit_or_pass_count_differs_noise_dependent', exit_diff)
    # generated kernels
    ex = []
    for (tr, zz, zd, dd, al, be, rpr) in ks:
        a4 = '%s %s %s %s' % (C.cf(tr), C.cf(zz), C.cf(zd), C.cf(dd))
        ex.append('(let \'(a, b) := @cg_inner_products_preconditioned float NumF %s %s %s %s %s nzero nzero in '
                  'fencs [@tau_coefs float NumF %s; @tau_coefs_ss float NumF %s; @update_step_length_squared float NumF %s %s %s %s; a; b])'
                  % (C.cf(al), C.cf(be), C.cf(zd), C.cf(dd), C.cf(rpr), a4, a4, C.cf(al), C.cf(zz), C.cf(zd), C.cf(dd)))
    res = C.coq_eval(IMPORTS, ex, 'C06k')
    for k, rr, want in zip(ks, res, k_impl):
        got = C.dec_floats(rr)
        for nm, gv, wv in zip(('tau', 'tau(subspace)', 'update_step_length_squared', 'zd recurrence', 'dd recurrence'), got, want):
            sc = max(abs(gv), abs(wv), abs(k[1]), 1e-300) if nm == 'update_step_length_squared' else max(abs(gv), abs(wv))
            if not abs(gv - wv) <= 1e-9 * sc + 1e-300:
                l1('kernel ' + nm, 'generated kernel gives %r, implementation %r at %r' % (gv, wv, k), dict(kind='kernel', args=list(k)))
    ctx.count('model_vs_impl_comparisons', total)
    ctx.count('model_vs_impl_mismatches', mism)
    ctx.count('unstable_near_tie_cases', unstable)
    ctx.cov['branch_histogram'] = hist


def search(ctx, reasons):
    import copy
    c2 = copy.copy(ctx)
    c2.tier = 'thorough'
    c2.failures, c2.counts, c2.cov, c2.samples = [], {}, {}, []
    c2.seed = ctx.seed + 1
    correspondence(c2, False)
    f = known_filter(c2.failures)
    return f[0] if f else None


def known_filter(failures):
    findings = [f for f in C.load_known_findings() if f['property'] == ID and f['status'] == 'open']
    return [fl for fl in failures if fl.get('concrete') and not any(matches_finding(fl, f) for f in findings)]


def f2_witness_case():
    # sigma = (-1, 2, 3) in a fixed non-symmetric orthogonal eigenbasis, b orthogonal to the lowest eigenvector, Delta = 2
    q, _ = onp.linalg.qr(onp.array([[2.0, -1.0, 0.5], [1.0, 3.0, -2.0], [0.5, 1.0, 4.0]]))
    a = (q * onp.array([-1.0, 2.0, 3.0])) @ q.T
    a = 0.5 * (a + a.T)
    b = q[:, 1] * 1.0 + q[:, 2] * 0.5
    return dict(kind='treigen', n=3, A=a.tolist(), b=b.tolist(), Delta=2.0)


def finding_fails(ctx, f):
    """replay of a finding's witness on the implementation (every call of treigen.solve under TREIGEN_TIME_LIMIT; F2c's witness did not return
    before repo commit 545a5c4).  All four findings are fixed: any complaint of the conclusion predicate on the witness is a recurrence."""
    mods = _mods()
    c = f['witness'].get('case') or f2_witness_case()
    o = run_treigen_impl(c, mods)
    bad = concl_treigen(c, o)
    if f.get('id') == 'F2':
        return o['branch'] == 'hard' and any('not a minimiser' in b for b in bad)
    if f.get('id') == 'F2d':
        return bool(bad)
    if f.get('id') == 'F2b':
        return o['branch'] != 'zero' or bool(bad)
    if f.get('id') == 'F2c':
        return o['p'] is None or bool(bad)
    return False


def matches_finding(fl, f):
    """signatures of OPEN findings only (none at present: F2, F2d, F2b, F2c are fixed, a recurrence is a violation).
    F2 (kept for reference) exactly: treigen.solve took the hard-case branch and the only complaint is non-optimality of that step."""
    c = fl.get('case') or {}
    if fl.get('kind') != 'conclusion' or c.get('kind') != 'treigen' or f.get('status') != 'open':
        return False
    if f.get('id') == 'F2':
        return c.get('branch') == 'hard' and 'not a minimiser' in fl.get('what', '')
    return False


def replay(ctx, path):
    rep = json.load(open(path))
    case = rep.get('failing_input')
    print('replay of', path)
    print(json.dumps(rep.get('reasons'), indent=1)[:2500])
    if not case:
        print('no concrete failing input recorded; broken obligations:', rep.get('broken'))
        return 1
    mods = _mods()
    jnp, ES, SS, treigen = mods
    k = case.get('kind')
    if k == 'cg':
        bad = concl_cg(case, run_cg_impl(case, mods, 'cg'), 'cg')
    elif k == 'sscg':
        bad = concl_cg(case, run_cg_impl(case, mods, 'ss'), 'ss')
    elif k == 'gould':
        o = run_gould_impl(case, mods)
        bad = concl_gould(case, o) + concl_cg(case, o, 'cg')
    elif k == 'dogleg':
        mj = jnp.array(case['M'])
        r = quiet(ES.dogleg_step, jnp.array(case['cp']), jnp.array(case['np']), case['tr'], lambda v: mj @ v)
        bad = concl_dogleg(case, [float(v) for v in r])
    elif k == 'treigen':
        o = run_treigen_impl(case, mods)
        bad = concl_treigen(case, o)
    elif k == 'tau':
        tr, zz, zd, dd = case['args']
        t1 = float(ES.project_to_boundary_with_coefs(0.0, 1.0, tr, zz, zd, dd))
        q = zz + 2 * t1 * zd + t1 * t1 * dd
        bad = [] if (t1 >= 0 and abs(q - tr * tr) <= 1e-9 * tr * tr + 1e-9 * (abs(zz) + abs(2 * t1 * zd) + t1 * t1 * dd)) else ['tau off the boundary']
    else:
        print('case kind', k, 'is replayed by re-running the check')
        return 1
    print('implementation now:', bad or 'conclusion holds')
    return 1 if bad else 0
