"""C01 -- trust_region_minimize never goes uphill on accepted iterates and reports convergence honestly."""
import contextlib
import io
import json
import math
import signal

import numpy as onp

from vlib import common as C

ID = 'C01'
READY = True
LEVEL_TEXT = ('Partial. Coq theorems over R about the hand model of trust_region_minimize for ARBITRARY oracle functions (no smoothness/convexity/consistency): '
              'accepted => measured objective change <= 0 (sign analysis of rho in both re-signing branches, IEEE-like zero denominator), '
              'objective values along Accept events are non-increasing and each equals value(point) (default mode, eta1 >= 0); '
              'flag=True only at a ConvergedAt event (or the initial test) at the returned point with |grad|^2 < tol^2 (both modes); '
              'flag=False => returned point is the current (last accepted or start) iterate and the trace ends with that exit; '
              'inner loop leaves within k+1 passes when trSize*t1^k < min_tr_size (0<t1<1, 0<min_tr_size, eta1<=eta2). '
              'Structural tie (round 3): the syntax tree of trust_region_minimize / is_converged / is_on_boundary is re-extracted from the source on every run (gen/CFG_TR.v) and given a meaning by an interpreter of the Python subset (model/M_C01_CFG.v); '
              'theorem C01_inner_loop_is_the_extracted_source: for every Num T, all oracles, settings, local-variable values and pass budgets, running the extracted `while not happyAboutTrSize` loop IS the hand model inner loop '
              '(same exit, returned point, flag, callback/update_precond sequence, next state): order convergence-test/acceptance-test, rho and its re-signing, `not rho >= eta2`, radius updates, willAccept, preconditioner refresh, two-stage too-small exit. '
              'Second pass: C01_outer_loop_is_the_extracted_source: for every Num T, all oracles, settings, local-variable values, iteration counts and while budgets, n passes of the extracted `for` body (Cauchy-point block, CG call / boundary short-cut, cumulativeCgIters, the while) followed by the extracted max-iterations exit ARE the hand model outer n (propose + inner, then EMaxIters), by induction. '
              'C01_extracted_solver_is_the_hand_model: the WHOLE extracted trust_region_minimize called with a callback (incl. the initial convergence test), interpreted, = the hand model (point, flag, callback/update_precond sequence), all inputs. C01_driver_success_means_small_gradient_under_requested_parameters_extracted_solver: the driver success theorem with the interpreted extracted solver (solver_tree) as callee, with a callback. The callback=None variant of the extracted solver is compared only by execution. '
              'Finding F1 (converged exit can go uphill) proved for the binary64 instance of the model by vm_compute and replayed on the code. '
              'Driver (round 4): model/M_C01_Drv.v interprets the extracted syntax tree of nonlinear_equation_solve with a meaning for the store objective.p = p (oracles are functions of the parameter current at call time, any parameter type; update_precond remembers its build-time parameter; warm start = arbitrary read-only oracle; Python argument binding incl. the default solver_algorithm read off the tree). '
              'Theorems, for every number type / parameter type / warm-start oracle / scaling / solver / callback-or-None / useWarmStart / updatePrecond / entry state: C01_driver_is_the_extracted_source (interpreting the extracted tree = hand-written closed form: result, objective.p and preconditioner state afterwards, whole effect sequence), '
              'C01_driver_installs_requested_parameters_on_every_path (on every return, success or failure flag, objective.p = requested p; only update_precond under the OLD p precedes the store; then the optional update_precond under the new p and the ONE solver call made under p; returned flag/point are that call\'s), '
              'C01_driver_success_means_small_gradient_under_requested_parameters (over R, solver := hand model of trust_region_minimize, arbitrary oracles: success => |grad_p(xBar)|^2 < tol^2 at the solver\'s point, x = invScaling*xBar). '
              'NaN rejection (round 4): C01_nan_change_is_rejected_and_shrinks (any number type whose isnan obeys the IEEE laws for -, unary -, / and the comparisons: NaN measured change => not accepted and radius * t1, all re-signing / zero-denominator branches), the laws proved for binary64 from Coq\'s FloatAxioms, hence '
              'C01_nan_change_is_rejected_and_shrinks_binary64 and C01_nan_valued_point_is_never_accepted_binary64 (default mode, arbitrary float oracles: no Accept event of any run carries a NaN objective value). '
              'Not proved (tested by L2 only): success on strictly convex problems (dedicated stream: default settings, 1..40 unknowns, condition numbers 1..1e3, three preconditioners, against an independent Newton reference); the rest of finiteness (no overflow in the arithmetic that forms the trial point, +inf values, incremental mode, NaN value at the converged exit = F1 mechanism); the +0.0 model-objective corner; '
              'the driver\'s success theorem with the solver\'s OWN extracted tree as callee (proved in the second pass for calls with a callback; the callback=None variant is still only executed; both solvers are executed against each other and the implementation, stream driver_model); exceptions raised by the solver / warm start.')
TECHNIQUE = 'Coq proof (Reals, lra/nra) on a hand-written state-machine model; vm_compute/PrimFloat correspondence on seeded polynomial objectives'
GEN = ['EquationSolver', 'CFG_TR']
TARGETS = ['model/M_C06_Vec.vo', 'model/M_C06_CG.vo', 'model/M_C01_TR.vo', 'model/M_C01_CFG.vo', 'gen/CFG_TR.vo', 'proofs/L_C06_Vec.vo', 'proofs/L_C01.vo', 'proofs/L_C01_F1.vo', 'proofs/L_C01_CFG.vo', 'model/M_C01_Drv.vo', 'proofs/L_C01_Drv.vo', 'proofs/L_C01_NaN.vo', 'proofs/L_C01_Outer.vo']
COQ_FILES = ['base/Num.v', 'model/M_C06_Vec.v', 'model/M_C06_CG.v', 'model/M_C01_TR.v', 'proofs/L_C06_Vec.v', 'proofs/L_C01.v', 'proofs/L_C01_F1.v', 'model/M_C01_CFG.v', 'proofs/L_C01_CFG.v', 'model/M_C01_Drv.v', 'proofs/L_C01_Drv.v', 'proofs/L_C01_NaN.v', 'proofs/L_C01_Outer.v', 'props/P_C01.v']
TRUSTED = ['Coq 8.16.1 kernel + vm_compute (no native_compute)',
           'hand model model/M_C01_TR.v (uses the C06 CG/dogleg model and the generated scalar kernels): its inner loop is proved equal to the interpreted syntax tree of the source; the rest (initial test, Cauchy block, outer loop) is tied by the correspondence: event kinds/order, flags, counts exact; points within 1e-7 relative',
           'tools/vlib/extract_tr.py (purely syntactic AST -> IR translation, fail closed; drops only docstrings, pass and print / print_banner / print_min_banner statements) and the interpreter model/M_C01_CFG.v as the meaning of the Python subset (late-binding closures, float quotients compared IEEE-like, dogleg_step / solve_trust_region_minimization / numpy norm, sqrt as primitives = the C06 models)',
           'harness: duck-typed polynomial objectives mirrored in Gallina (Section Poly), recording callback / update_precond, float<->(mantissa,exponent) exchange',
           'near-tie rule: a mismatch counts as unstable only if (a) the IMPLEMENTATION itself changes its discrete trace / result when the arguments of its oracles are perturbed by <= 2 ulp (8 trials), (c) some gradient the solver evaluated had |g|^2 within 1e-6 relative of tol^2 (the convergence test is a near tie), or (b) the run reached objective differences between reported iterates of <= 64 ulp (rho is then cancellation noise)',
           'theorems are over exact reals (zero denominators treated as +0); binary64 rounding is covered only by the correspondence (exception: the NaN-rejection theorems, which are about binary64 via Coq FloatAxioms: sub_spec, opp_spec, div_spec, eqb_spec, ltb_spec, leb_spec)',
           'driver model model/M_C01_Drv.v as the meaning of the driver\'s Python (attribute store objective.p, Python call binding, objective oracles read objective.p at call time, preconditioner state = (build-time parameter, point)); tied by the stream driver_model: duck-typed objectives f(x,p) = poly(x) - p.x recording every store of p, the parameter current at every update_precond and gradient call; scalar / vector power-of-two scalings; real scipy warm start (its result fed to the model) or a stand-in that depends on every argument the oracle can read; all 8 combinations of useWarmStart / updatePrecond / callback',
           'WarmStart.warm_start_increment only reads the objective: checked syntactically on WarmStart.py on every run (no store / rebinding, only jacobian_p_vec, jacobian_p2_vec, hessian_vec, apply_precond, p are touched)']
ASSUMPTIONS = ['none on the oracles (value, gradient, hessian_vec, preconditioner are arbitrary functions)', '0 <= eta1 for the descent clause; use_incremental_objective=False for the descent clause',
               '0 < t1 < 1, 0 < min_tr_size, eta1 <= eta2 for inner-loop termination', 'exact real arithmetic in theorems',
               'driver theorems: none on the oracles, the warm start (any function of old objective.p, preconditioner state, x, p), the scaling or the solver; exceptions not modelled; callback is a callable or None',
               'NaN theorems: use_incremental_objective=False for the trace statement; generic statement has the IEEE NaN laws as premises (proved for binary64)']
RULE = ('objectives f(x) = x.Ax/2 + b.x + sum c_i x_i^3 + sum d_i x_i^4 in 1..6 variables with dyadic coefficients (convex, indefinite, unbounded-below variants), optionally an inconsistent hessian_vec (A+E), '
        'identity / diagonal-at-update / stale preconditioners, settings drawn to force every exit (max_trust_iters 1..3 or default, tiny tr_size, huge min_tr_size, eta1 in {0,1e-10,0.3}, both inner-product modes, incremental mode); '
        'stream nan-hole / inf-hole: the same family with the objective VALUE replaced by NaN / +inf on a half space 1/16..1 away from the start in the first coordinate (gradient finite), default mode; '
        'stream driver_model: the same family with a parameter p (f - p.x), old and requested p, scaling, useWarmStart / updatePrecond / callback drawn at random; '
        'a case is non-trivial when the solver performs at least one inner iteration; distinct = distinct (objective, start, settings) tuples')
IMPORTS = ['From OV.model Require Import M_C06_Vec M_C06_CG M_C01_TR M_C01_CFG M_C01_Drv.', 'From OV.gen Require Import CFG_TR.']
PREAMBLE = '''
Definition enc_ev (e : event float) : list Z :=
  match e with
  | EConvergedInit x => 0 :: fencs x | EAccept x o => 1 :: fencs x ++ fenc o | EConverged y => 2 :: fencs y
  | ETooSmall x => 3 :: fencs x | EMaxIters x => 4 :: fencs x | EPrecond x => 5 :: fencs x | EOutOfFuel => [6] end.
Definition enc_run (r : list float * bool * list (event float)) : list Z :=
  let '(x, f, tr) := r in benc f ++ fencs x ++ flat_map enc_ev tr.
Definition run_poly (A E : list (list float)) (b c d : list float) (pk : nat) (x0 : list float) (S : settings float) : list Z :=
  enc_run (@trust_region_minimize float NumF (pvalue A b c d) (pgrad A b c d) (phessvec A E c d) (pprecond A c d pk x0) (pmult A c d pk x0) S 80 x0 x0).
(* the syntax tree of trust_region_minimize extracted from the source (gen/CFG_TR.v), run by the interpreter of model/M_C01_CFG.v *)
Definition enc_rawev (e : @rawev float) : list Z := match e with RCallback x => 1 :: fencs x | RPrecond x => 5 :: fencs x end.
Definition enc_res (r : option (list float * bool * list (@rawev float))) : list Z :=
  match r with None => [(-1)%Z] | Some (x, f, tr) => benc f ++ fencs x ++ flat_map enc_rawev tr end.
Definition run_cfg (A E : list (list float)) (b c d : list float) (pk : nat) (x0 : list float) (S : settings float) (chk : bool) : list Z :=
  enc_res (result_of (@run float NumF (pvalue A b c d) (pgrad A b c d) (phessvec A E c d) (pprecond A c d pk x0) (pmult A c d pk x0) S chk 80
                        cfg_functions cfg_string_constants 200 cfg_trust_region_minimize [VObj; VV x0; VSet; VCb] x0)).
(* objectives with a hole: value = NaN (hm = 1) or +inf (hm = 2) where the first coordinate is beyond h (side: above / below); gradient unchanged *)
Definition hole_value (hm : nat) (side : bool) (h : float) (v : list float -> float) (x : list float) : float :=
  match hm with
  | O => v x
  | _ => let x1 := hd (F 0 0) x in
         if (if side then @nltb float NumF h x1 else @nltb float NumF x1 h)
         then (match hm with 1%nat => PrimFloat.nan | _ => PrimFloat.infinity end) else v x
  end.
Definition run_poly_h (A E : list (list float)) (b c d : list float) (pk : nat) (x0 : list float) (S : settings float) (hm : nat) (side : bool) (h : float) : list Z :=
  enc_run (@trust_region_minimize float NumF (hole_value hm side h (pvalue A b c d)) (pgrad A b c d) (phessvec A E c d) (pprecond A c d pk x0) (pmult A c d pk x0) S 80 x0 x0).
Definition run_cfg_h (A E : list (list float)) (b c d : list float) (pk : nat) (x0 : list float) (S : settings float) (chk : bool) (hm : nat) (side : bool) (h : float) : list Z :=
  enc_res (result_of (@run float NumF (hole_value hm side h (pvalue A b c d)) (pgrad A b c d) (phessvec A E c d) (pprecond A c d pk x0) (pmult A c d pk x0) S chk 80
                        cfg_functions cfg_string_constants 200 cfg_trust_region_minimize [VObj; VV x0; VSet; VCb] x0)).
(* the driver: the syntax tree of nonlinear_equation_solve extracted from the source, run by the interpreter of model/M_C01_Drv.v; objective
   f(x, p) = poly(x) - p.x (parameter type: vectors), solver = the interpreted tree of trust_region_minimize or the hand model *)
Definition enc_devent (e : @devent float (list float)) : list Z :=
  match e with
  | DUpdatePrecond par x => 7 :: fencs par ++ fencs x
  | DSetP p => 8 :: fencs p
  | DSolve g par pcp xp args x fl ev => 9 :: fencs par ++ flat_map enc_rawev ev
  end.
Definition enc_dres (r : option (list float * bool * list float * list float * list float * list (@devent float (list float)))) : list Z :=
  match r with None => [(-1)%Z] | Some (x, f, par, pcp, xp, tr) => benc f ++ fencs x ++ fencs par ++ flat_map enc_devent tr end.
Definition run_drv (tree : bool) (A E : list (list float)) (b c d : list float) (pk : nat) (x0 : list float) (S : settings float) (chk : bool)
    (sc isc : scal float) (standin : bool) (dx pold pnew : list float) (has_cb uw up : bool) : list Z :=
  let value := fun p : list float => pvalue A (vsub b p) c d in
  let grad := fun p : list float => pgrad A (vsub b p) c d in
  let hv := fun _ : list float => phessvec A E c d in
  let pc := fun _ _ : list float => pprecond A c d pk x0 in
  let pm := fun _ _ : list float => pmult A c d pk x0 in
  let warm := fun (par pcp : list float) (xp x : list float) (pn : list float) =>
    if standin then vadd (vscale (F 1 (-2)) (vsub par pn)) (vadd (vscale (F 1 (-3)) x) (vscale (F 1 (-4)) (pprecond A c d pk x0 xp x))) else dx in
  let solver := if tree then solver_tree value grad hv pc pm S chk 80 cfg_functions cfg_string_constants 200
                else solver_hand value grad hv pc pm S chk 80 in
  enc_dres (dresult_of (drun_default warm sc isc solver cfg_functions 40 cfg_nonlinear_equation_solve x0 pnew (if has_cb then DCb else DNone) uw up pold pold x0)).
'''


SOLVE_LIMIT_S = 25


class Timeout(Exception):
    pass


def _alarm(signum, frame):
    raise Timeout()


def _mods():
    from vlib import shim
    shim.install()
    import jax.numpy as jnp
    import optimism  # noqa: F401
    from optimism import EquationSolver as ES
    return jnp, ES


def quiet(f, *a, **k):
    with contextlib.redirect_stdout(io.StringIO()):
        return f(*a, **k)


def cvec(v):
    return C.clist([C.cf(float(x)) for x in v])


def cmat(m):
    return C.clist([cvec(r) for r in m])


class PolyObjective:
    """duck-typed objective: f(x) = x.Ax/2 + b.x + c.x^3 + d.x^4; same operation order as Section Poly of model/M_C01_TR.v"""

    def __init__(self, jnp, case, x0=None, noise=None):
        self.jnp = jnp
        self.noise = noise            # None, or a numpy RandomState: arguments of the oracles are perturbed by <= 2 ulp (near-tie detection only)
        self.A, self.E = jnp.array(case['A']), jnp.array(case['E'])
        self.b, self.c, self.d = jnp.array(case['b']), jnp.array(case['c']), jnp.array(case['d'])
        self.pk = case['pk']
        self.x0 = jnp.array(case['x0'] if x0 is None else x0)
        self.xp = self.x0
        self.log = []
        self.gradient_and_tangent = None
        self.tol = None               # set by run_impl: the convergence test is gg < tol**2 on every gradient the solver evaluates
        self.conv_margin = math.inf   # min over gradient evaluations of |gg - tol^2| / tol^2 (near-tie detection of the convergence test)
        self.stability_checks = 0
        self.hole = case.get('hole')  # None or dict(mode=1 (NaN) | 2 (+inf), side=bool, h=float): value is NaN / +inf beyond h in the first coordinate
        self.hole_evals = 0

    def _n(self, x):
        if self.noise is None:
            return x
        return x * self.jnp.array(1.0 + self.noise.uniform(-1, 1, size=x.shape[0]) * 4.4e-16)

    def value(self, x):
        if self.hole is not None:
            x1, h = float(x[0]), self.hole['h']
            if (h < x1) if self.hole['side'] else (x1 < h):
                self.hole_evals += 1
                return self.jnp.array(math.nan if self.hole['mode'] == 1 else math.inf)
        x = self._n(x)
        return 0.5 * (x @ (self.A @ x)) + self.b @ x + self.c @ (x * x * x) + self.d @ (x * x * x * x)

    def gradient(self, x):
        x = self._n(x)
        g = self.A @ x + self.b + 3 * (self.c * (x * x)) + 4 * (self.d * (x * x * x))
        if self.tol is not None:
            gg, t2 = float(g @ g), self.tol ** 2
            if gg == gg:
                self.conv_margin = min(self.conv_margin, abs(gg - t2) / t2)
        return g

    def check_stability(self, x):
        self.stability_checks += 1

    def _extra(self, x):
        return 6 * (self.c * x) + 12 * (self.d * (x * x))

    def hessian_vec(self, x, v):
        x, v = self._n(x), self._n(v)
        return self.A @ v + self.E @ v + self._extra(x) * v

    def _pdiag(self, xp):
        return self.jnp.maximum(self.jnp.abs(self.jnp.diag(self.A) + self._extra(xp)), 0.25)

    def apply_precond(self, v):
        return v if self.pk == 0 else v / self._pdiag(self.xp if self.pk in (1, 3) else self.x0)

    def multiply_by_approx_hessian(self, v):
        # pk == 3: deliberately NOT the inverse of apply_precond (the theorems hold for arbitrary oracles)
        return v if self.pk in (0, 3) else v * self._pdiag(self.xp if self.pk == 1 else self.x0)

    def update_precond(self, x):
        self.log.append(('pc', [float(t) for t in x]))
        self.xp = x


def dy(r, lo, hi, q=4):
    return r.randrange(lo * q, hi * q + 1) / q


def gen_cases(ctx, count, stream='poly'):
    r = ctx.rng(stream)
    out = []
    for _ in range(count):
        n = r.randrange(1, 7)
        kind = r.choice(['convex', 'convex', 'indefinite', 'quartic', 'wild'])
        a = [[0.0] * n for _ in range(n)]
        for i in range(n):
            for j in range(i + 1):
                v = dy(r, -1, 1) if i != j else (dy(r, 1, 4) if kind in ('convex', 'quartic') else dy(r, -3, 3))
                a[i][j] = a[j][i] = v
        if kind in ('convex', 'quartic'):
            for i in range(n):
                a[i][i] += sum(abs(a[i][j]) for j in range(n) if j != i)
        b = [dy(r, -3, 3) for _ in range(n)]
        c = [0.0] * n if kind == 'convex' else [dy(r, -2, 2) if r.random() < 0.6 else 0.0 for _ in range(n)]
        if kind == 'convex':
            d = [0.0] * n if r.random() < 0.5 else [dy(r, 0, 2) for _ in range(n)]
        elif kind == 'wild':
            d = [dy(r, -2, 2) for _ in range(n)]
        else:
            d = [dy(r, 0, 3) for _ in range(n)]
        e = [[0.0] * n for _ in range(n)]
        if r.random() < 0.25:
            for i in range(n):
                for j in range(i + 1):
                    e[i][j] = e[j][i] = dy(r, -1, 1, 8)
        x0 = [dy(r, -2, 2) for _ in range(n)]
        if r.random() < 0.1:
            x0 = [0.0] * n
        st = dict(t1=0.25, t2=1.75, eta1=r.choice([1e-10, 1e-10, 0.0, 0.3]), eta2=r.choice([0.1, 0.1, 0.3]), eta3=0.5,
                  max_trust_iters=r.choice([1, 2, 3, 8, 25, 25]), tol=r.choice([1e-8, 1e-8, 1e-4, 1e-2]),
                  max_cg_iters=r.choice([50, 50, 1, 2]), max_cumulative_cg_iters=r.choice([1000, 1000, 3]),
                  cg_inexact_solve_ratio=1e-5, tr_size=r.choice([2.0, 2.0, 0.5, 1e-6, 100.0]),
                  min_tr_size=r.choice([1e-8, 1e-8, 0.3, 1e-3]),
                  use_preconditioned_inner_product_for_cg=r.random() < 0.4, use_incremental_objective=r.random() < 0.15,
                  check_stability=r.random() < 0.15)
        st['eta2'] = max(st['eta2'], st['eta1'])
        out.append(dict(n=n, kind=kind, A=a, E=e, b=b, c=c, d=d, pk=r.choice([0, 0, 1, 1, 2]), x0=x0, st=st))
    return out


def directed_cases(ctx, count):
    """stream that reaches modelObjective > 0 (the re-signing of rho): non-convex objectives, preconditioned inner product,
    stale / mismatched preconditioners and a NON-SYMMETRIC inconsistent hessian_vec (admissible: the theorems hold for arbitrary oracles)"""
    r = ctx.rng('directed')
    out = []
    for c in gen_cases(ctx, 4 * count, 'directed-base'):
        if c['kind'] not in ('indefinite', 'wild', 'quartic') or len(out) >= count:
            continue
        n = c['n']
        c['E'] = [[dy(r, -4, 4) for _ in range(n)] for _ in range(n)]
        c['pk'] = r.choice([1, 2, 3, 3])
        c['st'].update(use_preconditioned_inner_product_for_cg=True, use_incremental_objective=False, max_trust_iters=8,
                       eta1=r.choice([1e-10, 0.0]), eta2=0.1)
        c['kind'] = 'directed-' + c['kind']
        out.append(c)
    return out


def too_small_cases(ctx, count):
    """stream that reaches the 'trust region is still too small' exit: a model Hessian of the wrong sign (E = -3A) makes steps be rejected, with a large
    min_tr_size the radius falls below it right after the preconditioner retry"""
    r = ctx.rng('toosmall')
    out = []
    for c in gen_cases(ctx, 6 * count, 'toosmall-base'):
        if c['kind'] == 'convex' or len(out) >= count:
            continue
        n = c['n']
        c['E'] = [[-3.0 * c['A'][i][j] for j in range(n)] for i in range(n)]
        c['st'].update(min_tr_size=0.3, tr_size=r.choice([0.5, 2.0]), max_trust_iters=25, eta1=1e-10, eta2=0.1, use_incremental_objective=False)
        c['kind'] = 'toosmall-' + c['kind']
        out.append(c)
    return out


def hole_cases(ctx, count):
    """stream for the NaN-rejection theorems: the objective VALUE is NaN (or +inf) on a half space next to the start point (gradient and
    Hessian stay finite), default mode: the solver must reject every trial point in the hole, shrink and carry on"""
    r = ctx.rng('hole')
    out = []
    for c in gen_cases(ctx, count, 'hole-base'):
        side = r.random() < 0.5
        delta = r.choice([0.0625, 0.125, 0.25, 0.5, 1.0])
        c['hole'] = dict(mode=r.choice([1, 1, 2]), side=side, h=c['x0'][0] + (delta if side else -delta))
        c['st'].update(use_incremental_objective=False, max_trust_iters=r.choice([3, 8, 25]))
        c['kind'] = 'nan-hole' if c['hole']['mode'] == 1 else 'inf-hole'
        out.append(c)
    return out


def exact_switch_cases():
    """F1's polynomial, a pure quadratic whose first step is exact, a zero-gradient start, a flat direction (modelObjective = 0)"""
    base = dict(t1=0.25, t2=1.75, eta1=1e-10, eta2=0.1, eta3=0.5, max_trust_iters=100, tol=1e-8, max_cg_iters=50, max_cumulative_cg_iters=1000,
                cg_inexact_solve_ratio=1e-5, tr_size=2.0, min_tr_size=1e-8, use_preconditioned_inner_product_for_cg=False, use_incremental_objective=False)
    z1 = [[0.0]]
    out = [dict(n=1, kind='F1', A=[[1.0]], E=z1, b=[1.0], c=[-4.0], d=[-3.0], pk=0, x0=[0.0], st=dict(base)),
           dict(n=1, kind='quadratic', A=[[2.0]], E=z1, b=[-4.0], c=[0.0], d=[0.0], pk=0, x0=[0.0], st=dict(base)),
           dict(n=2, kind='zero-gradient', A=[[1.0, 0.0], [0.0, 1.0]], E=[[0.0, 0.0], [0.0, 0.0]], b=[0.0, 0.0], c=[0.0, 0.0], d=[0.0, 0.0], pk=0, x0=[0.0, 0.0], st=dict(base)),
           dict(n=1, kind='concave', A=[[-1.0]], E=z1, b=[1.0], c=[0.0], d=[0.0], pk=0, x0=[0.0], st=dict(base, max_trust_iters=4)),
           dict(n=1, kind='linear', A=[[0.0]], E=z1, b=[1.0], c=[0.0], d=[0.0], pk=0, x0=[0.0], st=dict(base, max_trust_iters=3)),
           # binary64 overflow: f(x0) = inf although f is a convex quartic; realObjective = inf - inf = NaN, so rho is NaN on every pass.
           # The radius update is written `not rho >= eta2` precisely so that a NaN shrinks the region and the inner loop still terminates.
           dict(n=1, kind='overflow-nan-rho', A=[[1.0]], E=z1, b=[0.0], c=[0.0], d=[1.0], pk=0, x0=[1e80], st=dict(base, max_trust_iters=5)),
           dict(n=1, kind='inconsistent-hessian', A=[[1.0]], E=[[-3.0]], b=[1.0], c=[0.0], d=[1.0], pk=0, x0=[0.5], st=dict(base, max_trust_iters=6))]
    return out


def settings_of(ES, st):
    return ES.get_settings(**dict(st, debug_info=False))


def run_impl(case, mods, x0=None, noise=None):
    jnp, ES = mods
    obj = PolyObjective(jnp, case, x0, noise)
    st = settings_of(ES, case['st'])
    obj.tol = st.tol

    def cb(x, o):
        obj.log.append(('cb', [float(t) for t in x]))
    # the inner `while` is proved to terminate for admissible settings: a run that exceeds the limit is reported as a hang
    old = signal.signal(signal.SIGALRM, _alarm)
    signal.alarm(SOLVE_LIMIT_S)
    buf = io.StringIO()
    try:
        with contextlib.redirect_stdout(buf):
            x, flag = ES.trust_region_minimize(obj, obj.x0, st, callback=cb)
    except Timeout:
        return dict(x=[float(t) for t in obj.x0], flag=False, log=obj.log, obj=obj, settings=st, hang=True)
    except Exception as ex:          # anything the solver raises is a failure of the property, not of the harness
        return dict(x=[float(t) for t in obj.x0], flag=False, log=obj.log, obj=obj, settings=st, hang=True, raised=repr(ex))
    finally:
        signal.alarm(0)
        signal.signal(signal.SIGALRM, old)
    return dict(x=[float(t) for t in x], flag=bool(flag), log=obj.log, obj=obj, settings=st, text=buf.getvalue())


# decision branches of trust_region_minimize, recognised by the messages the implementation prints when it takes them
BRANCH_MARKS = {'resign_positive_model_objective': 'Found a positive model objective increase',
                'negative_curvature_cauchy': 'negative curvature unpreconditioned cauchy point direction found',
                'cauchy_point_outside_region': 'unpreconditioned gradient cauchy point outside trust region',
                'dogleg_cp_outside_newton': 'cp outside newton',
                'too_small_retry': 'The trust region is too small, updating precond',
                'too_small_exit': 'The trust region is still too small',
                'max_iters_exit': 'Reached the maximum number of trust region iterations'}
# every decision branch must be reached at least this often in the quick tier (measured rates are 5-40x higher)
BRANCH_MIN_QUICK = {'resign_positive_model_objective': 3, 'negative_curvature_cauchy': 5, 'cauchy_point_outside_region': 5, 'dogleg_cp_outside_newton': 5,
                    'too_small_retry': 5, 'too_small_exit': 2, 'max_iters_exit': 5, 'converged_exit': 5, 'initial_converged_exit': 1}


def discrete(out):
    return (out['flag'], tuple(k for k, _ in out['log']))


def concl(case, out, mods):
    """the theorems' conclusions on the implementation's outputs (values recomputed with the objective the solver used)"""
    jnp, ES = mods
    obj, st = out['obj'], out['settings']
    bad = []
    if out.get('hang'):
        if out.get('raised'):
            return [('exception', 'trust_region_minimize raised ' + out['raised'])]
        return [('hang', 'trust_region_minimize did not return within %d s (inner loop not terminating)' % SOLVE_LIMIT_S)]
    pts = [p for k, p in out['log'] if k == 'cb']
    allpts = pts + [out['x']]
    if not all(math.isfinite(t) for p in allpts for t in p):
        bad.append(('finite', 'a reported iterate is not finite'))
    vals = [float(obj.value(jnp.array(p))) for p in [case['x0']] + pts]
    if not case['st']['use_incremental_objective'] and case['st']['eta1'] >= 0:
        for i in range(1, len(vals)):
            if not vals[i] <= vals[i - 1]:
                last = (i == len(vals) - 1) and out['flag']
                bad.append(('uphill-converged-exit' if last else 'uphill',
                            'objective increased from %.17g to %.17g at reported iterate %d of %d%s' % (vals[i - 1], vals[i], i, len(vals) - 1, ' (the converged exit)' if last else '')))
    if case['st'].get('check_stability') and (out['flag'] or 'Reached the maximum number' in out.get('text', '')) and obj.stability_checks < 1:
        bad.append(('stability', 'check_stability requested but objective.check_stability was not called at the %s exit' % ('converged' if out['flag'] else 'max-iterations')))
    if out['flag']:
        g = obj.gradient(jnp.array(out['x']))
        if not float(g @ g) < st.tol ** 2:
            bad.append(('flag', 'success reported but |grad|^2 = %.6g >= tol^2 = %.6g' % (float(g @ g), st.tol ** 2)))
        if not pts or pts[-1] != out['x']:
            bad.append(('last', 'success reported but the returned point is not the last reported iterate'))
    else:
        cur = pts[-1] if pts else [float(t) for t in case['x0']]
        if cur != out['x']:
            bad.append(('last', 'failure exit returned a point that is not the last accepted iterate / start'))
    return bad


def model_expr(case, cfg=False):
    st = case['st']
    cg_tol = 0.2 * st['tol']
    s = ('{| s_t1 := %s; s_t2 := %s; s_eta1 := %s; s_eta2 := %s; s_eta3 := %s; s_max_trust_iters := %d; s_tol := %s; s_max_cg_iters := %d; '
         's_max_cumulative_cg_iters := %d; s_cg_tol := %s; s_cg_ratio := %s; s_tr_size := %s; s_min_tr_size := %s; s_use_pc_ip := %s; s_use_incremental := %s |}'
         % (C.cf(st['t1']), C.cf(st['t2']), C.cf(st['eta1']), C.cf(st['eta2']), C.cf(st['eta3']), st['max_trust_iters'], C.cf(st['tol']), st['max_cg_iters'],
            st['max_cumulative_cg_iters'], C.cf(cg_tol), C.cf(st['cg_inexact_solve_ratio']), C.cf(st['tr_size']), C.cf(st['min_tr_size']),
            'true' if st['use_preconditioned_inner_product_for_cg'] else 'false', 'true' if st['use_incremental_objective'] else 'false'))
    args = '%s %s %s %s %s %d%%nat %s %s' % (cmat(case['A']), cmat(case['E']), cvec(case['b']), cvec(case['c']), cvec(case['d']), case['pk'], cvec(case['x0']), s)
    hole = case.get('hole')
    hargs = '' if not hole else ' %d%%nat %s %s' % (hole['mode'], 'true' if hole['side'] else 'false', C.cf(hole['h']))
    if cfg:
        return 'run_cfg%s %s %s%s' % ('_h' if hole else '', args, 'true' if st.get('check_stability') else 'false', hargs)
    return 'run_poly%s %s%s' % ('_h' if hole else '', args, hargs)


def parse_cfg(zs, n):
    """result of the interpreted syntax tree -> (flag, x, [(kind, point)]) with kind in {'cb', 'pc'}; None when the run has no result (fuel / error)"""
    if len(zs) == 1 and zs[0] == -1:
        return None
    flag = bool(zs[0])
    x = C.dec_floats(zs[1:1 + 2 * n])
    i, ev = 1 + 2 * n, []
    while i < len(zs):
        ev.append(({1: 'cb', 5: 'pc'}[zs[i]], C.dec_floats(zs[i + 1:i + 1 + 2 * n])))
        i += 1 + 2 * n
    return flag, x, ev


def same_floats(a, b):
    return len(a) == len(b) and all((u != u and v != v) or (u == v and math.copysign(1.0, u) == math.copysign(1.0, v)) for u, v in zip(a, b))


def parse_model(zs, n):
    """-> (flag, x, events); a trace that cannot be decoded (e.g. the model ran past the logged oracle values and produced
    vectors of another length) is returned as a single ('undecodable', ...) event, never as an exception"""
    try:
        return _parse_model(zs, n)
    except (KeyError, IndexError, ValueError, TypeError) as ex:
        return None, [], [('undecodable', None, repr(ex))]


def _parse_model(zs, n):
    flag = bool(zs[0])
    x = C.dec_floats(zs[1:1 + 2 * n])
    i = 1 + 2 * n
    ev = []
    while i < len(zs):
        code = zs[i]
        i += 1
        if code == 6:
            ev.append(('fuel', None, None))
            continue
        p = C.dec_floats(zs[i:i + 2 * n])
        i += 2 * n
        o = None
        if code == 1:
            o = C.dec_floats(zs[i:i + 2])[0]
            i += 2
        ev.append(({0: 'cinit', 1: 'accept', 2: 'conv', 3: 'small', 4: 'maxit', 5: 'pc'}[code], p, o))
    return flag, x, ev


def close_vec(a, b, rt=1e-7, at=1e-9):
    if len(a) != len(b):
        return False
    for u, v in zip(a, b):
        if not (math.isfinite(u) and math.isfinite(v)):
            if not ((u != u and v != v) or u == v):
                return False
            continue
        if abs(u - v) > at + rt * max(abs(u), abs(v)):
            return False
    return True


def correspondence(ctx, model_ok):
    mods = _mods()
    cases = exact_switch_cases() + gen_cases(ctx, ctx.n(150, 1500)) + directed_cases(ctx, ctx.n(100, 600)) + too_small_cases(ctx, ctx.n(16, 100)) + hole_cases(ctx, ctx.n(30, 150))
    outs = []
    hist = {}
    distinct = set()

    def bump(k):
        hist[k] = hist.get(k, 0) + 1
    hangs = 0
    for c in cases:
        o = run_impl(c, mods)
        outs.append(o)
        hangs += 1 if (o.get('hang') and not o.get('raised')) else 0
        if hangs >= 2:                      # fail fast: two non-terminating solves are verdict enough
            for tag, b in concl(c, o, mods):
                ctx.fail('conclusion', 'trust_region_minimize: ' + b, case=dict({k: v for k, v in c.items()}, tag=tag, impl=dict(x=o['x'], flag=o['flag'], log=o['log'])), concrete=True)
            cases = cases[:len(outs)]
            break
        ncb = sum(1 for k, _ in o['log'] if k == 'cb')
        bump('exit:' + ('converged' if o['flag'] else 'failed') + (':incremental' if c['st']['use_incremental_objective'] else ''))
        bump('kind:' + c['kind'])
        if c.get('hole'):
            ctx.count('hole_cases')
            ctx.count('hole_cases_with_a_trial_point_in_the_hole', 1 if o['obj'].hole_evals > 0 else 0)
            ctx.count('trial_points_in_the_hole', o['obj'].hole_evals)
        if ncb > 0 or not o['flag']:
            distinct.add(json.dumps([c['A'], c['E'], c['b'], c['c'], c['d'], c['pk'], c['x0'], c['st']], sort_keys=True))
        for tag, b in concl(c, o, mods):
            ctx.fail('conclusion', 'trust_region_minimize: ' + b, case=dict({k: v for k, v in c.items()}, tag=tag, impl=dict(x=o['x'], flag=o['flag'], log=o['log'])), concrete=True)
    branch = {k: 0 for k in BRANCH_MARKS}
    branch.update(converged_exit=0, initial_converged_exit=0, accepted_steps=0, runs=len(outs))
    for o in outs:
        t = o.get('text', '')
        for k, mark in BRANCH_MARKS.items():
            branch[k] += 1 if mark in t else 0
        ncb = sum(1 for k, _ in o['log'] if k == 'cb')
        branch['converged_exit'] += 1 if (o['flag'] and 'Initial objective' in t and ncb >= 1 and len(o['log']) > 1) else 0
        branch['initial_converged_exit'] += 1 if (o['flag'] and len(o['log']) == 1) else 0
        branch['accepted_steps'] += max(0, ncb - 1)
    ctx.cov['branch_histogram'] = branch
    if ctx.quick() and hangs < 2:
        low = {k: (branch[k], m) for k, m in BRANCH_MIN_QUICK.items() if branch[k] < m}
        if low:
            ctx.fail('coverage', 'the generated runs no longer reach every decision branch of trust_region_minimize often enough (reached, required): %r' % low)
    ctx.count('evaluations', len(cases))
    ctx.count('distinct_nontrivial', len(distinct))
    ctx.count('conclusion_checks', len(cases))
    ctx.cov['exit_histogram'] = hist
    ctx.sample(dict(kind=cases[0]['kind'], x0=cases[0]['x0'], returned=outs[0]['x'], flag=outs[0]['flag'], events=[k for k, _ in outs[0]['log']]))
    ctx.sample(dict(kind=cases[-1]['kind'], n=cases[-1]['n'], flag=outs[-1]['flag'], events=[k for k, _ in outs[-1]['log']]))
    # the driver: parameters replaced before the solve (optimism.Objective + nonlinear_equation_solve through the shim)
    driver_stream(ctx, mods)
    convex_success_stream(ctx, mods)
    warm_start_is_read_only(ctx)
    driver_model_stream(ctx, mods, model_ok)
    if not model_ok:
        return
    res = C.coq_eval(IMPORTS, [model_expr(c) for c in cases], 'C01', shard=40, preamble=PREAMBLE, timeout=900)
    mism = unstable = fuel = 0
    for c, o, zs in zip(cases, outs, res):
        flag, x, ev = parse_model(zs, c['n'])
        if any(k == 'fuel' for k, _, _ in ev):
            fuel += 1
        cbk = ('cinit', 'accept', 'conv', 'small', 'pc') + (('maxit',) if c['st'].get('check_stability') else ())
        mlog = [('pc' if k == 'pc' else 'cb', p) for k, p, _ in ev if k in cbk]
        mdisc = (flag, tuple(k for k, _ in mlog))
        if o.get('hang'):
            continue
        ok = mdisc == discrete(o)
        what = None
        if not ok:
            what = 'model trace %s / flag %s but implementation trace %s / flag %s' % (list(mdisc[1]), flag, [k for k, _ in o['log']], o['flag'])
        else:
            for (k, p), (_, q) in zip(mlog, o['log']):
                if not close_vec(p, q):
                    ok, what = False, 'reported point differs: model %r, implementation %r' % (p, q)
                    break
            if ok and not close_vec(x, o['x']):
                ok, what = False, 'returned point differs: model %r, implementation %r' % (x, o['x'])
        if ok:
            continue
        # near-tie rule (a): is the implementation itself unstable under rounding-level (<= 2 ulp) noise on the oracle arguments?
        # (b): did the run reach objective differences at rounding level (|f(x_k+1) - f(x_k)| <= 64 ulp)?  Then rho = realImprove/modelImprove
        #      is dominated by cancellation error and the accept / radius decisions after that point are not comparable.
        stable = True
        jnp = mods[0]
        vs = [float(o['obj'].value(jnp.array(p))) for k, p in o['log'] if k == 'cb']
        for u, v in zip(vs, vs[1:]):
            if abs(u - v) <= 64 * math.ulp(max(abs(u), abs(v), 1e-300)):
                stable = False
        # (c): some gradient the solver evaluated had |g|^2 within 1e-6 (relative) of tol^2: the convergence test itself is a near tie
        if o['obj'].conv_margin < 1e-6:
            stable = False
        for k in range(8 if stable else 0):
            o2 = run_impl(c, mods, None, onp.random.RandomState(ctx.seed % 100000 + 17 * k))
            if discrete(o2) != discrete(o) or not close_vec(o2['x'], o['x'], 1e-7, 1e-9):
                stable = False
                break
        if stable and not c.get('exact'):
            mism += 1
            if mism <= 12:
                ctx.fail('correspondence', 'trust_region_minimize: ' + what, case=dict({k: v for k, v in c.items()}, impl=dict(x=o['x'], flag=o['flag'], log=o['log'])))
        else:
            unstable += 1
    ctx.count('model_vs_impl_comparisons', len(cases))
    # the interpreted syntax tree of the CURRENT source (gen/CFG_TR.v) against the hand model, on the same cases, bit for bit:
    # the Coq theorem C01_inner_loop_is_the_extracted_source covers the `while` body for all inputs; the prologue, the Cauchy-point
    # block, the outer `for` and the exits after it are covered by this comparison
    try:
        res2 = C.coq_eval(IMPORTS, [model_expr(c, cfg=True) for c in cases], 'C01cfg', shard=40, preamble=PREAMBLE, timeout=900)
    except C.CoqError as ex:
        ctx.fail('correspondence', 'the syntax tree extracted from trust_region_minimize can no longer be interpreted: %s' % str(ex)[-600:])
        return
    cfg_mism = cfg_none = 0
    for c, o, zs, zs2 in zip(cases, outs, res, res2):
        flag, x, ev = parse_model(zs, c['n'])
        r = parse_cfg(zs2, c['n'])
        if r is None:
            cfg_none += 1
            if not any(k in ('fuel', 'undecodable') for k, _, _ in ev):
                cfg_mism += 1
                if cfg_mism <= 6:
                    ctx.fail('correspondence', 'trust_region_minimize: the interpreter of the extracted syntax tree has no result (unsupported construct reached / depth) where the hand model has one',
                             case=dict({k: v for k, v in c.items()}, impl=dict(x=o['x'], flag=o['flag'], log=o['log'])))
            continue
        cbk = ('cinit', 'accept', 'conv', 'small') + (('maxit',) if c['st'].get('check_stability') else ())
        mraw = [('pc' if k == 'pc' else 'cb', p) for k, p, _ in ev if k == 'pc' or k in cbk]
        ok = (r[0] == flag and same_floats(r[1], x) and len(r[2]) == len(mraw) and all(a[0] == b[0] and same_floats(a[1], b[1]) for a, b in zip(r[2], mraw)))
        if not ok:
            cfg_mism += 1
            if cfg_mism <= 6:
                ctx.fail('correspondence', 'trust_region_minimize: the source as extracted (gen/CFG_TR.v, interpreted) and the hand model M_C01_TR.v disagree: extracted %r / flag %s, hand model %r / flag %s'
                         % ([k for k, _ in r[2]], r[0], [k for k, _ in mraw], flag),
                         case=dict({k: v for k, v in c.items()}, impl=dict(x=o['x'], flag=o['flag'], log=o['log'])))
    ctx.count('extracted_tree_vs_hand_model_comparisons', len(cases))
    ctx.count('extracted_tree_vs_hand_model_mismatches', cfg_mism)
    ctx.count('extracted_tree_runs_without_result', cfg_none)
    ctx.count('model_vs_impl_mismatches', mism)
    ctx.count('unstable_near_tie_cases', unstable)
    ctx.count('model_out_of_fuel', fuel)


def convex_success_cases(ctx, count):
    """strictly convex problems in the stated domain: H(x) >= A with eigenvalues of A in [1, kappa], kappa <= 1e3, 1..40 unknowns,
    quadratic or quadratic + sum d_i x_i^4 (d >= 0), identity / diagonal / stale-diagonal preconditioner, DEFAULT settings"""
    r = ctx.rng('convex')
    out = []
    sizes = [1, 2, 3, 5, 10, 20] + ([40] if ctx.tier == 'thorough' else [])
    for i in range(count):
        n = sizes[i % len(sizes)]
        kappa = [1.0, 10.0, 100.0, 1000.0][(i // len(sizes)) % 4]
        m = onp.array([[r.gauss(0, 1) for _ in range(n)] for _ in range(n)])
        q, _ = onp.linalg.qr(m)
        lam = [kappa ** r.random() for _ in range(n)]
        lam[0] = 1.0
        lam[-1] = kappa if n > 1 else 1.0
        a = (q * onp.array(lam)) @ q.T
        a = 0.5 * (a + a.T)
        quart = (i % 3 == 1)
        st = dict(t1=0.25, t2=1.75, eta1=1e-10, eta2=0.1, eta3=0.5, max_trust_iters=100, tol=1e-8, max_cg_iters=50, max_cumulative_cg_iters=1000,
                  cg_inexact_solve_ratio=1e-5, tr_size=2.0, min_tr_size=1e-8, use_preconditioned_inner_product_for_cg=False, use_incremental_objective=False)
        out.append(dict(n=n, kind='convex-default', kappa=kappa, A=a.tolist(), E=[[0.0] * n for _ in range(n)], b=[r.uniform(-3, 3) for _ in range(n)], c=[0.0] * n,
                        d=[r.uniform(0, 2) if quart else 0.0 for _ in range(n)], pk=r.choice([0, 1, 2]), x0=[r.uniform(-2, 2) for _ in range(n)], st=st))
    return out


def convex_reference(case):
    a, b, d = onp.array(case['A']), onp.array(case['b']), onp.array(case['d'])
    x = onp.zeros(case['n'])
    f = lambda v: 0.5 * v @ a @ v + b @ v + d @ v ** 4
    for _ in range(200):
        g = a @ x + b + 4 * d * x ** 3
        if onp.linalg.norm(g) < 1e-14:
            break
        step = onp.linalg.solve(a + onp.diag(12 * d * x ** 2), -g)
        t = 1.0
        while f(x + t * step) > f(x) + 1e-4 * t * (g @ step) and t > 1e-12:
            t *= 0.5
        x = x + t * step
    return x


def convex_success_stream(ctx, mods):
    """L2 for the clause 'on well-conditioned strictly convex problems with default settings it reports success and returns the unique minimizer'"""
    jnp, ES = mods
    dflt = ES.get_settings()
    n_ok = 0
    for c in convex_success_cases(ctx, ctx.n(36, 240)):
        # the case's settings must BE the defaults of get_settings (so that a change of a default is seen here)
        st = dict(c['st'])
        for k in st:
            st[k] = getattr(dflt, k)
        c['st'] = st
        o = run_impl(c, mods)
        ctx.count('evaluations')
        ctx.count('convex_default_cases')
        bad = list(concl(c, o, mods))      # (tag, text): an increase at the converged exit keeps its tag (finding F1's mechanism, rounding-level here)
        if not o['flag']:
            bad.append(('convex-default', 'default settings did not report success on a strictly convex problem (n=%d, condition number %g, %s preconditioner)' % (c['n'], c['kappa'], ['identity', 'diagonal', 'stale diagonal'][c['pk']])))
        else:
            xs = convex_reference(c)
            dist = float(onp.linalg.norm(onp.array(o['x']) - xs))
            if not dist <= 2.0 * dflt.tol / 1.0 + 1e-12 * (1.0 + float(onp.linalg.norm(xs))):      # |x - x*| <= |grad f(x)| / lambda_min, lambda_min(A) = 1
                bad.append(('convex-default', 'success reported but the returned point is %.3g away from the unique minimiser (n=%d, condition number %g)' % (dist, c['n'], c['kappa'])))
            n_ok += 1
        for t, b in bad:
            ctx.fail('conclusion', 'trust_region_minimize (convex, default settings): ' + b,
                     case=dict({k: v for k, v in c.items()}, tag=t if t == 'uphill-converged-exit' else 'convex-default', stream='convex-default'), concrete=True)
    ctx.cov['convex_default_successes'] = n_ok


def driver_stream(ctx, mods):
    """nonlinear_equation_solve with optimism.Objective: success => gradient norm under the NEW parameters below tol"""
    jnp, ES = mods
    from optimism import Objective
    r = ctx.rng('driver')
    for _ in range(ctx.n(6, 40)):
        n = r.randrange(1, 4)
        a = onp.array([[dy(r, -1, 1) for _ in range(n)] for _ in range(n)])
        a = a @ a.T + onp.eye(n)
        aj = jnp.array(a)
        q = [dy(r, 0, 2) for _ in range(n)]
        qj = jnp.array(q)

        def f(x, p):
            return 0.5 * x @ (aj @ x) - p[0] @ x + qj @ (x * x * x * x)
        p_old = Objective.Params(jnp.array([dy(r, -2, 2) for _ in range(n)]))
        p_new = Objective.Params(jnp.array([dy(r, -2, 2) for _ in range(n)]))
        x0 = jnp.array([dy(r, -1, 1) for _ in range(n)])
        try:
            obj = quiet(Objective.Objective, f, x0, p_old)
            st = ES.get_settings(debug_info=False)
            x, ok = quiet(ES.nonlinear_equation_solve, obj, x0, p_new, st, useWarmStart=r.random() < 0.5)
        except Exception as ex:      # the preconditioner library is a stand-in here; an exception is not a verdict
            ctx.count('driver_stream_errors')
            ctx.notes.append('driver stream: %r' % ex)
            continue
        ctx.count('driver_stream_cases')
        import jax
        gfun = jax.grad(f, 0)                      # independent of objective.gradient (never through the objective's own caches)
        # load-step history: change objective.p by direct assignment and re-solve from the SAME array object that was returned
        try:
            xa, oka = quiet(ES.trust_region_minimize, obj, x0, st)
            p3 = Objective.Params(jnp.array([dy(r, -2, 2) + 3.0 for _ in range(n)]))
            obj.p = p3
            xb, okb = quiet(ES.trust_region_minimize, obj, xa, st)
            gb = gfun(xb, p3)
            ctx.count('history_stream_cases')
            if okb and not float(gb @ gb) < st.tol ** 2:
                ctx.fail('conclusion', 'after objective.p was reassigned, trust_region_minimize reported success but the gradient under the CURRENT parameters has norm %.6g >= tol' % math.sqrt(float(gb @ gb)),
                         case=dict(kind='driver', A=a.tolist(), q=q, p_new=[float(t) for t in p3[0]], x0=[float(t) for t in xa], history='direct assignment'), concrete=True)
            p4 = Objective.Params(jnp.array([dy(r, -2, 2) - 3.0 for _ in range(n)]))
            xc, okc = quiet(ES.nonlinear_equation_solve, obj, xb, p4, st, useWarmStart=r.random() < 0.5)
            gc = gfun(xc, p4)
            if okc and not float(gc @ gc) < st.tol ** 2:
                ctx.fail('conclusion', 'second load step: nonlinear_equation_solve reported success but the gradient under the requested parameters has norm %.6g >= tol' % math.sqrt(float(gc @ gc)),
                         case=dict(kind='driver', A=a.tolist(), q=q, p_new=[float(t) for t in p4[0]], x0=[float(t) for t in xb], history='nonlinear_equation_solve'), concrete=True)
        except Exception as ex:
            ctx.count('driver_stream_errors')
            ctx.notes.append('history stream: %r' % ex)
        g = gfun(x, p_new)
        if ok and not float(g @ g) < st.tol ** 2:
            ctx.fail('conclusion', 'nonlinear_equation_solve reported success but the gradient under the requested parameters has norm %.6g >= tol' % math.sqrt(float(g @ g)),
                     case=dict(kind='driver', A=a.tolist(), q=q, p_old=[float(t) for t in p_old[0]], p_new=[float(t) for t in p_new[0]], x0=[float(t) for t in x0]), concrete=True)


def warm_start_is_read_only(ctx):
    """assumption of model/M_C01_Drv.v, checked on the source: WarmStart.warm_start_increment only READS the objective (no attribute store,
    no setattr, only the read-only oracle methods are called on it, it is not handed to anything else)"""
    import ast
    import os
    src = open(os.path.join(C.REPO, 'optimism/WarmStart.py')).read()
    fn = [n for n in ast.parse(src).body if isinstance(n, ast.FunctionDef) and n.name == 'warm_start_increment']
    if len(fn) != 1:
        ctx.fail('correspondence', 'WarmStart.warm_start_increment not found (or defined twice)')
        return
    fn = fn[0]
    obj = fn.args.args[0].arg
    allowed = {'jacobian_p_vec', 'jacobian_p2_vec', 'hessian_vec', 'apply_precond', 'p'}
    parents = {}
    for n in ast.walk(fn):
        for ch in ast.iter_child_nodes(n):
            parents[ch] = n
    bad = []
    for n in ast.walk(fn):
        if isinstance(n, ast.Name) and n.id == obj:
            if not isinstance(n.ctx, ast.Load):
                bad.append('the objective parameter is rebound at line %d' % n.lineno)
                continue
            par = parents.get(n)
            if not (isinstance(par, ast.Attribute) and par.value is n and isinstance(par.ctx, ast.Load) and par.attr in allowed):
                bad.append('the objective is used other than by reading %s at line %d' % (sorted(allowed), n.lineno))
        if isinstance(n, ast.Call) and isinstance(n.func, ast.Name) and n.func.id in ('setattr', 'delattr', 'exec', 'eval', 'vars'):
            bad.append('%s called at line %d' % (n.func.id, n.lineno))
    ctx.count('warm_start_read_only_checks')
    for b in bad:
        ctx.fail('correspondence', 'WarmStart.warm_start_increment may modify the objective (assumed read-only by the driver model): ' + b)


class ParamPolyObjective(PolyObjective):
    """f(x, p) = poly(x) - p[0].x with a settable attribute p (every store and the parameters current at every oracle call are recorded),
    scaling / invScaling as the driver reads them"""

    def __init__(self, jnp, case, p_old, noise=None):
        self.b0 = jnp.array(case['b'])
        self._p = (jnp.array(p_old),)
        super().__init__(jnp, case, None, noise)
        self.scaling = case['scaling'] if not isinstance(case['scaling'], list) else jnp.array(case['scaling'])
        self.invScaling = case['invScaling'] if not isinstance(case['invScaling'], list) else jnp.array(case['invScaling'])
        self.grad_params = []          # objective.p[0] at every gradient evaluation

    @property
    def b(self):
        return self.b0 - self._p[0]

    @b.setter
    def b(self, v):
        pass

    @property
    def p(self):
        return self._p

    @p.setter
    def p(self, v):
        self.log.append(('setp', [float(t) for t in v[0]]))
        self._p = v

    def gradient(self, x):
        self.grad_params.append([float(t) for t in self._p[0]])
        return super().gradient(x)

    def jacobian_p_vec(self, x, dp):
        return -dp

    def update_precond(self, x):
        self.log.append(('pc', [float(t) for t in x], [float(t) for t in self._p[0]]))
        self.xp = x


def driver_cases(ctx, count):
    r = ctx.rng('driver-model')
    out = []
    for c in gen_cases(ctx, count, 'driver-model-base'):
        n = c['n']
        c['st'].update(use_incremental_objective=False)
        c['p_old'] = [dy(r, -2, 2) for _ in range(n)]
        c['p_new'] = [dy(r, -2, 2) for _ in range(n)]
        k = r.choice(['one', 'scalar', 'vector'])
        if k == 'one':
            c['scaling'], c['invScaling'] = 1.0, 1.0
        elif k == 'scalar':
            c['scaling'], c['invScaling'] = 4.0, 0.25
        else:
            e = [r.choice([-2, -1, 0, 1, 2]) for _ in range(n)]
            c['scaling'], c['invScaling'] = [2.0 ** t for t in e], [2.0 ** -t for t in e]
        c['uw'], c['up'], c['has_cb'] = r.random() < 0.6, r.random() < 0.6, r.random() < 0.8
        c['standin'] = r.random() < 0.6
        c['kind'] = 'driver-model'
        out.append(c)
    return out


def run_driver_impl(case, mods, noise=None):
    jnp, ES = mods
    obj = ParamPolyObjective(jnp, case, case['p_old'], noise)
    st = settings_of(ES, case['st'])
    obj.tol = st.tol
    p_new = (jnp.array(case['p_new']),)
    info = dict(dx=[0.0] * case['n'], warm_calls=0, warm_p=None)
    orig = ES.WarmStart.warm_start_increment

    def warm(objective, x, pNew, index=0):
        info['warm_calls'] += 1
        info['warm_p'] = [float(t) for t in objective.p[0]]
        if case['standin']:       # a known function of everything the oracle can read: old objective.p, preconditioner state, x, pNew
            dx = 0.25 * (objective.p[0] - pNew[0]) + (0.125 * x + 0.0625 * objective.apply_precond(x))
        else:
            dx = jnp.array(orig(objective, x, pNew, index))
        info['dx'] = [float(t) for t in dx]
        return dx

    def cb(x, o):
        obj.log.append(('cb', [float(t) for t in x]))
    old = signal.signal(signal.SIGALRM, _alarm)
    signal.alarm(SOLVE_LIMIT_S)
    ES.WarmStart.warm_start_increment = warm
    try:
        with contextlib.redirect_stdout(io.StringIO()):
            x, flag = ES.nonlinear_equation_solve(obj, jnp.array(case['x0']), p_new, st, callback=cb if case['has_cb'] else None,
                                                  useWarmStart=case['uw'], updatePrecond=case['up'])
    except Timeout:
        return None
    except Exception as ex:
        return dict(raised=repr(ex))
    finally:
        ES.WarmStart.warm_start_increment = orig
        signal.alarm(0)
        signal.signal(signal.SIGALRM, old)
    return dict(x=[float(t) for t in x], flag=bool(flag), log=obj.log, obj=obj, settings=st, info=info, p_after=[float(t) for t in obj.p[0]], p_is_requested=obj.p is p_new)


def cscal(v):
    return '(ScV %s)' % cvec(v) if isinstance(v, list) else '(ScS %s)' % C.cf(v)


def drv_expr(case, o, tree):
    me = model_expr(case)                      # 'run_poly A E b c d pk x0 S'
    args = me[len('run_poly '):]
    cb = lambda b: 'true' if b else 'false'
    return 'run_drv %s %s %s %s %s %s %s %s %s %s %s %s' % (cb(tree), args, cb(case['st'].get('check_stability')), cscal(case['scaling']), cscal(case['invScaling']),
                                                       cb(case['standin']), cvec(o['info']['dx']), cvec(case['p_old']), cvec(case['p_new']), cb(case['has_cb']), cb(case['uw']), cb(case['up']))


def parse_drv(zs, n):
    """-> (flag, x, objective.p afterwards, events) with events ('pc', x, par) / ('setp', p) / ('cb', x); None without a result"""
    if len(zs) == 1 and zs[0] == -1:
        return None
    flag = bool(zs[0])
    x = C.dec_floats(zs[1:1 + 2 * n])
    par = C.dec_floats(zs[1 + 2 * n:1 + 4 * n])
    i, ev, spar = 1 + 4 * n, [], None

    def vecat(j):
        return C.dec_floats(zs[j:j + 2 * n])
    while i < len(zs):
        code = zs[i]
        i += 1
        if code == 7:
            ev.append(('pc', vecat(i + 2 * n), vecat(i)))
            i += 4 * n
        elif code == 8:
            ev.append(('setp', vecat(i)))
            i += 2 * n
        elif code == 9:
            spar = vecat(i)
            ev.append(('solve', spar))
            i += 2 * n
        elif code == 1:
            ev.append(('cb', vecat(i)))
            i += 2 * n
        elif code == 5:
            ev.append(('pc', vecat(i), spar))
            i += 2 * n
        else:
            raise ValueError('bad event code %r' % code)
    return flag, x, par, ev


def driver_concl(c, o):
    """the driver theorems' conclusions on one run of the implementation"""
    bad = []
    if o['p_after'] != c['p_new'] or not o['p_is_requested']:
        bad.append('objective.p after the call is not the requested p')
    setp = [i for i, e in enumerate(o['log']) if e[0] == 'setp']
    if len(setp) != 1 or o['log'][setp[0]][1] != c['p_new']:
        bad.append('objective.p was not stored exactly once with the requested p (stores: %r)' % [o['log'][i][1] for i in setp])
    else:
        if any(e[0] == 'cb' or (e[0] == 'pc' and e[2] != c['p_old']) for e in o['log'][:setp[0]]):
            bad.append('before the store objective.p = p something other than update_precond under the old parameters happened')
        if any(e[0] == 'pc' and e[2] != c['p_new'] for e in o['log'][setp[0] + 1:]):
            bad.append('update_precond after the store ran under parameters other than the requested p')
    if any(g != c['p_new'] for g in o['obj'].grad_params):
        bad.append('a gradient was evaluated by the solve under parameters other than the requested p')
    if o['info']['warm_calls'] != (1 if c['uw'] else 0) or (c['uw'] and o['info']['warm_p'] != c['p_old']):
        bad.append('the warm start did not run exactly once under the OLD parameters when requested (calls %d, under %r)' % (o['info']['warm_calls'], o['info']['warm_p']))
    if o['flag']:
        isc = onp.array(c['invScaling']) if isinstance(c['invScaling'], list) else c['invScaling']
        xb = onp.array(o['x']) / isc
        g = (onp.array(c['A']) @ xb + (onp.array(c['b']) - onp.array(c['p_new'])) + 3 * onp.array(c['c']) * xb ** 2 + 4 * onp.array(c['d']) * xb ** 3)
        if not float(g @ g) < o['settings'].tol ** 2 * (1 + 1e-6) + 1e-300:
            bad.append('success reported but |grad|^2 under the requested parameters = %.6g >= tol^2 = %.6g' % (float(g @ g), o['settings'].tol ** 2))
    return bad


def driver_near_tie(ctx, c, o, mods):
    """near-tie rule of the solver stream, for a driver run: (c) a near tie of the convergence test, (b) objective differences between successive
    DISTINCT points the solve reported (callback or update_precond; without a callback only the latter are visible) at rounding level (<= 64 ulp),
    (a) the implementation itself changes flag / event kinds / result under <= 2 ulp noise on its oracle arguments (4 trials)"""
    jnp = mods[0]
    if o['obj'].conv_margin < 1e-6:
        return True
    k0 = max([i for i, e in enumerate(o['log']) if e[0] == 'setp'] + [0])
    pts = []
    for e in o['log'][k0 + 1:]:
        if e[0] in ('cb', 'pc') and (not pts or pts[-1] != e[1]):
            pts.append(e[1])
    vs = [float(o['obj'].value(jnp.array(q))) for q in pts]
    if any(abs(u - v) <= 64 * math.ulp(max(abs(u), abs(v), 1e-300)) for u, v in zip(vs, vs[1:])):
        return True
    for k in range(4):
        o2 = run_driver_impl(c, mods, onp.random.RandomState(ctx.seed % 100000 + 31 * k))
        if o2 is None or o2.get('raised') or o2['flag'] != o['flag'] or [e[0] for e in o2['log']] != [e[0] for e in o['log']] or not close_vec(o2['x'], o['x']):
            return True
    return False


def driver_model_stream(ctx, mods, model_ok):
    """nonlinear_equation_solve on duck-typed parametrised polynomial objectives: (L2) the driver theorems' conclusions on the implementation's run,
    (L1) the interpreted extracted tree of the driver (with both solvers) against the implementation"""
    jnp, ES = mods
    cases = driver_cases(ctx, ctx.n(40, 150))
    outs = []
    for c in cases:
        o = run_driver_impl(c, mods)
        ctx.count('evaluations')
        ctx.count('driver_model_cases')
        outs.append(o)
        if o is None or o.get('raised'):
            ctx.count('driver_model_impl_no_result')
            ctx.notes.append('driver model stream: %r' % (o and o['raised']))
            continue
        tag = 'uw=%s,up=%s,cb=%s' % (c['uw'], c['up'], c['has_cb'])
        ctx.count('driver_paths:' + tag)
        rep = dict({k: v for k, v in c.items()}, tag='driver-model', impl=dict(x=o['x'], flag=o['flag'], log=o['log']))
        bad = driver_concl(c, o)
        for b in bad:
            ctx.fail('conclusion', 'nonlinear_equation_solve: ' + b, case=rep, concrete=True)
    if not model_ok:
        return
    live = [(c, o) for c, o in zip(cases, outs) if o is not None and not o.get('raised')]
    try:
        res = C.coq_eval(IMPORTS, [drv_expr(c, o, t) for c, o in live for t in (True, False)], 'C01drv', shard=40, preamble=PREAMBLE, timeout=900)
    except C.CoqError as ex:
        ctx.fail('correspondence', 'the syntax tree extracted from nonlinear_equation_solve can no longer be interpreted: %s' % str(ex)[-600:])
        return
    mism = unstable = nores = 0
    for k, (c, o) in enumerate(live):
        n = c['n']
        rt, rh = parse_drv(res[2 * k], n), parse_drv(res[2 * k + 1], n)
        rep = dict({kk: v for kk, v in c.items()}, tag='driver-model', impl=dict(x=o['x'], flag=o['flag'], log=o['log']))
        if rt is None or rh is None:
            nores += 1
            if (rt is None) != (rh is None):
                ctx.fail('correspondence', 'nonlinear_equation_solve: the interpreted driver has a result with one solver (extracted tree / hand model) but not with the other', case=rep)
            continue
        ilog = [e for e in o['log'] if c['has_cb'] or e[0] != 'cb']
        for name, r in (('extracted trust_region_minimize', rt), ('hand model of trust_region_minimize', rh)):
            flag, x, par, ev = r
            mev = [e for e in ev if e[0] != 'solve']
            ok = (flag == o['flag'] and [e[0] for e in mev] == [e[0] for e in ilog] and par == c['p_new']
                  and all(close_vec(a[1], b[1]) and (a[0] != 'pc' or a[2] == b[2]) for a, b in zip(mev, ilog)) and close_vec(x, o['x'])
                  and all(e[1] == c['p_new'] for e in ev if e[0] == 'solve'))
            if ok:
                continue
            stable = not driver_near_tie(ctx, c, o, mods)
            if stable:
                mism += 1
                if mism <= 6:
                    ctx.fail('correspondence', 'nonlinear_equation_solve: the interpreted extracted driver (solver: %s) gives flag %s, events %r, objective.p %r; the implementation flag %s, events %r'
                             % (name, flag, [e[0] for e in ev], par, o['flag'], [e[0] for e in ilog]), case=rep)
            else:
                unstable += 1
    ctx.count('driver_model_vs_impl_comparisons', 2 * len(live))
    ctx.count('driver_model_mismatches', mism)
    ctx.count('driver_model_unstable_near_tie', unstable)
    ctx.count('driver_model_without_result', nores)


def search(ctx, reasons):
    import copy
    c2 = copy.copy(ctx)
    c2.tier = 'thorough'
    c2.failures, c2.counts, c2.cov, c2.samples, c2.notes = [], {}, {}, [], []
    c2.seed = ctx.seed + 1
    correspondence(c2, False)
    findings = [f for f in C.load_known_findings() if f['property'] == ID and f['status'] == 'open']
    f = [fl for fl in c2.failures if fl.get('concrete') and not any(matches_finding(fl, k) for k in findings)]
    return f[0] if f else None


def f1_case():
    return exact_switch_cases()[0]


def finding_fails(ctx, f):
    mods = _mods()
    c = f['witness'].get('case') or f1_case()
    o = run_impl(c, mods)
    tags = [t for t, _ in concl(c, o, mods)]
    return tags == ['uphill-converged-exit']


def matches_finding(fl, f):
    """F1 exactly: the only complaint is an increase at the final ConvergedAt event (flag True, last reported iterate)"""
    if f.get('id') != 'F1' or fl.get('kind') != 'conclusion':
        return False
    c = fl.get('case') or {}
    return c.get('tag') == 'uphill-converged-exit'


def replay(ctx, path):
    rep = json.load(open(path))
    case = rep.get('failing_input')
    print('replay of', path)
    print(json.dumps(rep.get('reasons'), indent=1)[:2500])
    if not case or 'A' not in case or case.get('kind') == 'driver':
        print('no replayable failing input recorded; broken obligations:', rep.get('broken'))
        return 1
    mods = _mods()
    if case.get('kind') == 'driver-model':
        o = run_driver_impl(case, mods)
        bad = ['no result'] if (o is None or o.get('raised')) else driver_concl(case, o)
        print('implementation now:', bad or 'conclusion holds')
        return 1 if bad else 0
    o = run_impl(case, mods)
    bad = concl(case, o, mods)
    print('implementation now:', bad or 'conclusion holds')
    return 1 if bad else 0
