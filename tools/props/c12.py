"""C12 -- symmetric-tensor eigen-decomposition, tensor functions and derivative rules."""
import json
import math

from vlib import common as C

ID = 'C12'
READY = True
LEVEL_TEXT = ('Partial. Coq theorems over R about kernels regenerated from TensorMath.py: detpIm1 = det(A+I)-1, A inv(A) = inv(A) A = I '
              'for det A != 0, deviator traceless, sym/skw split, polar-decomposition identities (given a symmetric square root), the '
              'minimax Pade approximation of cos(acos(x)/3) solves 4c^3-3c=x to 1e-13 on [0,1] (interval arithmetic), the sqrt/exp/log '
              'relative-difference kernels equal the divided differences; the Taylor kernel _relative_log_difference_taylor is within 1e-16 relative '
              '(and never above) the divided difference of ln on the range |l1-l2| <= 0.05 min(l1,l2) where the branching kernel '
              '_relative_log_difference selects it, hence that kernel is 1e-16-accurate for all positive distinct arguments; the kernels wired '
              'into log_symm/pow_symm, _log_relative_difference and _pow_relative_difference (argsort by magnitude, log1p/expm1, nearOne/xIsZero '
              'selects; now generated from the source), equal the divided differences of ln and x^m for all positive distinct arguments in '
              'either order, and the power kernel returns m x^(m-1) on coinciding arguments. Not proved for the kernels: negative arguments, '
              'binary64 rounding (log1p/expm1 are ln(1+x)/exp(y)-1 over R; the implementation values are compared with 60-digit divided '
              'differences on every run). First stage of eigen_sym33_non_unit (generated as a prefix of the routine: mean c1, invariants c2, c3, '
              'trisection argument rr, trigonometric root eval2 with the Pade kernel): x^3+c2 x+c3 is the characteristic polynomial of the deviator '
              'of sym A; for c2<0 and |rr|<=1 the residual of eval2 is <= 2e-13 (-c2/3)^(3/2) and eval2 is within 4e-14 sqrt(-c2/3) of an exact root '
              'that has the largest magnitude among the roots; |rr|<=1 whenever the cubic has three real roots. Round 4, the part of the routine '
              'AFTER the trigonometric root (pivoted deflation, 2x2 Wilkinson shift, eigenvectors; the source segment eval2..evec1 regenerated as '
              'four stage kernels cut at ki_ki / evec2 / eval1 and chained in eig_compose): for a traceless symmetric D and an exact SIMPLE root '
              'lam of x^3+c2 x+c3 (3 lam^2+c2 != 0, which alone implies a nonzero pivot row and a nonzero Gram-Schmidt residual), eval0 and eval1 '
              'are exactly the other two roots (the polynomial factors as (x-lam)(x-eval0)(x-eval1)), evec2/evec0/evec1 are nonzero, mutually '
              'orthogonal and D evec = eval evec for each, in every branch of the routine (three pivots, either residual, both signs of the '
              'shift, both vector formulas, and -- as repaired in /repo e63b801 -- the pair (fac1, fac2) divided by facmax = '
              'where(max(|fac1|,|fac2|) > 0, max, 1) with the both_zero fallback tested on the scaled pair: the proof uses only facmax > 0, the '
              'fallback is unreachable when |rm2xx| < |rm2yy| and otherwise forces rm2xx = rm2yy = k_a_rm2xy = 0 where a_row2 is a null vector); '
              'the exact trigonometric root is always simple, so the deflation run with it is exact. Not proved there: accuracy inside compiled '
              'batches (jit(vmap)): the former finding EIGVMAP (eigenvectors not orthonormal on (nearly) double eigenvalues in batches of >= 2) '
              'is repaired by e63b801 and the repair relies on XLA evaluating the division once (its fusion policy does not duplicate a '
              'divide; not a JAX contract, see tools/vlib/eigvmap_fix_report.md) -- nothing about XLA is modelled in Coq, batched accuracy is tied '
              'only by the streams (same tolerances as the single call, near-degenerate spectra included, and the EIGVMAP witness replayed in '
              'batches of 2, 3, 8 on every run); the spectral theorem itself, the deflation run with the COMPUTED (4e-14-perturbed) eval2, double roots, '
              'the isotropic fallback and the final argsort, that eig_compose equals the one-piece segment kernel eig_deflate as Coq terms '
              '(conversion needs 3 minutes; both are executed at binary64 and compared bit for bit on every run), rounding. '
              'LinAlg.sqrtm_dbp (Denman-Beavers product form; 3x3 hand model of the loop body with the generated TensorMath.inv, tied by a '
              'correspondence stream): for any scale factors and as long as the scaled M stay invertible, X_k^2 = A M_k and X_k M_k = M_k X_k, '
              'hence X^2 - A = A (M - I) for the returned X (the exit test bounds the residual; M = I iff X^2 = A). _logm_iss: for any L with the '
              'doubling law L(XX) = 2 L(X), L(A) = 2^k L(X_k) along every chain of square roots (abstract; instance ln on positive reals; the '
              'chain is checked on the implementation). Not proved: convergence, invertibility along the path, sizes other than 3, existence of '
              'a matrix logarithm, accuracy of log_pade_pf. The accuracy of eigen_sym33_unit, sqrt/exp/log/pow_symm, their '
              'JVP rules, sqrtm and logm_iss is NOT proved for all inputs: every explored instance is certified by Coq result checkers '
              '(proved sound) executed by vm_compute on the exact rational values of the implementation outputs; the derivative '
              'rules of sqrt/log/exp/pow_symm are compared per instance (Coq checker) with the closed-form Daleckii-Krein derivative whose '
              'divided differences are computed in 60-digit arithmetic, and with central differences (tests, not proofs).')
TECHNIQUE = 'Coq proof (Reals + Interval) over regenerated kernels; proved-sound result checkers over Q run by vm_compute on implementation outputs'
GEN = ['Math', 'TensorMath', 'TensorMathFun', 'TensorMathEig']
TARGETS = ['model/M_C08.vo', 'proofs/L_C08.vo', 'model/M_C12.vo', 'proofs/L_C12.vo', 'proofs/L_C12_RD.vo', 'model/M_C12_Trig.vo', 'proofs/L_C12_Trig.vo',
           'model/M_C12_Defl.vo', 'proofs/L_C12_Defl.vo', 'model/M_C12_DBP.vo', 'proofs/L_C12_DBP.vo']
COQ_FILES = ['base/Num.v', 'model/M_C12.v', 'model/M_C12_Trig.v', 'proofs/L_C12.v', 'proofs/L_C12_RD.v', 'proofs/L_C12_Trig.v',
             'model/M_C12_Defl.v', 'proofs/L_C12_Defl.v', 'model/M_C12_DBP.v', 'proofs/L_C12_DBP.v', 'props/P_C12.v']
BUILD_TIMEOUT = 1500
TRUSTED = ['Coq 8.16.1 kernel + vm_compute (no native_compute); coq-interval for the Pade bound (PrimFloat/Uint63 primitives)',
           'tools/vlib/py2coq.py translator, cross-checked by running the generated scalar kernels at binary64 against the implementation',
           'harness: exact float -> rational conversion (Fraction), construction of the test tensors, the tolerances stated in the evidence',
           'jax.scipy.linalg.expm is used as the reference when checking logm_iss (expm(logm A) ~ A)',
           'translator option `segment` (a middle stretch of a straight-line routine with its live-in locals as parameters); the numpy replica '
           'of the sqrtm_dbp loop in the harness (source of the scale factors fed to the Coq model)']
ASSUMPTIONS = ['exact real arithmetic in theorems (a)-(c)',
               'checker verdicts certify the explored instances only, with the stated tolerances (1e-11 relative for decompositions / '
               'identities in a single compiled call AND inside compiled batches (since /repo e63b801; no spectrum is excused), 1e-9 for derivative '
               'identities, 1e-6 relative for central-difference comparisons)',
               'nearly hydrostatic stream: 1e-13 relative to |A| (single call and batch); derivative rules versus the closed-form Daleckii-Krein '
               'derivative: 1e-11 relative, single call and compiled batch alike, all gaps 1e-9..1e-3 evaluated in both modes; batched accuracy '
               'rests on XLA evaluating the division fac/facmax once (fusion policy, jaxlib 0.4.28 CPU), tied by the streams only; '
               'relative-difference kernels of the implementation versus 60-digit divided differences: '
               '1e-13 (arithmetic kernels) / 1e-12 (kernels using XLA log1p/expm1, themselves ~2e-14 accurate)',
               'the closed-form derivative reference uses the constructed (R, lam) of A = R diag(lam) R^T (A itself is that product rounded to binary64)',
               'jax.argsort is stable (ties keep the operand order) -- the translator models argsort of a 2-vector as a swap iff the second entry is strictly smaller',
               'trig-stage theorems: hypothesis |rr| <= 1 (clamp inactive), which holds for every real symmetric tensor in exact arithmetic by '
               'the spectral theorem (not proved; C12_trig_argument_bounded derives it from three real roots)',
               'deflation theorems: exact real arithmetic, lam an exact simple root of the characteristic polynomial of the deviator (the routine '
               'runs it with the Pade-computed eval2, within 4e-14 sqrt(-c2/3) of such a root by C12_trig_root_error)',
               'eig_compose (the chained stage kernels the theorems are about) equals the one-piece segment eig_deflate: by bit-exact execution '
               'at binary64 on every run, not as a Coq equality; generated eig_full_pre vs implementation: eigenvalues 1e-12 max|A|, '
               'normalised eigenvectors 1e-9 at relative gaps >= 1e-4; Vieta / eigenvector conclusions on the implementation: 1e-12 / 1e-10 relative',
               'Denman-Beavers: hypothesis dbp_regular (every scaled M_k invertible); the scale factors are inputs of the model (logged from a '
               'numpy replica of the loop whose X and pass count are compared with LinAlg.sqrtm_dbp: 1e-9 relative, +-1 pass); 3x3 only',
               'jax.jvp applies the custom rules that the library registers']
RULE = ('symmetric 3x3 tensors A = s R diag(l) R^T: s over 1e-20..1e20 (40 decades), eigenvalue gaps exactly 0 (diagonal / permuted '
        'construction), 1e-14..1 relative, rank deficient, generic and in-plane block orientations; each evaluated as a single compiled '
        'call and inside jit(vmap) batches; SPD tensors for sqrt/log/pow; dense SPD-spectrum matrices of size 2..10; a case is '
        'non-trivial when A is not a multiple of the identity; distinct = distinct tensors; round 3: nearly hydrostatic tensors '
        's R diag(1, 1+g a, 1-g b) R^T with spread g stratified over 1e-12..1e-6 (40 decades of s for the decomposition, 1e-2..1e2 for the '
        'functions); derivative-rule cases stratified over relative gaps 1e-9..1e-3 of one eigenvalue pair, tensor magnitudes 1e-10..1e6 with '
        'well separated eigenvalues, and nearly hydrostatic states, with random symmetric directions plus a shear inside the close pair; '
        'eigenvalue pairs for the relative-difference kernels: nearly equal (1e-14..4e-2 relative), around the 5 % Taylor switch, around the '
        'small/big = 1/2 switch, ratios down to 1e-3, both operand orders, exponents m in +-[0.25, 3]; round 4: the same tensor kinds '
        '(magnitudes 1e-2..1e2) through eigen_sym33_non_unit for the deflation streams (pivot-row distribution printed), raw random '
        'arguments with exact zeros for the kernel-equality stream; 3x3 matrices with spectrum in [0.1, 10], symmetric and non-symmetric, '
        'for the Denman-Beavers stream')
IMPORTS = ['From OV.gen Require Import Gen_TensorMathFun.', 'From OV.model Require Import M_C12.']

TOL = 1e-11    # single compiled call
TOLB = TOL     # inside compiled batches: the SAME tolerance as the single call since /repo e63b801 (finding EIGVMAP fixed; it was 1e-9
               # with near-degenerate spectra excused while the finding was open)
TOLD = 1e-9


def qm(A):
    return '[' + '; '.join('[' + '; '.join(C.cq(float(x)) for x in row) + ']' for row in A) + ']'


def ql(v):
    return '[' + '; '.join(C.cq(float(x)) for x in v) + ']'


def qtol(t):
    from fractions import Fraction
    if t < 1e-20:       # tiny absolute tolerances (derivatives of tensors of magnitude 1e-10): exact, limit_denominator would return 0
        return C.cq(Fraction(t))
    return C.cq(Fraction(t).limit_denominator(10 ** 30) if t < 1e-3 else Fraction(t))


def rot(r, inplane=False):
    if inplane:
        t = r.uniform(0, 2 * math.pi)
        c, s = math.cos(t), math.sin(t)
        return [[c, -s, 0.0], [s, c, 0.0], [0.0, 0.0, 1.0]]
    q = [r.gauss(0, 1) for _ in range(4)]
    n = math.sqrt(sum(x * x for x in q)) or 1.0
    w, x, y, z = [v / n for v in q]
    return [[1 - 2 * (y * y + z * z), 2 * (x * y - z * w), 2 * (x * z + y * w)],
            [2 * (x * y + z * w), 1 - 2 * (x * x + z * z), 2 * (y * z - x * w)],
            [2 * (x * z - y * w), 2 * (y * z + x * w), 1 - 2 * (x * x + y * y)]]


def gen_sym(r, spd=False, wide=True):
    """-> (A as numpy array, kind, relative gap)"""
    import numpy as onp
    kind = r.choice(['generic', 'gap_small', 'double_exact', 'triple', 'rank_def', 'inplane', 'double_rot', 'gap_tiny'])
    s = 10.0 ** (r.uniform(-20, 20) if wide else r.uniform(-2, 2))
    l = sorted([r.uniform(0.2, 3.0) if spd else r.uniform(-3, 3) for _ in range(3)])
    if kind == 'gap_small':
        l[1] = l[0] * (1 + 10.0 ** r.uniform(-9, -2))
    elif kind == 'gap_tiny':
        l[1] = l[0] * (1 + 10.0 ** r.uniform(-15, -10))
    elif kind in ('double_exact', 'double_rot'):
        l[1] = l[0]
    elif kind == 'triple':
        l[1] = l[2] = l[0]
    elif kind == 'rank_def' and not spd:
        l[r.randrange(3)] = 0.0
    if kind == 'double_exact':
        # exactly representable double eigenvalue: diagonal in a permuted basis (no rounding)
        p = [0, 1, 2]
        r.shuffle(p)
        A = onp.zeros((3, 3))
        for i in range(3):
            A[p[i], p[i]] = l[i]
        A = A * s
    else:
        R = onp.array(rot(r, inplane=(kind == 'inplane')))
        A = (R * onp.array(l)) @ R.T
        A = 0.5 * (A + A.T) * s
    w = onp.linalg.eigvalsh(A / max(onp.max(onp.abs(A)), 1e-300))
    gap = float(min(w[1] - w[0], w[2] - w[1]))
    return A, kind, gap


_JIT = {}


def jf(name, f, batch):
    import jax
    key = (name, batch)
    if key not in _JIT:
        _JIT[key] = jax.jit(jax.vmap(f)) if batch else jax.jit(f)
    return _JIT[key]


def run_checks(ctx, n_eig, n_fun, n_dense):
    """build all checker expressions on implementation outputs; returns list of (expr, meta)"""
    import jax
    import jax.numpy as np
    import numpy as onp
    import optimism  # noqa: F401
    from optimism import TensorMath as TM
    from optimism import LinAlg
    r = ctx.rng('c12')
    items = []
    tq, tdq = qtol(TOL), qtol(TOLD)
    tq0 = tq
    # ---- eigen-decomposition, single compiled call and compiled batch
    As = [gen_sym(r) for _ in range(n_eig)]
    stack = np.array([a[0] for a in As])
    lamB, VB = jf('eig', TM.eigen_sym33_unit, True)(stack)
    lamB, VB = onp.array(lamB), onp.array(VB)
    for i, (A, kind, gap) in enumerate(As):
        lam1, V1 = jf('eig', TM.eigen_sym33_unit, False)(np.array(A))
        for batch, lam, V in ((False, onp.array(lam1), onp.array(V1)), (True, lamB[i], VB[i])):
            ok_fin = bool(onp.all(onp.isfinite(lam)) and onp.all(onp.isfinite(V)))
            meta = dict(check='eig', kind=kind, gap=gap, batch=batch, A=A.tolist(), lam=lam.tolist(), V=V.tolist())
            if not ok_fin:
                items.append((None, meta))
            else:
                items.append(('benc (check_eig %s %s %s %s)' % (qm(A), ql(lam), qm(V), qtol(TOLB) if batch else tq), meta))
    # ---- tensor functions on SPD tensors (moderate scale so that exp does not overflow), both execution modes
    Fs = [gen_sym(r, spd=True, wide=False) for _ in range(n_fun)]
    fstack = np.array([a[0] for a in Fs])
    Qs = [onp.array(rot(r, inplane=(k % 3 == 0))) for k in range(n_fun)]
    qstack = np.array([Qs[k].T @ Fs[k][0] @ Qs[k] for k in range(n_fun)])
    qstack = 0.5 * (qstack + np.transpose(qstack, (0, 2, 1)))
    funs = {'sqrt': TM.sqrt_symm, 'log': TM.log_symm, 'exp': (lambda B: TM.exp_symm(B)),
            'pow_p': (lambda B: TM.pow_symm(B, 0.7)), 'pow_m': (lambda B: TM.pow_symm(B, -0.7)), 'pow_2': (lambda B: TM.pow_symm(B, 2.0)),
            'pow_inv': (lambda B: TM.pow_symm(B, -1.0))}
    for batch in (False, True):
        out, outq = {}, {}
        for nm, f in funs.items():
            g = jf(nm, f, batch)
            if batch:
                out[nm], outq[nm] = onp.array(g(fstack)), onp.array(g(qstack))
            else:
                out[nm] = onp.array([onp.array(g(a)) for a in fstack])
                outq[nm] = onp.array([onp.array(g(a)) for a in qstack])
        loge = jf('log', TM.log_symm, batch)
        expe = jf('exp', funs['exp'], batch)
        tl = TOLB if batch else TOL
        tq = qtol(tl)
        for k, (A, kind, gap) in enumerate(Fs):
            nA = float(onp.max(onp.sum(onp.abs(A), axis=1)))
            I3 = onp.eye(3)
            meta = dict(kind=kind, gap=gap, batch=batch, A=A.tolist())
            S = out['sqrt'][k]
            items.append(('benc (check_prod %s %s %s %s)' % (qm(S), qm(S), qm(A), qtol(tl * nA)), dict(meta, check='sqrt*sqrt=A')))
            items.append(('benc (check_prod %s %s %s %s)' % (qm(out['pow_p'][k]), qm(out['pow_m'][k]), qm(I3), tq), dict(meta, check='pow(m)*pow(-m)=I')))
            items.append(('benc (check_prod %s %s %s %s)' % (qm(A), qm(A), qm(out['pow_2'][k]), qtol(tl * nA * nA)), dict(meta, check='pow(A,2)=A*A')))
            items.append(('benc (check_prod %s %s %s %s)' % (qm(A), qm(out['pow_inv'][k]), qm(I3), tq), dict(meta, check='A*pow(A,-1)=I')))
            L = out['log'][k]
            EL = onp.array(expe(np.array(L))) if not batch else onp.array(expe(np.array([L, L]))[0])
            items.append(('benc (check_prod %s %s %s %s)' % (qm(EL), qm(I3), qm(A), qtol(tl * nA)), dict(meta, check='exp(log A)=A')))
            Ex = out['exp'][k] if nA < 3 else None       # log(exp A): conditioned like exp(2|A|)
            if Ex is not None:
                LE = onp.array(loge(np.array(Ex))) if not batch else onp.array(loge(np.array([Ex, Ex]))[0])
                items.append(('benc (check_prod %s %s %s %s)' % (qm(LE), qm(I3), qm(A), qtol(tl * math.exp(2 * nA))), dict(meta, check='log(exp A)=A')))
            for nm in ('sqrt', 'log', 'pow_p'):
                fA, fQ = out[nm][k], outq[nm][k]
                nf = float(onp.max(onp.sum(onp.abs(fA), axis=1))) + 1e-300
                items.append(('benc (check_equivariant %s %s %s %s)' % (qm(fQ), qm(Qs[k]), qm(fA), qtol(20 * tl * max(nf, 1.0))),
                              dict(meta, check='equivariance of ' + nm, Q=Qs[k].tolist())))
    tq = tq0
    # ---- derivative rules (custom JVPs) checked through algebraic identities of the Frechet derivative
    for k, (A, kind, gap) in enumerate(Fs):
        D = onp.array([[r.uniform(-1, 1) for _ in range(3)] for _ in range(3)])
        D = 0.5 * (D + D.T)
        nA = float(onp.max(onp.sum(onp.abs(A), axis=1)))
        meta = dict(kind=kind, gap=gap, batch=False, A=A.tolist(), D=D.tolist())
        S, Ls = jf('jvp_sqrt', lambda a, d: jax.jvp(TM.sqrt_symm, (a,), (d,)), False)(np.array(A), np.array(D))
        items.append(('benc (check_sylvester %s %s %s %s)' % (qm(onp.array(S)), qm(onp.array(Ls)), qm(D), qtol(TOLD * max(1.0, 1 / math.sqrt(nA)))),
                      dict(meta, check='d sqrt: S L + L S = D')))
        pow_ok = gap >= 1e-4   # pow_symm documents that its derivative is inaccurate at nearly repeated eigenvalues: outside the property
        if not pow_ok:
            ctx.count('pow_derivative_skipped_near_degenerate')
        _, Li = jf('jvp_inv', lambda a, d: jax.jvp(lambda x: TM.pow_symm(x, -1.0), (a,), (d,)), False)(np.array(A), np.array(D))
        sc = float(onp.max(onp.abs(onp.array(Li)))) * nA * nA + 1.0
        if pow_ok:
            items.append(('benc (check_inverse_jvp %s %s %s %s)' % (qm(A), qm(onp.array(Li)), qm(D), qtol(TOLD * sc)),
                          dict(meta, check='d pow(-1): A L A = -D')))
        _, L2 = jf('jvp_sq', lambda a, d: jax.jvp(lambda x: TM.pow_symm(x, 2.0), (a,), (d,)), False)(np.array(A), np.array(D))
        if pow_ok:
            items.append(('benc (check_sylvester %s %s %s %s)' % (qm(A), qm(D), qm(onp.array(L2)), qtol(TOLD * max(nA, 1.0))),
                          dict(meta, check='d pow(2): L = A D + D A')))
        # exp / log: central differences of the implementation itself (test, not certified)
        for nm, f in (('exp', TM.exp_symm), ('log', TM.log_symm)):
            if nm == 'exp' and nA > 20:
                continue
            g = jf(nm, f, False)
            _, Lx = jf('jvp_' + nm, lambda a, d, f=f: jax.jvp(f, (a,), (d,)), False)(np.array(A), np.array(D))
            h = 1e-5 * min(1.0, float(onp.min(onp.abs(onp.linalg.eigvalsh(A)))))
            fd = (onp.array(g(np.array(A + h * D))) - onp.array(g(np.array(A - h * D)))) / (2 * h)
            err = float(onp.max(onp.abs(onp.array(Lx) - fd)))
            scale = float(onp.max(onp.abs(fd))) + 1e-300
            ctx.count('central_difference_checks')
            if not err <= 1e-6 * scale + 1e-9:
                ctx.fail('conclusion', 'derivative rule of %s_symm differs from central differences by %.3g (scale %.3g) at a tensor with relative eigenvalue gap %.3g'
                         % (nm, err, scale, gap), case=dict(meta, check='d ' + nm + ' vs central differences', err=err), concrete=True)
    # ---- helpers: inverse and polar decomposition
    for k, (A, kind, gap) in enumerate(Fs[: max(4, n_fun // 3)]):
        G = onp.array(rot(r)) @ A
        Ai = onp.array(jf('inv', TM.inv, False)(np.array(G)))
        items.append(('benc (check_prod %s %s %s %s)' % (qm(G), qm(Ai), qm(onp.eye(3)), tq), dict(check='A*inv(A)=I', kind=kind, gap=gap, batch=False, A=G.tolist())))
        Rm, U = jf('polar', TM.right_polar_decomposition, False)(np.array(G))
        Rm, U = onp.array(Rm), onp.array(U)
        nG = float(onp.max(onp.sum(onp.abs(G), axis=1)))
        items.append(('benc (check_prod %s %s %s %s)' % (qm(Rm), qm(U), qm(G), qtol(TOL * nG)), dict(check='polar R*U=F', kind=kind, gap=gap, batch=False, A=G.tolist())))
        items.append(('benc (check_prod %s %s %s %s)' % (qm(Rm.T), qm(Rm), qm(onp.eye(3)), tq), dict(check='polar R^T R=I', kind=kind, gap=gap, batch=False, A=G.tolist())))
        items.append(('benc (check_symmetric %s %s)' % (qm(U), qtol(TOL * math.sqrt(nG * nG))), dict(check='polar U symmetric', kind=kind, gap=gap, batch=False, A=G.tolist())))
    # ---- detpIm1 against the exact rational value of det(A+I)-1 (python Fractions; a test, the identity itself is theorem C12_detpIm1)
    from fractions import Fraction
    jd = jf('detpIm1', TM.detpIm1, False)
    for k in range(max(10, n_fun)):
        mag = 10.0 ** r.uniform(-12, 0)
        A = [[mag * r.uniform(-1, 1) for _ in range(3)] for _ in range(3)]
        Fq = [[Fraction(A[i][j]) + (1 if i == j else 0) for j in range(3)] for i in range(3)]
        dq = (Fq[0][0] * (Fq[1][1] * Fq[2][2] - Fq[1][2] * Fq[2][1]) - Fq[0][1] * (Fq[1][0] * Fq[2][2] - Fq[1][2] * Fq[2][0])
              + Fq[0][2] * (Fq[1][0] * Fq[2][1] - Fq[1][1] * Fq[2][0])) - 1
        got = float(jd(np.array(A)))
        ctx.count('detpIm1_checks')
        scale = sum(abs(A[i][i]) for i in range(3)) + 3 * mag * mag
        if not abs(Fraction(got) - dq) <= Fraction(16 * 2.220446049250313e-16 * scale):
            ctx.fail('conclusion', 'detpIm1 differs from the exact det(A+I)-1 by %.3g at |A| ~ %.3g' % (float(abs(Fraction(got) - dq)), mag),
                     case=dict(check='detpIm1', kind='helper', gap=1.0, batch=False, A=A, value=got, exact=float(dq)), concrete=True)
    # ---- dense square root and logarithm, sizes 2..10
    for k in range(n_dense):
        n = 2 + (k % 9)
        X = onp.array([[r.gauss(0, 1) for _ in range(n)] for _ in range(n)])
        w = onp.array([10.0 ** r.uniform(-1, 1) for _ in range(n)])
        if k % 2 == 0:
            Qm, _ = onp.linalg.qr(X)
            A = (Qm * w) @ Qm.T
            A = 0.5 * (A + A.T)
        else:
            X = X + n * onp.eye(n)
            A = X @ onp.diag(w) @ onp.linalg.inv(X)          # non-symmetric, positive spectrum
        nA = float(onp.max(onp.sum(onp.abs(A), axis=1)))
        cond = float(onp.linalg.cond(A))
        S = onp.array(LinAlg.sqrtm(np.array(A)))
        meta = dict(kind='dense n=%d %s' % (n, 'spd' if k % 2 == 0 else 'general'), gap=1.0, batch=False, A=A.tolist())
        items.append(('benc (check_prod %s %s %s %s)' % (qm(S), qm(S), qm(A), qtol(1e-10 * nA * max(1.0, cond / 100))), dict(meta, check='sqrtm: S*S=A')))
        Lg = onp.array(LinAlg.logm_iss(np.array(A)))
        EL = onp.array(jax.scipy.linalg.expm(np.array(Lg)))
        items.append(('benc (check_prod %s %s %s %s)' % (qm(EL), qm(onp.eye(n)), qm(A), qtol(1e-9 * nA * max(1.0, cond / 100))), dict(meta, check='logm_iss: expm(logm A)=A')))
    return items


TOLT = 1e-13   # nearly hydrostatic stream: measured <= 3e-15 on the unchanged tree (single call and compiled batch)
TOLJ = 1e-11   # derivative rules versus the closed-form Daleckii-Krein derivative: measured <= 4e-14 (single call)


def gen_near_triple(r, k, wide):
    """A = s R diag(1, 1+g a, 1-g b) R^T: all three eigenvalues within a relative spread g in 1e-12..1e-6 (stratified by k), none
    equal; magnitudes over 40 decades when `wide`; generic and in-plane block orientations"""
    import numpy as onp
    s = 10.0 ** (r.uniform(-20, 20) if wide else r.uniform(-2, 2))
    g = 10.0 ** (-12 + (k % 6) + r.uniform(0, 1))
    l = [1.0, 1.0 + g * r.uniform(0.3, 1.0), 1.0 - g * r.uniform(0.3, 1.0)]
    r.shuffle(l)
    R = onp.array(rot(r, inplane=(k % 3 == 0)))
    A = (R * onp.array(l)) @ R.T
    A = 0.5 * (A + A.T) * s
    return A, g


def dk_reference(R, lam, E, fname, m=None):
    """closed-form Frechet derivative L_f(A, E) = R [G o (R^T E R)] R^T for A = R diag(lam) R^T, G_ii = f'(lam_i),
    G_ij = (f(lam_i) - f(lam_j)) / (lam_i - lam_j), the entries of G computed with 60-digit decimal arithmetic (independent of
    the library and of binary64 cancellation)"""
    import numpy as onp
    from decimal import Decimal as D, getcontext
    getcontext().prec = 60

    def f(x):
        if fname == 'sqrt':
            return x.sqrt()
        if fname == 'log':
            return x.ln()
        if fname == 'exp':
            return x.exp()
        return (D(m) * x.ln()).exp()

    def fp(x):
        if fname == 'sqrt':
            return 1 / (2 * x.sqrt())
        if fname == 'log':
            return 1 / x
        if fname == 'exp':
            return x.exp()
        return D(m) * ((D(m) - 1) * x.ln()).exp()
    dl = [D(float(x)) for x in lam]
    G = onp.zeros((3, 3))
    for i in range(3):
        for j in range(3):
            G[i, j] = float(fp(dl[i])) if dl[i] == dl[j] else float((f(dl[i]) - f(dl[j])) / (dl[i] - dl[j]))
    return R @ (G * (R.T @ E @ R)) @ R.T


def run_tight(ctx, n_nt, n_ntf, n_jvp):
    """round 3 streams (after two seeded changes were missed): (i) nearly hydrostatic tensors -- three eigenvalues within 1e-12..1e-6
    relative, none equal -- decomposed and pushed through the spectral functions, certified with a tolerance that is tight relative
    to |A| (1e-13); (ii) the derivative rules against the closed-form Daleckii-Krein derivative at relative gaps 1e-9..1e-3, tensor
    magnitudes 1e-10..1e6 and nearly hydrostatic states (1e-11 relative).  -> list of (expr, meta)"""
    import jax
    import jax.numpy as np
    import numpy as onp
    import optimism  # noqa: F401
    from optimism import TensorMath as TM
    r = ctx.rng('c12tight')
    items = []
    I3 = onp.eye(3)
    # ---- (i) eigen-decomposition of nearly hydrostatic tensors, single compiled call and compiled batch
    As = [gen_near_triple(r, k, wide=(k % 2 == 0)) for k in range(n_nt)]
    stack = np.array([a[0] for a in As])
    lamB, VB = jf('eig', TM.eigen_sym33_unit, True)(stack)
    lamB, VB = onp.array(lamB), onp.array(VB)
    for i, (A, g) in enumerate(As):
        lam1, V1 = jf('eig', TM.eigen_sym33_unit, False)(np.array(A))
        for batch, lam, V in ((False, onp.array(lam1), onp.array(V1)), (True, lamB[i], VB[i])):
            meta = dict(check='eig', kind='near_triple', gap=g, batch=batch, A=A.tolist(), lam=lam.tolist(), V=V.tolist())
            ctx.count('near_triple_decompositions')
            if not (onp.all(onp.isfinite(lam)) and onp.all(onp.isfinite(V))):
                items.append((None, meta))
            else:
                items.append(('benc (check_eig %s %s %s %s)' % (qm(A), ql(lam), qm(V), qtol(TOLT)), meta))
    # ---- spectral functions of nearly hydrostatic SPD tensors
    Fs = [gen_near_triple(r, k, wide=False) for k in range(n_ntf)]
    fstack = np.array([a[0] for a in Fs])
    funs = {'sqrt': TM.sqrt_symm, 'log': TM.log_symm, 'exp': (lambda B: TM.exp_symm(B)),
            'pow_p': (lambda B: TM.pow_symm(B, 0.7)), 'pow_m': (lambda B: TM.pow_symm(B, -0.7)), 'pow_2': (lambda B: TM.pow_symm(B, 2.0))}
    for batch in (False, True):
        out = {}
        for nm, f in funs.items():
            g_ = jf(nm, f, batch)
            out[nm] = onp.array(g_(fstack)) if batch else onp.array([onp.array(g_(a)) for a in fstack])
        expe = jf('exp', funs['exp'], batch)
        for k, (A, g) in enumerate(Fs):
            nA = float(onp.max(onp.sum(onp.abs(A), axis=1)))
            meta = dict(kind='near_triple', gap=g, batch=batch, A=A.tolist())
            S = out['sqrt'][k]
            items.append(('benc (check_prod %s %s %s %s)' % (qm(S), qm(S), qm(A), qtol(TOLT * nA)), dict(meta, check='sqrt*sqrt=A')))
            items.append(('benc (check_prod %s %s %s %s)' % (qm(out['pow_p'][k]), qm(out['pow_m'][k]), qm(I3), qtol(TOLT)), dict(meta, check='pow(m)*pow(-m)=I')))
            items.append(('benc (check_prod %s %s %s %s)' % (qm(A), qm(A), qm(out['pow_2'][k]), qtol(TOLT * nA * nA)), dict(meta, check='pow(A,2)=A*A')))
            L = out['log'][k]
            EL = onp.array(expe(np.array(L))) if not batch else onp.array(expe(np.array([L, L]))[0])
            items.append(('benc (check_prod %s %s %s %s)' % (qm(EL), qm(I3), qm(A), qtol(TOLT * nA)), dict(meta, check='exp(log A)=A')))
            ctx.count('near_triple_function_identities', 4)
    # ---- (ii) derivative rules versus the closed-form Daleckii-Krein derivative
    powers = (0.25, 3.0, -1.0, -0.7)
    rules = [('sqrt', TM.sqrt_symm, None), ('log', TM.log_symm, None), ('exp', TM.exp_symm, None)]
    rules += [('pow', (lambda B, m=m: TM.pow_symm(B, m)), m) for m in powers]
    cases = []
    for k in range(n_jvp):
        mode = ('near_double', 'magnitude', 'near_double', 'magnitude', 'near_triple')[k % 5]
        if mode == 'near_double':      # relative gap 1e-9 .. 1e-3, stratified
            s = 10.0 ** r.uniform(-2, 2)
            g = 10.0 ** (-9 + ((k // 5 * 2 + k % 5 // 2) % 6) + r.uniform(0, 1))
            a = r.uniform(0.5, 2.0)
            l = [a, a * (1 + g), a * r.uniform(1.5, 3.0)]
        elif mode == 'near_triple':
            s = 10.0 ** r.uniform(-2, 2)
            g = 10.0 ** r.uniform(-9, -3)
            l = [1.0, 1 + g * r.uniform(0.3, 1), 1 - g * r.uniform(0.3, 1)]
        else:                          # well separated eigenvalues, magnitude 1e-10 .. 1e6, stratified
            s = 10.0 ** ((-10.0, -9.0, -8.5, -6.0, -3.0, 0.0, 3.0, 6.0)[(k // 5 * 2 + k % 5 // 2) % 8] + r.uniform(-0.3, 0.3))
            g = 1.0
            l = [1.0, r.uniform(1.5, 2.5), r.uniform(3.0, 4.0)]
        r.shuffle(l)
        lam = [s * x for x in l]
        R = onp.array(rot(r, inplane=(k % 3 == 0)))
        A = (R * onp.array(lam)) @ R.T
        A = 0.5 * (A + A.T)
        E = onp.array([[r.uniform(-1, 1) for _ in range(3)] for _ in range(3)])
        E = 0.5 * (E + E.T)
        if k % 2 == 0:   # add a shear inside the first two eigenvectors (the pair that is nearly repeated in near_double mode)
            E = E + onp.outer(R[:, 0], R[:, 1]) + onp.outer(R[:, 1], R[:, 0])
        cases.append((mode, s, g, lam, R, A, E))
    for nm, f, m in rules:
        key = nm if m is None else 'pow%g' % m
        tan = lambda a, d, f=f: jax.jvp(f, (a,), (d,))[1]
        sel = []
        for c in cases:
            mode, s, g, lam, R, A, E = c
            if nm == 'exp' and max(lam) > 20:
                continue
            if nm == 'pow' and g < 1e-4:
                # pow_symm documents that its derivative is inaccurate at nearly repeated eigenvalues: outside the property
                ctx.count('pow_derivative_skipped_near_degenerate')
                continue
            sel.append(c)
        if not sel:
            continue
        Tb = onp.array(jf('dk_' + key, tan, True)(np.array([c[5] for c in sel]), np.array([c[6] for c in sel])))
        for i, (mode, s, g, lam, R, A, E) in enumerate(sel):
            ref = dk_reference(R, lam, E, nm, m)
            sc = float(onp.max(onp.abs(ref)))
            T1 = onp.array(jf('dk_' + key, tan, False)(np.array(A), np.array(E)))
            for batch, T in ((False, T1), (True, Tb[i])):
                # (until /repo e63b801 batched near_double cases with g < 1e-6 were skipped as the range of the then open finding
                #  EIGVMAP and the others got 1e-9; now every case is checked, single call and batch at the same tolerance)
                if batch and mode == 'near_double' and g < 1e-6:
                    ctx.count('batched_derivative_checked_former_EIGVMAP_range')
                tol = TOLJ * sc
                meta = dict(check='d %s vs closed-form Daleckii-Krein' % key, kind=mode, gap=g, batch=batch, A=A.tolist(), D=E.tolist(),
                            scale=s, tangent=T.tolist(), reference=ref.tolist())
                ctx.count('derivative_rule_vs_closed_form[%s]' % mode)
                if not onp.all(onp.isfinite(T)):
                    items.append((None, meta))
                else:
                    items.append(('benc (check_prod %s %s %s %s)' % (qm(T), qm(I3), qm(ref), qtol(tol)), meta))
    return items


def l1_scalar(ctx):
    """generated scalar kernels at binary64 vs the implementation"""
    import optimism  # noqa: F401
    from optimism import TensorMath as TM
    r = ctx.rng('l1')
    exprs, want = [], []
    for _ in range(ctx.n(60, 600)):
        x = r.choice([0.0, 1.0, r.uniform(0, 1), r.uniform(0.99, 1.0), r.uniform(0, 1e-6)])
        l1 = 10.0 ** r.uniform(-3, 3)
        l2 = l1 * (1 + r.choice([1, -1]) * 10.0 ** r.uniform(-12, 0)) if r.random() < 0.7 else 10.0 ** r.uniform(-3, 3)
        l2 = abs(l2) + 1e-300
        e1, e2 = r.uniform(-3, 3), r.uniform(-3, 3)
        if e1 == e2 or l1 == l2:
            continue
        exprs.append('fencs [cos_of_acos_divided_by_3 %s; _sqrt_relative_difference %s %s; _exp_relative_difference %s %s; _relative_log_difference_taylor %s %s]'
                     % (C.cf(x), C.cf(l1), C.cf(l2), C.cf(e1), C.cf(e2), C.cf(l1), C.cf(l2)))
        want.append([float(TM.cos_of_acos_divided_by_3(x)), float(TM._sqrt_relative_difference(l1, l2)),
                     float(TM._exp_relative_difference(e1, e2)), float(TM._relative_log_difference_taylor(l1, l2))])
    res = C.coq_eval(IMPORTS, exprs, 'C12s', shard=200)
    mism = 0
    for zs, ws, ex in zip(res, want, exprs):
        for j, (gv, wv) in enumerate(zip(C.dec_floats(zs), ws)):
            ctx.count('model_vs_impl_comparisons')
            # the exp kernel (j=2) uses expm1 in the source and exp-1 in the model: cancellation when |e1-e2| is small
            rt = 1e-9 if j != 2 else 1e-6
            if not C.close(gv, wv, rtol=rt, atol=1e-300):
                mism += 1
                if mism < 8:
                    ctx.fail('correspondence', 'generated scalar kernel #%d gives %r, implementation %r (%s)' % (j, gv, wv, ex[:200]),
                             case=dict(check='correspondence', kernel=j, model=gv, impl=wv))
    ctx.count('model_vs_impl_mismatches', mism)


def gen_pair(r):
    """eigenvalue pair for the relative-difference kernels -> (l1, l2, mode): nearly equal down to 1e-14 relative, around the 5 %
    Taylor switch, around the small/big = 1/2 switch of the power kernel, far apart (ratio down to 1e-3); random operand order"""
    l1 = 10.0 ** r.uniform(-3, 3)
    mode = r.choice(['near', 'taylor_switch', 'half_switch', 'far'])
    if mode == 'near':
        l2 = l1 * (1 + r.choice([1, -1]) * 10.0 ** r.uniform(-14, -1.4))
    elif mode == 'taylor_switch':
        l2 = l1 * (1 + r.choice([1, -1]) * r.uniform(0.03, 0.07))
    elif mode == 'half_switch':
        l2 = l1 * r.uniform(0.45, 0.55)
    else:
        l2 = l1 * 10.0 ** r.uniform(-3, 0)
    if r.random() < 0.5:
        l1, l2 = l2, l1
    return l1, l2, mode


def rd_branches(ctx, l1, l2):
    """which selects of the source a pair takes (evidence only)"""
    small, big = (l2, l1) if abs(l2) < abs(l1) else (l1, l2)
    ctx.count('rd_argsort_swapped' if abs(l2) < abs(l1) else 'rd_argsort_in_order')
    ctx.count('rd_pow_nearOne' if small / big > 0.5 else 'rd_pow_far')
    ctx.count('rd_log_taylor_branch' if abs(l1 - l2) <= 0.05 * min(l1, l2) else 'rd_log_plain_branch')
    return small, big


def l1_rd(ctx):
    """round 3: the generated branching / argsort kernels (_relative_log_difference, _log_relative_difference,
    _pow_relative_difference) executed at binary64 versus the implementation.  The translator renders log1p(x) as ln(1 + x) and
    expm1(y) as exp(y) - 1, so the float model loses eps/|x| where the source does not: the tolerance states exactly that."""
    import optimism  # noqa: F401
    from optimism import TensorMath as TM
    r = ctx.rng('l1rd')
    eps = 2.220446049250313e-16
    exprs, want, tols = [], [], []
    for _ in range(ctx.n(60, 500)):
        l1, l2, mode = gen_pair(r)
        m = r.choice([-1.0, 2.0, 0.5, -0.7, 0.7, 3.0, r.uniform(0.25, 3), -r.uniform(0.25, 3)])
        if l1 == l2:
            continue
        small, big = rd_branches(ctx, l1, l2)
        x = abs(small / big - 1.0)
        exprs.append('fencs [_relative_log_difference %s %s; _log_relative_difference %s %s; _pow_relative_difference %s %s %s]'
                     % (C.cf(l1), C.cf(l2), C.cf(l1), C.cf(l2), C.cf(l1), C.cf(l2), C.cf(m)))
        want.append([float(TM._relative_log_difference(l1, l2)), float(TM._log_relative_difference(l1, l2)),
                     float(TM._pow_relative_difference(l1, l2, m))])
        tols.append([1e-9, 1e-9 + 8 * eps / x, 1e-9 + 16 * eps * (1 + 1 / abs(m)) / x])
    # coinciding arguments: the xIsZero select of the power kernel
    for _ in range(ctx.n(6, 40)):
        l = 10.0 ** r.uniform(-3, 3)
        m = r.choice([-1.0, 2.0, 0.5, -0.7, 3.0, r.uniform(-3, 3)])
        ctx.count('rd_pow_xIsZero')
        exprs.append('fencs [_pow_relative_difference %s %s %s]' % (C.cf(l), C.cf(l), C.cf(m)))
        want.append([float(TM._pow_relative_difference(l, l, m))])
        tols.append([1e-9])
    res = C.coq_eval(IMPORTS, exprs, 'C12rd', shard=200)
    mism = 0
    for zs, ws, ts, ex in zip(res, want, tols, exprs):
        for j, (gv, wv, rt) in enumerate(zip(C.dec_floats(zs), ws, ts)):
            ctx.count('model_vs_impl_comparisons')
            ctx.count('rd_model_vs_impl_comparisons')
            if not C.close(gv, wv, rtol=rt, atol=1e-300):
                mism += 1
                if mism < 8:
                    ctx.fail('correspondence', 'generated relative-difference kernel #%d gives %r, implementation %r (tolerance %.3g) (%s)'
                             % (j, gv, wv, rt, ex[:200]), case=dict(check='correspondence', kernel='rd%d' % j, model=gv, impl=wv))
    ctx.count('rd_model_vs_impl_mismatches', mism)


def l2_rd(ctx):
    """round 3: the conclusions of C12_log_taylor_truncation / C12_relative_log_difference_accuracy /
    C12_log_relative_difference_argsort / C12_pow_relative_difference_argsort evaluated on the IMPLEMENTATION's values, against the
    divided differences computed with 60-digit decimal arithmetic.  Tolerances: 1e-13 relative for the kernels made of + - * / log
    (a few binary64 roundings on top of the proved 1e-16 truncation error); 1e-12 for the two wired kernels (XLA's CPU log1p / expm1
    are themselves only accurate to ~2e-14 relative, measured)."""
    import optimism  # noqa: F401
    from optimism import TensorMath as TM
    from decimal import Decimal as D, getcontext
    getcontext().prec = 60
    r = ctx.rng('l2rd')
    for _ in range(ctx.n(80, 800)):
        l1, l2, mode = gen_pair(r)
        if l1 == l2:
            continue
        m = r.choice([-1.0, 2.0, 0.5, -0.7, 0.7, 3.0, r.uniform(0.25, 3), -r.uniform(0.25, 3)])
        ref = (D(l1).ln() - D(l2).ln()) / (D(l1) - D(l2))
        refp = ((D(m) * D(l1).ln()).exp() - (D(m) * D(l2).ln()).exp()) / (D(l1) - D(l2))
        rows = [('_relative_log_difference', float(TM._relative_log_difference(l1, l2)), ref, 1e-13),
                ('_log_relative_difference', float(TM._log_relative_difference(l1, l2)), ref, 1e-12),
                ('_pow_relative_difference', float(TM._pow_relative_difference(l1, l2, m)), refp, 1e-12)]
        if abs(l1 - l2) <= 0.05 * min(l1, l2):
            rows.append(('_relative_log_difference_taylor', float(TM._relative_log_difference_taylor(l1, l2)), ref, 1e-13))
        for nm, got, rf, tol in rows:
            ctx.count('rd_conclusion_checks')
            err = float(abs(D(got) - rf) / abs(rf)) if got == got and not math.isinf(got) else float('inf')
            if not err <= tol:
                gap = abs(l1 - l2) / max(l1, l2)
                if nm == '_pow_relative_difference' and gap < 1e-4:
                    # pow_symm documents that its derivative is inaccurate at nearly repeated eigenvalues: outside the property
                    ctx.count('rd_pow_inaccurate_near_degenerate')
                    continue
                ctx.fail('conclusion', '%s(%r, %r%s) differs from the divided difference by %.3g relative (tolerance %.3g, %s pair)'
                         % (nm, l1, l2, ', m=%r' % m if 'pow' in nm else '', err, tol, mode),
                         case=dict(check='relative difference ' + nm, kind=mode, gap=gap, batch=False, A=[l1, l2, m], value=got,
                                   exact=float(rf)), concrete=True)


def l1_trig(ctx):
    """round 3: the generated first stage of eigen_sym33_non_unit (mean, invariants, trisection argument, trigonometric root with the
    Pade kernel) executed at binary64 versus the implementation: c1 + eval2 must be the implementation's largest (rr >= 0) or smallest
    (rr < 0) eigenvalue; when the stage says `not c2 < -1e-30 c1^2` all three returned eigenvalues must be c1.  Plus the conclusion of
    C12_trig_root_residual on the implementation's value, with exact rational arithmetic: |p(lambda - c1)| <= 1e-12 (-c2/3)^(3/2) +
    (3 lambda'^2 + |c2|) 8 eps |A|  (p = characteristic polynomial of the deviator; the second term is the first-order effect of an
    absolute eigenvalue error of 8 eps |A|)."""
    import jax.numpy as np
    import numpy as onp
    import optimism  # noqa: F401
    from optimism import TensorMath as TM
    from fractions import Fraction
    r = ctx.rng('l1trig')
    eps = 2.220446049250313e-16
    f = jf('eig_non_unit', TM.eigen_sym33_non_unit, False)
    cases, exprs = [], []
    for _ in range(ctx.n(60, 600)):
        A, kind, gap = gen_sym(r, wide=False)
        A = onp.array(A)
        cases.append((A, kind, gap))
        exprs.append("fencs (let '(c1, c2, c3, rr, arg, e2) := eig_trig_stage %s in [c1; c2; rr; e2])" % ' '.join(C.cf(float(x)) for x in A.reshape(-1)))
    res = C.coq_eval(IMPORTS, exprs, 'C12trig', shard=200)
    mism = 0
    for (A, kind, gap), zs in zip(cases, res):
        c1, c2, rr, e2 = C.dec_floats(zs)
        ev = onp.array(f(np.array(A))[0])
        nA = float(onp.max(onp.abs(A)))
        ctx.count('trig_stage_model_vs_impl')
        if c2 < -1e-30 * c1 * c1:
            ctx.count('trig_stage_rr_nonnegative' if rr >= 0 else 'trig_stage_rr_negative')
            got, want = float(ev[2] if rr >= 0 else ev[0]), c1 + e2
            tol = (1e-13 if abs(rr) > 1e-12 else 1e-10) * nA
            ok = abs(got - want) <= tol
        else:
            ctx.count('trig_stage_isotropic_fallback')
            got, want, tol = [float(x) for x in ev], c1, 4 * eps * nA
            ok = all(abs(x - c1) <= tol for x in got)
        if not ok:
            mism += 1
            if mism < 6:
                ctx.fail('correspondence', 'generated eig_trig_stage gives c1 + eval2 = %r (c2 = %r, rr = %r), implementation eigenvalues %r [%s]'
                         % (want, c2, rr, ev.tolist(), kind), case=dict(check='correspondence', kernel='eig_trig_stage', kind=kind, gap=gap, batch=False, A=A.tolist()))
            continue
        # conclusion of the residual theorem on the implementation's eigenvalue, in exact rational arithmetic
        if c2 < -1e-30 * c1 * c1:
            S = [[(Fraction(float(A[i, j])) + Fraction(float(A[j, i]))) / 2 for j in range(3)] for i in range(3)]
            m = (S[0][0] + S[1][1] + S[2][2]) / 3
            D = [[S[i][j] - (m if i == j else 0) for j in range(3)] for i in range(3)]
            q2 = D[0][0] * D[1][1] + D[1][1] * D[2][2] + D[2][2] * D[0][0] - D[0][1] ** 2 - D[1][2] ** 2 - D[2][0] ** 2
            q3 = -(D[0][0] * (D[1][1] * D[2][2] - D[1][2] * D[2][1]) - D[0][1] * (D[1][0] * D[2][2] - D[1][2] * D[2][0])
                   + D[0][2] * (D[1][0] * D[2][1] - D[1][1] * D[2][0]))
            x = Fraction(float(got)) - m
            resid = abs(x ** 3 + q2 * x + q3)
            a3 = max(float(-q2) / 3, 0.0)
            bound = 1e-12 * a3 ** 1.5 + (3 * float(x) ** 2 + abs(float(q2))) * 8 * eps * nA
            ctx.count('trig_residual_conclusion_checks')
            if not float(resid) <= bound:
                ctx.fail('conclusion', 'extreme eigenvalue %r of eigen_sym33_non_unit leaves a residual %.3g in the characteristic polynomial of the '
                         'deviator (bound %.3g) [%s, relative gap %.3g]' % (got, float(resid), bound, kind, gap),
                         case=dict(check='trig root residual', kind=kind, gap=gap, batch=False, A=A.tolist(), value=got), concrete=True)
    ctx.count('trig_stage_mismatches', mism)


IMPORTS_EIG = ['From OV.gen Require Import Gen_TensorMathEig.', 'From OV.model Require Import M_C12_Defl.']
TOLE = 1e-12   # eigenvalues of the binary64 model vs the jitted implementation, relative to max|A| (measured <= 2e-15)


def _dev6(A):
    """the deviatoric entries exactly as eigen_sym33_non_unit computes them (same operations, same order, binary64)"""
    cxx, cyy, czz = float(A[0][0]), float(A[1][1]), float(A[2][2])
    cxy = 0.5 * (float(A[0][1]) + float(A[1][0]))
    cyz = 0.5 * (float(A[1][2]) + float(A[2][1]))
    czx = 0.5 * (float(A[2][0]) + float(A[0][2]))
    c1 = (cxx + cyy + czz) / 3.0
    return c1, [cxx - c1, cyy - c1, czz - c1, cxy, cyz, czx]


def l1_defl(ctx):
    """round 4: the part of eigen_sym33_non_unit after the trigonometric root.
    (i) the generated whole-routine prefix eig_full_pre (first statement .. evec1) executed at binary64 versus the implementation:
        eigenvalues (after the routine's own fallback select and sort, done here) within 1e-12 max|A|; eigenvectors (non-unit, compared
        after normalisation, up to sign) within 1e-9 when the relative eigenvalue gap is >= 1e-4;
    (ii) exact structural tie of the kernels the theorems are about: eig_compose (the four stage kernels chained in model/M_C12_Defl.v)
        and the one-piece segment kernel eig_deflate give bit-identical results, and both reproduce the corresponding outputs of
        eig_full_pre bit for bit when fed the deviatoric entries and eval2 (on tensors, and on raw random arguments incl. zeros);
    (iii) the conclusion of C12_deflation_exact on the IMPLEMENTATION's outputs in exact rational arithmetic: the elementary symmetric
        functions of the three returned eigenvalues equal trace / second invariant / determinant of sym A (Vieta) and every returned
        (non-unit) vector satisfies |S v - lambda v| <= 1e-10 max|A| |v|."""
    import jax.numpy as np
    import numpy as onp
    import optimism  # noqa: F401
    from optimism import TensorMath as TM
    from fractions import Fraction
    r = ctx.rng('l1defl')
    f = jf('eig_non_unit', TM.eigen_sym33_non_unit, False)
    cases, ex_full = [], []
    for _ in range(ctx.n(48, 480)):
        A, kind, gap = gen_sym(r, wide=False)
        A = onp.array(A)
        cases.append((A, kind, gap))
        ex_full.append("fencs (let '(c1, c2, e0, e1, e2, u0, u1, u2, w0, w1, w2, v0, v1, v2) := eig_full_pre %s in "
                       "[c1; c2; e0; e1; e2; u0; u1; u2; w0; w1; w2; v0; v1; v2])" % ' '.join(C.cf(float(x)) for x in A.reshape(-1)))
    res_full = C.coq_eval(IMPORTS_EIG, ex_full, 'C12eigf', shard=120)
    pat = ("fencs (let '(e0, e1, u0, u1, u2, w0, w1, w2, v0, v1, v2) := %s %s in [e0; e1; u0; u1; u2; w0; w1; w2; v0; v1; v2])")
    ex_seg, seg_meta = [], []
    for (A, kind, gap), zs in zip(cases, res_full):
        c1m, d6 = _dev6(A)
        out = C.dec_floats(zs)
        if not (c1m == out[0] or (c1m != c1m and out[0] != out[0])):
            ctx.fail('correspondence', 'harness replica of the mean differs from the generated kernel (%r vs %r)' % (c1m, out[0]),
                     case=dict(check='correspondence', kernel='eig_full_pre', kind=kind, gap=gap, batch=False, A=A.tolist()))
            continue
        args = ' '.join(C.cf(x) for x in d6 + [out[4]])
        ex_seg += [pat % ('eig_deflate', args), pat % ('eig_compose', args)]
        seg_meta.append((A, kind, gap, zs))
    raw = []
    for k in range(ctx.n(12, 80)):           # raw arguments: not traceless, lam not an eigenvalue, exact zeros -> inf / nan paths included
        d6 = [r.choice([0.0, r.uniform(-2, 2), r.uniform(-2, 2) * 10.0 ** r.uniform(-8, 0)]) for _ in range(6)]
        lam = r.choice([0.0, d6[0], r.uniform(-3, 3)])
        args = ' '.join(C.cf(x) for x in d6 + [lam])
        ex_seg += [pat % ('eig_deflate', args), pat % ('eig_compose', args)]
        raw.append(d6 + [lam])
    res_seg = C.coq_eval(IMPORTS_EIG, ex_seg, 'C12eigs', shard=160)
    bad = 0
    for i, (A, kind, gap, zs) in enumerate(seg_meta):
        zd, zc = res_seg[2 * i], res_seg[2 * i + 1]
        ctx.count('deflation_segment_vs_routine_exact')
        want = zs[4:8] + zs[10:]          # (eval0, eval1) and the nine vector components, as (mantissa, exponent) pairs
        if zd != want or zc != zd:
            bad += 1
            if bad < 5:
                ctx.fail('correspondence', 'the segment kernels disagree bit-wise: eig_deflate %s eig_full_pre, eig_compose %s eig_deflate [%s]'
                         % ('==' if zd == want else '!=', '==' if zc == zd else '!=', kind),
                         case=dict(check='correspondence', kernel='eig_deflate/eig_compose', kind=kind, gap=gap, batch=False, A=A.tolist()))
    for j, a in enumerate(raw):
        zd, zc = res_seg[2 * (len(seg_meta) + j)], res_seg[2 * (len(seg_meta) + j) + 1]
        ctx.count('deflation_compose_vs_segment_raw_exact')
        if zd != zc:
            bad += 1
            if bad < 5:
                ctx.fail('correspondence', 'eig_compose and eig_deflate disagree bit-wise on raw arguments %r' % (a,),
                         case=dict(check='correspondence', kernel='eig_compose', kind='raw', gap=1.0, batch=False, A=a))
    ctx.count('deflation_kernel_mismatches', bad)
    # ---- (i) model vs implementation, (iii) conclusions on the implementation
    mism = 0
    for (A, kind, gap), zs in zip(cases, res_full):
        c1, c2, e0, e1, e2, u0, u1, u2, w0, w1, w2, v0, v1, v2 = C.dec_floats(zs)
        ev, V = f(np.array(A))
        ev, V = onp.array(ev), onp.array(V)
        nA = float(onp.max(onp.abs(A)))
        ctx.count('deflation_model_vs_impl')
        if c2 < c1 * c1 * (-1e-30):
            lam_m = [e0 + c1, e1 + c1, e2 + c1]
            vec_m = [[u0, u1, u2], [w0, w1, w2], [v0, v1, v2]]
            _, d6 = _dev6(A)
            ks = [(d6[0] - e2) ** 2 + d6[3] ** 2 + d6[5] ** 2, d6[3] ** 2 + (d6[1] - e2) ** 2 + d6[4] ** 2, d6[5] ** 2 + d6[4] ** 2 + (d6[2] - e2) ** 2]
            ctx.count('deflation_pivot_row_%d' % (0 if ks[1] <= ks[0] and ks[2] <= ks[0] else (1 if ks[2] <= ks[1] else 2)))
        else:
            lam_m, vec_m = [c1, c1, c1], [[1.0, 0.0, 0.0], [0.0, 1.0, 0.0], [0.0, 0.0, 1.0]]
            ctx.count('deflation_isotropic_fallback')
        idx = sorted(range(3), key=lambda i: lam_m[i])
        ok = all(abs(lam_m[idx[j]] - float(ev[j])) <= TOLE * nA for j in range(3))
        if ok and gap >= 1e-4:
            for j in range(3):
                vm, vi = onp.array(vec_m[idx[j]]), V[:, j]
                cs = abs(float(vm @ vi)) / (float(onp.linalg.norm(vm)) * float(onp.linalg.norm(vi)) + 1e-300)
                ctx.count('deflation_eigenvector_comparisons')
                ok = ok and cs >= 1 - 1e-9
        if not ok:
            mism += 1
            if mism < 5:
                ctx.fail('correspondence', 'generated eig_full_pre gives eigenvalues %r, implementation %r (max|A| = %.3g) [%s, gap %.3g]'
                         % ([lam_m[i] for i in idx], ev.tolist(), nA, kind, gap),
                         case=dict(check='correspondence', kernel='eig_full_pre', kind=kind, gap=gap, batch=False, A=A.tolist()))
            continue
        S = [[(Fraction(float(A[i, j])) + Fraction(float(A[j, i]))) / 2 for j in range(3)] for i in range(3)]
        tr = S[0][0] + S[1][1] + S[2][2]
        i2 = S[0][0] * S[1][1] + S[1][1] * S[2][2] + S[2][2] * S[0][0] - S[0][1] ** 2 - S[1][2] ** 2 - S[2][0] ** 2
        dt = (S[0][0] * (S[1][1] * S[2][2] - S[1][2] * S[2][1]) - S[0][1] * (S[1][0] * S[2][2] - S[1][2] * S[2][0])
              + S[0][2] * (S[1][0] * S[2][1] - S[1][1] * S[2][0]))
        L = [Fraction(float(x)) for x in ev]
        errs = [abs(L[0] + L[1] + L[2] - tr) / Fraction(nA), abs(L[0] * L[1] + L[1] * L[2] + L[2] * L[0] - i2) / Fraction(nA) ** 2,
                abs(L[0] * L[1] * L[2] - dt) / Fraction(nA) ** 3]
        ctx.count('deflation_vieta_conclusion_checks')
        if not all(float(e) <= 1e-12 for e in errs):
            ctx.fail('conclusion', 'eigenvalues %r of eigen_sym33_non_unit violate Vieta (trace / second invariant / determinant errors %s relative) [%s, gap %.3g]'
                     % (ev.tolist(), ['%.3g' % float(e) for e in errs], kind, gap),
                     case=dict(check='deflation Vieta', kind=kind, gap=gap, batch=False, A=A.tolist(), lam=ev.tolist()), concrete=True)
        for j in range(3):
            v = [Fraction(float(x)) for x in V[:, j]]
            nv = max(abs(float(x)) for x in V[:, j])
            res = max(abs(sum(S[i][m] * v[m] for m in range(3)) - L[j] * v[i]) for i in range(3))
            ctx.count('deflation_eigenvector_conclusion_checks')
            if not (nv > 0 and float(res) <= 1e-10 * nA * nv):
                ctx.fail('conclusion', 'column %d of eigen_sym33_non_unit is not an eigenvector: |S v - lambda v| = %.3g, max|A| |v| = %.3g [%s, gap %.3g]'
                         % (j, float(res), nA * nv, kind, gap),
                         case=dict(check='deflation eigenvector', kind=kind, gap=gap, batch=False, A=A.tolist(), lam=ev.tolist(), V=V.tolist()), concrete=True)
                break
    ctx.count('deflation_model_mismatches', mism)


IMPORTS_DBP = ['From OV.model Require Import M_C08 M_C12_DBP.']


def _dbp_replica(A):
    """statement-by-statement numpy replica of LinAlg.sqrtm_dbp (dim = 3): -> (X, k, scale factors, worst relative defect of the
    invariant X_k^2 = A M_k over the passes)"""
    import numpy as onp
    dim = 3
    eps = 2.220446049250313e-16
    tol = 0.5 * math.sqrt(dim) * eps
    I = onp.identity(dim)
    X, M, err, k, diff = A.copy(), A.copy(), 1.7976931348623157e308, 0, 0.02
    gs, worst = [], 0.0
    while k < 32 and err > tol:
        g = 1.0 / abs(onp.linalg.det(M)) ** (1.0 / (2.0 * dim)) if diff >= 0.01 else 1.0
        gs.append(float(g))
        X = X * g
        M = M * (g * g)
        Y = X
        N = onp.linalg.inv(M)
        X = 0.5 * X @ (I + N)
        M = 0.5 * (I + 0.5 * (M + N))
        err = onp.linalg.norm(M - I, 'fro')
        diff = onp.linalg.norm(X - Y, 'fro') / onp.linalg.norm(X, 'fro')
        k += 1
        worst = max(worst, float(onp.max(onp.abs(X @ X - A @ M)) / onp.max(onp.abs(A @ M))))
    return X, k, gs, worst


def l1_dbp(ctx):
    """round 4: the Denman-Beavers hand model (model/M_C12_DBP.v) versus LinAlg.sqrtm_dbp on 3x3 matrices with positive spectrum.
    A numpy replica of the loop supplies the scale factors g_k (the model takes them as inputs) and the pass count; the pass count
    must equal the implementation's (+-1: the exit test compares a rounding-level quantity with 1.9e-16), the replica's X and the
    Coq model's X (binary64, dbp_iter over the logged factors) must equal the implementation's X to 1e-9 relative.  Conclusion of
    C12_dbp_invariant on the replica's iterates: |X_k^2 - A M_k| <= 1e-10 |A M_k| at every pass."""
    import jax.numpy as np
    import numpy as onp
    import optimism  # noqa: F401
    from optimism import LinAlg
    r = ctx.rng('l1dbp')
    cases, exprs = [], []
    for k in range(ctx.n(10, 80)):
        Xr = onp.array([[r.gauss(0, 1) for _ in range(3)] for _ in range(3)])
        w = onp.array([10.0 ** r.uniform(-1, 1) for _ in range(3)])
        if k % 2 == 0:
            Qm, _ = onp.linalg.qr(Xr)
            A = (Qm * w) @ Qm.T
            A = 0.5 * (A + A.T)
        else:
            Xr = Xr + 3 * onp.eye(3)
            A = Xr @ onp.diag(w) @ onp.linalg.inv(Xr)
        Xi, ki = LinAlg.sqrtm_dbp(np.array(A))
        Xi, ki = onp.array(Xi), int(ki)
        Xp, kp, gs, worst = _dbp_replica(A)
        cases.append((A, Xi, ki, Xp, kp, gs, worst))
        exprs.append('fencs (let X := fst (dbp_iter [%s] (%s, %s)) in [m00 X; m01 X; m02 X; m10 X; m11 X; m12 X; m20 X; m21 X; m22 X])'
                     % ('; '.join(C.cf(g) for g in gs), 'mk ' + ' '.join(C.cf(float(x)) for x in A.reshape(-1)),
                        'mk ' + ' '.join(C.cf(float(x)) for x in A.reshape(-1))))
    res = C.coq_eval(IMPORTS_DBP, exprs, 'C12dbp', shard=40)
    mism = 0
    for (A, Xi, ki, Xp, kp, gs, worst), zs in zip(cases, res):
        Xm = onp.array(C.dec_floats(zs)).reshape(3, 3)
        sc = float(onp.max(onp.abs(Xi)))
        e_rep, e_mod = float(onp.max(onp.abs(Xp - Xi))) / sc, float(onp.max(onp.abs(Xm - Xi))) / sc
        ctx.count('dbp_model_vs_impl')
        ctx.count('dbp_passes_%02d' % ki)
        meta = dict(check='correspondence', kernel='sqrtm_dbp', kind='dense n=3', gap=1.0, batch=False, A=A.tolist())
        if abs(ki - kp) > 1 or not (e_rep <= 1e-9 and e_mod <= 1e-9):
            mism += 1
            if mism < 4:
                ctx.fail('correspondence', 'Denman-Beavers model: implementation %d passes, replica %d; X differs by %.3g (replica) / %.3g (Coq model) relative'
                         % (ki, kp, e_rep, e_mod), case=meta)
        ctx.count('dbp_invariant_conclusion_checks', kp)
        if not worst <= 1e-10:
            ctx.fail('conclusion', 'Denman-Beavers invariant X_k^2 = A M_k violated by %.3g relative on the replica of sqrtm_dbp' % worst,
                     case=dict(meta, check='dbp invariant'), concrete=True)
    ctx.count('dbp_model_mismatches', mism)


def l2_iss(ctx):
    """round 4: the hypothesis and the conclusion structure of C12_iss_identity on the implementation: LinAlg._logm_iss returns
    (X_k, k, m); X_k squared k times must give back A (1e-10 |A| max(1, cond/100): the square-root chain), and logm_iss(A) must be
    exactly 2^k log_pade_pf(X_k - I, m) recomputed from those outputs (1e-12)."""
    import jax.numpy as np
    import numpy as onp
    import optimism  # noqa: F401
    from optimism import LinAlg
    r = ctx.rng('l2iss')
    for c in range(ctx.n(6, 24)):
        n = 3 if c % 3 else 2
        Xr = onp.array([[r.gauss(0, 1) for _ in range(n)] for _ in range(n)]) + n * onp.eye(n)
        w = onp.array([10.0 ** r.uniform(-1, 1) for _ in range(n)])
        A = Xr @ onp.diag(w) @ onp.linalg.inv(Xr)
        X, k, m = LinAlg._logm_iss(np.array(A))
        X, k, m = onp.array(X), int(k), int(m)
        Y = X.copy()
        for _ in range(k):
            Y = Y @ Y
        nA, cond = float(onp.max(onp.abs(A))), float(onp.linalg.cond(A))
        e_chain = float(onp.max(onp.abs(Y - A))) / nA
        Lg = onp.array(LinAlg.logm_iss(np.array(A)))
        L2 = (1 << k) * onp.array(LinAlg.log_pade_pf(np.array(X) - np.identity(n), m))
        e_rec = float(onp.max(onp.abs(Lg - L2))) / (float(onp.max(onp.abs(Lg))) + 1e-300)
        ctx.count('iss_chain_conclusion_checks')
        ctx.count('iss_square_roots_%02d' % k)
        if not (e_chain <= 1e-10 * max(1.0, cond / 100) and e_rec <= 1e-12):
            ctx.fail('conclusion', '_logm_iss: X_k squared %d times differs from A by %.3g relative; logm_iss differs from 2^k log_pade_pf(X_k - I) by %.3g'
                     % (k, e_chain, e_rec), case=dict(check='logm_iss chain', kind='dense n=%d general' % n, gap=1.0, batch=False, A=A.tolist()),
                     concrete=True)


def evaluate(ctx, items):
    exprs = [e for e, _ in items if e is not None]
    res = C.coq_eval(IMPORTS, exprs, 'C12', shard=120, timeout=900)
    k = 0
    fails = []
    for e, meta in items:
        if e is None:
            fails.append(dict(kind='conclusion', concrete=True, case=meta,
                              what='%s [%s, gap %.3g, %s]: non-finite output' % (meta['check'], meta['kind'], meta['gap'], 'vmap+jit' if meta['batch'] else 'single')))
            continue
        ok = res[k] == [1]
        k += 1
        ctx.count('certified_instances' if ok else 'rejected_instances')
        if not ok:
            fails.append(dict(kind='conclusion', concrete=True, case=meta,
                              what='verified checker rejects %s [%s, relative eigenvalue gap %.3g, %s]' % (meta['check'], meta['kind'], meta['gap'], 'vmap+jit' if meta['batch'] else 'single call')))
    return fails


def correspondence(ctx, model_ok):
    if not model_ok:
        # the checkers are Coq code: without a compiled model nothing can be certified
        ctx.count('evaluations', 0)
        l2_rd(ctx)
        return
    items = run_checks(ctx, ctx.n(50, 500), ctx.n(24, 200), ctx.n(9, 45))
    items += run_tight(ctx, ctx.n(24, 240), ctx.n(8, 60), ctx.n(20, 120))
    fails = evaluate(ctx, items)
    ctx.count('evaluations', len(items))
    ctx.count('distinct_nontrivial', len({json.dumps(m['A']) for _, m in items if m.get('kind') != 'triple'}))
    hist = {}
    for _, m in items:
        hist[m['check']] = hist.get(m['check'], 0) + 1
    ctx.cov['checks'] = hist
    ctx.cov['tolerances'] = dict(identities=TOL, identities_in_batches=TOLB, derivative_identities=TOLD, closed_form_derivative=TOLJ, central_differences=1e-6)
    ctx.sample(dict(items[0][1], expr=items[0][0][:300]))
    # failures that are exactly an OPEN known finding must not crowd out fresh ones (none is open since /repo e63b801 fixed EIGVMAP
    # and matches_finding excuses nothing; the mechanism stays for future findings)
    known = [k for k in C.load_known_findings() if k['property'] == ID and k['status'] == 'open']
    is_known = lambda f: any(matches_finding(f, k) for k in known)
    fresh = [f for f in fails if not is_known(f)]
    ctx.count('rejections_matching_open_finding', len(fails) - len(fresh))
    for f in fresh[:40] + [f for f in fails if is_known(f)][:10]:
        ctx.fail(f['kind'], f['what'], case=f['case'], concrete=True)
    l1_scalar(ctx)
    l1_rd(ctx)
    l2_rd(ctx)
    l1_trig(ctx)
    l1_defl(ctx)
    l1_dbp(ctx)
    l2_iss(ctx)


def search(ctx, reasons):
    import copy
    c2 = copy.copy(ctx)
    c2.failures, c2.counts, c2.cov, c2.samples = [], {}, {}, []
    c2.seed = ctx.seed + 1
    try:
        l2_rd(c2)
        try:
            l1_trig(c2)      # needs only the generated kernels; its residual clause yields a concrete tensor
            l1_defl(c2)      # round 4: Vieta / eigenvector conclusions on the implementation yield a concrete tensor
        except C.CoqError:
            pass
        early = [f for f in c2.failures if f.get('concrete')]
        if early:
            return early[0]
        items = run_tight(c2, 60, 12, 40) + run_checks(c2, 300, 60, 18)
        fails = evaluate(c2, items) + [f for f in c2.failures if f.get('concrete')]
    except C.CoqError:
        return None
    known = [f for f in C.load_known_findings() if f['property'] == ID and f['status'] == 'open']
    for f in fails:
        if not any(matches_finding(f, k) for k in known):
            return f
    return None


def _eig_batch_error(A, batches=None):
    """worst reconstruction / orthonormality error of eigen_sym33_unit on A inside jit(vmap) batches of size >= 2"""
    import jax
    import jax.numpy as np
    import numpy as onp
    from optimism import TensorMath as TM
    A = onp.array(A, dtype=float)
    g = jax.jit(jax.vmap(TM.eigen_sym33_unit))
    rec = orth = 0.0
    for stack, pos in (batches or [([A, A], 0)]):
        lam, V = g(np.array(onp.array(stack)))
        lam, V = onp.array(lam[pos]), onp.array(V[pos])
        e1, e2 = float(onp.max(onp.abs(V @ onp.diag(lam) @ V.T - A))), float(onp.max(onp.abs(V.T @ V - onp.eye(3))))
        rec = max(rec, e1) if e1 == e1 else float('inf')
        orth = max(orth, e2) if e2 == e2 else float('inf')
    return rec, orth


def finding_fails(ctx, f):
    if f['id'] == 'EIGVMAP':
        # fixed in /repo e63b801; the witness (doubly degenerate tensor) is replayed on every run inside compiled batches of 2, 3 and 8
        # (copies of itself, and mixed with a generic tensor at the first / middle / last position): a recurrence is a violation
        import numpy as onp
        A = onp.array(f['witness']['A'], dtype=float)
        G = onp.array([[1.3, 0.2, -0.4], [0.2, 0.7, 0.1], [-0.4, 0.1, 2.1]])
        batches = [([A, A], 0), ([A, A], 1), ([A, G], 0), ([G, A], 1), ([A, A, A], 1), ([G, A, G], 1), ([G, G, A], 2),
                   ([A] * 8, 3), ([G, A, G, G, A, G, G, A], 7)]
        rec, orth = _eig_batch_error(A, batches)
        ctx.cov['EIGVMAP_witness_batch_errors'] = dict(reconstruction=rec, orthonormality=orth, tolerance=1e-12)
        return not (rec <= 1e-12 and orth <= 1e-12)
    if f['id'] == 'EIGSIGN0':
        import jax
        import jax.numpy as np
        import numpy as onp
        from optimism import TensorMath as TM
        A = onp.array(f['witness']['A'])
        worst = 0.0
        for fn in (TM.eigen_sym33_unit, jax.jit(TM.eigen_sym33_unit)):
            lam, V = fn(np.array(A))
            lam, V = onp.array(lam), onp.array(V)
            worst = max(worst, float(onp.max(onp.abs(V @ onp.diag(lam) @ V.T - A))), float(onp.max(onp.abs(V.T @ V - onp.eye(3)))))
        return not worst <= 1e-9
    return False


def matches_finding(fl, f):
    """No finding of C12 is open.  EIGVMAP (compiled batches, two (numerically) equal eigenvalues) was fixed in /repo e63b801 and
    EIGSIGN0 in c7fec74: neither excuses anything any more -- every rejection is a fresh violation."""
    return False


def replay(ctx, path):
    rep = json.load(open(path))
    case = rep.get('failing_input')
    print('replay of', path)
    print(json.dumps(rep.get('reasons'), indent=1)[:3000])
    if case and str(case.get('check', '')).startswith('d ') and 'reference' in case:
        import jax
        import jax.numpy as np
        import numpy as onp
        from optimism import TensorMath as TM
        key = case['check'].split()[1]
        f = {'sqrt': TM.sqrt_symm, 'log': TM.log_symm, 'exp': TM.exp_symm}.get(key) or (lambda B, m=float(key[3:]): TM.pow_symm(B, m))
        tan = lambda a, d: jax.jvp(f, (a,), (d,))[1]
        A, E, ref = np.array(case['A']), np.array(case['D']), onp.array(case['reference'])
        T = onp.array(jax.jit(jax.vmap(tan))(np.array([A, A]), np.array([E, E]))[0]) if case.get('batch') else onp.array(jax.jit(tan)(A, E))
        err = float(onp.max(onp.abs(T - ref))) / float(onp.max(onp.abs(ref)))
        tol = TOLJ
        bad = not err <= tol
        print('implementation now: derivative rule of %s differs from the closed-form Daleckii-Krein derivative by %.3g relative (tolerance %.3g) -> %s'
              % (key, err, tol, 'FAILS' if bad else 'holds'))
        return 1 if bad else 0
    if not case or case.get('check') != 'eig':
        print('broken obligations / non-eigen case: re-run ./check C12 (cases are regenerated from the recorded seed %s)' % rep.get('seed'))
        return 1
    import jax
    import jax.numpy as np
    import numpy as onp
    from optimism import TensorMath as TM
    A = onp.array(case['A'])
    if case.get('batch'):
        rec, orth = _eig_batch_error(case['A'])
    else:
        lam, V = jax.jit(TM.eigen_sym33_unit)(np.array(A))
        lam, V = onp.array(lam), onp.array(V)
        rec, orth = float(onp.max(onp.abs(V @ onp.diag(lam) @ V.T - A))), float(onp.max(onp.abs(V.T @ V - onp.eye(3))))
    nA = float(onp.max(onp.sum(onp.abs(A), axis=1)))
    tol = TOLT if case.get('kind') == 'near_triple' else (TOLB if case.get('batch') else TOL)
    bad = not (rec <= tol * nA and orth <= tol)
    print('implementation now: reconstruction error %.3g (|A| = %.3g), orthogonality error %.3g -> %s' % (rec, nA, orth, 'FAILS' if bad else 'holds'))
    return 1 if bad else 0
