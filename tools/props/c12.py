"""C12 -- symmetric-tensor eigen-decomposition, tensor functions and derivative rules."""
import json
import math

from vlib import common as C

ID = 'C12'
READY = True
LEVEL_TEXT = ('Partial. Coq theorems over R about kernels regenerated from TensorMath.py: detpIm1 = det(A+I)-1, A inv(A) = inv(A) A = I '
              'for det A != 0, deviator traceless, sym/skw split, polar-decomposition identities (given a symmetric square root), the '
              'minimax Pade approximation of cos(acos(x)/3) solves 4c^3-3c=x to 1e-13 on [0,1] (interval arithmetic), the sqrt/exp/log '
              'relative-difference kernels equal the divided differences. The accuracy of eigen_sym33_unit, sqrt/exp/log/pow_symm, their '
              'JVP rules, sqrtm and logm_iss is NOT proved for all inputs: every explored instance is certified by Coq result checkers '
              '(proved sound) executed by vm_compute on the exact rational values of the implementation outputs; exp/log derivative '
              'rules are only compared with central differences (test).')
TECHNIQUE = 'Coq proof (Reals + Interval) over regenerated kernels; proved-sound result checkers over Q run by vm_compute on implementation outputs'
GEN = ['Math', 'TensorMath', 'TensorMathFun']
TARGETS = ['model/M_C08.vo', 'proofs/L_C08.vo', 'model/M_C12.vo', 'proofs/L_C12.vo']
COQ_FILES = ['base/Num.v', 'model/M_C12.v', 'proofs/L_C12.v', 'props/P_C12.v']
BUILD_TIMEOUT = 1500
TRUSTED = ['Coq 8.16.1 kernel + vm_compute (no native_compute); coq-interval for the Pade bound (PrimFloat/Uint63 primitives)',
           'tools/vlib/py2coq.py translator, cross-checked by running the generated scalar kernels at binary64 against the implementation',
           'harness: exact float -> rational conversion (Fraction), construction of the test tensors, the tolerances stated in the evidence',
           'jax.scipy.linalg.expm is used as the reference when checking logm_iss (expm(logm A) ~ A)']
ASSUMPTIONS = ['exact real arithmetic in theorems (a)-(c)',
               'checker verdicts certify the explored instances only, with the stated tolerances (1e-11 relative for decompositions / '
               'identities in a single compiled call, 1e-9 inside compiled batches and for derivative identities, 1e-6 relative for central-difference comparisons)',
               'jax.jvp applies the custom rules that the library registers']
RULE = ('symmetric 3x3 tensors A = s R diag(l) R^T: s over 1e-20..1e20 (40 decades), eigenvalue gaps exactly 0 (diagonal / permuted '
        'construction), 1e-14..1 relative, rank deficient, generic and in-plane block orientations; each evaluated as a single compiled '
        'call and inside jit(vmap) batches; SPD tensors for sqrt/log/pow; dense SPD-spectrum matrices of size 2..10; a case is '
        'non-trivial when A is not a multiple of the identity; distinct = distinct tensors')
IMPORTS = ['From OV.gen Require Import Gen_TensorMathFun.', 'From OV.model Require Import M_C12.']

TOL = 1e-11    # single compiled call
TOLB = 1e-9    # inside compiled batches (XLA's batched code rounds differently; accuracy degrades gracefully like eps/gap)
TOLD = 1e-9


def qm(A):
    return '[' + '; '.join('[' + '; '.join(C.cq(float(x)) for x in row) + ']' for row in A) + ']'


def ql(v):
    return '[' + '; '.join(C.cq(float(x)) for x in v) + ']'


def qtol(t):
    from fractions import Fraction
    return C.cq(Fraction(t).limit_denominator(10 ** 30) if t < 1e-3 else Fraction(t))


def rot(r, inplane=False):
    if inplane:
        t = r.uniform(0, 2 * math.pi)
        c, s = math.cos(t), math.sin(t)
        return [[c, -s, 0.0], [s, c, 0.0], [0.0, 0.0, 1.0]]
    q = [r.gauss(0, 1) for _ in range(4)]
    n = math.sqrt(sum(x * x for x in q)) or 1.0
    w, x, y, z = [v / n for v in q]
    return [[1 - 2 * (y * y + z * z), 2 * (x * y - z * w), 2 * (x * z + y * w)],
            [2 * (x * y + z * w), 1 - 2 * (x * x + z * z), 2 * (y * z - x * w)],
            [2 * (x * z - y * w), 2 * (y * z + x * w), 1 - 2 * (x * x + y * y)]]


def gen_sym(r, spd=False, wide=True):
    """-> (A as numpy array, kind, relative gap)"""
    import numpy as onp
    kind = r.choice(['generic', 'gap_small', 'double_exact', 'triple', 'rank_def', 'inplane', 'double_rot', 'gap_tiny'])
    s = 10.0 ** (r.uniform(-20, 20) if wide else r.uniform(-2, 2))
    l = sorted([r.uniform(0.2, 3.0) if spd else r.uniform(-3, 3) for _ in range(3)])
    if kind == 'gap_small':
        l[1] = l[0] * (1 + 10.0 ** r.uniform(-9, -2))
    elif kind == 'gap_tiny':
        l[1] = l[0] * (1 + 10.0 ** r.uniform(-15, -10))
    elif kind in ('double_exact', 'double_rot'):
        l[1] = l[0]
    elif kind == 'triple':
        l[1] = l[2] = l[0]
    elif kind == 'rank_def' and not spd:
        l[r.randrange(3)] = 0.0
    if kind == 'double_exact':
        # exactly representable double eigenvalue: diagonal in a permuted basis (no rounding)
        p = [0, 1, 2]
        r.shuffle(p)
        A = onp.zeros((3, 3))
        for i in range(3):
            A[p[i], p[i]] = l[i]
        A = A * s
    else:
        R = onp.array(rot(r, inplane=(kind == 'inplane')))
        A = (R * onp.array(l)) @ R.T
        A = 0.5 * (A + A.T) * s
    w = onp.linalg.eigvalsh(A / max(onp.max(onp.abs(A)), 1e-300))
    gap = float(min(w[1] - w[0], w[2] - w[1]))
    return A, kind, gap


_JIT = {}


def jf(name, f, batch):
    import jax
    key = (name, batch)
    if key not in _JIT:
        _JIT[key] = jax.jit(jax.vmap(f)) if batch else jax.jit(f)
    return _JIT[key]


def run_checks(ctx, n_eig, n_fun, n_dense):
    """build all checker expressions on implementation outputs; returns list of (expr, meta)"""
    import jax
    import jax.numpy as np
    import numpy as onp
    import optimism  # noqa: F401
    from optimism import TensorMath as TM
    from optimism import LinAlg
    r = ctx.rng('c12')
    items = []
    tq, tdq = qtol(TOL), qtol(TOLD)
    tq0 = tq
    # ---- eigen-decomposition, single compiled call and compiled batch
    As = [gen_sym(r) for _ in range(n_eig)]
    stack = np.array([a[0] for a in As])
    lamB, VB = jf('eig', TM.eigen_sym33_unit, True)(stack)
    lamB, VB = onp.array(lamB), onp.array(VB)
    for i, (A, kind, gap) in enumerate(As):
        lam1, V1 = jf('eig', TM.eigen_sym33_unit, False)(np.array(A))
        for batch, lam, V in ((False, onp.array(lam1), onp.array(V1)), (True, lamB[i], VB[i])):
            ok_fin = bool(onp.all(onp.isfinite(lam)) and onp.all(onp.isfinite(V)))
            meta = dict(check='eig', kind=kind, gap=gap, batch=batch, A=A.tolist(), lam=lam.tolist(), V=V.tolist())
            if not ok_fin:
                items.append((None, meta))
            else:
                items.append(('benc (check_eig %s %s %s %s)' % (qm(A), ql(lam), qm(V), qtol(TOLB) if batch else tq), meta))
    # ---- tensor functions on SPD tensors (moderate scale so that exp does not overflow), both execution modes
    Fs = [gen_sym(r, spd=True, wide=False) for _ in range(n_fun)]
    fstack = np.array([a[0] for a in Fs])
    Qs = [onp.array(rot(r, inplane=(k % 3 == 0))) for k in range(n_fun)]
    qstack = np.array([Qs[k].T @ Fs[k][0] @ Qs[k] for k in range(n_fun)])
    qstack = 0.5 * (qstack + np.transpose(qstack, (0, 2, 1)))
    funs = {'sqrt': TM.sqrt_symm, 'log': TM.log_symm, 'exp': (lambda B: TM.exp_symm(B)),
            'pow_p': (lambda B: TM.pow_symm(B, 0.7)), 'pow_m': (lambda B: TM.pow_symm(B, -0.7)), 'pow_2': (lambda B: TM.pow_symm(B, 2.0)),
            'pow_inv': (lambda B: TM.pow_symm(B, -1.0))}
    for batch in (False, True):
        out, outq = {}, {}
        for nm, f in funs.items():
            g = jf(nm, f, batch)
            if batch:
                out[nm], outq[nm] = onp.array(g(fstack)), onp.array(g(qstack))
            else:
                out[nm] = onp.array([onp.array(g(a)) for a in fstack])
                outq[nm] = onp.array([onp.array(g(a)) for a in qstack])
        loge = jf('log', TM.log_symm, batch)
        expe = jf('exp', funs['exp'], batch)
        tl = TOLB if batch else TOL
        tq = qtol(tl)
        for k, (A, kind, gap) in enumerate(Fs):
            nA = float(onp.max(onp.sum(onp.abs(A), axis=1)))
            I3 = onp.eye(3)
            meta = dict(kind=kind, gap=gap, batch=batch, A=A.tolist())
            S = out['sqrt'][k]
            items.append(('benc (check_prod %s %s %s %s)' % (qm(S), qm(S), qm(A), qtol(tl * nA)), dict(meta, check='sqrt*sqrt=A')))
            items.append(('benc (check_prod %s %s %s %s)' % (qm(out['pow_p'][k]), qm(out['pow_m'][k]), qm(I3), tq), dict(meta, check='pow(m)*pow(-m)=I')))
            items.append(('benc (check_prod %s %s %s %s)' % (qm(A), qm(A), qm(out['pow_2'][k]), qtol(tl * nA * nA)), dict(meta, check='pow(A,2)=A*A')))
            items.append(('benc (check_prod %s %s %s %s)' % (qm(A), qm(out['pow_inv'][k]), qm(I3), tq), dict(meta, check='A*pow(A,-1)=I')))
            L = out['log'][k]
            EL = onp.array(expe(np.array(L))) if not batch else onp.array(expe(np.array([L, L]))[0])
            items.append(('benc (check_prod %s %s %s %s)' % (qm(EL), qm(I3), qm(A), qtol(tl * nA)), dict(meta, check='exp(log A)=A')))
            Ex = out['exp'][k] if nA < 3 else None       # log(exp A): conditioned like exp(2|A|)
            if Ex is not None:
                LE = onp.array(loge(np.array(Ex))) if not batch else onp.array(loge(np.array([Ex, Ex]))[0])
                items.append(('benc (check_prod %s %s %s %s)' % (qm(LE), qm(I3), qm(A), qtol(tl * math.exp(2 * nA))), dict(meta, check='log(exp A)=A')))
            for nm in ('sqrt', 'log', 'pow_p'):
                fA, fQ = out[nm][k], outq[nm][k]
                nf = float(onp.max(onp.sum(onp.abs(fA), axis=1))) + 1e-300
                items.append(('benc (check_equivariant %s %s %s %s)' % (qm(fQ), qm(Qs[k]), qm(fA), qtol(20 * tl * max(nf, 1.0))),
                              dict(meta, check='equivariance of ' + nm, Q=Qs[k].tolist())))
    tq = tq0
    # ---- derivative rules (custom JVPs) checked through algebraic identities of the Frechet derivative
    for k, (A, kind, gap) in enumerate(Fs):
        D = onp.array([[r.uniform(-1, 1) for _ in range(3)] for _ in range(3)])
        D = 0.5 * (D + D.T)
        nA = float(onp.max(onp.sum(onp.abs(A), axis=1)))
        meta = dict(kind=kind, gap=gap, batch=False, A=A.tolist(), D=D.tolist())
        S, Ls = jf('jvp_sqrt', lambda a, d: jax.jvp(TM.sqrt_symm, (a,), (d,)), False)(np.array(A), np.array(D))
        items.append(('benc (check_sylvester %s %s %s %s)' % (qm(onp.array(S)), qm(onp.array(Ls)), qm(D), qtol(TOLD * max(1.0, 1 / math.sqrt(nA)))),
                      dict(meta, check='d sqrt: S L + L S = D')))
        pow_ok = gap >= 1e-4   # pow_symm documents that its derivative is inaccurate at nearly repeated eigenvalues: outside the property
        if not pow_ok:
            ctx.count('pow_derivative_skipped_near_degenerate')
        _, Li = jf('jvp_inv', lambda a, d: jax.jvp(lambda x: TM.pow_symm(x, -1.0), (a,), (d,)), False)(np.array(A), np.array(D))
        sc = float(onp.max(onp.abs(onp.array(Li)))) * nA * nA + 1.0
        if pow_ok:
            items.append(('benc (check_inverse_jvp %s %s %s %s)' % (qm(A), qm(onp.array(Li)), qm(D), qtol(TOLD * sc)),
                          dict(meta, check='d pow(-1): A L A = -D')))
        _, L2 = jf('jvp_sq', lambda a, d: jax.jvp(lambda x: TM.pow_symm(x, 2.0), (a,), (d,)), False)(np.array(A), np.array(D))
        if pow_ok:
            items.append(('benc (check_sylvester %s %s %s %s)' % (qm(A), qm(D), qm(onp.array(L2)), qtol(TOLD * max(nA, 1.0))),
                          dict(meta, check='d pow(2): L = A D + D A')))
        # exp / log: central differences of the implementation itself (test, not certified)
        for nm, f in (('exp', TM.exp_symm), ('log', TM.log_symm)):
            if nm == 'exp' and nA > 20:
                continue
            g = jf(nm, f, False)
            _, Lx = jf('jvp_' + nm, lambda a, d, f=f: jax.jvp(f, (a,), (d,)), False)(np.array(A), np.array(D))
            h = 1e-5 * min(1.0, float(onp.min(onp.abs(onp.linalg.eigvalsh(A)))))
            fd = (onp.array(g(np.array(A + h * D))) - onp.array(g(np.array(A - h * D)))) / (2 * h)
            err = float(onp.max(onp.abs(onp.array(Lx) - fd)))
            scale = float(onp.max(onp.abs(fd))) + 1e-300
            ctx.count('central_difference_checks')
            if not err <= 1e-6 * scale + 1e-9:
                ctx.fail('conclusion', 'derivative rule of %s_symm differs from central differences by %.3g (scale %.3g) at a tensor with relative eigenvalue gap %.3g'
                         % (nm, err, scale, gap), case=dict(meta, check='d ' + nm + ' vs central differences', err=err), concrete=True)
    # ---- helpers: inverse and polar decomposition
    for k, (A, kind, gap) in enumerate(Fs[: max(4, n_fun // 3)]):
        G = onp.array(rot(r)) @ A
        Ai = onp.array(jf('inv', TM.inv, False)(np.array(G)))
        items.append(('benc (check_prod %s %s %s %s)' % (qm(G), qm(Ai), qm(onp.eye(3)), tq), dict(check='A*inv(A)=I', kind=kind, gap=gap, batch=False, A=G.tolist())))
        Rm, U = jf('polar', TM.right_polar_decomposition, False)(np.array(G))
        Rm, U = onp.array(Rm), onp.array(U)
        nG = float(onp.max(onp.sum(onp.abs(G), axis=1)))
        items.append(('benc (check_prod %s %s %s %s)' % (qm(Rm), qm(U), qm(G), qtol(TOL * nG)), dict(check='polar R*U=F', kind=kind, gap=gap, batch=False, A=G.tolist())))
        items.append(('benc (check_prod %s %s %s %s)' % (qm(Rm.T), qm(Rm), qm(onp.eye(3)), tq), dict(check='polar R^T R=I', kind=kind, gap=gap, batch=False, A=G.tolist())))
        items.append(('benc (check_symmetric %s %s)' % (qm(U), qtol(TOL * math.sqrt(nG * nG))), dict(check='polar U symmetric', kind=kind, gap=gap, batch=False, A=G.tolist())))
    # ---- detpIm1 against the exact rational value of det(A+I)-1 (python Fractions; a test, the identity itself is theorem C12_detpIm1)
    from fractions import Fraction
    jd = jf('detpIm1', TM.detpIm1, False)
    for k in range(max(10, n_fun)):
        mag = 10.0 ** r.uniform(-12, 0)
        A = [[mag * r.uniform(-1, 1) for _ in range(3)] for _ in range(3)]
        Fq = [[Fraction(A[i][j]) + (1 if i == j else 0) for j in range(3)] for i in range(3)]
        dq = (Fq[0][0] * (Fq[1][1] * Fq[2][2] - Fq[1][2] * Fq[2][1]) - Fq[0][1] * (Fq[1][0] * Fq[2][2] - Fq[1][2] * Fq[2][0])
              + Fq[0][2] * (Fq[1][0] * Fq[2][1] - Fq[1][1] * Fq[2][0])) - 1
        got = float(jd(np.array(A)))
        ctx.count('detpIm1_checks')
        scale = sum(abs(A[i][i]) for i in range(3)) + 3 * mag * mag
        if not abs(Fraction(got) - dq) <= Fraction(16 * 2.220446049250313e-16 * scale):
            ctx.fail('conclusion', 'detpIm1 differs from the exact det(A+I)-1 by %.3g at |A| ~ %.3g' % (float(abs(Fraction(got) - dq)), mag),
                     case=dict(check='detpIm1', kind='helper', gap=1.0, batch=False, A=A, value=got, exact=float(dq)), concrete=True)
    # ---- dense square root and logarithm, sizes 2..10
    for k in range(n_dense):
        n = 2 + (k % 9)
        X = onp.array([[r.gauss(0, 1) for _ in range(n)] for _ in range(n)])
        w = onp.array([10.0 ** r.uniform(-1, 1) for _ in range(n)])
        if k % 2 == 0:
            Qm, _ = onp.linalg.qr(X)
            A = (Qm * w) @ Qm.T
            A = 0.5 * (A + A.T)
        else:
            X = X + n * onp.eye(n)
            A = X @ onp.diag(w) @ onp.linalg.inv(X)          # non-symmetric, positive spectrum
        nA = float(onp.max(onp.sum(onp.abs(A), axis=1)))
        cond = float(onp.linalg.cond(A))
        S = onp.array(LinAlg.sqrtm(np.array(A)))
        meta = dict(kind='dense n=%d %s' % (n, 'spd' if k % 2 == 0 else 'general'), gap=1.0, batch=False, A=A.tolist())
        items.append(('benc (check_prod %s %s %s %s)' % (qm(S), qm(S), qm(A), qtol(1e-10 * nA * max(1.0, cond / 100))), dict(meta, check='sqrtm: S*S=A')))
        Lg = onp.array(LinAlg.logm_iss(np.array(A)))
        EL = onp.array(jax.scipy.linalg.expm(np.array(Lg)))
        items.append(('benc (check_prod %s %s %s %s)' % (qm(EL), qm(onp.eye(n)), qm(A), qtol(1e-9 * nA * max(1.0, cond / 100))), dict(meta, check='logm_iss: expm(logm A)=A')))
    return items


def l1_scalar(ctx):
    """generated scalar kernels at binary64 vs the implementation"""
    import optimism  # noqa: F401
    from optimism import TensorMath as TM
    r = ctx.rng('l1')
    exprs, want = [], []
    for _ in range(ctx.n(60, 600)):
        x = r.choice([0.0, 1.0, r.uniform(0, 1), r.uniform(0.99, 1.0), r.uniform(0, 1e-6)])
        l1 = 10.0 ** r.uniform(-3, 3)
        l2 = l1 * (1 + r.choice([1, -1]) * 10.0 ** r.uniform(-12, 0)) if r.random() < 0.7 else 10.0 ** r.uniform(-3, 3)
        l2 = abs(l2) + 1e-300
        e1, e2 = r.uniform(-3, 3), r.uniform(-3, 3)
        if e1 == e2 or l1 == l2:
            continue
        exprs.append('fencs [cos_of_acos_divided_by_3 %s; _sqrt_relative_difference %s %s; _exp_relative_difference %s %s; _relative_log_difference_taylor %s %s]'
                     % (C.cf(x), C.cf(l1), C.cf(l2), C.cf(e1), C.cf(e2), C.cf(l1), C.cf(l2)))
        want.append([float(TM.cos_of_acos_divided_by_3(x)), float(TM._sqrt_relative_difference(l1, l2)),
                     float(TM._exp_relative_difference(e1, e2)), float(TM._relative_log_difference_taylor(l1, l2))])
    res = C.coq_eval(IMPORTS, exprs, 'C12s', shard=200)
    mism = 0
    for zs, ws, ex in zip(res, want, exprs):
        for j, (gv, wv) in enumerate(zip(C.dec_floats(zs), ws)):
            ctx.count('model_vs_impl_comparisons')
            # the exp kernel (j=2) uses expm1 in the source and exp-1 in the model: cancellation when |e1-e2| is small
            rt = 1e-9 if j != 2 else 1e-6
            if not C.close(gv, wv, rtol=rt, atol=1e-300):
                mism += 1
                if mism < 8:
                    ctx.fail('correspondence', 'generated scalar kernel #%d gives %r, implementation %r (%s)' % (j, gv, wv, ex[:200]),
                             case=dict(check='correspondence', kernel=j, model=gv, impl=wv))
    ctx.count('model_vs_impl_mismatches', mism)


def evaluate(ctx, items):
    exprs = [e for e, _ in items if e is not None]
    res = C.coq_eval(IMPORTS, exprs, 'C12', shard=120, timeout=900)
    k = 0
    fails = []
    for e, meta in items:
        if e is None:
            fails.append(dict(kind='conclusion', concrete=True, case=meta,
                              what='%s [%s, gap %.3g, %s]: non-finite output' % (meta['check'], meta['kind'], meta['gap'], 'vmap+jit' if meta['batch'] else 'single')))
            continue
        ok = res[k] == [1]
        k += 1
        ctx.count('certified_instances' if ok else 'rejected_instances')
        if not ok:
            fails.append(dict(kind='conclusion', concrete=True, case=meta,
                              what='verified checker rejects %s [%s, relative eigenvalue gap %.3g, %s]' % (meta['check'], meta['kind'], meta['gap'], 'vmap+jit' if meta['batch'] else 'single call')))
    return fails


def correspondence(ctx, model_ok):
    if not model_ok:
        # the checkers are Coq code: without a compiled model nothing can be certified
        ctx.count('evaluations', 0)
        return
    items = run_checks(ctx, ctx.n(50, 500), ctx.n(24, 200), ctx.n(9, 45))
    fails = evaluate(ctx, items)
    ctx.count('evaluations', len(items))
    ctx.count('distinct_nontrivial', len({json.dumps(m['A']) for _, m in items if m.get('kind') != 'triple'}))
    hist = {}
    for _, m in items:
        hist[m['check']] = hist.get(m['check'], 0) + 1
    ctx.cov['checks'] = hist
    ctx.cov['tolerances'] = dict(identities=TOL, derivative_identities=TOLD, central_differences=1e-6)
    ctx.sample(dict(items[0][1], expr=items[0][0][:300]))
    for f in fails[:40]:
        ctx.fail(f['kind'], f['what'], case=f['case'], concrete=True)
    l1_scalar(ctx)


def search(ctx, reasons):
    import copy
    c2 = copy.copy(ctx)
    c2.failures, c2.counts, c2.cov, c2.samples = [], {}, {}, []
    c2.seed = ctx.seed + 1
    try:
        items = run_checks(c2, 300, 60, 18)
        fails = evaluate(c2, items) + [f for f in c2.failures if f.get('concrete')]
    except C.CoqError:
        return None
    known = [f for f in C.load_known_findings() if f['property'] == ID and f['status'] == 'open']
    for f in fails:
        if not any(matches_finding(f, k) for k in known):
            return f
    return None


def _eig_batch_error(A):
    import jax
    import jax.numpy as np
    import numpy as onp
    from optimism import TensorMath as TM
    lam, V = jax.jit(jax.vmap(TM.eigen_sym33_unit))(np.array([A, A]))
    lam, V = onp.array(lam[0]), onp.array(V[0])
    A = onp.array(A)
    return float(onp.max(onp.abs(V @ onp.diag(lam) @ V.T - A))), float(onp.max(onp.abs(V.T @ V - onp.eye(3))))


def finding_fails(ctx, f):
    if f['id'] == 'EIGVMAP':
        rec, orth = _eig_batch_error(f['witness']['A'])
        return orth > 1e-9
    if f['id'] == 'EIGSIGN0':
        import jax
        import jax.numpy as np
        import numpy as onp
        from optimism import TensorMath as TM
        A = onp.array(f['witness']['A'])
        worst = 0.0
        for fn in (TM.eigen_sym33_unit, jax.jit(TM.eigen_sym33_unit)):
            lam, V = fn(np.array(A))
            lam, V = onp.array(lam), onp.array(V)
            worst = max(worst, float(onp.max(onp.abs(V @ onp.diag(lam) @ V.T - A))), float(onp.max(onp.abs(V.T @ V - onp.eye(3)))))
        return not worst <= 1e-9
    return False


def matches_finding(fl, f):
    """EIGVMAP: a spectral routine evaluated inside a compiled batch on a tensor with two (numerically) equal eigenvalues
    (relative gap <= 1e-6), not a triple eigenvalue; anything else is a fresh violation"""
    c = fl.get('case') or {}
    if f['id'] != 'EIGVMAP':
        return False
    if not c.get('batch') or c.get('gap', 1.0) > 1e-6 or c.get('kind') == 'triple':
        return False
    chk = c.get('check', '')
    return chk == 'eig' or chk.startswith(('sqrt', 'pow', 'exp(', 'log(', 'A*pow', 'equivariance'))


def replay(ctx, path):
    rep = json.load(open(path))
    case = rep.get('failing_input')
    print('replay of', path)
    print(json.dumps(rep.get('reasons'), indent=1)[:3000])
    if not case or case.get('check') != 'eig':
        print('broken obligations / non-eigen case: re-run ./check C12 (cases are regenerated from the recorded seed %s)' % rep.get('seed'))
        return 1
    import jax
    import jax.numpy as np
    import numpy as onp
    from optimism import TensorMath as TM
    A = onp.array(case['A'])
    if case.get('batch'):
        rec, orth = _eig_batch_error(case['A'])
    else:
        lam, V = jax.jit(TM.eigen_sym33_unit)(np.array(A))
        lam, V = onp.array(lam), onp.array(V)
        rec, orth = float(onp.max(onp.abs(V @ onp.diag(lam) @ V.T - A))), float(onp.max(onp.abs(V.T @ V - onp.eye(3))))
    nA = float(onp.max(onp.sum(onp.abs(A), axis=1)))
    bad = not (rec <= TOL * nA and orth <= TOL)
    print('implementation now: reconstruction error %.3g (|A| = %.3g), orthogonality error %.3g -> %s' % (rec, nA, orth, 'FAILS' if bad else 'holds'))
    return 1 if bad else 0
