"""C14 -- degree-of-freedom bookkeeping is a lossless partition for every BC set (FunctionSpace.DofManager)."""
import json
import resource
import types

from vlib import common as C

# coqc reifies vm_compute results of several 10^4 list cells recursively; give the child processes the full stack
try:
    _soft, _hard = resource.getrlimit(resource.RLIMIT_STACK)
    resource.setrlimit(resource.RLIMIT_STACK, (_hard, _hard))
except (ValueError, OSError):
    pass
MAX_ENTRIES = 9000     # cap on nElements * (nodesPerElement*dim)^2 per case (keeps one model evaluation under a few seconds)

ID = 'C14'
READY = True
LEVEL_TEXT = ('Full: every clause of C14 is a Coq theorem about the executable DofManager model (model/M_C14_Dof.v), for EVERY boolean BC mask, '
              'every connectivity with in-range nodes and every number of fields: isBc built from node sets x components (repeats, overlaps, empty '
              'sets); unknown/bc indices partition the dofs, strictly increasing, disjoint; sizes; create_field/get_* round trips for arbitrary '
              'value types; dofToUnknown inverse of unknownIndices and -1 exactly on constrained dofs; component (and general basic) slices of the '
              'unknown vector; Hessian row/col arrays and mask address exactly the unknown x unknown pairs of every element, each once, with '
              '(row, col) = (unknown of b, unknown of a); the matrix the assembler builds from the maps is the matrix assembled by hand. '
              'The SOURCE is the model, for all inputs: the syntax trees of every DofManager method and of assemble_sparse_stiffness_matrix are '
              're-extracted from the AST on every run (gen/CFG_Dof.v) and run by a NumPy-subset interpreter in Coq; theorems C14_source_*: the '
              'interpreted CONSTRUCTOR (loop invariants, by induction, for the BC loop of __init__, both loops of _make_hessian_coordinates and the '
              'loop of _make_hessian_bc_mask) builds the model object for every node-set table, BC list, number of fields and every rectangular '
              'in-range connectivity (also without elements); every interpreted public method on the constructed object is the model function; '
              'the interpreted assembler on the constructed object returns the by-hand matrix of the declared BCs. '
              'A syntactic guard (alias_safe, checked by computation on the extracted trees: no array updated in place is observable through '
              'another name) backs the value semantics the interpreter gives to in-place updates; it rejects e.g. dropping .copy() of rowCoords. '
              'NOT proved (trusted): that the interpreter gives the NumPy subset its NumPy meaning (mask / integer-array / slice assignment, '
              'tile/ravel/.T; sufficiency of the aliasing guard) -- tied by exact correspondence of the interpreted source, the hand model and the '
              'running DofManager / assembler on every run; negative and out-of-range indices are outside the model.')
TECHNIQUE = ('Coq proof over a hand-written list/nat/Z model of DofManager (NumPy semantics) and over the syntax trees of the source run by an interpreter '
             '(loop invariants through the interpreter); exact vm_compute correspondence with the real DofManager')
GEN = ['CFG_Dof']
TARGETS = ['model/M_C14_Dof.vo', 'proofs/L_C14.vo', 'model/M_C14_Asm.vo', 'proofs/L_C14_Asm.vo', 'model/M_C14_IR.vo', 'gen/CFG_Dof.vo', 'proofs/L_C14_IR.vo', 'proofs/L_C14_Ctor.vo']
COQ_FILES = ['model/M_C14_Dof.v', 'proofs/L_C14.v', 'model/M_C14_Asm.v', 'proofs/L_C14_Asm.v', 'model/M_C14_IR.v', 'proofs/L_C14_IR.v', 'proofs/L_C14_Ctor.v', 'props/P_C14.v']
TRUSTED = ['Coq 8.16.1 kernel + vm_compute (no native_compute)',
           'hand-written model of DofManager (NumPy boolean-mask selection / .at[mask].set / integer-array assignment / tile / ravel written as list '
           'recursions); tied to optimism/FunctionSpace.py only by the exact correspondence on seeded random meshes and BC sets',
           'the NumPy-subset interpreter of model/M_C14_IR.v (meaning of the extracted syntax trees; value semantics for in-place updates) and the '
           'purely syntactic AST-to-IR translation tools/vlib/extract_dof.py (fail-closed); tied by the exact IR stream on every run',
           'correspondence harness (case generator, int exchange with coqc, Python mirror of the theorem conclusions used as L2)']
ASSUMPTIONS = ['node ids in node sets and connectivities are in range and components are < number of fields (NumPy raises IndexError otherwise; '
               'negative wrap-around indices are outside the model)',
               'the connectivity table is rectangular (one element type per mesh), as the Mesh type requires']
RULE = ('every fourth case is followed by a twin on the same mesh whose BC pattern is shifted by one node (same counts and shapes; the first DofManager is re-read afterwards); cases: one mesh without elements (zero-trip loops); seeded structured meshes of order 1..3 through the real Mesh/FunctionSpace constructors and random connectivity tables with arbitrary '
        'node numbering (3/6/10 nodes per element), 1..3 fields, BC lists drawn from {empty, full, full twice, single random set, overlapping '
        'sets, sets with repeated nodes, empty node set, random}; a case is non-trivial when 0 < #bc < #dofs or it is one of the named edge '
        'patterns; distinct = distinct (nNodes, dim, connectivity, mask) tuples')
IMPORTS = ['From OV.model Require Import M_C14_Dof.']
IMPORTS_ASM = ['From OV.model Require Import M_C14_Dof M_C14_Asm.']
IMPORTS_IR = ['From OV.model Require Import M_C14_Dof M_C14_IR.', 'From OV.gen Require Import CFG_Dof.']
IR_FIELDS = ['isBc', 'isUnknown', 'ids', 'unknownIndices', 'bcIndices', 'dofToUnknown', 'sizes', 'rows', 'cols', 'mask']


# ----------------------------------------------------------------------------- case generation

def _bc_pattern(r, nNodes, dim, kind):
    """-> list of (nodes list, component)"""
    allnodes = list(range(nNodes))
    if kind == 'empty':
        return []
    if kind == 'full':
        return [(allnodes, c) for c in range(dim)]
    if kind == 'full_twice':
        return [(allnodes, c) for c in range(dim)] + [(list(reversed(allnodes)), c) for c in range(dim)]
    if kind == 'empty_set':
        return [([], r.randrange(dim))] + ([(r.sample(allnodes, min(nNodes, 2)), r.randrange(dim))] if r.random() < 0.5 else [])
    if kind == 'repeated':
        s = [r.randrange(nNodes) for _ in range(r.randrange(1, 2 * nNodes + 1))]
        return [(s + s[:2], r.randrange(dim))]
    if kind == 'overlap':
        a = r.sample(allnodes, r.randrange(1, nNodes + 1))
        b = a[:max(1, len(a) // 2)] + r.sample(allnodes, r.randrange(0, nNodes + 1))
        c = r.randrange(dim)
        return [(a, c), (b, c), (b, r.randrange(dim))]
    if kind == 'single':
        return [(r.sample(allnodes, r.randrange(1, nNodes + 1)), r.randrange(dim))]
    out = []
    for _ in range(r.randrange(1, 5)):
        k = r.randrange(0, nNodes + 1)
        s = [r.randrange(nNodes) for _ in range(k)] if r.random() < 0.4 else r.sample(allnodes, k)
        out.append((s, r.randrange(dim)))
    return out


KINDS = ['empty', 'full', 'full_twice', 'empty_set', 'repeated', 'overlap', 'single', 'random', 'random', 'random']


def gen_cases(ctx):
    r = ctx.rng('main')
    cases = []
    n = ctx.n(36, 400)
    for i in range(n):
        structured = (i % 3 == 0)
        dim = r.choice([1, 2, 2, 3])
        if structured:
            Nx, Ny = r.randrange(2, 5), r.randrange(2, 5)
            order = r.choice([1, 1, 2, 3])
            npe = (order + 1) * (order + 2) // 2
            while 2 * (Nx - 1) * (Ny - 1) * (npe * dim) ** 2 > MAX_ENTRIES:
                if Nx >= Ny:
                    Nx -= 1
                else:
                    Ny -= 1
            case = dict(src='structured', Nx=Nx, Ny=Ny, order=order, dim=dim)
        else:
            npe = r.choice([3, 3, 6, 10])
            nNodes = r.randrange(max(2, npe // 2), 26)
            nEl = r.randrange(1, 13)
            nEl = max(1, min(nEl, MAX_ENTRIES // (npe * dim) ** 2))
            # arbitrary numbering; nodes may even repeat inside an element (degenerate but index-valid)
            conns = [[r.randrange(nNodes) for _ in range(npe)] if r.random() < 0.2 else
                     (r.sample(range(nNodes), npe) if nNodes >= npe else [r.randrange(nNodes) for _ in range(npe)])
                     for _ in range(nEl)]
            case = dict(src='random', nNodes=nNodes, conns=conns, dim=dim)
        case['kind'] = KINDS[i % len(KINDS)] if i < 3 * len(KINDS) else r.choice(KINDS)
        case['bcseed'] = r.randrange(1 << 30)
        cases.append(case)
        if i % 4 == 1:
            cases.append(dict(case, twin=True))          # multi-call history: same mesh, shifted BC pattern of equal counts
    # sizes beyond small-integer ranges on every run: > 255 unknowns through the model as well, > 32767 unknowns against the
    # theorem conclusions only (the model evaluation of 2 million Hessian entries is out of reach for coqc)
    cases.append(dict(src='structured', Nx=r.randrange(17, 20), Ny=r.randrange(17, 20), order=1, dim=1, kind='random', bcseed=r.randrange(1 << 30)))
    # a mesh WITHOUT elements: zero trips through the three helper loops (C14_source_constructor_all covers it; shapes are (0, 3*dim, 3*dim))
    cases.append(dict(src='random', nNodes=r.randrange(2, 9), conns=[], dim=r.choice([1, 2, 3]), kind='random', bcseed=r.randrange(1 << 30), zero_elements=True))
    nx, ny = 110, r.randrange(110, 114)
    big = [([r.randrange(nx * ny) for _ in range(r.randrange(50, 400))], r.randrange(3)) for _ in range(r.randrange(1, 4))]
    cases.append(dict(src='structured', Nx=nx, Ny=ny, order=1, dim=3, kind='random', ebcs=big, bcseed=r.randrange(1 << 30), nomodel=True))   # > 32767 unknowns
    return cases


def build(case):
    """-> (functionSpace-like, nNodes, conns(list of lists), ebcs [(name, nodes, comp)])"""
    import random
    import numpy as onp
    from optimism import Mesh
    if case['src'] == 'structured':
        from optimism import FunctionSpace, QuadratureRule
        mesh = Mesh.construct_structured_mesh(case['Nx'], case['Ny'], [0.0, 1.0], [0.0, 1.0], elementOrder=case['order'])
        nNodes = int(mesh.coords.shape[0])
    else:
        nNodes = case['nNodes']
        rr = random.Random(case['bcseed'] ^ 0x5a5a)
        coords = onp.array([[rr.random(), rr.random()] for _ in range(nNodes)])
        carr = onp.array(case['conns'], dtype=int) if case['conns'] else onp.zeros((0, 3), dtype=int)
        mesh = Mesh.Mesh(coords, carr, onp.arange(nNodes), None, None,
                         {'block_0': onp.arange(len(case['conns']))}, None, None)
    r = random.Random(case['bcseed'])
    pat = case.get('ebcs')
    if pat is None:
        pat = _bc_pattern(r, nNodes, case['dim'], case['kind'])
    if case.get('twin'):
        # history stream: the same mesh and the same BC pattern with every node n replaced by (n+1) mod nNodes -- a DIFFERENT
        # mask with exactly the same counts and array shapes as the untwinned case that is constructed just before it
        pat = [([(int(n) + 1) % nNodes for n in nodes], comp) for (nodes, comp) in pat]
    nodeSets = {}
    ebcs = []
    for k, (nodes, comp) in enumerate(pat):
        nodeSets['ns%d' % k] = onp.array(nodes, dtype=int)
        ebcs.append(('ns%d' % k, [int(x) for x in nodes], int(comp)))
    mesh = Mesh.mesh_with_nodesets(mesh, nodeSets)
    if case['src'] == 'structured' and not case.get('nomodel'):
        quad = QuadratureRule.create_quadrature_rule_on_triangle(degree=2)
        fs = FunctionSpace.construct_function_space(mesh, quad)
    else:
        fs = types.SimpleNamespace(mesh=mesh)
    conns = [[int(x) for x in row] for row in onp.asarray(mesh.conns)]
    return fs, nNodes, conns, ebcs


def slices_for(case, nNodes, dim, r):
    """basic slices (python objects) + the flat row-major positions they select"""
    import numpy as onp
    ids = onp.arange(nNodes * dim).reshape(nNodes, dim)
    out = []
    a = r.randrange(0, nNodes)
    b = r.randrange(a, nNodes + 1)
    c = r.randrange(dim)
    c0 = r.randrange(dim)
    cands = [('[a:b, c]', (slice(a, b), c)), ('[:, :]', (slice(None), slice(None))),
             ('[::2, c0:]', (slice(None, None, 2), slice(c0, None))), ('[n, :]', (a, slice(None)))]
    for name, s in cands:
        out.append((name, s, [int(x) for x in onp.asarray(ids[s]).ravel()]))
    return out


def run_impl(case):
    """run the real DofManager on the case; everything returned as python ints"""
    import random
    import numpy as onp
    import optimism  # noqa: F401
    from optimism import FunctionSpace
    dim = case['dim']
    ints = lambda a: [int(x) for x in onp.asarray(a).ravel()]

    def snapshot(d, n):
        probe = onp.arange(1, n + 1, dtype=float).reshape(d.isBc.shape)
        return dict(isBc=ints(d.isBc), isUnknown=ints(d.isUnknown), unk=ints(d.unknownIndices), bc=ints(d.bcIndices), d2u=ints(d.dofToUnknown),
                    rows=ints(d.HessRowCoords), cols=ints(d.HessColCoords), mask=ints(d.hessian_bc_mask), sizes=[int(d.get_bc_size()), int(d.get_unknown_size())],
                    gu=ints(d.get_unknown_values(probe)), gb=ints(d.get_bc_values(probe)),
                    cf=ints(d.create_field(d.get_unknown_values(probe), d.get_bc_values(probe))))

    first = None
    if case.get('twin'):
        caseA = {k: v for k, v in case.items() if k != 'twin'}
        fsA, nA, _, ebcsA = build(caseA)
        dmA = FunctionSpace.DofManager(fsA, dim, [FunctionSpace.EssentialBC(nodeSet=name, component=comp) for (name, _, comp) in ebcsA])
        first = (dmA, snapshot(dmA, nA * dim), nA * dim)
    fs, nNodes, conns, ebcs = build(case)
    dm = FunctionSpace.DofManager(fs, dim, [FunctionSpace.EssentialBC(nodeSet=name, component=comp) for (name, _, comp) in ebcs])
    r = random.Random(case['bcseed'] ^ 0x1234)
    N = nNodes * dim
    U = r.sample(range(1000, 1000 + 3 * N + 3), N)          # distinct integer field values (exact in binary64)
    Uarr = onp.array(U, dtype=float).reshape(nNodes, dim)
    Uu = [int(x) for x in onp.asarray(dm.get_unknown_values(Uarr))]
    Ubc = [int(x) for x in onp.asarray(dm.get_bc_values(Uarr))]
    Uu2 = r.sample(range(5000, 5000 + 2 * N + 2), len(Uu))
    Ubc2 = r.sample(range(9000, 9000 + 2 * N + 2), len(Ubc))
    cscal = r.choice([0, 7])
    out = dict(nNodes=nNodes, dim=dim, conns=conns, ebcs=ebcs, U=U, Uu2=Uu2, Ubc2=Ubc2, c=cscal)
    out['fieldShape'] = [int(x) for x in dm.fieldShape]
    out['isBc'] = ints(dm.isBc)
    out['isUnknown'] = ints(dm.isUnknown)
    out['ids'] = ints(dm.ids)
    out['unknownIndices'] = ints(dm.unknownIndices)
    out['bcIndices'] = ints(dm.bcIndices)
    out['dofToUnknown'] = ints(dm.dofToUnknown)
    out['sizes'] = [int(dm.get_bc_size()), int(dm.get_unknown_size())]
    out['rows'] = ints(dm.HessRowCoords)
    out['cols'] = ints(dm.HessColCoords)
    out['mask'] = ints(dm.hessian_bc_mask)
    out['mask_shape'] = [int(x) for x in dm.hessian_bc_mask.shape]
    out['create'] = ints(dm.create_field(onp.array(Uu2, dtype=float), onp.array(Ubc2, dtype=float)))
    out['create_scalar'] = ints(dm.create_field(onp.array(Uu2, dtype=float), float(cscal)) if cscal else dm.create_field(onp.array(Uu2, dtype=float)))
    out['get_bc'] = Ubc
    out['get_unknown'] = Uu
    out['recreate'] = ints(dm.create_field(onp.array(Uu, dtype=float), onp.array(Ubc, dtype=float)))
    out['get_unknown_of_create'] = ints(dm.get_unknown_values(dm.create_field(onp.array(Uu2, dtype=float), onp.array(Ubc2, dtype=float))))
    out['get_bc_of_create'] = ints(dm.get_bc_values(dm.create_field(onp.array(Uu2, dtype=float), onp.array(Ubc2, dtype=float))))
    sl = slices_for(case, nNodes, dim, r)
    out['slices'] = [(name, pos, ints(dm.slice_unknowns_with_dof_indices(onp.array(Uu2, dtype=float), s))) for (name, s, pos) in sl]
    out['comp_slices'] = [(c, ints(dm.slice_unknowns_with_dof_indices(onp.array(Uu2, dtype=float), onp.s_[:, c]))) for c in range(dim)]
    if first is not None:
        # the first DofManager must be unaffected by the construction and use of the second one (no shared mutable state / caches)
        again = snapshot(first[0], first[2])
        out['first_changed'] = sorted(k for k in again if again[k] != first[1][k])
        out['twin_same_counts'] = (first[1]['sizes'] == out['sizes'])
    return out


# ----------------------------------------------------------------------------- HISTORY stream: several assemblies in ONE process
#
# The clause "the sparse-assembly index maps address exactly the unknown-by-unknown entries of every element, each once" is judged on what
# SparseMatrixAssembler.assemble_sparse_stiffness_matrix DOES with the maps: a history is a sequence of >= 2 assemblies in this process, with
# different DofManagers of EQUAL sizes (number of unknowns, number of COO triplets, mask shape) but different numbering, and with repeated
# assemblies through one DofManager.  Every assembled matrix is compared, exactly (integer-valued element matrices), with a dense reference
# built by hand from the element matrices, the connectivity and the declared (node, component) pairs -- model/M_C14_Asm.v `assemble`
# (L1, evaluated by Coq) and its Python mirror `reference_matrix` (L2) -- using nothing of the DofManager.

HIST_FAMILIES = ['perm', 'edges', 'clamp', 'transpose', 'perm', 'shift', 'repeat', 'perm_nobc', 'mirror', 'rebuild']


def _coords_sets(Nx, Ny, order):
    """node ids on the four edges of the structured unit-square mesh (any element order), from the coordinates"""
    import numpy as onp
    from optimism import Mesh
    mesh = Mesh.construct_structured_mesh(Nx, Ny, [0.0, 1.0], [0.0, 1.0], elementOrder=order)
    xy = onp.asarray(mesh.coords)
    tol = 1e-9
    pick = lambda m: [int(i) for i in onp.nonzero(m)[0]]
    return dict(left=pick(xy[:, 0] < tol), right=pick(xy[:, 0] > 1 - tol), bottom=pick(xy[:, 1] < tol), top=pick(xy[:, 1] > 1 - tol),
                nNodes=int(xy.shape[0]), xy=xy)


def _mirror_nodes(cs, nodes):
    """image of a node list under the reflection x -> 1-x of the structured mesh (a symmetry of the node set)"""
    import numpy as onp
    xy = cs['xy']
    out = []
    for n in nodes:
        t = onp.array([1.0 - xy[n, 0], xy[n, 1]])
        out.append(int(onp.argmin(onp.sum((xy - t) ** 2, axis=1))))
    return out


def gen_histories(ctx):
    """-> list of history cases dict(stream='history', family, steps=[step]); a step is a `build` case with an explicit BC pattern, a seed
    for its integer element matrices (`kseed`) and optionally `reuse` = index of the earlier step whose DofManager OBJECT is used again."""
    r = ctx.rng('history')
    n = ctx.n(10, 90)
    hists = []
    for i in range(n):
        fam = HIST_FAMILIES[i % len(HIST_FAMILIES)]
        ks = lambda: r.randrange(1 << 30)
        steps = []
        if fam in ('perm', 'perm_nobc'):
            npe = r.choice([3, 3, 6])
            dim = r.choice([1, 2, 2, 3]) if npe == 3 else r.choice([1, 2])
            nNodes = r.randrange(max(3, npe), 13)
            nEl = r.randrange(1, 6)
            conns = [r.sample(range(nNodes), npe) if r.random() < 0.85 else [r.randrange(nNodes) for _ in range(npe)] for _ in range(nEl)]
            pat = [] if fam == 'perm_nobc' else _bc_pattern(r, nNodes, dim, r.choice(['single', 'overlap', 'repeated', 'random', 'random']))
            pi = list(range(nNodes))
            while pi == list(range(nNodes)):
                r.shuffle(pi)
            A = dict(src='random', nNodes=nNodes, conns=conns, dim=dim, ebcs=pat)
            # the SAME abstract problem under another node numbering: every size agrees, the index maps do not
            B = dict(src='random', nNodes=nNodes, conns=[[pi[x] for x in row] for row in conns], dim=dim,
                     ebcs=[([pi[x] for x in nodes], comp) for (nodes, comp) in pat])
            steps = [dict(A, kseed=ks()), dict(B, kseed=ks()), dict(A, kseed=ks(), reuse=0), dict(B, kseed=ks(), reuse=1)]
        elif fam in ('edges', 'clamp', 'mirror', 'shift', 'repeat', 'rebuild'):
            order = r.choice([1, 1, 2])
            Nx, Ny = (r.randrange(2, 5), r.randrange(2, 5)) if order == 1 else (r.randrange(2, 4), 2)
            dim = 2 if fam in ('edges', 'clamp') else r.choice([1, 2, 2, 3] if order == 1 else [1, 2])
            cs = _coords_sets(Nx, Ny, order)
            base = dict(src='structured', Nx=Nx, Ny=Ny, order=order, dim=dim)
            if fam == 'edges':       # two pairs of symmetry planes: "left x + bottom y" then "right x + top y"
                pats = [[(cs['left'], 0), (cs['bottom'], 1)], [(cs['right'], 0), (cs['top'], 1)], [(cs['left'], 1), (cs['top'], 0)]]
            elif fam == 'clamp':     # clamped left edge, then clamped right edge, then bottom / top
                pats = [[(cs['left'], 0), (cs['left'], 1)], [(cs['right'], 0), (cs['right'], 1)]]
                if Nx == Ny:
                    pats += [[(cs['bottom'], 0), (cs['bottom'], 1)], [(cs['top'], 0), (cs['top'], 1)]]
            elif fam == 'mirror':    # a random pattern and its mirror image under x -> 1-x
                p0 = _bc_pattern(r, cs['nNodes'], dim, r.choice(['single', 'random', 'overlap']))
                pats = [p0, [(_mirror_nodes(cs, nodes), comp) for (nodes, comp) in p0]]
            elif fam == 'shift':     # node n -> n+1: equal number of unknowns; the number of triplets may or may not agree (counted)
                p0 = _bc_pattern(r, cs['nNodes'], dim, r.choice(['single', 'random']))
                pats = [p0, [([(x + 1) % cs['nNodes'] for x in nodes], comp) for (nodes, comp) in p0]]
            else:
                pats = [_bc_pattern(r, cs['nNodes'], dim, r.choice(KINDS))]
            steps = [dict(base, ebcs=p, kseed=ks()) for p in pats]
            if fam == 'repeat':      # Newton iterations: one DofManager object, new element matrices every time
                steps += [dict(base, ebcs=pats[0], kseed=ks(), reuse=0), dict(base, ebcs=pats[0], kseed=ks(), reuse=0)]
            elif fam == 'rebuild':   # an equal DofManager built afresh (new object, same data)
                steps += [dict(base, ebcs=pats[0], kseed=ks())]
            else:                    # ... and back to the first DofManager object
                steps += [dict(base, ebcs=pats[0], kseed=ks(), reuse=0)]
        else:                        # transpose: an Nx x Ny and an Ny x Nx grid without BCs (equal sizes, different connectivity)
            Nx = r.randrange(2, 5)
            Ny = r.choice([y for y in range(2, 5) if y != Nx])
            dim = r.choice([1, 2, 2, 3])
            pat = [] if r.random() < 0.7 else [([0], r.randrange(dim))]
            steps = [dict(src='structured', Nx=Nx, Ny=Ny, order=1, dim=dim, ebcs=pat, kseed=ks()),
                     dict(src='structured', Nx=Ny, Ny=Nx, order=1, dim=dim, ebcs=pat, kseed=ks()),
                     dict(src='structured', Nx=Nx, Ny=Ny, order=1, dim=dim, ebcs=pat, kseed=ks(), reuse=0)]
        for s in steps:
            s.setdefault('bcseed', 0)
            s['kind'] = 'history'
        hists.append(dict(stream='history', family=fam, kind='history/' + fam, dim=steps[0]['dim'], steps=steps))
    return hists


def element_matrices(step, nEl, nd):
    """integer-valued, NON-symmetric element matrices (entries -9..9), flat row-major per element; deterministic in the step's kseed"""
    import random
    rr = random.Random(step['kseed'])
    return [[rr.randrange(-9, 10) for _ in range(nd * nd)] for _ in range(nEl)]


def reference_matrix(nNodes, dim, conns, declared, kvals):
    """dense unknown-by-unknown matrix assembled by hand from the element matrices, the connectivity and the declared (node, component)
    pairs; mirror of model/M_C14_Asm.v `assemble`: block entry (a, b) adds to (unknown number of dof b, unknown number of dof a),
    unknowns numbered in node-major order over the non-essential dofs.  Nothing of DofManager is used."""
    essential = set()
    for (nodes, comp) in declared:
        for nd_ in nodes:
            essential.add((int(nd_), int(comp)))
    unknown_of = {}
    for nd_ in range(nNodes):
        for c in range(dim):
            if (nd_, c) not in essential:
                unknown_of[(nd_, c)] = len(unknown_of)
    nU = len(unknown_of)
    K = [[0] * nU for _ in range(nU)]
    for e, en in enumerate(conns):
        dofs = [(int(nd_), c) for nd_ in en for c in range(dim)]
        ndof = len(dofs)
        for a, da in enumerate(dofs):
            if da in essential:
                continue
            for b, db in enumerate(dofs):
                if db in essential:
                    continue
                K[unknown_of[db]][unknown_of[da]] += kvals[e][a * ndof + b]
    return K


def run_history_impl(hist):
    """run the whole history through the real DofManager + assemble_sparse_stiffness_matrix in this process, in order;
    -> list of per-step dicts (python ints only)"""
    import numpy as onp
    import optimism  # noqa: F401
    from optimism import FunctionSpace, SparseMatrixAssembler
    outs, dms = [], []
    for k, step in enumerate(hist['steps']):
        dim = step['dim']
        fs, nNodes, conns, ebcs = build(step)
        if step.get('reuse') is not None:
            dm = dms[step['reuse']]
        else:
            dm = FunctionSpace.DofManager(fs, dim, [FunctionSpace.EssentialBC(nodeSet=name, component=comp) for (name, _, comp) in ebcs])
        dms.append(dm)
        nEl, npe = len(conns), len(conns[0])
        nd = npe * dim
        kvals = element_matrices(step, nEl, nd)
        kValues = onp.array(kvals, dtype=float).reshape(nEl, npe, dim, npe, dim)
        K = SparseMatrixAssembler.assemble_sparse_stiffness_matrix(kValues, fs.mesh.conns, dm)
        Kd = onp.asarray(K.toarray())
        integral = bool(onp.all(Kd == onp.round(Kd)))
        outs.append(dict(nNodes=nNodes, dim=dim, conns=conns, ebcs=ebcs, kvals=kvals, shape=[int(x) for x in Kd.shape],
                         K=[[int(round(float(x))) for x in row] for row in Kd], integral=integral,
                         sizes=(int(onp.asarray(dm.unknownIndices).size), int(onp.asarray(dm.HessRowCoords).size),
                                tuple(int(x) for x in dm.hessian_bc_mask.shape)),
                         maps=(tuple(int(x) for x in onp.asarray(dm.HessRowCoords)), tuple(int(x) for x in onp.asarray(dm.HessColCoords)),
                               tuple(int(x) for x in onp.asarray(dm.hessian_bc_mask).ravel())),
                         reuse=step.get('reuse')))
    return outs


def history_conclusions(hist, outs):
    """-> list of (step index, message): assembled matrix k differs from the by-hand reference of request k"""
    bad = []
    for k, o in enumerate(outs):
        declared = [(nodes, comp) for (_, nodes, comp) in o['ebcs']]
        Kref = reference_matrix(o['nNodes'], o['dim'], o['conns'], declared, o['kvals'])
        nU = len(Kref)
        o['Kref'] = Kref
        if o['shape'] != [nU, nU]:
            bad.append((k, 'assembled matrix has shape %s, expected %s (unknown x unknown)' % (o['shape'], [nU, nU])))
            continue
        if not o['integral']:
            bad.append((k, 'assembled matrix of integer element matrices has non-integer entries'))
            continue
        KrefT = [[Kref[j][i] for j in range(nU)] for i in range(nU)]
        if o['K'] == Kref:
            o['orientation'] = 'transposed (row = unknown of b)'
        elif o['K'] == KrefT:
            o['orientation'] = 'straight'          # the property text does not fix the orientation; L1 (model) pins it
        else:
            diffs = [(i, j) for i in range(nU) for j in range(nU) if o['K'][i][j] != Kref[i][j]]
            i, j = diffs[0]
            pat = sum(1 for i2 in range(nU) for j2 in range(nU) if (o['K'][i2][j2] != 0) != (Kref[i2][j2] != 0))
            prev = ''
            if k > 0:
                same = [q for q in range(k) if outs[q]['sizes'] == o['sizes'] and outs[q]['maps'] != o['maps']]
                if same:
                    prev = '; assembly %d of this history used a DofManager with the same sizes %s but different index maps' % (same[-1], o['sizes'][:2])
            bad.append((k, 'assembly %d of %d in one process: the assembled matrix differs from the unknown-by-unknown matrix assembled by hand from '
                           'the element matrices, the connectivity and the declared BC pairs at %d of %d positions, e.g. K[%d,%d] = %d, by hand %d '
                           '(%d positions non-zero in one and zero in the other)%s'
                        % (k, len(outs), len(diffs), nU * nU, i, j, o['K'][i][j], Kref[i][j], pat, prev)))
    return bad


def history_model_expr(outs):
    reqs = []
    for o in outs:
        ebcs = '[' + '; '.join('(%s, (%d))' % (zl(nodes), comp) for (_, nodes, comp) in o['ebcs']) + ']'
        conns = '[' + '; '.join(zl(c) for c in o['conns']) + ']'
        kv = '[' + '; '.join(zl(k) for k in o['kvals']) + ']'
        reqs.append('mk_request (%d) (%d) %s %s %s' % (o['nNodes'], o['dim'], ebcs, conns, kv))
    return 'run_history [' + '; '.join(reqs) + ']'


def history_stream(ctx, model_ok, hists=None):
    hists = hists if hists is not None else gen_histories(ctx)
    fams, done = {}, []
    for hist in hists:
        ctx.count('history_sequences')
        try:
            outs = run_history_impl(hist)
        except Exception as ex:
            import traceback as _tb
            fr = _tb.extract_tb(ex.__traceback__)[-1]
            ctx.fail('conclusion', 'history %s: DofManager / assemble_sparse_stiffness_matrix raised %s: %s at %s:%d on a valid sequence of assemblies'
                     % (hist['family'], type(ex).__name__, str(ex)[:200], fr.filename.split('/')[-1], fr.lineno), case=hist, concrete=True)
            continue
        fams[hist['family']] = fams.get(hist['family'], 0) + 1
        ctx.count('evaluations', len(outs))
        ctx.count('history_assemblies', len(outs))
        for k, o in enumerate(outs):
            if o['reuse'] is not None:
                ctx.count('history_repeated_assemblies_same_dofmanager')
            if any(outs[q]['sizes'] == o['sizes'] and outs[q]['maps'] != o['maps'] for q in range(k)):
                ctx.count('history_assemblies_after_equal_sizes_different_maps')
        bad = history_conclusions(hist, outs)
        ctx.count('conclusion_checks', len(outs))
        for (k, msg) in bad[:2]:
            o = outs[k]
            ctx.fail('conclusion', 'history %s (%d nodes, dim %d, %d elements, BC pairs %s): %s'
                     % (hist['family'], o['nNodes'], o['dim'], len(o['conns']), str([(n, c) for (_, n, c) in o['ebcs']])[:160], msg),
                     case=hist, concrete=True)
        done.append((hist, outs))
    ctx.cov['history_families'] = fams
    if done:
        o = done[0][1][-1]
        ctx.sample(dict(stream='history', family=done[0][0]['family'], assemblies=len(done[0][1]), nNodes=o['nNodes'], dim=o['dim'],
                        sizes=list(o['sizes'][:2]), orientation=o.get('orientation'), K_row0=o['K'][0][:8] if o['K'] else []))
    if not model_ok or not done:
        return
    res = C.coq_eval(IMPORTS_ASM, [history_model_expr(outs) for (_, outs) in done], 'C14h', shard=ctx.n(4, 8), timeout=900)
    nm = 0
    for (hist, outs), zs in zip(done, res):
        mats = unpack(zs)
        ctx.count('model_vs_impl_comparisons', len(outs))
        if len(mats) != len(outs):
            nm += 1
            ctx.fail('correspondence', 'history %s: the model returned %d matrices for %d assemblies' % (hist['family'], len(mats), len(outs)), case=hist)
            continue
        for k, (o, m) in enumerate(zip(outs, mats)):
            flat = [x for row in o['K'] for x in row]
            if list(m) != flat:
                nm += 1
                ctx.fail('correspondence', 'history %s, assembly %d of %d: model `assemble` (M_C14_Asm.v) and assemble_sparse_stiffness_matrix disagree '
                         '(%d nodes, dim %d): model %s... impl %s...' % (hist['family'], k, len(outs), o['nNodes'], o['dim'], str(list(m))[:100], str(flat)[:100]),
                         case=hist)
                break
    ctx.count('history_model_vs_impl_mismatches', nm)


# ----------------------------------------------------------------------------- L2: theorem conclusions on the implementation's arrays

def conclusions(o):
    """mirror of the statements in props/P_C14.v evaluated on what the implementation returned; -> list of violated clauses"""
    bad = []
    nN, dim, N = o['nNodes'], o['dim'], o['nNodes'] * o['dim']
    isBc, unk, bc, d2u = o['isBc'], o['unknownIndices'], o['bcIndices'], o['dofToUnknown']
    if o.get('first_changed'):
        bad.append('attributes/methods %s of a DofManager changed after another DofManager (same mesh, same counts) was constructed and used' % o['first_changed'])
    if o['fieldShape'] != [nN, dim] or len(isBc) != N:
        bad.append('isBc has %d entries, expected nNodes*dim = %d' % (len(isBc), N))
        return bad
    # C14_isBc_from_node_sets
    want = [0] * N
    for (_, nodes, comp) in o['ebcs']:
        for n in nodes:
            want[n * dim + comp] = 1
    if isBc != want:
        bad.append('isBc differs from {(n,c): some BC names c and a node set containing n} at %s' % [i for i in range(N) if isBc[i] != want[i]][:5])
    if o['isUnknown'] != [1 - b for b in isBc]:
        bad.append('isUnknown is not the complement of isBc')
    # C14_partition
    if sorted(unk + bc) != list(range(N)):
        bad.append('unknownIndices ++ bcIndices is not a permutation of all dofs')
    if any(unk[i] >= unk[i + 1] for i in range(len(unk) - 1)) or any(bc[i] >= bc[i + 1] for i in range(len(bc) - 1)):
        bad.append('index arrays not strictly increasing')
    if set(unk) & set(bc):
        bad.append('unknown and bc indices overlap')
    if set(bc) != {i for i in range(N) if isBc[i]}:
        bad.append('bcIndices are not the positions where isBc holds')
    # C14_sizes
    if o['sizes'] != [len(bc), len(unk)] or len(bc) + len(unk) != N or o['sizes'][0] != sum(isBc):
        bad.append('sizes %s do not equal the entry counts (%d bc, %d unknown)' % (o['sizes'], len(bc), len(unk)))
    if len(o['get_unknown']) != o['sizes'][1] or len(o['get_bc']) != o['sizes'][0]:
        bad.append('get_*_values lengths differ from the reported sizes')
    # C14_roundtrip
    if o['recreate'] != o['U']:
        bad.append('create_field(get_unknown_values(U), get_bc_values(U)) != U')
    if o['get_unknown_of_create'] != o['Uu2']:
        bad.append('get_unknown_values(create_field(Uu, Ubc)) != Uu')
    if o['get_bc_of_create'] != o['Ubc2']:
        bad.append('get_bc_values(create_field(Uu, Ubc)) != Ubc')
    if [o['create_scalar'][i] for i in bc] != [o['c']] * len(bc) or [o['create_scalar'][i] for i in unk] != o['Uu2']:
        bad.append('create_field with scalar Ubc does not place the scalar on constrained dofs / Uu on the unknown ones')
    if o['get_unknown'] != [o['U'][i] for i in range(N) if not isBc[i]] or o['get_bc'] != [o['U'][i] for i in range(N) if isBc[i]]:
        bad.append('get_*_values are not the masked entries in row-major order')
    # C14_dofToUnknown
    if len(d2u) != N:
        bad.append('dofToUnknown has wrong length')
    else:
        if any(d2u[unk[k]] != k for k in range(len(unk))):
            bad.append('dofToUnknown[unknownIndices[k]] != k')
        if any((d2u[i] == -1) != bool(isBc[i]) for i in range(N)):
            bad.append('dofToUnknown is not -1 exactly on the constrained dofs')
        if any((not isBc[i]) and not (0 <= d2u[i] < len(unk) and unk[d2u[i]] == i) for i in range(N)):
            bad.append('unknownIndices[dofToUnknown[i]] != i on an unknown dof')
    # C14_slice / C14_slice_component   (the field whose unknown part is Uu2)
    field = o['create']
    for (c, got) in o['comp_slices']:
        if got != [field[n * dim + c] for n in range(nN) if not isBc[n * dim + c]]:
            bad.append('component slice [:, %d] is not the unconstrained entries of that component in node order' % c)
    for (name, pos, got) in o['slices']:
        if got != [field[p] for p in pos if not isBc[p]]:
            bad.append('slice %s is not the unconstrained selected entries in slice order' % name)
    # C14_hessian_maps
    rows, cols, mask = o['rows'], o['cols'], o['mask']
    conns = o['conns']
    npe = len(conns[0]) if conns else 0
    nd = npe * dim
    if not conns:
        # no elements: the three arrays are empty whatever the number of nodes per element of the (0, npe) table
        if o['mask_shape'][0] != 0 or rows or cols or mask:
            bad.append('mesh without elements: Hessian maps are not empty (mask shape %s, %d rows, %d cols)' % (o['mask_shape'], len(rows), len(cols)))
        return bad
    if o['mask_shape'] != [len(conns), nd, nd]:
        bad.append('hessian_bc_mask has shape %s, expected %s' % (o['mask_shape'], [len(conns), nd, nd]))
        return bad
    if not (len(rows) == len(cols) == sum(mask)):
        bad.append('lengths of HessRowCoords/HessColCoords/mask count differ: %d %d %d' % (len(rows), len(cols), sum(mask)))
        return bad
    # the mask must be True exactly on the pairs whose two dofs are unknown; the k-th True entry (row-major) must carry the unknown
    # numbers of that pair.  The property text does not fix the orientation, so either consistent orientation is accepted here
    # ((unk b, unk a) is what the current source and the model do; L1 pins it); anything else is a violation.
    exp_t, exp_s = [], []
    for e, en in enumerate(conns):
        dofs = [n * dim + c for n in en for c in range(dim)]
        for a in range(nd):
            for b in range(nd):
                both = (not isBc[dofs[a]]) and (not isBc[dofs[b]])
                m = mask[(e * nd + a) * nd + b]
                if bool(m) != both:
                    bad.append('mask[%d,%d,%d]=%d but both-unknown=%s' % (e, a, b, m, both))
                    return bad
                if m:
                    exp_t.append((d2u[dofs[b]], d2u[dofs[a]]))
                    exp_s.append((d2u[dofs[a]], d2u[dofs[b]]))
    got = list(zip(rows, cols))
    if len(got) != len(exp_t):
        bad.append('number of addressed pairs %d != number of coordinates %d' % (len(exp_t), len(got)))
    elif got != exp_t and got != exp_s:
        k = [i for i in range(len(got)) if got[i] != exp_t[i]][0]
        bad.append('coordinate entry %d is (row, col)=%s, expected (unk b, unk a)=%s (or the transposed convention throughout)' % (k, got[k], exp_t[k]))
    if any(not (0 <= x < len(unk)) for p in got for x in p):
        bad.append('a Hessian coordinate is outside 0..nUnknowns-1')
    o['orientation'] = 'transposed (row = unknown of b)' if got == exp_t else 'straight'
    return bad


# ----------------------------------------------------------------------------- L1: model vs implementation

def zl(l):
    return '[' + '; '.join('(%d)' % int(x) for x in l) + ']'


def model_expr(o):
    ebcs = '[' + '; '.join('(%s, (%d))' % (zl(nodes), comp) for (_, nodes, comp) in o['ebcs']) + ']'
    conns = '[' + '; '.join(zl(c) for c in o['conns']) + ']'
    slices = '[' + '; '.join(zl(pos) for (_, pos, _) in o['slices']) + ']'
    comps = zl([c for (c, _) in o['comp_slices']])
    return 'run_case (%d) (%d) %s %s %s %s %s (%d) %s %s' % (o['nNodes'], o['dim'], ebcs, conns, zl(o['U']), zl(o['Uu2']), zl(o['Ubc2']),
                                                            o['c'], slices, comps)


def ir_expr(o):
    ebcs = '[' + '; '.join('(%s, (%d))' % (zl(nodes), comp) for (_, nodes, comp) in o['ebcs']) + ']'
    conns = '[' + '; '.join(zl(c) for c in o['conns']) + ']'
    return 'run_ir_case cfg_dof_methods (%d) (%d) %s %s' % (o['nNodes'], o['dim'], ebcs, conns)


FIELDS = ['isBc', 'isUnknown', 'ids', 'unknownIndices', 'bcIndices', 'dofToUnknown', 'sizes', 'rows', 'cols', 'mask',
          'create', 'create_scalar', 'get_bc', 'get_unknown']


def unpack(zs):
    out, i = [], 0
    while i < len(zs):
        n = zs[i]
        out.append(zs[i + 1:i + 1 + n])
        i += 1 + n
    return out


def compare(o, zs):
    """-> list of (field, model, impl) mismatches"""
    parts = unpack(zs)
    names = FIELDS + ['slice %s' % nm for (nm, _, _) in o['slices']] + ['component slice %d' % c for (c, _) in o['comp_slices']]
    want = [o[f] for f in FIELDS] + [got for (_, _, got) in o['slices']] + [got for (_, got) in o['comp_slices']]
    mism = []
    if len(parts) != len(names):
        return [('number of outputs', len(parts), len(names))]
    for nm, m, w in zip(names, parts, want):
        if list(m) != list(w):
            mism.append((nm, m, w))
    return mism


def slim(case):
    return {k: v for k, v in case.items()}


def correspondence(ctx, model_ok, cases=None, hists=None):
    history_stream(ctx, model_ok, hists)
    single_stream(ctx, model_ok, cases)


def single_stream(ctx, model_ok, cases=None):
    cases = cases if cases is not None else gen_cases(ctx)
    outs = []
    distinct = set()
    kinds = {}
    kept = []
    for case in cases:
        try:
            o = run_impl(case)
        except Exception as ex:      # a valid mesh / BC set must be accepted by the implementation
            ctx.count('evaluations')
            ctx.fail('conclusion', 'DofManager raised %s: %s on a valid input (%s BCs, dim %d)' % (type(ex).__name__, str(ex)[:200], case['kind'], case['dim']),
                     case=slim(case), concrete=True)
            continue
        kept.append(case)
        outs.append(o)
        ctx.count('evaluations')
        nb = sum(o['isBc'])
        key = (o['nNodes'], o['dim'], tuple(map(tuple, o['conns'])), tuple(o['isBc']))
        if 0 < nb < len(o['isBc']) or case['kind'] in ('empty', 'full', 'full_twice', 'empty_set'):
            distinct.add(key)
        kinds[case['kind']] = kinds.get(case['kind'], 0) + 1
        if not o['conns']:
            ctx.count('zero_element_meshes')
        bad = conclusions(o)
        ctx.count('conclusion_checks')
        for b in bad[:3]:
            ctx.fail('conclusion', 'DofManager(%s nodes, dim %d, %s BCs): %s' % (o['nNodes'], o['dim'], case['kind'], b),
                     case=slim(case), concrete=True)
    ctx.count('distinct_nontrivial', len(distinct))
    ctx.cov['bc_kinds'] = kinds
    ctx.cov['max_dofs'] = max([len(o['isBc']) for o in outs] or [0])
    ctx.cov['max_hessian_entries'] = max([len(o['rows']) for o in outs] or [0])
    if outs:
        o = outs[0]
        ctx.sample(dict(nNodes=o['nNodes'], dim=o['dim'], nElements=len(o['conns']), ebcs=[(n, c) for (_, n, c) in o['ebcs']][:3],
                        unknownIndices=o['unknownIndices'][:12], dofToUnknown=o['dofToUnknown'][:12]))
    if not model_ok:
        return
    pairs = [(c, o) for c, o in zip(kept, outs) if not c.get('nomodel')]
    kept, outs = [c for c, _ in pairs], [o for _, o in pairs]
    res = C.coq_eval(IMPORTS, [model_expr(o) for o in outs], 'C14', shard=ctx.n(6, 12), timeout=900)
    nm = 0
    for case, o, zs in zip(kept, outs, res):
        mism = compare(o, zs)
        ctx.count('model_vs_impl_comparisons', len(FIELDS) + len(o['slices']) + len(o['comp_slices']))
        for (f, m, w) in mism[:2]:
            nm += 1
            ctx.fail('correspondence', 'model and DofManager disagree on %s (%d nodes, dim %d, %s BCs): model %s... impl %s...'
                     % (f, o['nNodes'], o['dim'], case['kind'], str(m)[:120], str(w)[:120]), case=slim(case))
    ctx.count('model_vs_impl_mismatches', nm)
    # IR tie: the syntax trees of DofManager extracted from the source on this run (gen/CFG_Dof.v), run by the interpreter of
    # model/M_C14_IR.v on the same cases (constructor incl. both Hessian helper methods, get_*_size), against the implementation
    sub = [(c, o) for c, o in zip(kept, outs) if len(o['rows']) <= 4000][:ctx.n(24, 160)]
    sub += [(c, o) for c, o in zip(kept, outs) if c.get('zero_elements') and not any(c is c2 for c2, _ in sub)]   # zero-trip loops, always
    res = C.coq_eval(IMPORTS_IR, [ir_expr(o) for (_, o) in sub], 'C14i', shard=ctx.n(4, 10), timeout=900)
    ni = 0
    for (case, o), zs in zip(sub, res):
        parts = unpack(zs)
        ctx.count('ir_vs_impl_comparisons', len(IR_FIELDS))
        if len(parts) != len(IR_FIELDS):
            ni += 1
            ctx.fail('correspondence', 'the interpreter of the extracted DofManager source gave no object (%d nodes, dim %d, %s BCs): %s'
                     % (o['nNodes'], o['dim'], case['kind'], str(zs)[:80]), case=slim(case))
            continue
        for f, m in zip(IR_FIELDS, parts):
            if list(m) != list(o[f]):
                ni += 1
                ctx.fail('correspondence', 'extracted DofManager source (gen/CFG_Dof.v, interpreted) and the running DofManager disagree on %s '
                         '(%d nodes, dim %d, %s BCs): interpreted %s... impl %s...' % (f, o['nNodes'], o['dim'], case['kind'], str(m)[:120], str(o[f])[:120]),
                         case=slim(case))
                break
    ctx.count('ir_vs_impl_mismatches', ni)


def search(ctx, reasons):
    """directed search on the implementation alone: bigger budget, all BC kinds, the theorem conclusions as oracle"""
    import copy
    c2 = copy.copy(ctx)
    c2.tier = 'thorough'
    c2.failures, c2.counts, c2.cov = [], {}, {}
    c2.seed = ctx.seed + 1
    # first the cases already implicated by a broken correspondence, then fresh ones
    pri = [r['case'] for r in reasons if r.get('case')]
    prih = [c for c in pri if c.get('stream') == 'history']
    pri = [c for c in pri if c.get('stream') != 'history' and 'src' in c]
    correspondence(c2, False, cases=pri + gen_cases(c2)[:150], hists=prih + gen_histories(c2))
    conc = [f for f in c2.failures if f.get('concrete')]
    return conc[0] if conc else None


def finding_fails(ctx, f):
    return False


def matches_finding(fl, f):
    return False


def replay(ctx, path):
    rep = json.load(open(path))
    case = rep.get('failing_input')
    print('replay of', path)
    print(json.dumps(rep.get('reasons'), indent=1)[:3000])
    if not case:
        print('no concrete failing input recorded; broken obligations:', rep.get('broken'))
        return 1
    if case.get('stream') == 'history':
        try:
            outs = run_history_impl(case)
        except Exception as ex:
            print('implementation raises on this sequence of assemblies:', repr(ex)[:300])
            return 1
        bad = history_conclusions(case, outs)
        print('assembled matrices vs the by-hand reference now:', [m for (_, m) in bad] or 'equal for all %d assemblies' % len(outs))
        mism = []
        try:
            zs = C.coq_eval(IMPORTS_ASM, [history_model_expr(outs)], 'C14hr')[0]
            mism = [k for k, (o, m) in enumerate(zip(outs, unpack(zs))) if list(m) != [x for row in o['K'] for x in row]]
            print('model `assemble` vs implementation now:', ('differ at assemblies %s' % mism) if mism else 'agree')
        except Exception as ex:  # model not built
            print('model could not be evaluated:', str(ex)[:300])
        return 1 if (bad or mism) else 0
    try:
        o = run_impl(case)
    except Exception as ex:
        print('implementation raises on this input:', repr(ex)[:300])
        return 1
    bad = conclusions(o)
    print('theorem conclusions on the implementation now:', bad or 'hold')
    try:
        zs = C.coq_eval(IMPORTS, [model_expr(o)], 'C14r')[0]
        mism = compare(o, zs)
        print('model vs implementation now:', [(f, str(m)[:80], str(w)[:80]) for (f, m, w) in mism] or 'agree')
    except Exception as ex:  # model not built
        print('model could not be evaluated:', str(ex)[:300])
        mism = []
    return 1 if (bad or mism) else 0
