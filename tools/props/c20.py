"""C20 -- VTK output is a well-formed dataset that round-trips (optimism/VTKWriter.py)."""
import json
import os
import re
import shutil
import warnings
from fractions import Fraction

from vlib import common as C

ID = 'C20'
READY = True
LEVEL_TEXT = ('Full. Coq theorems over a hand-written state-machine model of VTKWriter (init / add_nodal_field / add_cell_field / '
              'add_sphere / add_contact_edges / write) that follows the repaired code (fix commits 2cde078, 34184b3, 07417cb) and an '
              'independent strict reader of the legacy-VTK subset: for EVERY writer state satisfying the invariant that init establishes '
              'and every operation keeps (any element order, any nodal and cell fields, any number of spheres and contact edges) the file '
              'parses to exactly the supplied dataset (C20_roundtrip_wellformed), declared POINTS/CELLS/size/CELL_TYPES/POINT_DATA/CELL_DATA '
              'counts equal the records, connectivity refers to written points (given that the user\'s mesh / edge ids do: in_range), every '
              'array has one record per point/cell; write() returns the writer unchanged and any number of writes is identical '
              '(C20_repeated_writes_identical). The three formerly failing configurations are regression theorems and fixed known findings '
              '(F9-F11) replayed on every run. The model is tied to the source by token-for-token comparison with the files the '
              'implementation writes; the Coq reader and consistency check are also run on those files. '
              'Round 4: (1) number formatting at the word level (model/M_C20_Num.v): integers are modelled by fmt_int and read back exactly for EVERY '
              'integer (C20_int_token_roundtrip, C20_int_number_word, C20_count_word_roundtrip, C20_int_words_distinct); every word that renders a '
              'token in the writer\'s formats is lexed back to that token (C20_word_roundtrip) and ANY file whose first two lines are the writer\'s and whose '
              'words render the model\'s tokens parses to the supplied dataset (C20_text_roundtrip); floats: the shortest-repr algorithm of CPython/numpy is NOT '
              'modelled, its contract is the named hypothesis float_repr_contract (C20_float_word_under_repr_contract), checked per token on every run with '
              'Coq\'s own correctly rounded decimal->binary64 / binary32 reader (round_bin: an executable definition, not proved against an IEEE specification). '
              'The files now reach Coq as TEXT (first two lines + whitespace-separated words): lexing, token comparison with the model, reading and the '
              'comparison with the supplied dataset all happen inside Coq; the harness lexer is diagnostic only and cross-checked on a sample. '
              '(2) structural AST tie (model/M_C20_CFG.v, gen/CFG_vtk.v regenerated on every run by tools/vlib/extract_vtk.py, fail closed): order and presence '
              'of the section writers in write(), the keyword words of every vtkFile.write, the loops over spheres / contact edges / field dict and the guards of '
              'POINT_DATA / CELL_DATA equal the hand model\'s structure table BY COMPUTATION (C20_source_structure_is_model_structure); the IR interpreted on the '
              'shape of a state gives the keyword tokens of the model file on concrete states (C20_structure_trace_examples) and on a sample of scenario states per run. '
              'Follow-up: words are also read AT THE DECLARED data type (read_at: an integer VTK type admits integer literals only, within its range; '
              'C20_int_word_at_declared_type, C20_integer_type_admits_integer_literals_only); stream intdtype: every integer VTK data type x numpy signed / numpy '
              'unsigned / jax signed / jax unsigned source arrays x no padding / spheres / contact edges with 0, 2^31, 2^53+1 and the type limits (Python lists are '
              'rejected by add_*_field itself and are not generated); finding F16 (uint64 data + padding was promoted to float64 by numpy) found by this stream and fixed in /repo 4ea53d1; its witness is replayed on every run. '
              'C20_source_tables_terminated: every table write in the source is immediately followed by a newline write in the same block (by computation on the '
              'extracted IR; helpers that receive the file are extracted too); thorough tier (and any run on changed source): one 34000-node / 67262-element file with '
              'tables longer than 65536 rows, declared counts vs records and values (no Coq text round trip for that file). '
              'NOT PROVED: float_repr_contract for CPython; correctness of round_bin w.r.t. IEEE 754; the line/word splitting (str.split in the harness); '
              'the keyword-trace equality for ALL states (only the table equality is for all paths; the interpreter equality is per state).')
TECHNIQUE = 'Coq proof over a hand model (lists/nat/Z, opaque exact-rational value tokens) + vm_compute correspondence on real .vtk files'
GEN = ['CFG_vtk']
TARGETS = ['model/M_C20.vo', 'model/M_C20_Num.vo', 'proofs/L_C20.vo', 'proofs/L_C20w.vo', 'proofs/L_C20n.vo', 'model/M_C20_CFG.vo', 'proofs/L_C20c.vo']
COQ_FILES = ['model/M_C20.v', 'model/M_C20_Num.v', 'proofs/L_C20.v', 'proofs/L_C20w.v', 'proofs/L_C20n.v', 'model/M_C20_CFG.v', 'proofs/L_C20c.v', 'props/P_C20.v']
TRUSTED = ['Coq 8.16.1 kernel + vm_compute (no native_compute)',
           'hand-written model coq/model/M_C20.v of optimism/VTKWriter.py, tied by exact token comparison on every run',
           'harness: the file text is split into its first two lines and the whitespace-separated words of the rest (str.split) and field names '
           'are given ids; the mapping of words to tokens (keywords, integer literals exact, decimal literals -> nearest double) is done by the Coq lexer '
           'M_C20_Num.lex_file (the Python lexer with Fraction(float(s)) is diagnostic and cross-checked against it on a sample of files per run); '
           'supplied numpy scalars are mapped to their exact rational value',
           'M_C20_Num.round_bin as the meaning of "nearest binary64 / binary32 value of a decimal literal" (executable definition; agreement with '
           'Python float() / numpy.float32() is checked per token, including subnormals, ties and random bit patterns)',
           'tools/vlib/extract_vtk.py (AST -> output-structure IR; fail closed on any output statement it does not recognise)',
           'the legacy-VTK subset accepted by the Coq reader (ASCII, UNSTRUCTURED_GRID, POINT_DATA before CELL_DATA, '
           'SCALARS with LOOKUP_TABLE default / VECTORS / TENSORS) is our reading of the VTK file-format description']
ASSUMPTIONS = ['field names are whitespace-free identifiers that are not VTK keywords; sphere_radius is a reserved key (a user field of that name is replaced when spheres exist, in the code and in the specification)',
               'the mesh is not mutated between add_* calls and write() (the model gathers coordinates/connectivity once)',
               'connectivity / contact-edge ids refer to output nodes (mesh.simplexNodesOrdinals is 0..nVertices-1, as produced by '
               'optimism.Mesh); stated as hypothesis in_range',
               'float_repr_contract (named hypothesis of C20_float_word_under_repr_contract): the text CPython / numpy produce for a finite floating '
               'scalar is a decimal literal that is not an integer literal and whose correctly rounded value at that precision is the scalar; the '
               'algorithm is not modelled, the contract is checked per token (every float word of every explored file, plus extreme / random doubles '
               'and float32 values) with the Coq reader; integer formatting IS modelled (fmt_int) and tied per token']
RULE = ('scenarios: structured meshes 2..4 x 2..4 of order 1..4 (order 2 and 3 also with bubble), a random sequence of add_nodal_field / '
        'add_cell_field (scalar/vector/tensor, spatial dimension 1..3, every VTKDataType label, float64/float32/int64/int32 data, '
        'repeated names, wrong-length cell data), add_sphere, add_contact_edges and 1..3 write() calls, all combinations allowed.  '
        'A scenario is non-trivial when it has at least one field, sphere or contact edge; '
        'distinct = distinct (mesh, operation sequence) tuples; evaluations = files written and compared')
IMPORTS = ['From OV.model Require Import M_C20 M_C20_Num M_C20_CFG.', 'From OV.gen Require Import CFG_vtk.']
STR_PRE = 'From Coq Require Import String.\nOpen Scope string_scope.'

KW = {'ASCII': 'KAscii', 'DATASET': 'KDataset', 'UNSTRUCTURED_GRID': 'KUGrid', 'POINTS': 'KPoints', 'CELLS': 'KCells',
      'CELL_TYPES': 'KCellTypes', 'POINT_DATA': 'KPointData', 'CELL_DATA': 'KCellData', 'LOOKUP_TABLE': 'KLookup', 'default': 'KDefault'}
KW_CODE = {'KMagic': 0, 'KTitle': 1, 'KAscii': 2, 'KDataset': 3, 'KUGrid': 4, 'KPoints': 5, 'KCells': 6, 'KCellTypes': 7,
           'KPointData': 8, 'KCellData': 9, 'KLookup': 10, 'KDefault': 11}
FT = ['SCALARS', 'VECTORS', 'TENSORS']
DT_STR = ['bit', 'unsigned_char', 'char', 'unsigned_short', 'short', 'unsigned_int', 'int', 'unsigned_long', 'long', 'float', 'double']
DT_COQ = ['BIT', 'UCHAR', 'CHAR', 'USHORT', 'SHORT', 'UINT', 'INT', 'ULONG', 'LONG', 'FLOAT', 'DOUBLE']
NAMES = ['sphere_radius', 'u', 'disp', 'stress', 'f1', 'eqps', 'T']       # id = index; id 0 is the reserved key
NP_DTYPES = ['float64', 'float32', 'int64', 'int32']
_INT = re.compile(r'^[+-]?\d+$')
_NUM = re.compile(r'^[+-]?(\d+\.?\d*|\.\d+)([eE][+-]?\d+)?$')


# ------------------------------------------------------------------------------------------ lexer for real files
def lex(text, names):
    """-> list of tokens ('K',code) ('F',i) ('D',i) ('N',id) ('V',num,den); names: list, extended with unknown identifiers"""
    lines = text.split('\n')
    toks = []
    toks.append(('K', 0) if re.match(r'^# vtk DataFile Version \d+\.\d+\s*$', lines[0]) else ('N', -1))
    toks.append(('K', 1) if len(lines) > 1 and len(lines[1]) <= 256 else ('N', -2))
    for s in ' '.join(lines[2:]).split():
        if s in KW:
            toks.append(('K', KW_CODE[KW[s]]))
        elif s in FT:
            toks.append(('F', FT.index(s)))
        elif s in DT_STR:
            toks.append(('D', DT_STR.index(s)))
        elif _INT.match(s):
            toks.append(('V', int(s), 1))
        elif _NUM.match(s):
            fr = Fraction(float(s))
            toks.append(('V', fr.numerator, fr.denominator))
        else:
            if s not in names:
                names.append(s)
            toks.append(('N', names.index(s)))
    return toks


def coq_str(x):
    return '"%s"' % x.replace('"', '""')


def file_words(text):
    """the first two lines and the whitespace-separated words of the rest (the input of M_C20_Num.lex_file)"""
    lines = text.split('\n')
    return [lines[0].rstrip(), lines[1] if len(lines) > 1 else ''] + ' '.join(lines[2:]).split()


def tok_coq(t):
    if t[0] == 'K':
        return 'TK %s' % [k for k, v in KW_CODE.items() if v == t[1]][0]
    if t[0] == 'F':
        return 'TF %s' % FT[t[1]]
    if t[0] == 'D':
        return 'TD %s' % DT_COQ[t[1]]
    if t[0] == 'N':
        return 'TName (%d)' % t[1]
    return 'TNum (v (%d) %d)' % (t[1], t[2])


def dec_toks(zs):
    """inverse of enc_toks"""
    out, i = [], 0
    while i < len(zs):
        k = zs[i]
        if k == 0:
            out.append(('K', zs[i + 1])); i += 2
        elif k == 1:
            out.append(('F', zs[i + 1])); i += 2
        elif k == 2:
            out.append(('D', zs[i + 1])); i += 2
        elif k == 3:
            out.append(('N', zs[i + 1])); i += 2
        else:
            out.append(('V', zs[i + 1], zs[i + 2])); i += 3
    return out


# ------------------------------------------------------------------------------------------ scenarios
def val(x):
    fr = Fraction(x) if isinstance(x, int) else Fraction(float(x))
    return 'v (%d) %d' % (fr.numerator, fr.denominator)


def gen_data(seed, n, ft, dim, npdt):
    """deterministic field data: dyadic values (exact in every float type) or small ints"""
    import random
    import numpy as np
    r = random.Random(seed)
    shape = {0: (n,) if dim == 0 else (n, 1), 1: (n, dim), 2: (n, dim, dim)}[ft]
    cnt = 1
    for s in shape:
        cnt *= s
    if npdt == 'float64':
        # full 53-bit mantissas and extreme magnitudes: any precision-losing number format is visible in the token comparison
        def one():
            m = r.randrange(8)
            if m <= 3:
                return r.uniform(-1.0, 1.0) * 10.0 ** r.randrange(-3, 4)
            if m == 4:
                return r.random() * 10.0 ** r.choice([-300, -30, -12, 15, 22, 300])
            if m == 5:
                return r.choice([5e-324, 2.2250738585072014e-308, 1.7976931348623157e308, -0.0, 0.1, 1.0 / 3.0, 123456789.123456789, 1e16 + 2.0])
            return r.randrange(-800, 800) / 8.0
        flat = [one() for _ in range(cnt)]
    elif npdt == 'float32':
        # dyadic values with few bits: their shortest float32 text is exact also for a reader of doubles
        # (full-precision float32 data is covered by the dtype-aware stream `dtype_stream`)
        flat = [r.randrange(-800, 800) / 8.0 for _ in range(cnt)]
    else:
        flat = [r.choice([r.randrange(-50, 50), r.randrange(-2 ** 31, 2 ** 31 - 1)]) for _ in range(cnt)]
    return np.array(flat, dtype=npdt).reshape(shape)


def gen_scenario(r):
    order = r.choice([1, 2, 2, 3, 3, 4])
    bubble = order in (2, 3) and r.random() < 0.3
    nx, ny = r.choice([(2, 2), (3, 2), (2, 3), (3, 3), (4, 2)])
    sc = dict(nx=nx, ny=ny, order=order, bubble=bubble, ops=[])
    nops = r.randrange(0, 8)
    nwrites = r.choice([1, 2, 2, 3])
    ops = []
    for _ in range(nops):
        kind = r.choice(['nodal', 'nodal', 'cell', 'sphere', 'edges'])
        if kind in ('nodal', 'cell'):
            ft = r.randrange(3)
            dim = r.choice([0, 1]) if ft == 0 else r.choice([1, 2, 2, 3])
            op = dict(k=kind, name=(NAMES[0] if r.random() < 0.06 else r.choice(NAMES[1:5])), ft=ft, dim=dim, dt=r.randrange(11), np=r.choice(NP_DTYPES),
                      seed=r.randrange(10 ** 9), wrong=(kind == 'cell' and r.random() < 0.12))
        elif kind == 'sphere':
            op = dict(k='sphere', x=r.randrange(-16, 16) / 4.0, y=r.random(), r=r.choice([0.125, 0.3, 1.0, r.random()]))
        else:
            op = dict(k='edges', seed=r.randrange(10 ** 9), n=r.randrange(0, 4))
        ops.append(op)
    # place the writes: the last op is a write, the others anywhere (possibly adjacent: identical re-writes)
    pos = sorted(r.randrange(0, len(ops) + 1) for _ in range(nwrites - 1))
    out = []
    for i, op in enumerate(ops):
        while pos and pos[0] == i:
            out.append(dict(k='write')); pos.pop(0)
        out.append(op)
    out += [dict(k='write')] * (len(pos) + 1)
    sc['ops'] = out
    return sc


_MESH = {}


def get_mesh(sc):
    key = (sc['nx'], sc['ny'], sc['order'], sc['bubble'])
    if key not in _MESH:
        import optimism  # noqa: F401
        from optimism import Mesh
        _MESH[key] = Mesh.construct_structured_mesh(sc['nx'], sc['ny'], [0.0, 1.0], [0.0, 0.75], elementOrder=sc['order'],
                                                    useBubbleElement=sc['bubble'])
    return _MESH[key]


def run_impl(sc, workdir):
    """run the scenario on the implementation; returns (files: list of str, info: per-write state flags, model_ops: Coq op terms)"""
    import random
    import numpy as np
    from optimism import VTKWriter as V
    mesh = get_mesh(sc)
    nall = int(mesh.coords.shape[0])
    nel = int(mesh.conns.shape[0])
    base = os.path.join(workdir, 'f')
    w = V.VTKWriter(mesh, base)
    nout = int(np.asarray(w.outputNodes).shape[0])
    FTE = [V.VTKFieldType.SCALARS, V.VTKFieldType.VECTORS, V.VTKFieldType.TENSORS]
    DTE = list(V.VTKDataType)
    files, info, mops = [], [], []
    padded = {}          # nodal field name -> was present during an earlier write with spheres (F9 condition)
    st = dict(nsph=0, ncell=0, nedges=0)
    since_write = None   # ops since the previous write
    for op in sc['ops']:
        k = op['k']
        if k in ('nodal', 'cell'):
            n = nall if k == 'nodal' else (nel + 1 if op['wrong'] else nel)
            data = gen_data(op['seed'], n, op['ft'], op['dim'], op['np'])
            with warnings.catch_warnings():
                warnings.simplefilter('ignore')
                (w.add_nodal_field if k == 'nodal' else w.add_cell_field)(op['name'], data, FTE[op['ft']], DTE[op['dt']])
            rows = data.reshape(n, -1).tolist()
            # the caller re-uses its buffer after handing it over (a scratch array filled with the next quantity):
            # the writer must have taken a snapshot -- "parsing the file returns the field values that were supplied"
            if isinstance(data, np.ndarray) and data.flags.writeable:
                data[...] = 7
            term = '[' + '; '.join('[' + '; '.join(val(x) for x in row) + ']' for row in rows) + ']'
            mops.append('%s (%d) %s %s %s' % ('OpNodal' if k == 'nodal' else 'OpCell', NAMES.index(op['name']), term,
                                              FT[op['ft']], DT_COQ[op['dt']]))
            if k == 'nodal':
                padded[op['name']] = False
            elif not op['wrong']:
                st['ncell'] = len(w.cellFields)
        elif k == 'sphere':
            w.add_sphere(np.array([op['x'], op['y']]), op['r'])
            mops.append('OpSphere (%s) (%s) (%s)' % (val(op['x']), val(op['y']), val(op['r'])))
            st['nsph'] += 1
        elif k == 'edges':
            rr = random.Random(op['seed'])
            es = [[rr.randrange(nout), rr.randrange(nout)] for _ in range(op['n'])]
            w.add_contact_edges(np.array(es, dtype=np.int64).reshape(-1, 2))
            mops.append('OpEdges (npairs [%s])' % '; '.join('(%d, %d)' % (a, b) for a, b in es))
            st['nedges'] += len(es)
        else:
            w.write()
            with open(base + '.vtk') as fh:
                files.append(fh.read())
            mops.append('OpWrite')
            user = [nm for nm in padded if nm != 'sphere_radius']
            info.append(dict(order=sc['order'], nall=nall, nout=nout, nel=nel, nsph=st['nsph'], nnodal=len(user), ncell=st['ncell'],
                             nedges=st['nedges'], cond9=any(padded[nm] for nm in user),
                             cond10=st['nsph'] >= 1 and nall != nout, cond11=st['ncell'] >= 1 and st['nedges'] >= 1,
                             nothing_since_last_write=(since_write == 0)))
            if st['nsph'] >= 1:
                for nm in padded:
                    padded[nm] = True
            since_write = -1
        since_write = None if since_write is None else since_write + 1
    return files, info, mops


def mesh_term(sc):
    import numpy as np
    mesh = get_mesh(sc)
    coords = np.asarray(mesh.coords)
    conns = np.asarray(mesh.conns)
    ct = '[' + '; '.join('(%s, %s)' % (val(float(x)), val(float(y))) for x, y in coords) + ']'
    cn = '[' + '; '.join('[' + '; '.join(str(int(i)) for i in row) + ']' for row in conns) + ']'
    vn = '[' + '; '.join(str(int(i)) for i in np.asarray(mesh.parentElement.vertexNodes)) + ']'
    sn = '[' + '; '.join(str(int(i)) for i in np.asarray(mesh.simplexNodesOrdinals)) + ']'
    return '(mesh_of %s %s %d %s %s)' % (ct, cn, int(mesh.parentElement.degree), vn, sn)


def segments(zs):
    """split [n, x1..xn, m, y1..ym, ...]; -1 marks an exception/None"""
    out, i = [], 0
    while i < len(zs):
        n = zs[i]
        if n < 0:
            out.append(None); i += 1
        else:
            out.append(zs[i + 1:i + 1 + n]); i += 1 + n
    return out


def scan_count(toks, code):
    for i, t in enumerate(toks[:-1]):
        if t == ('K', code) and toks[i + 1][0] == 'V':
            return toks[i + 1][1]
    return None


def split_sections(toks):
    """(before POINT_DATA, POINT_DATA section, CELL_DATA section)"""
    ipd = next((i for i, t in enumerate(toks) if t == ('K', 8)), None)
    icd = next((i for i, t in enumerate(toks) if t == ('K', 9)), None)
    end = len(toks)
    a = toks[:ipd if ipd is not None else (icd if icd is not None else end)]
    pd = toks[ipd:(icd if icd is not None else end)] if ipd is not None else []
    cd = toks[icd:] if icd is not None else []
    return a, pd, cd


def evaluate(ctx, scenarios, model_ok, tag):
    """run implementation (+ model) on the scenarios; record failures.  Returns number of files examined."""
    workdir = os.path.join(C.RUN, 'c20_%d_%s' % (os.getpid(), tag))
    os.makedirs(workdir, exist_ok=True)
    nfiles = 0
    try:
        runs = []
        for sc in scenarios:
            try:
                files, info, mops = run_impl(sc, workdir)
            except Exception as ex:     # the implementation raised on an admissible scenario
                ctx.fail('conclusion', 'implementation raised %r' % (ex,), case=dict(scenario=sc, clause='exception'), concrete=True)
                continue
            runs.append((sc, files, info, mops))
        # ---- Coq: the independent reader on every real file (L2), and the model on every scenario (L1)
        names = list(NAMES)
        exprs, where = [], []
        for si, (sc, files, info, mops) in enumerate(runs):
            lexed = [lex(f, names) for f in files]
            runs[si] = (sc, files, info, mops, lexed)
        names_term = '[%s]' % '; '.join(coq_str(nm) for nm in names)

        def words_term(text):
            return '[%s]' % '; '.join(coq_str(x) for x in file_words(text))
        # The words of the real files go to Coq as TEXT: the Coq lexer (model/M_C20_Num.v: read_int / read_dec / round_bin, keyword
        # table) maps them to tokens, and Coq compares them with the model's tokens, runs the independent reader on them and compares
        # the parsed dataset with the supplied one; only the verdicts come back.  The harness lexer is used for diagnostics only and is
        # itself cross-checked against the Coq lexer on a sample of files.
        for si, (sc, files, info, mops, lexed) in enumerate(runs):
            if model_ok:
                exprs.append('check_scenario %s %s [%s] [%s]' % (names_term, mesh_term(sc), '; '.join(mops), '; '.join(words_term(f) for f in files)))
                where.append(('model', si, None))
            else:
                for j, text in enumerate(files):
                    exprs.append('diag_words %s %s' % (names_term, words_term(text)))
                    where.append(('read', si, j))
        # structural tie, dynamic side: the IR extracted from the source (gen/CFG_vtk.v), interpreted on the shape of the model state,
        # must give the keyword tokens of the model's file at every write() (a sample of the scenarios; the static side is a theorem)
        if model_ok:
            for si in range(min(len(runs), ctx.n(30, 250))):
                exprs.append('trace_scenario cfg_vtk consts_vtk %s [%s]' % (mesh_term(runs[si][0]), '; '.join(runs[si][3])))
                where.append(('trace', si, None))
        lex_sample = [(si, j) for si, rn in enumerate(runs) for j in range(len(rn[1]))]
        lex_sample = lex_sample[:3] + [lex_sample[k] for k in sorted(set(ctx.rng('lexsample' + tag).randrange(len(lex_sample)) for _ in range(ctx.n(8, 40))))] if lex_sample else []
        for si, j in lex_sample:
            exprs.append('read_words %s %s' % (names_term, words_term(runs[si][1][j])))
            where.append(('lex', si, j))
        res = C.coq_eval(IMPORTS, exprs, 'C20' + tag, shard=12, timeout=900, preamble=STR_PRE) if exprs else []
        reads, models = {}, {}
        nwords = 0
        for (kind, si, j), zs in zip(where, res):
            if kind == 'lex':
                sg = segments(zs)
                coq_toks = dec_toks(sg[0])
                py_toks = runs[si][4][j]
                nwords += len(coq_toks)
                if coq_toks != py_toks:
                    d = next((i for i, (a, b) in enumerate(zip(coq_toks, py_toks)) if a != b), min(len(coq_toks), len(py_toks)))
                    wds = file_words(runs[si][1][j])
                    ctx.fail('correspondence', 'write #%d: word %d (%r) is token %r for the Coq lexer but %r for the harness lexer (float()/int() of Python)'
                             % (j, d, wds[d] if d < len(wds) else None, coq_toks[d] if d < len(coq_toks) else None,
                                py_toks[d] if d < len(py_toks) else None), case=dict(scenario=runs[si][0], write_index=j, clause='lexer'))
            elif kind == 'trace':
                ctx.count('writes_with_ir_keyword_trace_compared' + ('' if tag == 'm' else '_' + tag), len(zs))
                if any(z != 1 for z in zs):
                    ctx.fail('correspondence', 'structural tie: the keyword trace of the IR extracted from VTKWriter.py differs from the keyword tokens of the '
                             'model file (per write: %r)' % (zs,), case=dict(scenario=runs[si][0], clause='structure'))
            elif kind == 'read':
                reads[(si, j)] = segments(zs)
            else:
                models[si] = segments(zs)
        # scenarios on which the model gave no verdicts (it raised / lost step with the files): the reader alone on their files
        lost = [si for si, rn in enumerate(runs) if model_ok and (models.get(si) is None or any(x is None for x in models[si]) or len(models[si]) != 3 * len(rn[1]))]
        if lost:
            ex2 = ['diag_words %s %s' % (names_term, words_term(f)) for si in lost for f in runs[si][1]]
            wh2 = [(si, j) for si in lost for j in range(len(runs[si][1]))]
            for (si, j), zs in zip(wh2, C.coq_eval(IMPORTS, ex2, 'C20l' + tag, shard=12, timeout=900, preamble=STR_PRE)):
                reads[(si, j)] = segments(zs)
        ctx.count('words_lexed_by_coq_and_by_harness_lexer' + ('' if tag == 'm' else '_' + tag), nwords)
        nw = sum(len(file_words(f)) for rn in runs for f in rn[1])
        ctx.count('words_of_real_files_lexed_by_coq' + ('' if tag == 'm' else '_' + tag), nw)
        ctx.count('float_literal_words_read_by_coq' + ('' if tag == 'm' else '_' + tag),
                  sum(1 for rn in runs for f in rn[1] for x in file_words(f)[2:] if _NUM.match(x) and not _INT.match(x)))
        for si, (sc, files, info, mops, lexed) in enumerate(runs):
            msegs = models.get(si)
            if model_ok and (msegs is None or any(s is None for s in msegs) or len(msegs) != 3 * len(files)):
                ctx.fail('correspondence', 'model raised / produced %s outputs where the implementation wrote %d files'
                         % ('no' if msegs is None else len(msegs) // 3, len(files)), case=dict(scenario=sc))
                msegs = None
            for j, toks in enumerate(lexed):
                nfiles += 1
                inf = info[j]
                base = dict(scenario=sc, write_index=j, **inf)
                base['declared'] = dict(points=scan_count(toks, 5), cells=scan_count(toks, 6), point_data=scan_count(toks, 8),
                                        cell_data=scan_count(toks, 9))
                # L1: model tokens == implementation tokens
                if msegs is not None:
                    da = msegs[3 * j]
                    if da[0] != -1:
                        n1 = da[1]
                        t1 = dec_toks(da[2:2 + n1])
                        n2 = da[2 + n1]
                        t2 = dec_toks(da[3 + n1:3 + n1 + n2])
                        wds = file_words(files[j])
                        ctx.fail('correspondence', 'write #%d: model token %d = %r but the file has %r (word %r; model %d tokens, file %d)'
                                 % (j, da[0], t1[0] if t1 else None, t2[0] if t2 else None, wds[da[0]] if da[0] < len(wds) else None, da[-2], da[-1]),
                                 case=dict(base, clause='tokens'))
                # L2: the Coq reader and consistency check on the real file
                seg = [msegs[3 * j + 1], msegs[3 * j + 2]] if msegs is not None else reads.get((si, j))
                if seg is None:      # the model broke for this scenario: no verdict from the reader in this pass
                    continue
                diag = seg[0]
                stage = diag[0]
                flags = diag[1:] if len(diag) == 6 else None
                base['stage'] = stage
                base['flags'] = flags
                bad = []
                if stage < 4 or (flags and not all(flags[:3])):
                    bad.append(('struct', 'header/POINTS/CELLS/CELL_TYPES unreadable or size/type-count/range inconsistent (stage %d flags %r)' % (stage, flags)))
                has_pd = base['declared']['point_data'] is not None
                if stage == 6 and not has_pd:
                    bad.append(('struct', 'unread tokens remain after the last section (stage 6)'))
                if stage == 4 or (stage == 6 and has_pd) or (flags and not flags[3]):
                    bad.append(('pd', 'POINT_DATA section%s: declared %r for %r POINTS, reader stage %d'
                                % (' (or later: unread tokens remain)' if stage == 6 else '', base['declared']['point_data'],
                                   base['declared']['points'], stage)))
                if stage == 5 or (flags and not flags[4]):
                    bad.append(('cd', 'CELL_DATA section: declared %r for %r CELLS, stage %d' % (base['declared']['cell_data'], base['declared']['cells'], stage)))
                if not bad and msegs is not None and seg[1] != [1]:
                    bad.append(('roundtrip', 'the file parses to a dataset different from the one supplied'))
                if j > 0 and inf['nothing_since_last_write'] and files[j] != files[j - 1]:
                    a0, p0, c0 = split_sections(lexed[j - 1])
                    a1, p1, c1 = split_sections(toks)
                    base['rewrite_differs_only_in_point_data'] = (a0 == a1 and c0 == c1)
                    bad.append(('rewrite', 'second write() of the same writer produced a different file'))
                for clause, what in bad:
                    ctx.fail('conclusion', 'write #%d of scenario (order %d, %d spheres, %d nodal, %d cell fields, %d contact edges): %s'
                             % (j, inf['order'], inf['nsph'], inf['nnodal'], inf['ncell'], inf['nedges'], what),
                             case=dict(base, clause=clause), concrete=True)
        return nfiles
    finally:
        shutil.rmtree(workdir, ignore_errors=True)


# ------------------------------------------------------------------------------------------ dtype-aware round trip, geometry
LABEL_OF = {'float64': 'double', 'float32': 'float', 'int64': 'long', 'int32': 'int', 'int16': 'short', 'uint8': 'unsigned_char'}


def py_read(text):
    """small independent reader (Python side): -> dict(points, cells, types, pd={name:(kind,label,rows of str)}, cd=...)"""
    toks = ' '.join(text.split('\n')[2:]).split()
    i = toks.index('POINTS')
    npnt = int(toks[i + 1])
    pts = [tuple(float(t) for t in toks[i + 3 + 3 * k:i + 6 + 3 * k]) for k in range(npnt)]
    i = toks.index('CELLS')
    ncell = int(toks[i + 1])
    j = i + 3
    cells = []
    for _ in range(ncell):
        k = int(toks[j])
        cells.append([int(t) for t in toks[j + 1:j + 1 + k]])
        j += 1 + k
    assert toks[j] == 'CELL_TYPES' and int(toks[j + 1]) == ncell
    types = [int(t) for t in toks[j + 2:j + 2 + ncell]]
    j += 2 + ncell
    out = dict(points=pts, cells=cells, types=types, pd={}, cd={})
    cur, n = None, 0
    width = {'SCALARS': 1, 'VECTORS': 3, 'TENSORS': 9}
    while j < len(toks):
        t = toks[j]
        if t in ('POINT_DATA', 'CELL_DATA'):
            cur, n = out['pd' if t == 'POINT_DATA' else 'cd'], int(toks[j + 1])
            j += 2
        elif t in width:
            name, label = toks[j + 1], toks[j + 2]
            j += 3
            if t == 'SCALARS':
                assert toks[j] == 'LOOKUP_TABLE' and toks[j + 1] == 'default'
                j += 2
            cnt = n * width[t]
            cur[name] = (t, label, toks[j:j + cnt], n)
            j += cnt
        else:
            raise ValueError('unexpected token %r' % t)
    return out


def dtype_stream(ctx, model_ok=True):
    """L2 without the model: (1) values of every numpy dtype, written under the matching VTK label, read back AT THAT DTYPE
    equal the supplied values exactly (full-precision float32 / float64, extreme integers); (2) geometry of the written cells
    against the mesh itself: same vertex coordinates per element, counter-clockwise, mid-side nodes of quadratic cells at the
    edge midpoints in VTK order."""
    import random
    import numpy as np
    from optimism import VTKWriter as V
    r = ctx.rng('dtype')
    workdir = os.path.join(C.RUN, 'c20_%d_d' % os.getpid())
    os.makedirs(workdir, exist_ok=True)
    FTE = [V.VTKFieldType.SCALARS, V.VTKFieldType.VECTORS, V.VTKFieldType.TENSORS]
    n_checked = 0
    coq_words = []
    try:
        combos = [(o, b) for o in (1, 2, 3, 4) for b in (False, True) if not (b and o not in (2, 3))]
        for rep in range(ctx.n(2, 12)):
            for (order, bubble) in combos:
                sc = dict(nx=r.choice([2, 3]), ny=r.choice([2, 3]), order=order, bubble=bubble)
                mesh = get_mesh(sc)
                w = V.VTKWriter(mesh, os.path.join(workdir, 'g'))
                nall, nel = int(mesh.coords.shape[0]), int(mesh.conns.shape[0])
                supplied = {}
                for fi, npdt in enumerate(LABEL_OF):
                    ft = r.randrange(3)
                    dim = r.choice([2, 3]) if ft else r.choice([0, 1])
                    kind = r.choice(['nodal', 'cell'])
                    n = nall if kind == 'nodal' else nel
                    shape = {0: (n,) if dim == 0 else (n, 1), 1: (n, dim), 2: (n, dim, dim)}[ft]
                    cnt = int(np.prod(shape))
                    if npdt.startswith('float'):
                        data = np.array([r.uniform(-1, 1) * 10.0 ** r.randrange(-6, 7) for _ in range(cnt)], dtype=npdt).reshape(shape)
                    else:
                        info = np.iinfo(npdt)
                        data = np.array([r.choice([r.randrange(info.min, info.max + 1), info.min, info.max, 0]) for _ in range(cnt)], dtype=npdt).reshape(shape)
                    name = 'a%d' % fi
                    dte = [d for d in V.VTKDataType if d.value == LABEL_OF[npdt]][0]
                    (w.add_nodal_field if kind == 'nodal' else w.add_cell_field)(name, data, FTE[ft], dte)
                    supplied[name] = (kind, ft, dim, npdt, data)
                nsph = r.randrange(0, 3)
                for _ in range(nsph):
                    w.add_sphere(np.array([r.random(), r.random()]), r.random())
                w.write()
                text = open(os.path.join(workdir, 'g.vtk')).read()
                case = dict(dtype_stream=True, nx=sc['nx'], ny=sc['ny'], order=order, bubble=bubble, seed=ctx.seed)
                try:
                    rd = py_read(text)
                except Exception as ex:
                    ctx.fail('conclusion', 'dtype stream: file not readable by the independent reader: %r' % (ex,), case=case, concrete=True)
                    continue
                n_checked += 1
                nout = len(rd['points']) - nsph
                out_nodes = np.asarray(w.outputNodes)
                for name, (kind, ft, dim, npdt, data) in supplied.items():
                    sec = rd['pd' if kind == 'nodal' else 'cd']
                    if name not in sec:
                        ctx.fail('conclusion', 'dtype stream: %s field %s missing from the file' % (kind, name), case=case, concrete=True)
                        continue
                    t, label, strs, n = sec[name]
                    if t != ['SCALARS', 'VECTORS', 'TENSORS'][ft] or label != LABEL_OF[npdt]:
                        ctx.fail('conclusion', 'dtype stream: field %s written as %s %s, supplied as %s %s' % (name, t, label, ['SCALARS', 'VECTORS', 'TENSORS'][ft], LABEL_OF[npdt]), case=case, concrete=True)
                    try:
                        got = np.array([np.dtype(npdt).type(x) for x in strs], dtype=npdt).reshape(n, -1)
                    except (ValueError, OverflowError) as ex:
                        ctx.fail('conclusion', 'dtype stream: %s field of dtype %s written under label %s contains a literal that is not a %s: %r' % (kind, npdt, label, label, ex),
                                 case=case, concrete=True)
                        continue
                    d0 = data[out_nodes] if kind == 'nodal' else data
                    rows = d0.shape[0]
                    if ft == 0:
                        want = d0.reshape(rows, 1)
                    elif ft == 1:
                        want = np.zeros((rows, 3), npdt)
                        want[:, :dim] = d0
                    else:
                        want = np.zeros((rows, 3, 3), npdt)
                        want[:, :dim, :dim] = d0
                        want = want.reshape(rows, 9)
                    # the same words through Coq's own decimal reader at the labelled precision (a sample per field)
                    wflat = want.reshape(-1)
                    for ix in set([r.randrange(wflat.shape[0]) for _ in range(4)]):
                        coq_words.append((strs[ix], npdt, int(wflat[ix]) if not npdt.startswith('float') else Fraction(float(wflat[ix])), case))
                    if got.shape[0] < rows or not np.array_equal(got[:rows], want) or np.any(got[rows:] != 0):
                        ctx.fail('conclusion', 'dtype stream: %s %s field of dtype %s does not read back exactly at that dtype (order %d)' % (kind, ['scalar', 'vector', 'tensor'][ft], npdt, order),
                                 case=case, concrete=True)
                # geometry of the cells against the mesh
                P = np.array(rd['points'])[:, :2]
                vn = np.asarray(mesh.parentElement.vertexNodes)
                for e in range(nel):
                    ids = rd['cells'][e]
                    tri = P[ids[:3]]
                    ref = np.asarray(mesh.coords)[np.asarray(mesh.conns)[e][vn]]
                    area = 0.5 * ((tri[1, 0] - tri[0, 0]) * (tri[2, 1] - tri[0, 1]) - (tri[2, 0] - tri[0, 0]) * (tri[1, 1] - tri[0, 1]))
                    ok = np.array_equal(tri, ref) and area > 0 and rd['types'][e] == (22 if order == 2 else 5) and len(ids) == (6 if order == 2 else 3)
                    if ok and order == 2:
                        mids = P[ids[3:]]
                        ok = np.allclose(mids, 0.5 * (tri + tri[[1, 2, 0]]), rtol=0, atol=1e-14)
                    if not ok:
                        ctx.fail('conclusion', 'dtype stream: cell %d of the file (order %d) is not the mesh element: vertices / orientation / mid-side nodes / cell type differ' % (e, order),
                                 case=case, concrete=True)
                        break
                if len(rd['points']) != nout + nsph or nout != len(out_nodes):
                    ctx.fail('conclusion', 'dtype stream: POINTS count', case=case, concrete=True)
    finally:
        shutil.rmtree(workdir, ignore_errors=True)
    ctx.count('dtype_stream_files', n_checked)
    # ---- per-token check of the number-format hypotheses with the Coq reader (model/M_C20_Num.v):
    # float64 words -> read_num (correctly rounded to binary64), float32 words -> read_num32, integer words -> read_num (exact)
    if model_ok and coq_words:
        exprs = ['enc_ov (%s %s)' % ('read_num32' if npdt == 'float32' else 'read_num', coq_str(wd)) for wd, npdt, _, _ in coq_words]
        res = C.coq_eval(IMPORTS, exprs, 'C20w', shard=400, timeout=600, preamble=STR_PRE)
        for (wd, npdt, want, case), zs in zip(coq_words, res):
            got = Fraction(zs[1], zs[2]) if zs and zs[0] == 1 else None
            ctx.count('dtype_words_read_by_coq_' + npdt)
            if got != Fraction(want):
                ctx.fail('conclusion', 'number format: the word %r written for the %s value %r reads back (Coq reader at that precision) as %r'
                         % (wd, npdt, want, got), case=dict(case, clause='numfmt', word=wd, dtype=npdt), concrete=True)
    return n_checked


# ------------------------------------------------------------------------------------------ integer data types x source arrays x padding
INT_LABELS = ['bit', 'unsigned_char', 'char', 'unsigned_short', 'short', 'unsigned_int', 'int', 'unsigned_long', 'long']
INT_RANGE = {'bit': (0, 1), 'unsigned_char': (0, 255), 'char': (-128, 127), 'unsigned_short': (0, 65535), 'short': (-32768, 32767),
             'unsigned_int': (0, 2 ** 32 - 1), 'int': (-2 ** 31, 2 ** 31 - 1), 'unsigned_long': (0, 2 ** 64 - 1), 'long': (-2 ** 63, 2 ** 63 - 1)}
UNSIGNED_OF = {'bit': 'uint8', 'unsigned_char': 'uint8', 'char': 'uint8', 'unsigned_short': 'uint16', 'short': 'uint16',
               'unsigned_int': 'uint32', 'int': 'uint32', 'unsigned_long': 'uint64', 'long': 'uint64'}


def int_case(label, src, pad, order, seed, workdir):
    """one writer: a nodal and a cell field declared with the integer VTK data type `label`, data held in a `src` array
    ('signed' numpy int32/int64, 'unsigned' numpy uint*, 'jax_signed', 'jax_unsigned'), padding 'none' / 'spheres' / 'edges' / 'both'.
    -> list of (kind, src_dtype, padded, label, ft, words of the field in the file, supplied integers incl. padding zeros)"""
    import random
    import numpy as np
    from optimism import VTKWriter as V
    r = random.Random(seed)
    mesh = get_mesh(dict(nx=2, ny=2, order=order, bubble=False))
    nall, nel = int(mesh.coords.shape[0]), int(mesh.conns.shape[0])
    lo, hi = INT_RANGE[label]
    unsigned = src.endswith('unsigned')
    if unsigned:
        npdt = UNSIGNED_OF[label]
        lo2, hi2 = max(lo, 0), min(hi, int(np.iinfo(npdt).max))
    else:
        npdt = 'int32' if -2 ** 31 <= lo and hi <= 2 ** 31 - 1 else 'int64'
        lo2, hi2 = max(lo, -2 ** 63), min(hi, 2 ** 63 - 1)
    special = [x for x in (0, 1, lo2, hi2, 2 ** 31, 2 ** 53 + 1, 2 ** 53 + 3, -(2 ** 53 + 1)) if lo2 <= x <= hi2]
    FTE = [V.VTKFieldType.SCALARS, V.VTKFieldType.VECTORS, V.VTKFieldType.TENSORS]
    dte = [d for d in V.VTKDataType if d.value == label][0]
    w = V.VTKWriter(mesh, os.path.join(workdir, 'i'))
    supplied = {}
    for kind, n in (('nodal', nall), ('cell', nel)):
        ft = r.randrange(3)
        dim = 2 if ft else 0
        shape = {0: (n,), 1: (n, dim), 2: (n, dim, dim)}[ft]
        cnt = int(np.prod(shape))
        vals = [r.choice(special) if r.random() < 0.6 else r.randrange(lo2, hi2 + 1) for _ in range(cnt)]
        vals[:len(special)] = special[:cnt]
        data = np.array(vals, dtype=npdt).reshape(shape)
        arr = data
        if src.startswith('jax'):
            import jax.numpy as jnp
            arr = jnp.asarray(data)
            if str(arr.dtype) != npdt:
                raise RuntimeError('jax did not keep dtype %s' % npdt)
        (w.add_nodal_field if kind == 'nodal' else w.add_cell_field)('q' + kind, arr, FTE[ft], dte)
        supplied['q' + kind] = (kind, ft, dim, data)
    nsph = 2 if pad in ('spheres', 'both') else 0
    ned = 2 if pad in ('edges', 'both') else 0
    for k in range(nsph):
        w.add_sphere(np.array([0.25 * (k + 1), 0.5]), 0.125)
    if ned:
        w.add_contact_edges(np.array([[0, 1], [1, 2]], dtype=np.int64))
    w.write()
    rd = py_read(open(os.path.join(workdir, 'i.vtk')).read())
    out_nodes = np.asarray(w.outputNodes)
    res = []
    for name, (kind, ft, dim, data) in supplied.items():
        t, lab, strs, n = rd['pd' if kind == 'nodal' else 'cd'][name]
        d0 = data[out_nodes] if kind == 'nodal' else data
        rows = d0.shape[0]
        if ft == 0:
            want = d0.reshape(rows, 1)
        elif ft == 1:
            want = np.zeros((rows, 3), d0.dtype); want[:, :dim] = d0
        else:
            want = np.zeros((rows, 3, 3), d0.dtype); want[:, :dim, :dim] = d0; want = want.reshape(rows, 9)
        npad = nsph if kind == 'nodal' else ned
        ints = [int(x) for x in want.reshape(-1)] + [0] * (npad * want.shape[1])
        res.append(dict(kind=kind, src_dtype=npdt, padded=npad > 0, label=lab, declared=label, ft=ft, words=list(strs), ints=ints))
    return res


def intdtype_stream(ctx, model_ok, only=None):
    """every integer VTK data type x {numpy signed, numpy unsigned, jax signed, jax unsigned} source arrays x {no padding, spheres,
    contact edges}: every word of the field must be a literal OF THE DECLARED data type (Coq reader read_at: an integer type admits
    no '.'/'e' literal, range of the type) and the values read must be exactly the supplied integers (0, 2^31, 2^53+1, type limits...).
    Python lists are not admissible inputs of add_nodal_field / add_cell_field (fancy indexing / .shape) and are not generated."""
    r = ctx.rng('intdtype')
    workdir = os.path.join(C.RUN, 'c20_%d_i' % os.getpid())
    os.makedirs(workdir, exist_ok=True)
    cases = []
    try:
        if only is not None:
            combos = [only]
        else:
            combos = [(lab, src, pad) for lab in INT_LABELS for src in ('signed', 'unsigned', 'jax_signed', 'jax_unsigned') for pad in ('none', 'spheres', 'edges')]
            if ctx.tier != 'quick' or getattr(ctx, 'escalated', False):
                combos += [(lab, src, 'both') for lab in INT_LABELS for src in ('signed', 'unsigned')] * 2
        for (lab, src, pad) in combos:
            order = r.choice([1, 2, 3, 4])
            seed = r.randrange(10 ** 9)
            base = dict(intdtype=True, vtk=lab, src=src, pad=pad, order=order, seed=seed)
            try:
                res = int_case(lab, src, pad, order, seed, workdir)
            except Exception as ex:
                ctx.fail('conclusion', 'integer data-type stream: implementation / reader raised %r (declared %s, %s source, padding %s)' % (ex, lab, src, pad),
                         case=dict(base, clause='exception'), concrete=True)
                continue
            for f in res:
                cases.append((base, f))
    finally:
        shutil.rmtree(workdir, ignore_errors=True)
    # the Coq reader on every word of every field, at the declared data type
    coq = None
    if model_ok and cases:
        exprs = ['flat_map (fun s => enc_ov (read_at %s s)) [%s]' % (DT_COQ[DT_STR.index(f['declared'])], '; '.join(coq_str(x) for x in f['words'])) for _, f in cases]
        coq = C.coq_eval(IMPORTS, exprs, 'C20t', shard=60, timeout=600, preamble=STR_PRE)
    for ci, (base, f) in enumerate(cases):
        ctx.count('int_dtype_fields_checked')
        ctx.count('int_dtype_words_read_at_declared_type', len(f['words']))
        case = dict(base, kind=f['kind'], src_dtype=f['src_dtype'], padded=f['padded'], ft=f['ft'])
        desc = '%s %s field declared %s, data in a %s array (%s), %s' % (f['kind'], ['scalar', 'vector', 'tensor'][f['ft']], f['declared'], f['src_dtype'], base['src'],
                                                                      'padded for spheres / contact edges' if f['padded'] else 'no padding')
        if f['label'] != f['declared']:
            ctx.fail('conclusion', 'integer data-type stream: %s: header says %s' % (desc, f['label']), case=dict(case, clause='label'), concrete=True)
        bad = [x for x in f['words'] if not _INT.match(x)]
        if bad:
            ctx.fail('conclusion', 'integer data-type stream: %s: word %r is not a literal of the declared integer type (%d such words, e.g. for the supplied value %r)'
                     % (desc, bad[0], len(bad), f['ints'][f['words'].index(bad[0])] if f['words'].index(bad[0]) < len(f['ints']) else None),
                     case=dict(case, clause='intlit', word=bad[0]), concrete=True)
            continue
        got = [int(x) for x in f['words']]
        if got != f['ints']:
            k = next((i for i, (a, b) in enumerate(zip(got, f['ints'])) if a != b), min(len(got), len(f['ints'])))
            ctx.fail('conclusion', 'integer data-type stream: %s: record %d reads %r, supplied %r (%d words for %d values)'
                     % (desc, k, got[k] if k < len(got) else None, f['ints'][k] if k < len(f['ints']) else None, len(got), len(f['ints'])),
                     case=dict(case, clause='intval'), concrete=True)
            continue
        if coq is not None:
            zs, want = coq[ci], []
            for v in f['ints']:
                want += [1, v, 1]
            if list(zs) != want:
                ctx.fail('conclusion', 'integer data-type stream: %s: the Coq reader at the declared type (read_at) does not return the supplied integers' % desc,
                         case=dict(case, clause='intcoq'), concrete=True)
    return len(cases)


def big_mesh_stream(ctx):
    """thorough tier only: tables longer than 65536 rows (67262 elements; a nodal TENSORS field on 34000 nodes = 102000 rows):
    declared counts against the records actually written, every word numeric (no Coq text round trip for this file)"""
    import numpy as np
    from optimism import Mesh
    from optimism import VTKWriter as V
    if ctx.tier == 'quick' and not getattr(ctx, 'escalated', False):
        return
    workdir = os.path.join(C.RUN, 'c20_%d_b' % os.getpid())
    os.makedirs(workdir, exist_ok=True)
    case = dict(big_mesh=True, nx=200, ny=170)
    try:
        mesh = Mesh.construct_structured_mesh(200, 170, [0.0, 1.0], [0.0, 1.0])
        nn, ne = int(mesh.coords.shape[0]), int(mesh.conns.shape[0])
        w = V.VTKWriter(mesh, os.path.join(workdir, 'b'))
        T = np.zeros((nn, 2, 2)); T[:, 0, 0] = np.arange(nn); T[:, 1, 1] = 0.5
        w.add_nodal_field('T', T, V.VTKFieldType.TENSORS, V.VTKDataType.DOUBLE)
        w.add_cell_field('id', np.arange(ne), V.VTKFieldType.SCALARS, V.VTKDataType.LONG)
        w.add_sphere(np.array([0.5, 0.5]), 0.1)
        w.add_contact_edges(np.array([[0, 1], [1, 2]]))
        w.write()
        text = open(os.path.join(workdir, 'b.vtk')).read()
        try:
            rd = py_read(text)
            ok = (len(rd['points']) == nn + 1 and len(rd['cells']) == ne + 2 and len(rd['types']) == ne + 2
                  and all(len(c) == 3 for c in rd['cells'][:ne]) and all(0 <= i < nn + 1 for c in rd['cells'] for i in c)
                  and rd['pd']['T'][3] == nn + 1 and len(rd['pd']['T'][2]) == 9 * (nn + 1) and all(_NUM.match(x) for x in rd['pd']['T'][2])
                  and [float(x) for x in rd['pd']['T'][2][0:9 * nn:9]] == [float(k) for k in range(nn)]
                  and rd['cd']['id'][3] == ne + 2 and [int(x) for x in rd['cd']['id'][2]] == list(range(ne)) + [0, 0])
            why = 'declared counts / records / values differ'
        except Exception as ex:
            ok, why = False, 'file not readable: %r' % (ex,)
        ctx.count('big_mesh_files')
        ctx.cov['big_mesh'] = dict(nodes=nn, elements=ne, tensor_rows=3 * (nn + 1))
        if not ok:
            ctx.fail('conclusion', 'large mesh (%d nodes, %d elements, tables longer than 65536 rows): %s' % (nn, ne, why), case=dict(case, clause='bigmesh'), concrete=True)
    finally:
        shutil.rmtree(workdir, ignore_errors=True)


def intfmt_stream(ctx, model_ok):
    """tie of fmt_int (model/M_C20_Num.v) to the implementation's integer formatting: '{}'.format / str of Python ints and numpy
    integer scalars, and of the named float hypothesis on extreme doubles: repr(x) read by the Coq reader is x"""
    import numpy as np
    if not model_ok:
        return
    r = ctx.rng('intfmt')
    ints = [0, -1, 1, 9, 10, -10, 99, 100, 2 ** 31 - 1, -2 ** 31, 2 ** 63 - 1, -2 ** 63, 10 ** 30, -10 ** 30]
    ints += [r.randrange(-10 ** k, 10 ** k) for k in range(1, 25) for _ in range(ctx.n(2, 8))]
    exprs, want = [], []
    for z in ints:
        if -2 ** 63 <= z < 2 ** 63:
            txt = '{}'.format(np.int64(z))
            if -2 ** 31 <= z < 2 ** 31 and r.random() < 0.5:
                txt = '{}'.format(np.int32(z))
        else:
            txt = '{}'.format(z)
        if str(z) != txt:
            ctx.fail('conclusion', 'numpy integer %d is formatted as %r, str(int) gives %r' % (z, txt, str(z)), case=dict(clause='intfmt', z=z), concrete=True)
        exprs.append('enc_str (fmt_int (%d))' % z)
        want.append([ord(c) for c in txt])
    fl = [5e-324, 2.2250738585072014e-308, 2.225073858507201e-308, 1.7976931348623157e308, 0.1, 1.0 / 3.0, 1e16 + 2.0, 1e22, 1e23, 9007199254740993.0,
          123456789.123456789, 1e-5, 1e-4, 1e16, 1e15, -0.0, 0.0, 2.0 ** -1074 * 3, 4.35e-322]
    fl += [r.uniform(-1, 1) * 10.0 ** r.randrange(-320, 308) for _ in range(ctx.n(60, 400))]
    fl += [np.array([r.getrandbits(64)], dtype=np.uint64).view(np.float64)[0] for _ in range(ctx.n(60, 400))]      # random bit patterns
    fl = [float(x) for x in fl if np.isfinite(x)]
    f32 = [np.array([r.getrandbits(32)], dtype=np.uint32).view(np.float32)[0] for _ in range(ctx.n(60, 400))]
    f32 = [x for x in f32 if np.isfinite(x)]
    nint = len(exprs)
    for x in fl:
        exprs.append('enc_ov (read_num %s)' % coq_str('{}'.format(np.float64(x))))
        want.append([1, Fraction(x).numerator, Fraction(x).denominator])
    for x in f32:
        exprs.append('enc_ov (read_num32 %s)' % coq_str('{}'.format(x)))
        fr = Fraction(float(x))
        want.append([1, fr.numerator, fr.denominator])
    res = C.coq_eval(IMPORTS, exprs, 'C20i', shard=400, timeout=600, preamble=STR_PRE)
    for i, (e, w, g) in enumerate(zip(exprs, want, res)):
        if list(g) != list(w):
            ctx.fail('correspondence', 'number format: %s = %r, expected %r' % (e, g if i >= nint else ''.join(chr(c) for c in g), w if i >= nint else ''.join(chr(c) for c in w)),
                     case=dict(clause='numfmt', expr=e))
    ctx.count('fmt_int_words_compared', nint)
    ctx.count('float64_repr_words_read_by_coq', len(fl))
    ctx.count('float32_repr_words_read_by_coq', len(f32))


def scenario_key(sc):
    return json.dumps(sc, sort_keys=True)


def correspondence(ctx, model_ok):
    r = ctx.rng('main')
    n = ctx.n(70, 700)
    scenarios = [WITNESS['F9'], WITNESS['F10'], WITNESS['F11']] + [gen_scenario(r) for i in range(n)]
    nfiles = evaluate(ctx, scenarios, model_ok, 'm')
    nfiles += dtype_stream(ctx, model_ok)
    intfmt_stream(ctx, model_ok)
    nfiles += intdtype_stream(ctx, model_ok)
    big_mesh_stream(ctx)
    # report (not a failure: the caller chooses the label): fields whose VTK label class differs from the class of the supplied data,
    # and user fields stored under the reserved key sphere_radius (replaced by the marker radii whenever spheres exist)
    mism = resv = resv_replaced = 0
    for sc_ in scenarios:
        has_sphere = any(op['k'] == 'sphere' for op in sc_['ops'])
        for op in sc_['ops']:
            if op['k'] in ('nodal', 'cell'):
                if (op['np'].startswith('float')) != (DT_STR[op['dt']] in ('float', 'double')):
                    mism += 1
                if op['k'] == 'nodal' and op['name'] == NAMES[0]:
                    resv += 1
                    resv_replaced += 1 if has_sphere else 0
    ctx.cov['label_dtype_class_mismatch_fields'] = mism
    ctx.cov['user_nodal_fields_named_sphere_radius'] = resv
    ctx.cov['of_which_in_scenarios_with_spheres_replaced_by_marker_radii'] = resv_replaced
    keys = {scenario_key(s) for s in scenarios if any(op['k'] != 'write' for op in s['ops'])}
    ctx.count('evaluations', nfiles)
    ctx.count('distinct_nontrivial', len(keys))
    ctx.count('scenarios', len(scenarios))
    hist = {}
    for s in scenarios:
        hist['order%d' % s['order']] = hist.get('order%d' % s['order'], 0) + 1
        for op in s['ops']:
            hist[op['k']] = hist.get(op['k'], 0) + 1
    ctx.cov['histogram'] = hist
    ctx.sample(dict(scenario=scenarios[3]))
    ctx.sample(dict(theorems=['C20_roundtrip_wellformed', 'C20_repeated_writes_identical', 'C20_double_write_regression',
                              'C20_int_number_word', 'C20_text_roundtrip', 'C20_source_structure_is_model_structure']))


def search(ctx, reasons):
    import copy
    c2 = copy.copy(ctx)
    c2.failures, c2.counts, c2.cov, c2.samples = [], {}, {}, []
    r = ctx.rng('search')
    scenarios = [gen_scenario(r) for i in range(ctx.n(150, 600))]
    model_ok = not any(x.get('kind') in ('proof', 'translator', 'hygiene') for x in reasons)
    try:
        evaluate(c2, scenarios, model_ok, 's')      # with the model: also the round-trip clause (parsed file = supplied dataset)
    except C.CoqError:
        c2.failures = []
        evaluate(c2, scenarios, False, 's')
    try:
        intdtype_stream(c2, model_ok)
    except C.CoqError:
        intdtype_stream(c2, False)
    big_mesh_stream(c2)
    known = [f for f in C.load_known_findings() if f['property'] == ID and f['status'] == 'open']
    for fl in c2.failures:
        if fl.get('concrete') and not any(matches_finding(fl, f) for f in known):
            return fl
    return None


# ------------------------------------------------------------------------------------------ known findings
WITNESS = {
    'F9': dict(nx=2, ny=2, order=1, bubble=False, ops=[dict(k='nodal', name='u', ft=0, dim=0, dt=10, np='float64', seed=1, wrong=False),
                                                       dict(k='sphere', x=0.5, y=0.25, r=0.125), dict(k='write'), dict(k='write')]),
    'F10': dict(nx=2, ny=2, order=3, bubble=False, ops=[dict(k='sphere', x=0.5, y=0.25, r=0.125), dict(k='write')]),
    'F11': dict(nx=2, ny=2, order=1, bubble=False, ops=[dict(k='cell', name='f1', ft=0, dim=0, dt=6, np='int64', seed=2, wrong=False),
                                                        dict(k='edges', seed=3, n=2), dict(k='write')]),
}


def matches_finding(fl, f):
    c = fl.get('case') or {}
    clause = c.get('clause')
    d = c.get('declared') or {}
    if f['id'] == 'F9':
        if not c.get('cond9'):
            return False
        if clause == 'pd':
            return c.get('stage') in (4, 6)
        if clause == 'rewrite':
            return bool(c.get('rewrite_differs_only_in_point_data')) and c.get('nsph', 0) >= 1 and c.get('nnodal', 0) >= 1
        return False
    if f['id'] == 'F10':
        return (clause == 'pd' and bool(c.get('cond10')) and c.get('order', 0) >= 3 and d.get('point_data') == c.get('nall', 0) + c.get('nsph', 0)
                and d.get('points') == c.get('nout', 0) + c.get('nsph', 0))
    if f['id'] == 'F16':
        # unsigned 64-bit source data stacked with the Python-int padding zero is promoted to float64 by numpy
        return (clause == 'intlit' and bool(c.get('intdtype')) and c.get('src_dtype') == 'uint64' and bool(c.get('padded'))
                and c.get('src') in ('unsigned', 'jax_unsigned') and c.get('vtk') in ('unsigned_long', 'long'))
    if f['id'] == 'F11':
        return (clause == 'cd' and bool(c.get('cond11')) and d.get('cell_data') == c.get('nel') and d.get('cells') == c.get('nel', 0) + c.get('nedges', 0)
                and c.get('stage') == 7)
    return False


def finding_fails(ctx, f):
    import copy
    c2 = copy.copy(ctx)
    c2.failures, c2.counts, c2.cov, c2.samples = [], {}, {}, []
    if 'intdtype' in f['witness']:
        import optimism  # noqa: F401
        wt = f['witness']['intdtype']
        intdtype_stream(c2, False, only=(wt['vtk'], wt['src'], wt['pad']))
        return any(matches_finding(fl, f) for fl in c2.failures)
    evaluate(c2, [f['witness']['scenario']], False, 'k' + f['id'])
    return any(matches_finding(fl, f) for fl in c2.failures)


def replay(ctx, path):
    rep = json.load(open(path))
    case = rep.get('failing_input')
    print('replay of', path)
    print(json.dumps(rep.get('reasons'), indent=1)[:3000])
    if case and case.get('dtype_stream'):
        ctx.seed = case.get('seed', ctx.seed)
        ctx.tier = rep.get('tier', ctx.tier)
        ctx.failures = []
        import optimism  # noqa: F401
        dtype_stream(ctx)
        for fl in ctx.failures[:5]:
            print('still failing:', fl['what'])
        if not ctx.failures:
            print('the dtype-aware / geometry stream of that seed now satisfies the conclusions')
        return 1 if ctx.failures else 0
    if case and (case.get('intdtype') or case.get('big_mesh')):
        ctx.failures = []
        import optimism  # noqa: F401
        if case.get('big_mesh'):
            ctx.tier = 'thorough'
            big_mesh_stream(ctx)
        else:
            intdtype_stream(ctx, False, only=(case['vtk'], case['src'], case['pad']))
        known = [f for f in C.load_known_findings() if f['property'] == ID and f['status'] == 'open']
        fresh = [fl for fl in ctx.failures if not any(matches_finding(fl, f) for f in known)]
        for fl in fresh[:5]:
            print('still failing:', fl['what'])
        if not fresh:
            print('the stored case now satisfies the conclusions (apart from known findings)')
        return 1 if fresh else 0
    if not case or 'scenario' not in case:
        print('no concrete failing input recorded; broken obligations:', rep.get('broken'))
        return 1
    ctx.failures = []
    try:
        evaluate(ctx, [case['scenario']], True, 'r')
    except C.CoqError:
        ctx.failures = []
        evaluate(ctx, [case['scenario']], False, 'r')
    known = [f for f in C.load_known_findings() if f['property'] == ID and f['status'] == 'open']
    fresh = [fl for fl in ctx.failures if fl.get('concrete') and not any(matches_finding(fl, f) for f in known)]
    for fl in fresh[:5]:
        print('still failing:', fl['what'])
    if not fresh:
        print('the stored scenario now satisfies the conclusions (apart from known findings)')
    return 1 if fresh else 0
