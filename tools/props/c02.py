"""C02 -- assembled stiffness equals the Hessian of the total energy (Mechanics / SparseMatrixAssembler / FunctionSpace)."""
import json
import random
import types

from vlib import common as C
from props import c14 as D          # shares the DofManager model, its case builder and BC patterns

ID = 'C02'
READY = True
LEVEL_TEXT = ('Partial. Proved (Coq, for every BC mask, connectivity, number of fields and element blocks): each entry of the assembled matrix is the '
              'sum of the block entries (a,b) with both dofs unknown and (unknown(b), unknown(a)) = (i,j) (duplicates summed, transposed placement); '
              'it is the restriction to the unknown dofs of the global scatter; the block integral of integrate_over_block is the sum over the listed elements of their values against their OWN volumes, invariant under reordering of the block list, additive over partitions (gather model tied by exact correspondence); with symmetric blocks it is symmetric and equals '
              'P^T(sum_e G_e^T K_e G_e)P; without symmetry it is the transpose (refuted with a witness); per-block scatter of states / element '
              'Hessians and per-block energy sums reproduce the unblocked results when the blocks cover / partition the elements. '
              'NEW (round 3): the chain rule through create_field and the element gathers is proved for ARBITRARY element energies (Coquelicot, no polynomial restriction): '
              'if every symmetric element block K_e holds the second directional derivatives of its element energy E_e at the current local field U[conn_e,:] '
              '(d/ds d/dt E_e(x+sa+tb) = a^T K_e b), then d/ds d/dt E(create_field(Uu+sv+tw, Ubc)) exists and equals v^T K w with K the assembled matrix '
              '(C02_hessian_chain), entry (i,j) is the mixed partial derivative (C02_hessian_entries), the same along single lines with Derive_n 2 '
              '(C02_hessian_chain_line), and unconditionally for quadratic element energies (C02_hessian_quadratic). '
              'NEW: the multi-block clause as one theorem over a model of the three per-block loops of Mechanics (C02_multiblock_same_material): block id lists that '
              'partition the elements (any order) with the same material on every block give the single-block energy, state update, element Hessians and assembled matrix; '
              'the loop model is tied by an exact stream through the real Mechanics._compute_*_multi_block with integer data and several materials. '
              'Not proved: that jax.hessian(integrate_element_from_local_field) returns those second directional derivatives (JAX autodiff) and that the real '
              'energies are twice differentiable at the state -- compared on the real code on every run (assembled K vs dense jax.hessian of the total energy, '
              'v^T K w vs forward-over-forward jvp(jvp(.)), total energy vs sum of element energies of U[conn,:], element block vs Hessian of the element energy: '
              'plane strain / axisymmetric, single / multi block, static / Newmark). Findings F5 (pressure-projection factories were dead code) and F6 (Newmark element Hessians were evaluated at U-UPredicted) are fixed in /repo and are replayed as regressions; the static reference table of Mechanics.py is proved to resolve (C02_refs_resolve). '
              'NEW (round 4): the kinematic options through EVERY factory -- tables of all functions with a pressureProjectionDegree / mode2D parameter and of all intra-module and hook-variable calls, regenerated from the AST on every run and decided in Coq (C02_option_sites_resolve, C02_factories_pass_every_degree: each factory tests the degree only against None, never rebinds it, and reaches volume_average_J_gradient_transformation directly or by passing it unchanged to the helper; both 2D modes handled or delegated; call arities fit). '
              'Still not proved: that the three factories build the SAME projected gradient (closure semantics) -- compared on the real code by the cross-factory stream (single-block vs multi-block on the mesh split into same-material blocks vs dynamics factory; degrees None/0/1, order >= 2, plane strain and axisymmetric; energy, state update, element stiffnesses, element Hessians minus inertia blocks). '
              'Element batching: proved that evaluating the element-Hessian kernel a batch of ids at a time (gather, map, concatenate, truncate) equals the per-element map whenever the batches list 0..n-1 followed only by padding (C02_batched_hessians; clamped windows refuted by example) -- the specification of the stream\'s chunked reference and of any batched element map; jax.vmap / lax.map themselves and the mesh size are not modelled: covered by the large-mesh stream (1023..2380 elements straddling 1024 and 2048; every element block vs a reference computed 128 elements at a time on the same mesh, assembled sparse K v vs Hessian-vector products of the total energy; statics, Newmark, mass, multi-block).')
TECHNIQUE = 'Coq proof over a hand-written model of the COO assembly and block scatter (shares the C14 DofManager model); exact vm_compute correspondence; K-vs-jax.hessian comparison on the real mechanics functions'
GEN = ['Refs_Mechanics']
TARGETS = ['model/M_C14_Dof.vo', 'model/M_C02_Assembly.vo', 'model/M_C02_Energy.vo', 'model/M_C02_MultiBlock.vo', 'proofs/L_C14.vo', 'proofs/L_C02.vo',
           'gen/Refs_Mechanics.vo', 'proofs/L_C02_refs.vo', 'proofs/L_C02_hess.vo', 'proofs/L_C02_mb.vo', 'proofs/L_C02_batch.vo']
COQ_FILES = ['model/M_C14_Dof.v', 'model/M_C02_Assembly.v', 'model/M_C02_Energy.v', 'model/M_C02_MultiBlock.v', 'proofs/L_C14.v', 'proofs/L_C02.v',
             'proofs/L_C02_refs.v', 'proofs/L_C02_hess.v', 'proofs/L_C02_mb.v', 'proofs/L_C02_batch.v', 'props/P_C02.v']
TRUSTED = ['Coq 8.16.1 kernel + vm_compute (no native_compute)',
           'hand-written model of assemble_sparse_stiffness_matrix (boolean-mask ravel order, coo_matrix duplicate summation) and of the '
           '.at[elemIds].set block loops, and of the gather semantics of FunctionSpace.evaluate_on_block / integrate_over_block; tied to the source only by the exact correspondence on seeded random integer data',
           'JAX autodiff: jax.hessian of the element / total energy is taken to be the true second derivative (both sides of the L2 comparison use it; the new directional probe uses jvp-over-jvp, a different autodiff path)',
           'model/M_C02_MultiBlock.v: the per-block loops as folds of integrate_over_block / scatter over (elemIds, material) pairs; per-element kernels (energy density, state update, element Hessian on the element own rows) are parameters, fed from the implementation in the correspondence',
           'model/M_C02_Energy.v: total energy = sum over elements of an element energy of the local field U[conn,:] (tied by the exact local-field stream and the L2 decomposition probe)',
           'Coquelicot 3.x (Derive, is_derive, locally) for the statement of second directional derivatives',
           'tools/vlib/refs_c02.py: the AST extraction of the reference / option-site / call-arity tables (syntactic: a test is recognised as `is [not] None` only in that literal form; anything else that mentions the degree is flagged, fail closed)',
           'correspondence harness (case generators, tolerance 1e-9 * max(1, |H|_inf) for K vs H and symmetry)']
ASSUMPTIONS = ['node ids in range, rectangular connectivity, components < number of fields (as C14)',
               'element blocks are symmetric (true for autodiff Hessians) for the symmetry / P^T K P theorems; stated as a hypothesis',
               'hypothesis `represents` of C02_hessian_chain: each element block holds the second directional derivatives of the element energy at the current local field (what jax.hessian is trusted to deliver; material must be twice differentiable there) -- not proved, compared numerically',
               'the Hessian is stated as the matrix of mixed second directional derivatives (Gateaux), not as a Frechet derivative',
               'theorems over exact reals / integers; binary64 summation order differences are covered by the L2 tolerance']
RULE = ('mb: integer function-space arrays, 1..3 polynomial integer materials, blocks partitioning (sometimes not covering) the elements in arbitrary order through the real Mechanics._compute_*_multi_block vs model/M_C02_MultiBlock.v (exact; per-element kernel values are the reference oracle), and vs the real single-block functions when all blocks carry one material. local: seeded random connectivity / small structured meshes, 1..3 fields, the C14 BC patterns, integer Uu, Ubc, v, t through the real DofManager.create_field and U[conn,:] vs model/M_C02_Energy.v (exact). gather: integer-valued FunctionSpace arrays (every per-element array distinct per element) through the real evaluate_on_block / integrate_over_block with blocks given as slice(None), python slices, permuted / reversed consecutive ranges, unsorted and sorted subsets, vs the model (exact); L1 twins: a second assembly on the same mesh with another DofManager of equal counts, then the first one again. L1: seeded random connectivity tables / small structured meshes, 1..3 fields, the C14 BC patterns, random NON-symmetric integer element blocks '
        'through the real DofManager + assemble_sparse_stiffness_matrix vs the model (exact); random .at[ids].set block loops vs the model. '
        'L2: small distorted structured meshes (order 1..2, shuffled element numbering), random BC node sets, random displacement; materials '
        'neo-Hookean, linear elastic, J2 (state produced by a previous load step); plane strain / axisymmetric; single / multi block; static / Newmark. '
        'crossfactory: the same distorted order-2/3 mesh, material, mode and pressureProjectionDegree in {None,0,1} through create_mechanics_functions (reference), create_multi_block_mechanics_functions (mesh split into 2..3 blocks of that material) and create_dynamics_functions; non-trivial = the projection changes the energy (logged). '
        'large: distorted structured meshes truncated to an exact element count (quick: one count in 1025..1200; thorough: 1023, 1024, 1025, ~2049, >2200 in two blocks), affine + mesh-size-proportional random displacement; element blocks vs chunked per-element references and K v vs d/dt grad E(Uu+tv) along 2 directions. '
        'non-trivial = has both constrained and unknown dofs; distinct = distinct configurations')
IMPORTS = ['From OV.model Require Import M_C14_Dof M_C02_Assembly.']
MB_IMPORTS = ['From OV.model Require Import M_C14_Dof M_C02_Assembly M_C02_MultiBlock.']

RTOL = 1e-9
LAST = {}


# ============================================================================= L1: assembler and scatter vs the model

def gen_l1(ctx):
    r = ctx.rng('l1')
    cases = []
    for i in range(ctx.n(18, 240)):
        dim = r.choice([1, 2, 2, 3])
        if i % 4 == 0:
            case = dict(src='structured', Nx=r.randrange(2, 4), Ny=r.randrange(2, 4), order=r.choice([1, 1, 2]), dim=dim)
            if case['order'] == 2 and dim == 3:
                case['Nx'] = case['Ny'] = 2
        else:
            npe = r.choice([3, 3, 6])
            nNodes = r.randrange(2, 13)
            nEl = r.randrange(1, 7 if npe == 3 else 4)
            conns = [(r.sample(range(nNodes), npe) if nNodes >= npe and r.random() < 0.8 else [r.randrange(nNodes) for _ in range(npe)])
                     for _ in range(nEl)]
            case = dict(src='random', nNodes=nNodes, conns=conns, dim=dim)
        case['kind'] = D.KINDS[i % len(D.KINDS)]
        case['bcseed'] = r.randrange(1 << 30)
        cases.append(case)
        if i % 3 == 1:
            cases.append(dict(case, twin=True))      # second assembly on the same mesh with another DofManager of equal counts
    return cases


def run_l1(case):
    import numpy as onp
    import optimism  # noqa: F401
    from optimism import FunctionSpace, SparseMatrixAssembler
    dim = case['dim']
    ints = lambda a: [int(x) for x in onp.asarray(a).ravel()]
    first = None
    if case.get('twin'):
        # history: assemble first with the untwinned DofManager (same mesh, same counts, same shapes), with the SAME block values
        caseA = {k: v for k, v in case.items() if k != 'twin'}
        fsA, _, connsA, ebcsA = D.build(caseA)
        dmA = FunctionSpace.DofManager(fsA, dim, [FunctionSpace.EssentialBC(nodeSet=n, component=c) for (n, _, c) in ebcsA])
    fs, nNodes, conns, ebcs = D.build(case)
    dm = FunctionSpace.DofManager(fs, dim, [FunctionSpace.EssentialBC(nodeSet=n, component=c) for (n, _, c) in ebcs])
    r = random.Random(case['bcseed'] ^ 0xbeef)
    nE, npe = len(conns), len(conns[0])
    nd = npe * dim
    kv = [[r.randrange(-9, 10) for _ in range(nd * nd)] for _ in range(nE)]       # non-symmetric integer blocks
    kValues = onp.array(kv, dtype=float).reshape(nE, npe, dim, npe, dim)
    if case.get('twin'):
        KA = SparseMatrixAssembler.assemble_sparse_stiffness_matrix(kValues, onp.asarray(fsA.mesh.conns), dmA)
        first = ints(KA.toarray()) if dmA.get_unknown_size() else []
    K = SparseMatrixAssembler.assemble_sparse_stiffness_matrix(kValues, onp.asarray(fs.mesh.conns), dm)
    changed = False
    if first is not None:
        KA2 = SparseMatrixAssembler.assemble_sparse_stiffness_matrix(kValues, onp.asarray(fsA.mesh.conns), dmA)
        changed = (ints(KA2.toarray()) if dmA.get_unknown_size() else []) != first
    nu = int(dm.get_unknown_size())
    dense = ints(K.toarray()) if nu else []
    return dict(nNodes=nNodes, dim=dim, conns=conns, ebcs=ebcs, kv=kv, nu=nu, shape=[int(x) for x in K.shape], first_changed=changed,
                rows=ints(dm.HessRowCoords), cols=ints(dm.HessColCoords),
                vals=ints(kValues.reshape(nE, nd, nd)[dm.hessian_bc_mask]), dense=dense,
                isBc=ints(dm.isBc), d2u=ints(dm.dofToUnknown), unk=ints(dm.unknownIndices))


def l1_conclusions(o):
    """C02_assembly_entries / _is_restriction evaluated on the implementation's matrix (integer blocks: exact)"""
    bad = []
    nu, dim = o['nu'], o['dim']
    if o.get('first_changed'):
        bad.append('re-assembling with the first DofManager after assembling with a second one of equal counts gives a different matrix')
    if o['shape'] != [nu, nu]:
        return ['assembled matrix has shape %s, expected (%d, %d)' % (o['shape'], nu, nu)]
    want = [[0] * nu for _ in range(nu)]
    want_straight = [[0] * nu for _ in range(nu)]
    for en, ke in zip(o['conns'], o['kv']):
        dofs = [n * dim + c for n in en for c in range(dim)]
        nd = len(dofs)
        for a in range(nd):
            for b in range(nd):
                ua, ub = o['d2u'][dofs[a]], o['d2u'][dofs[b]]
                if ua >= 0 and ub >= 0 and not o['isBc'][dofs[a]] and not o['isBc'][dofs[b]]:
                    want[ub][ua] += ke[a * nd + b]
                    want_straight[ua][ub] += ke[a * nd + b]
    got = [o['dense'][i * nu:(i + 1) * nu] for i in range(nu)]
    # either orientation realises "sum of scattered blocks restricted to the unknowns" up to transposition; the property (symmetric
    # blocks) cannot tell them apart, so L2 accepts both and L1 pins the one the source uses
    if got != want and got != want_straight:
        ij = [(i, j) for i in range(nu) for j in range(nu) if got[i][j] != want[i][j]][0]
        bad.append('assembled K[%d][%d] = %d but the blocks scatter %d there (%d in the straight orientation)'
                   % (ij[0], ij[1], got[ij[0]][ij[1]], want[ij[0]][ij[1]], want_straight[ij[0]][ij[1]]))
    return bad


def l1_expr(o):
    zl = D.zl
    ebcs = '[' + '; '.join('(%s, (%d))' % (zl(nodes), comp) for (_, nodes, comp) in o['ebcs']) + ']'
    conns = '[' + '; '.join(zl(c) for c in o['conns']) + ']'
    kv = '[' + '; '.join(zl(k) for k in o['kv']) + ']'
    return 'run_asm_case (%d) (%d) %s %s %s' % (o['nNodes'], o['dim'], ebcs, conns, kv)


def gen_scatter(ctx):
    r = ctx.rng('scatter')
    out = []
    for _ in range(ctx.n(20, 200)):
        ne = r.randrange(1, 14)
        ids = list(range(ne))
        r.shuffle(ids)
        k = r.randrange(1, 4)
        cuts = sorted(r.randrange(0, ne + 1) for _ in range(k - 1))
        blocks = [ids[a:b] for a, b in zip([0] + cuts, cuts + [ne])]
        mode = r.randrange(3)
        if mode == 1 and ne > 1:          # overlap
            blocks.append(r.sample(range(ne), r.randrange(1, ne)))
        if mode == 2:                     # not covering
            blocks = [b[:max(0, len(b) - 1)] for b in blocks]
        out.append(dict(base=[r.randrange(100, 200) for _ in range(ne)], blocks=blocks, vals=[r.randrange(-50, 50) for _ in range(ne)]))
    return out


def run_scatter(case):
    import numpy as onp
    import jax.numpy as np
    arr = np.array(onp.array(case['base'], dtype=float))
    vals = onp.array(case['vals'], dtype=float)
    for ids in case['blocks']:
        ids = onp.array(ids, dtype=int)
        arr = arr.at[ids].set(np.array(vals[ids]))       # the statement used by Mechanics._compute_*_multi_block
    return [int(x) for x in onp.asarray(arr)]


# ============================================================================= local fields U[conn,:] and the affine map create_field (model/M_C02_Energy.v)

def gen_local(ctx):
    r = ctx.rng('local')
    cases = []
    for i in range(ctx.n(8, 60)):
        dim = r.choice([1, 2, 2, 3])
        if i % 4 == 0:
            case = dict(src='structured', Nx=r.randrange(2, 4), Ny=r.randrange(2, 4), order=r.choice([1, 1, 2]), dim=dim, nomodel=True)
        else:
            npe = r.choice([3, 3, 6])
            nNodes = r.randrange(2, 13)
            nEl = r.randrange(1, 7 if npe == 3 else 4)
            conns = [(r.sample(range(nNodes), npe) if nNodes >= npe and r.random() < 0.8 else [r.randrange(nNodes) for _ in range(npe)])
                     for _ in range(nEl)]
            case = dict(src='random', nNodes=nNodes, conns=conns, dim=dim)
        case['kind'] = D.KINDS[(i + 5) % len(D.KINDS)]
        case['bcseed'] = r.randrange(1 << 30)
        cases.append(case)
    return cases


def run_local(case):
    """integer fields through the real DofManager.create_field; the element's local field is read the way
    Mechanics.compute_element_stiffness_from_global_fields reads it (U[elConn,:]); the affine identity that
    C02_hessian_chain rests on, create_field(Uu + t v, Ubc) = create_field(Uu, Ubc) + t create_field(v, 0), is evaluated exactly"""
    import numpy as onp
    import jax.numpy as np
    import optimism  # noqa: F401
    from optimism import FunctionSpace
    dim = case['dim']
    fs, nNodes, conns, ebcs = D.build(case)
    dm = FunctionSpace.DofManager(fs, dim, [FunctionSpace.EssentialBC(nodeSet=n, component=c) for (n, _, c) in ebcs])
    r = random.Random(case['bcseed'] ^ 0x10ca1)
    nu, nb = int(dm.get_unknown_size()), int(dm.get_bc_size())
    Uu = [r.randrange(-20, 21) for _ in range(nu)]
    Ubc = [r.randrange(-20, 21) for _ in range(nb)]
    v = [r.randrange(-9, 10) for _ in range(nu)]
    t = r.choice([-3, -1, 2, 5])
    f = lambda l: np.array(onp.array(l, dtype=float))
    ints = lambda a: [int(x) for x in onp.asarray(a).ravel()]
    U = dm.create_field(f(Uu), f(Ubc))
    local = []
    for elConn in onp.asarray(fs.mesh.conns):
        local += ints(U[elConn, :])
    lhs = ints(dm.create_field(f(Uu) + t * f(v), f(Ubc)))
    rhs = ints(U + t * dm.create_field(f(v), f([0] * nb)))
    return dict(nNodes=nNodes, dim=dim, conns=conns, ebcs=ebcs, Uu=Uu, Ubc=Ubc, v=v, t=t, local=local, lhs=lhs, rhs=rhs, nu=nu, nb=nb)


def local_expr(o):
    zl = D.zl
    ebcs = '[' + '; '.join('(%s, (%d))' % (zl(nodes), comp) for (_, nodes, comp) in o['ebcs']) + ']'
    conns = '[' + '; '.join(zl(c) for c in o['conns']) + ']'
    return 'run_local_case (%d) (%d) %s %s %s %s %s (%d)' % (o['nNodes'], o['dim'], ebcs, conns, zl(o['Uu']), zl(o['Ubc']), zl(o['v']), o['t'])


# ============================================================================= the three per-block loops of Mechanics (model/M_C02_MultiBlock.v)

def gen_mb(ctx):
    r = ctx.rng('mb')
    out = []
    for i in range(ctx.n(4, 30)):
        ne = r.randrange(2, 8)
        nmat = r.randrange(1, 4)
        ids = list(range(ne))
        r.shuffle(ids)
        same = (i % 2 == 0)                                   # the theorem's case: every block carries the same material
        k = r.randrange(1 if same else 2, min(3, ne) + 1)
        cuts = sorted(r.sample(range(1, ne), k - 1))
        blocks = [ids[a:b] for a, b in zip([0] + cuts, cuts + [ne])]
        if not same:                                          # several materials: at least two different ones
            nmat = max(2, nmat)
        mats = [0] * k if same else [r.randrange(nmat) for _ in range(k)]
        if not same and mats[0] == mats[1]:
            mats[1] = (mats[0] + 1) % nmat
        if i % 5 == 4 and len(blocks[-1]) > 1:                # not covering: uncovered elements keep the base arrays
            blocks[-1] = blocks[-1][:-1]
        out.append(dict(ne=ne, nq=r.randrange(1, 3), nNodes=r.randrange(4, 9), nmat=max(nmat, 1), blocks=blocks, mats=mats, seed=r.randrange(1 << 30)))
    return out


def _mb_material(k):
    import jax.numpy as np
    a, b, c = 1 + k, 2 - k, 3 + 2 * k
    psi = lambda g, Q, dt: a * g[0, 0] * g[1, 1] + b * g[0, 1] ** 2 + c * g[1, 0] * Q[0] + (k + 1) * g[0, 0] ** 3
    new = lambda g, Q, dt: np.array([Q[0] + (k + 2) * g[0, 0] + g[1, 1]])
    return types.SimpleNamespace(compute_energy_density=psi, compute_state_new=new, compute_initial_state=lambda: np.zeros(1))


def run_mb(case):
    """integer-valued function-space arrays and polynomial integer 'materials' through the real per-block loops
    Mechanics._compute_strain_energy_multi_block / _compute_updated_internal_variables_multi_block /
    _compute_element_stiffnesses_multi_block; per element and material the reference kernel values come from the element's own rows
    (energy densities and new states recomputed in numpy, element Hessians from the real per-element Mechanics.element_hess_func)"""
    import numpy as onp
    import jax.numpy as np
    import optimism  # noqa: F401
    from optimism import FunctionSpace, Mesh, QuadratureRule, Mechanics, Interpolants
    rs = onp.random.RandomState(case['seed'] % (1 << 31))
    ne, nq, nN = case['ne'], case['nq'], case['nNodes']
    shapes = rs.randint(-2, 3, size=(ne, nq, 3)).astype(float)
    grads = rs.randint(-2, 3, size=(ne, nq, 3, 2)).astype(float)
    vols = rs.randint(1, 6, size=(ne, nq)).astype(float)
    states = rs.randint(-5, 6, size=(ne, nq, 1)).astype(float)
    coords = rs.randint(-5, 6, size=(nN, 2)).astype(float)
    conns = rs.randint(0, nN, size=(ne, 3))
    U = rs.randint(-3, 4, size=(nN, 2)).astype(float)
    blocks = {'b%d' % i: np.array(onp.array(b, dtype=int)) for i, b in enumerate(case['blocks'])}
    mesh = Mesh.Mesh(np.array(coords), np.array(conns), np.arange(nN), Interpolants.make_parent_element_2d(degree=1), None, blocks, None, None)
    fs = FunctionSpace.FunctionSpace(np.array(shapes), np.array(vols), np.array(grads), mesh, QuadratureRule.create_quadrature_rule_on_triangle(1), False)
    mats = [_mb_material(k) for k in range(case['nmat'])]
    models = {'b%d' % i: mats[m] for i, m in enumerate(case['mats'])}
    modify = FunctionSpace.default_modify_element_gradient
    Uj, Sj = np.array(U), np.array(states)
    ints = lambda a: [int(round(float(x))) for x in onp.asarray(a).ravel()]
    energy = float(Mechanics._compute_strain_energy_multi_block(fs, Uj, Sj, 0.0, models, modify))
    snew = onp.asarray(Mechanics._compute_updated_internal_variables_multi_block(fs, Uj, Sj, 0.0, models, modify))
    hess = onp.asarray(Mechanics._compute_element_stiffnesses_multi_block(Uj, Sj, 0.0, fs, models, modify))
    exact = bool(onp.all(snew == onp.round(snew)) and onp.all(hess == onp.round(hess)) and energy == round(energy))
    # per element, per material: reference kernel values from the element's own rows
    ek, sk, hk = [], [], []
    for e in range(ne):
        ue = U[conns[e]]
        eke, ske, hke = [], [], []
        for k, m in enumerate(mats):
            vals, news = [], []
            for q in range(nq):
                g = onp.tensordot(ue, grads[e, q], axes=[0, 0])
                vals.append(int(m.compute_energy_density(g, states[e, q], 0.0)))
                news.append(int(onp.asarray(m.compute_state_new(g, states[e, q], 0.0))[0]))
            L = Mechanics.strain_energy_density_to_lagrangian_density(m.compute_energy_density)
            He = Mechanics.element_hess_func(np.array(ue), np.array(coords[conns[e]]), np.array(states[e]), 0.0, np.array(shapes[e]), np.array(grads[e]),
                                             np.array(vols[e]), L, modify)
            eke.append(vals)
            ske.append(news)
            hke.append(ints(He))
        ek.append(eke)
        sk.append(ske)
        hk.append(hke)
    out = dict(blocks=case['blocks'], mats=case['mats'], ek=ek, sk=sk, hk=hk, vl=[[int(v) for v in row] for row in vols],
               base=[[int(v) for v in row.ravel()] for row in states], energy=energy, snew=ints(snew), hess=ints(hess), exact=exact, single=None)
    covered = sorted(i for b in case['blocks'] for i in b) == list(range(ne))
    if covered and len(set(case['mats'])) == 1:
        m = mats[case['mats'][0]]
        L = Mechanics.strain_energy_density_to_lagrangian_density(m.compute_energy_density)
        out['single'] = dict(energy=float(Mechanics._compute_strain_energy(fs, Uj, Sj, 0.0, m.compute_energy_density, modify)),
                             snew=ints(Mechanics._compute_updated_internal_variables(fs, Uj, Sj, 0.0, m.compute_state_new, modify)),
                             hess=ints(Mechanics._compute_element_stiffnesses(Uj, Sj, 0.0, fs, m.compute_energy_density, modify)))
    return out


def mb_conclusions(o):
    """C02_multiblock_same_material on the implementation (integers: exact)"""
    bad = []
    if not o['exact']:
        bad.append('integer data produced non-integer results')
    # every element's block is the Hessian of the element energy of ITS OWN block's material, its new state that material's update, and
    # the energy the sum of the listed elements' energies (per-element reference kernels; several materials)
    ne, nh, ns = len(o['vl']), len(o['hk'][0][0]), len(o['base'][0])
    for b, m in zip(o['blocks'], o['mats']):
        for e in b:
            if o['hess'][e * nh:(e + 1) * nh] != o['hk'][e][m]:
                bad.append('element %d (block material %d): the multi-block element Hessian is not the Hessian of the element energy of its own material' % (e, m))
            if o['snew'][e * ns:(e + 1) * ns] != o['sk'][e][m]:
                bad.append('element %d (block material %d): the multi-block state update is not the update of its own material' % (e, m))
    want = sum(a * v for b, m in zip(o['blocks'], o['mats']) for e in b for a, v in zip(o['ek'][e][m], o['vl'][e]))
    if o['energy'] != float(want):
        bad.append('multi-block energy %r is not the sum %d of the element energies of the blocks\' own materials' % (o['energy'], want))
    bad = bad[:3]
    sg = o['single']
    if sg is not None:
        if sg['energy'] != o['energy']:
            bad.append('multi-block energy %r differs from the single-block energy %r (same material on every block)' % (o['energy'], sg['energy']))
        if sg['snew'] != o['snew']:
            bad.append('multi-block state update differs from the single-block one (same material on every block)')
        if sg['hess'] != o['hess']:
            bad.append('multi-block element Hessians differ from the single-block ones (same material on every block)')
    return bad


def mb_expr(o):
    zl = D.zl
    zll = lambda ll: '[' + '; '.join(zl(x) for x in ll) + ']'
    elems = '[' + '; '.join('((%s, %s), (%s, %s))' % (zll(o['ek'][e]), zl(o['vl'][e]), zll(o['sk'][e]), zll(o['hk'][e])) for e in range(len(o['vl']))) + ']'
    zeros = zll([[0] * len(o['hk'][e][0]) for e in range(len(o['vl']))])
    return 'run_mb_case %s %s %s %s %s' % (elems, zll(o['blocks']), zl(o['mats']), zll(o['base']), zeros)


# ============================================================================= gather semantics of evaluate_on_block / integrate_over_block

BLOCK_FORMS = ['slice_none', 'perm_range', 'perm_all', 'unsorted_subset', 'sorted_subset', 'reversed_range', 'single', 'py_slice']


def gen_gather(ctx):
    r = ctx.rng('gather')
    out = []
    for i in range(ctx.n(24, 320)):
        out.append(dict(ne=r.randrange(1, 11), nq=r.randrange(1, 4), nNodes=r.randrange(3, 9), seed=r.randrange(1 << 30),
                        form=BLOCK_FORMS[i % len(BLOCK_FORMS)]))
    return out


def run_gather(case):
    """integer-valued FunctionSpace arrays with a different value on every (element, quadrature point), so that gathering ANY of
    the per-element arrays (states, shapes, shapeGrads, vols, conns) with a wrong or differently ordered index changes the result"""
    import numpy as onp
    import jax.numpy as np
    import optimism  # noqa: F401
    from optimism import FunctionSpace, Mesh, QuadratureRule
    rs = onp.random.RandomState(case['seed'] % (1 << 31))
    r = random.Random(case['seed'])
    ne, nq, nN = case['ne'], case['nq'], case['nNodes']
    shapes = rs.randint(-3, 4, size=(ne, nq, 3)).astype(float)
    grads = rs.randint(-3, 4, size=(ne, nq, 3, 2)).astype(float)
    vols = rs.randint(1, 10, size=(ne, nq)).astype(float)
    states = rs.randint(-9, 10, size=(ne, nq, 1)).astype(float)
    coords = rs.randint(-5, 6, size=(nN, 2)).astype(float)
    conns = rs.randint(0, nN, size=(ne, 3))
    U = rs.randint(-9, 10, size=(nN,)).astype(float)
    form = case['form']
    if form == 'slice_none':
        ids, block = list(range(ne)), slice(None)
    elif form == 'py_slice':
        a = r.randrange(0, ne)
        b = r.randrange(a + 1, ne + 1)
        ids, block = list(range(a, b)), slice(a, b)
    else:
        if form in ('perm_range', 'reversed_range'):
            a = r.randrange(0, max(1, ne - 1))
            b = r.randrange(min(ne, a + 2), ne + 1)
            ids = list(range(a, b))
            if form == 'reversed_range':
                ids.reverse()
            else:
                r.shuffle(ids)
        elif form == 'perm_all':
            ids = list(range(ne))
            r.shuffle(ids)
        elif form == 'single':
            ids = [r.randrange(ne)]
        else:
            ids = r.sample(range(ne), r.randrange(1, ne + 1))
            if form == 'sorted_subset':
                ids.sort()
        block = np.array(onp.array(ids, dtype=int))
    mesh = Mesh.Mesh(np.array(coords), np.array(conns), np.arange(nN), None, None, {'b': np.arange(ne)}, None, None)
    fs = FunctionSpace.FunctionSpace(np.array(shapes), np.array(vols), np.array(grads), mesh,
                                     QuadratureRule.create_quadrature_rule_on_triangle(1), False)
    func = lambda u, dudx, q, x, dt: 3 * u + 5 * dudx[0] + 7 * dudx[1] + 11 * q[0] + 13 * x[0] + 17 * x[1]
    vals = onp.asarray(FunctionSpace.evaluate_on_block(fs, np.array(U), np.array(states), 0.0, func, block))
    integ = float(FunctionSpace.integrate_over_block(fs, np.array(U), np.array(states), 0.0, func, block))
    # per-element reference values, computed from the element's own rows only
    kv = []
    for e in range(ne):
        ue, xe = U[conns[e]], coords[conns[e]]
        row = []
        for q in range(nq):
            u = shapes[e, q] @ ue
            g = ue @ grads[e, q]
            x = shapes[e, q] @ xe
            row.append(int(3 * u + 5 * g[0] + 7 * g[1] + 11 * states[e, q, 0] + 13 * x[0] + 17 * x[1]))
        kv.append(row)
    return dict(ids=ids, kv=kv, vl=[[int(v) for v in row] for row in vols], vals=[int(v) for v in vals.ravel()], shape=list(vals.shape),
                integ=integ)


def gather_conclusions(o):
    """C02_integrate_over_block_gather evaluated on the implementation's numbers (exact: integers)"""
    bad = []
    want = [v for i in o['ids'] for v in o['kv'][i]]
    if o['shape'] != [len(o['ids']), len(o['kv'][0])] or o['vals'] != want:
        bad.append('evaluate_on_block rows are not the kernel values of the listed elements in block order: got %s, expected %s' % (o['vals'][:12], want[:12]))
    tot = sum(a * b for i in o['ids'] for a, b in zip(o['kv'][i], o['vl'][i]))
    if o['integ'] != float(tot):
        bad.append('integrate_over_block = %r, the sum over the listed elements of values times their own volumes is %d' % (o['integ'], tot))
    return bad


# ============================================================================= L2: K vs dense Hessian on the real mechanics functions

MATERIALS = {
    'neohookean': lambda: _mat('Neohookean', {'elastic modulus': 10.0, 'poisson ratio': 0.25, 'density': 2.0}),
    'neohookean_coupled': lambda: _mat('Neohookean', {'elastic modulus': 4.0, 'poisson ratio': 0.3, 'density': 1.5, 'version': 'coupled'}),
    'linear': lambda: _mat('LinearElastic', {'elastic modulus': 10.0, 'poisson ratio': 0.25, 'density': 2.0}),
    'j2': lambda: _mat('J2Plastic', {'elastic modulus': 10.0, 'poisson ratio': 0.25, 'yield strength': 0.1, 'density': 2.0,
                                     'kinematics': 'small deformations', 'hardening model': 'linear', 'hardening modulus': 1.0}),
}


def _mat(module, props):
    import importlib
    return importlib.import_module('optimism.material.' + module).create_material_model_functions(props)


def gen_l2(ctx):
    r = ctx.rng('l2')
    cfgs = []

    def mk(kind, **kw):
        c = dict(kind=kind, Nx=r.randrange(2, 4), Ny=r.randrange(2, 4), order=1, mode='plane strain', material='neohookean',
                 seed=r.randrange(1 << 30), amp=0.03)
        c.update(kw)
        cfgs.append(c)

    mk('static', material='neohookean', mode='plane strain', order=1, mesh='delaunay')                 # unstructured mesh
    quick = ctx.tier == 'quick'         # the element-energy decomposition probe costs an un-jitted element Hessian: two statics in the quick tier
    mk('static', material='neohookean_coupled', mode='axisymmetric', order=2, Nx=2, Ny=3, qdeg=r.choice([3, 4, 5]), decomp=not quick)
    mk('static', material='j2', mode='plane strain', order=1, decomp=not quick)
    mk('static', material='linear', mode='axisymmetric', order=r.choice([3, 4]), Nx=2, Ny=2, twice=True, decomp=not quick)   # high order + multi-call history
    mk('static', material='linear', mode='plane strain', order=1, Nx=2, Ny=2, bc='none')              # no essential BC at all
    # blocks list their elements in arbitrary order; 'permuted_range': a consecutive id range in non-ascending order
    mk('multiblock', material='neohookean', nblocks=3, Nx=3, Ny=3, blockorder='permuted_range')
    mk('multiblock', material='j2', nblocks=2, Nx=2, Ny=3, dense=(ctx.tier != 'quick'), blockorder=r.choice(['shuffled', 'permuted_range']))
    mk('newmark', material='neohookean', upred=False, Nx=3, Ny=3)
    mk('newmark', material='linear', upred=True, mode='axisymmetric', beta=r.choice([0.3, 0.2]), gamma=0.6, dt=r.choice([0.05, 0.2]))
    mk('newmark', material='neohookean', upred=True, Nx=3, Ny=3)            # F6 (fixed): must now agree
    modes = ['plane strain', 'axisymmetric', 'plane strain']
    r.shuffle(modes)
    for fac, md in zip(('create_mechanics_functions', 'create_dynamics_functions', 'create_multi_block_mechanics_functions'), modes):
        if fac == 'create_multi_block_mechanics_functions':
            md = 'plane strain'                                               # axisymmetric multi-block raises NotImplementedError (not advertised)
        mk('pressure', factory=fac, degree=r.choice([0, 1]), Nx=2, Ny=2, mode=md)      # F5 (fixed): must now work and agree
    if ctx.tier != 'quick':
        mats = ['neohookean', 'neohookean_coupled', 'linear', 'j2']
        for _ in range(ctx.n(0, 14)):
            mk('static', material=r.choice(mats), mode=r.choice(['plane strain', 'axisymmetric']), order=r.choice([1, 1, 2]),
               amp=r.choice([0.01, 0.05, 0.1]))
        for _ in range(ctx.n(0, 6)):
            mk('multiblock', material=r.choice(mats), nblocks=r.choice([2, 3]), order=r.choice([1, 2]), Nx=3, Ny=r.randrange(2, 4),
               blockorder=r.choice(['shuffled', 'permuted_range', 'sorted']), mesh=r.choice([None, 'delaunay']))
        mk('static', material='neohookean', mode='plane strain', order=4, Nx=2, Ny=2, twice=True)
        mk('static', material='neohookean', mode='axisymmetric', order=3, Nx=2, Ny=2, qdeg=6)
        mk('static', material='j2', mode='axisymmetric', order=2, mesh='delaunay', twice=True)
        for fac in ('create_mechanics_functions', 'create_dynamics_functions'):
            mk('pressure', factory=fac, degree=1, Nx=2, Ny=2, mode='axisymmetric', order=2)
        for _ in range(ctx.n(0, 6)):
            m = r.choice(mats)
            mk('newmark', material=m, upred=(m == 'linear' or r.random() < 0.3), mode=r.choice(['plane strain', 'axisymmetric']),
               order=r.choice([1, 2]))
        for fac in ('create_mechanics_functions', 'create_dynamics_functions', 'create_multi_block_mechanics_functions'):
            mk('pressure', factory=fac, degree=0, Nx=2, Ny=2)
            mk('pressure', factory=fac, degree=1, Nx=2, Ny=2)
    # ---- round 4 streams; their own generator so that the configurations above are unchanged
    r2 = ctx.rng('l2x')

    def mk2(kind, **kw):
        c = dict(kind=kind, Nx=2, Ny=2, order=1, mode='plane strain', material='neohookean', seed=r2.randrange(1 << 30), amp=0.03)
        c.update(kw)
        cfgs.append(c)

    # cross-factory: same mesh / material / mode / degree through the single-block, multi-block (mesh split into same-material
    # blocks) and dynamics factories; order >= 2 so that the projection is not the identity.  Degree 0 always (the falsy one).
    mk2('crossfactory', degree=0, nblocks=2, Nx=2, Ny=3, order=2, material='neohookean')
    mk2('crossfactory', degree=r2.choice([None, 1]), nblocks=2, order=2, mode=r2.choice(['plane strain', 'axisymmetric']),
        material=r2.choice(['neohookean', 'linear', 'neohookean_coupled']))
    # large meshes: element counts just above 1024 that are not a multiple of 1024 (statics, Newmark and mass on the same mesh)
    mk2('large', which=['static', 'newmark', 'mass'], Nx=25, Ny=26, nE=r2.randrange(1025, 1201), qdeg=2, amp=0.05, hscale=True,
        material=r2.choice(['neohookean', 'linear']))
    if ctx.tier != 'quick':
        for deg in (None, 0, 1):
            mk2('crossfactory', degree=deg, nblocks=r2.choice([2, 3]), Nx=2, Ny=3, order=r2.choice([2, 2, 3]), mode='plane strain',
                material=r2.choice(['neohookean', 'linear', 'neohookean_coupled']))
            mk2('crossfactory', degree=deg, nblocks=2, order=2, mode='axisymmetric', material=r2.choice(['neohookean', 'linear']))
        mk2('crossfactory', degree=0, nblocks=2, Nx=2, Ny=3, order=2, material='j2')          # internal-variable update too
        for nE in (1023, 1024, 1025):
            mk2('large', which=[r2.choice(['static', 'newmark']), 'mass'][:r2.choice([1, 2])], Nx=25, Ny=26, nE=nE, qdeg=r2.choice([1, 2]), amp=0.05,
                hscale=True, material=r2.choice(['neohookean', 'linear']), mode=r2.choice(['plane strain', 'axisymmetric']))
        mk2('large', which=['static', 'newmark', 'mass'], Nx=33, Ny=34, nE=r2.choice([2047, 2049, r2.randrange(2050, 2113)]), qdeg=2, amp=0.05, hscale=True)
        mk2('large', which=['multiblock', 'static'], Nx=35, Ny=36, nE=r2.randrange(2200, 2381), nblocks=2, qdeg=1, amp=0.05, hscale=True,
            blockorder=r2.choice(['shuffled', 'sorted']))
        mk2('large', which=['static'], Nx=25, Ny=26, nE=r2.randrange(1025, 1201), qdeg=2, amp=0.05, hscale=True, material='j2')
    return cfgs


def setup_problem(cfg):
    import numpy as onp
    import jax.numpy as np
    import optimism  # noqa: F401
    from optimism import Mesh, FunctionSpace, QuadratureRule
    r = random.Random(cfg['seed'])
    Nx, Ny, order = cfg['Nx'], cfg['Ny'], cfg['order']
    if cfg.get('mesh') == 'delaunay':
        # unstructured triangulation (random Delaunay, counter-clockwise, random cyclic vertex rotation), shifted to x > 0
        from scipy.spatial import Delaunay
        pts = onp.array([[0.0, 0.0], [1.0, 0.0], [1.0, 1.0], [0.0, 1.0]] + [[r.uniform(0.1, 0.9), r.uniform(0.1, 0.9)] for _ in range(r.randrange(2, 5))])
        tri = onp.array(Delaunay(pts).simplices, dtype=int)
        keep = []
        for c in tri:
            a, b, d = pts[c[0]], pts[c[1]], pts[c[2]]
            j = (b[0] - a[0]) * (d[1] - a[1]) - (b[1] - a[1]) * (d[0] - a[0])
            if abs(j) > 1e-6:
                keep.append(c if j > 0 else c[[0, 2, 1]])
        coords, conns = pts + onp.array([0.5, 0.0]), onp.array(keep, dtype=int)
    else:
        coords, conns = Mesh.create_structured_mesh_data(Nx, Ny, [0.5, 1.5], [0.0, 1.0])       # x > 0: valid radius for axisymmetry
        coords = onp.array(coords)
        hx, hy = 1.0 / (Nx - 1), 1.0 / (Ny - 1)
        coords = coords + onp.array([[r.uniform(-0.15, 0.15) * hx, r.uniform(-0.15, 0.15) * hy] for _ in range(coords.shape[0])])   # distorted
    conns = onp.array(conns)
    perm = list(range(conns.shape[0]))
    r.shuffle(perm)                                      # arbitrary element numbering
    conns = conns[perm]
    if cfg.get('nE'):
        # large-mesh stream: an exact element count (the first nE elements of the shuffled numbering; a node that loses all its
        # elements stays in the mesh with zero rows in both K and the Hessian)
        assert conns.shape[0] >= cfg['nE'], 'mesh too small for the requested element count'
        conns = conns[:cfg['nE']]
    conns = onp.array([list(onp.roll(row, r.randrange(3))) for row in conns])     # arbitrary (orientation-preserving) local numbering
    nE = conns.shape[0]
    blocks = {'block_0': onp.arange(nE)}
    mesh = Mesh.construct_mesh_from_basic_data(np.array(coords), np.array(conns), blocks)
    if order > 1:
        mesh = Mesh.create_higher_order_mesh_from_simplex_mesh(mesh, order)
    nNodes = int(mesh.coords.shape[0])
    nodes = list(range(nNodes))
    s0 = sorted(r.sample(nodes, r.randrange(1, max(2, nNodes // 2))))
    s1 = sorted(r.sample(nodes, r.randrange(1, max(2, nNodes // 2))))
    nodeSets = {'s0': onp.array(s0, dtype=int), 's1': onp.array(s1 + s1[:1], dtype=int)}
    if cfg['kind'] == 'multiblock' or cfg.get('nblocks'):
        ids = list(range(nE))
        r.shuffle(ids)
        k = cfg['nblocks']
        cuts = sorted(r.sample(range(1, nE), k - 1))
        order_ = cfg.get('blockorder', 'shuffled')
        if order_ == 'permuted_range':
            # every block is a CONSECUTIVE range of element ids listed in a random (non-ascending) order
            ids = list(range(nE))
            parts = [ids[a:b] for a, b in zip([0] + cuts, cuts + [nE])]
            for p_ in parts:
                while len(p_) > 1 and p_ == sorted(p_):
                    r.shuffle(p_)
        elif order_ == 'sorted':
            parts = [sorted(ids[a:b]) for a, b in zip([0] + cuts, cuts + [nE])]
        else:                                   # arbitrary subsets in arbitrary order
            parts = [ids[a:b] for a, b in zip([0] + cuts, cuts + [nE])]
        LAST['blocks'] = parts
        blocks = {'b%d' % i: np.array(onp.array(p, dtype=int)) for i, p in enumerate(parts)}
    mesh = Mesh.Mesh(mesh.coords, mesh.conns, mesh.simplexNodesOrdinals, mesh.parentElement, mesh.parentElement1d, blocks, nodeSets, None)
    quad = QuadratureRule.create_quadrature_rule_on_triangle(degree=cfg.get('qdeg', max(1, 2 * order - 1)))
    fs = FunctionSpace.construct_function_space(mesh, quad, mode2D='axisymmetric' if cfg['mode'] == 'axisymmetric' else 'cartesian')
    if cfg.get('bc') == 'none':
        dm = FunctionSpace.DofManager(fs, 2, [])
    else:
        dm = FunctionSpace.DofManager(fs, 2, [FunctionSpace.EssentialBC('s0', 0), FunctionSpace.EssentialBC('s1', 1)])
    rs = onp.random.RandomState(cfg['seed'] % (1 << 31))
    def admissible(W):
        # the property quantifies over displacement fields that keep the elements uninverted: det F > 0 at every quadrature point
        # (and a positive hoop stretch in axisymmetry); random nodal noise is scaled down until a safety margin holds
        for _ in range(12):
            g = onp.asarray(FunctionSpace.compute_field_gradient(fs, W))
            J = onp.linalg.det(g + onp.eye(2))
            hoop = 1.0 + onp.asarray(W)[:, 0] / onp.asarray(mesh.coords)[:, 0]
            if J.min() > 0.4 and hoop.min() > 0.4:
                return W
            W = 0.5 * W
        return 0.0 * W

    if cfg.get('hscale'):
        # large meshes: a smooth (affine) deformation plus nodal noise proportional to the mesh size, so that every element is
        # deformed differently and none is inverted
        X = onp.asarray(mesh.coords)
        h = min(1.0 / (Nx - 1), 1.0 / (Ny - 1))
        G = onp.array([[0.10, -0.06], [0.04, 0.07]])
        U = admissible(np.array(X @ G.T - onp.array([0.05, 0.0]) + cfg['amp'] * h * rs.uniform(-1.0, 1.0, X.shape)))
        U0 = admissible(np.array(2 * (X @ G.T) + cfg['amp'] * h * rs.uniform(-1.0, 1.0, X.shape)))
        UP = admissible(np.array(onp.asarray(U) + 0.5 * cfg['amp'] * h * rs.uniform(-1.0, 1.0, X.shape)))
        return mesh, fs, dm, U, U0, UP
    U = admissible(np.array(cfg['amp'] * rs.standard_normal(mesh.coords.shape)))
    U0 = admissible(np.array(3 * cfg['amp'] * rs.standard_normal(mesh.coords.shape)))
    UP = admissible(np.array(cfg['amp'] * rs.standard_normal(mesh.coords.shape)))
    return mesh, fs, dm, U, U0, UP


def _cmp(name, K, H, bad, info):
    import numpy as onp
    K, H = onp.asarray(K), onp.asarray(H)
    scale = max(1.0, float(onp.abs(H).max()) if H.size else 1.0)
    info['scale'] = scale
    if not onp.all(onp.isfinite(K)) or not onp.all(onp.isfinite(H)):
        bad.append('%s: non-finite entries' % name)
        return
    dsym = float(onp.abs(K - K.T).max()) if K.size else 0.0
    dkh = float(onp.abs(K - H).max()) if K.size else 0.0
    info['max|K-K^T|'], info['max|K-H|'] = dsym, dkh
    if dsym > RTOL * scale:
        bad.append('%s: assembled matrix not symmetric: max|K-K^T| = %.3g on a scale of %.3g' % (name, dsym, scale))
    if dkh > RTOL * scale:
        bad.append('%s: assembled matrix differs from the Hessian of the energy: max|K-H| = %.3g on a scale of %.3g' % (name, dkh, scale))


def _directional(name, energy_of_Uu, Uu, K, seed, bad, info):
    """conclusion of C02_hessian_chain on the implementation: the mixed second directional derivative d/ds d/dt E(Uu + s v + t w)
    at (0,0) -- forward-over-forward jvp(jvp(.)), a different autodiff path than jax.hessian / the element Hessians -- equals v^T K w"""
    import numpy as onp
    import jax
    import jax.numpy as np
    rs = onp.random.RandomState((seed ^ 0x5eed) % (1 << 31))
    K = onp.asarray(K)
    n = K.shape[0]
    if n == 0:
        return
    worst = 0.0
    for k in range(2):
        v, w = rs.standard_normal(n), rs.standard_normal(n)
        if k == 1:                       # coordinate directions: one entry of the matrix (C02_hessian_entries)
            i, j = rs.randint(n), rs.randint(n)
            v, w = onp.eye(n)[i], onp.eye(n)[j]
        vj, wj = np.array(v), np.array(w)
        d2 = float(jax.jvp(lambda x: jax.jvp(energy_of_Uu, (x,), (wj,))[1], (Uu,), (vj,))[1])
        q = float(v @ K @ w)
        tol = RTOL * max(1.0, float(onp.abs(K).max())) * float(onp.abs(v).sum()) * float(onp.abs(w).sum())
        worst = max(worst, abs(d2 - q) / tol * RTOL)
        if not (abs(d2 - q) <= tol):
            bad.append('%s: second directional derivative d/ds d/dt E(Uu+sv+tw) = %.15g but v^T K w = %.15g (|diff| %.3g > %.3g)'
                       % (name, d2, q, abs(d2 - q), tol))
    info['max|d2E(v,w)-vKw| (rel)'] = worst


def _decomposition(name, fs, mat, mode, U, q, dt, Etot, Ke, bad, info):
    """structure assumed by model/M_C02_Energy.v: the total energy is the sum over the elements of
    integrate_element_from_local_field(U[conn,:], ...) and the e-th element block is the Hessian of exactly that function of the
    local field (recomputed here with the public pieces, not with the factory's closures)"""
    import numpy as onp
    import jax
    import jax.numpy as np
    from optimism import Mechanics, FunctionSpace
    L = Mechanics.strain_energy_density_to_lagrangian_density(mat.compute_energy_density)
    modify = Mechanics.parse_2D_to_3D_gradient_transformation(mode)
    conns = fs.mesh.conns

    def elem_energy(elDisp, elCoords, elQ, elShapes, elShapeGrads, elVols):
        return FunctionSpace.integrate_element_from_local_field(elDisp, elCoords, elQ, dt, elShapes, elShapeGrads, elVols, L, modify)
    Ee = jax.vmap(elem_energy)(U[conns, :], fs.mesh.coords[conns, :], q, fs.shapes, fs.shapeGrads, fs.vols)
    tot = float(onp.asarray(Ee).sum())
    info['|E-sum_e E_e|'] = abs(tot - float(Etot))
    if abs(tot - float(Etot)) > 1e-11 * max(1.0, abs(float(Etot))):
        bad.append('%s: total energy %.17g is not the sum %.17g of the element energies of the local fields U[conn,:]' % (name, float(Etot), tot))
    e = int(onp.random.RandomState(int(abs(float(Etot)) * 1e6) % (1 << 31)).randint(conns.shape[0]))
    He = onp.asarray(jax.hessian(elem_energy)(U[conns[e], :], fs.mesh.coords[conns[e], :], q[e], fs.shapes[e], fs.shapeGrads[e], fs.vols[e]))
    d = float(onp.abs(He - onp.asarray(Ke)[e]).max())
    info['max|K_e-d2E_e|'] = d
    if not d <= RTOL * max(1.0, float(onp.abs(He).max())):
        bad.append('%s: element block %d differs from the Hessian of the element energy w.r.t. the local field U[conn,:] by %.3g' % (name, e, d))


def _large(cfg, mesh, fs, dm, U, U0, UP, mat, bad, info):
    """meshes with more than 1024 elements (element counts straddling powers of two).  A dense Hessian is out of reach, so
    (a) every element block returned by the factory is compared with a reference block computed from the element's own rows, 128
    elements at a time (vmap of the public Mechanics.compute_element_stiffness_from_global_fields over explicit index chunks of
    the SAME mesh), and (b) the assembled sparse matrix is compared with Hessian-vector products of the total energy,
    H v = d/dt grad E(Uu + t v), along random directions (forward-over-reverse on the total energy: no element Hessians involved)"""
    import numpy as onp
    import jax
    import jax.numpy as np
    from optimism import Mechanics, SparseMatrixAssembler
    nE = int(mesh.conns.shape[0])
    Uu, Ubc = dm.get_unknown_values(U), dm.get_bc_values(U)
    rs = onp.random.RandomState((cfg['seed'] ^ 0x1a26e) % (1 << 31))
    modify = Mechanics.parse_2D_to_3D_gradient_transformation(cfg['mode'])
    chunk = 128
    ids_all = onp.arange(nE)
    pad = (-nE) % chunk
    ids_pad = onp.concatenate([ids_all, onp.full(pad, nE - 1, dtype=int)]).reshape(-1, chunk)

    def reference_blocks(L, Uf, q, dtv):
        f = jax.jit(lambda ids: jax.vmap(Mechanics.compute_element_stiffness_from_global_fields, (None, None, 0, None, 0, 0, 0, 0, None, None))(
            Uf, fs.mesh.coords, q[ids], dtv, fs.mesh.conns[ids], fs.shapes[ids], fs.shapeGrads[ids], fs.vols[ids], L, modify))
        return onp.concatenate([onp.asarray(f(np.array(row))) for row in ids_pad])[:nE]

    def compare(name, Ke, Kref, energy_of_Uu, x0):
        Ke, Kref = onp.asarray(Ke), onp.asarray(Kref)
        if Ke.shape != Kref.shape:
            bad.append('%s (%d elements): element blocks have shape %s, expected %s' % (name, nE, Ke.shape, Kref.shape))
            return
        scale = float(onp.abs(Kref).max()) or 1.0               # relative to the largest reference entry (mass blocks are ~1e-4)
        de = onp.abs(Ke - Kref).reshape(nE, -1).max(axis=1)
        wrong = onp.flatnonzero(~(de <= RTOL * scale))
        info['max|K_e-ref_e| ' + name] = float(de.max())
        if wrong.size:
            bad.append('%s (%d elements): %d element blocks differ from the Hessian of their element energy (computed 128 elements at a time on '
                       'the same mesh): elements %s%s, worst |diff| %.3g on a scale of %.3g'
                       % (name, nE, wrong.size, wrong[:6].tolist(), '...' if wrong.size > 6 else '', float(de.max()), scale))
        K = SparseMatrixAssembler.assemble_sparse_stiffness_matrix(Ke, mesh.conns, dm).tocsr()
        n = K.shape[0]
        dsym = float(abs(K - K.T).max()) if K.nnz else 0.0
        info['max|K-K^T| ' + name] = dsym
        if dsym > RTOL * scale:
            bad.append('%s (%d elements): assembled matrix not symmetric: max|K-K^T| = %.3g' % (name, nE, dsym))
        g = jax.jit(lambda x, v: jax.jvp(jax.grad(energy_of_Uu), (x,), (v,))[1])
        worst = 0.0
        for k in range(cfg.get('ndir', 2)):
            v = rs.standard_normal(n)
            if k == 1:
                v = onp.sign(v)                                       # every column with weight +-1
            Hv = onp.asarray(g(x0, np.array(v)))
            Kv = K @ v
            d = float(onp.abs(Hv - Kv).max())
            worst = max(worst, d)
            tol = RTOL * scale * 30 * float(onp.abs(v).max())          # a row couples a dof to at most a few dozen others
            if not d <= tol:
                i = int(onp.argmax(onp.abs(Hv - Kv)))
                bad.append('%s (%d elements, %d unknowns): assembled matrix differs from the Hessian of the energy: (K v)[%d] = %.12g but '
                           'd/dt grad E(Uu + t v)[%d] = %.12g (|diff| %.3g > %.3g; %d rows differ)'
                           % (name, nE, n, i, float(Kv[i]), i, float(Hv[i]), d, tol, int((onp.abs(Hv - Kv) > tol).sum())))
                break
        info['max|Kv-Hv| ' + name] = worst

    dt = cfg.get('dt', 0.1)
    for which in cfg['which']:
        if which == 'static':
            fns = Mechanics.create_mechanics_functions(fs, cfg['mode'], mat)
            q = fns.compute_initial_state()
            if cfg['material'] == 'j2':
                q = fns.compute_updated_internal_variables(U0, q, dt)
            L = Mechanics.strain_energy_density_to_lagrangian_density(mat.compute_energy_density)
            compare('static', fns.compute_element_stiffnesses(U, q, dt), reference_blocks(L, U, q, dt),
                    lambda x: fns.compute_strain_energy(dm.create_field(x, Ubc), q, dt), Uu)
        elif which == 'multiblock':
            fns = Mechanics.create_multi_block_mechanics_functions(fs, 'plane strain', {k: mat for k in mesh.blocks})
            q = fns.compute_initial_state()
            info['block sizes'] = [int(v.shape[0]) for v in mesh.blocks.values()]
            L = Mechanics.strain_energy_density_to_lagrangian_density(mat.compute_energy_density)
            compare('multi-block', fns.compute_element_stiffnesses(U, q, dt), reference_blocks(L, U, q, dt),
                    lambda x: fns.compute_strain_energy(dm.create_field(x, Ubc), q, dt), Uu)
        elif which == 'newmark':
            beta = cfg.get('beta', 0.3025)
            dyn = Mechanics.create_dynamics_functions(fs, cfg['mode'], mat, Mechanics.NewmarkParameters(gamma=0.6, beta=beta))
            q = dyn.compute_initial_state()
            rho = mat.density

            def L(W, gradW, Q, X, dtime):
                return Mechanics.kinetic_energy_density(W, rho) / (beta * dtime ** 2) + mat.compute_energy_density(gradW, Q, dtime)
            compare('Newmark', dyn.compute_element_hessians(U, UP, q, dt), reference_blocks(L, U, q, dt),
                    lambda x: dyn.compute_algorithmic_energy(dm.create_field(x, Ubc), UP, q, dt), Uu)
        elif which == 'mass':
            dyn = Mechanics.create_dynamics_functions(fs, cfg['mode'], mat, Mechanics.NewmarkParameters())
            rho = mat.density
            q0 = np.zeros((nE, fs.vols.shape[1]))

            def L(V, gradV, Q, X, dtime):
                return Mechanics.kinetic_energy_density(V, rho)
            compare('mass', dyn.compute_element_masses(), reference_blocks(L, np.zeros_like(U), q0, 0.0),
                    lambda x: dyn.compute_output_kinetic_energy(dm.create_field(x, dm.get_bc_values(UP))), dm.get_unknown_values(UP))


def _crossfactory(cfg, mesh, fs, dm, U, U0, UP, mat, bad, info):
    """the same mesh, material, kinematic mode and pressure-projection degree (None, 0, 1) through EVERY factory: the single-block
    factory on the unsplit mesh is the reference; the multi-block factory (mesh split into blocks of that same material; plane strain,
    the only mode it accepts) must give the same energy, internal-variable update and element stiffnesses, and so must the dynamics
    factory (compute_output_strain_energy, compute_updated_internal_variables, and compute_element_hessians minus the inertia blocks
    compute_element_masses / (beta dt^2)).  A factory that drops or alters the option is consistent with itself (its K is the Hessian
    of ITS energy) and is only seen here."""
    import numpy as onp
    import jax.numpy as np
    from optimism import Mechanics, SparseMatrixAssembler
    deg, mode, dt, beta = cfg['degree'], cfg['mode'], 0.1, cfg.get('beta', 0.25)
    tag = '%s, pressureProjectionDegree=%s, order %d, %s' % (mode, deg, cfg['order'], cfg['material'])
    j2 = cfg['material'] == 'j2'
    single = Mechanics.create_mechanics_functions(fs, mode, mat, pressureProjectionDegree=deg)
    q = single.compute_initial_state()
    q1 = single.compute_updated_internal_variables(U0, q, dt) if j2 else q
    Es = float(single.compute_strain_energy(U, q1, dt))
    Ks = onp.asarray(single.compute_element_stiffnesses(U, q1, dt))
    if deg is not None:
        # non-triviality of the input: the projection must change the energy (it is the identity for affine displacements on
        # straight-sided elements, which is why order >= 2 is used)
        plain = Mechanics.create_mechanics_functions(fs, mode, mat)
        E0 = float(plain.compute_strain_energy(U, q1, dt))
        info['|E(projected)-E(plain)|/|E|'] = abs(Es - E0) / max(abs(E0), 1e-300)
    kscale = max(1.0, float(onp.abs(Ks).max()))

    def same(name, what, a, b, tol, scale):
        a, b = onp.asarray(a), onp.asarray(b)
        if a.shape != b.shape:
            bad.append('[%s] %s: %s has shape %s, the single-block factory gives %s' % (tag, name, what, a.shape, b.shape))
            return
        d = float(onp.abs(a - b).max()) if a.size else 0.0
        info['max|diff| %s %s' % (name, what)] = d
        if not d <= tol * scale:
            extra = ''
            if a.ndim >= 2:
                e = int(onp.argmax(onp.abs(a - b).reshape(a.shape[0], -1).max(axis=1)))
                extra = ' (worst: %s %d)' % ('element' if a.ndim > 2 else 'row', e)
            bad.append('[%s] %s: %s differs from the single-block factory on the same mesh by %.3g on a scale of %.3g%s'
                       % (tag, name, what, d, scale, extra))

    if mode == 'plane strain':
        multi = Mechanics.create_multi_block_mechanics_functions(fs, mode, {k: mat for k in mesh.blocks}, pressureProjectionDegree=deg)
        info['blocks'] = LAST.get('blocks')
        name = 'multi-block factory (%d blocks of the same material)' % len(mesh.blocks)
        qm = multi.compute_initial_state()
        if j2:
            qm1 = multi.compute_updated_internal_variables(U0, qm, dt)
            same(name, 'internal-variable update', qm1, q1, 1e-12, max(1.0, float(onp.abs(onp.asarray(q1)).max())))
        Em = float(multi.compute_strain_energy(U, q1, dt))
        info['energies single/multi'] = [Es, Em]
        if not abs(Es - Em) <= 1e-12 * max(1.0, abs(Es)):
            bad.append('[%s] %s: strain energy %.15g differs from the single-block energy %.15g (rel %.3g)' % (tag, name, Em, Es, abs(Em - Es) / max(abs(Es), 1e-300)))
        Km = multi.compute_element_stiffnesses(U, q1, dt)
        same(name, 'element stiffnesses', Km, Ks, 1e-11, kscale)
        if onp.asarray(Km).shape == Ks.shape:
            asm = lambda Ke: SparseMatrixAssembler.assemble_sparse_stiffness_matrix(Ke, mesh.conns, dm).toarray()
            same(name, 'assembled stiffness', asm(Km), asm(Ks), 1e-11, kscale)
    dyn = Mechanics.create_dynamics_functions(fs, mode, mat, Mechanics.NewmarkParameters(gamma=0.5, beta=beta), pressureProjectionDegree=deg)
    name = 'dynamics factory'
    if j2:
        same(name, 'internal-variable update', dyn.compute_updated_internal_variables(U0, dyn.compute_initial_state(), dt), q1, 1e-12,
             max(1.0, float(onp.abs(onp.asarray(q1)).max())))
    Ed = float(dyn.compute_output_strain_energy(U, q1, dt))
    info['energies single/dynamics'] = [Es, Ed]
    if not abs(Es - Ed) <= 1e-12 * max(1.0, abs(Es)):
        bad.append('[%s] %s: compute_output_strain_energy %.15g differs from the single-block energy %.15g (rel %.3g)' % (tag, name, Ed, Es, abs(Ed - Es) / max(abs(Es), 1e-300)))
    Kd = onp.asarray(dyn.compute_element_hessians(U, UP, q1, dt))
    Me = onp.asarray(dyn.compute_element_masses())
    if Kd.shape == Me.shape:
        same(name, 'element Hessians minus inertia blocks M_e/(beta dt^2)', Kd - Me / (beta * dt ** 2), Ks, 1e-10, max(kscale, float(onp.abs(Kd).max())))
    else:
        bad.append('[%s] %s: element Hessians %s and element masses %s have different shapes' % (tag, name, Kd.shape, Me.shape))


def run_l2(cfg):
    """-> (list of violated clauses, info dict).  Exceptions of the implementation on valid input are violations too."""
    import numpy as onp
    import jax
    import jax.numpy as np
    from optimism import Mechanics, SparseMatrixAssembler
    bad, info = [], {}
    mesh, fs, dm, U, U0, UP = setup_problem(cfg)
    mat = MATERIALS[cfg.get('material', 'neohookean')]()
    Uu, Ubc = dm.get_unknown_values(U), dm.get_bc_values(U)
    asm = lambda Ke: SparseMatrixAssembler.assemble_sparse_stiffness_matrix(Ke, mesh.conns, dm).toarray()
    info.update(nUnknowns=int(dm.get_unknown_size()), nBc=int(dm.get_bc_size()), nElements=int(mesh.conns.shape[0]))
    dt = 0.1
    kind = cfg['kind']
    if kind == 'pressure':
        fac = cfg['factory']
        try:
            if fac == 'create_dynamics_functions':
                fns = Mechanics.create_dynamics_functions(fs, cfg['mode'], mat, Mechanics.NewmarkParameters(), pressureProjectionDegree=cfg['degree'])
                q = fns.compute_initial_state()
                K = asm(fns.compute_element_hessians(U, UP, q, dt))
                H = jax.hessian(lambda x: fns.compute_algorithmic_energy(dm.create_field(x, Ubc), UP, q, dt))(Uu)
            else:
                if fac == 'create_multi_block_mechanics_functions':
                    fns = Mechanics.create_multi_block_mechanics_functions(fs, 'plane strain', {'block_0': mat}, pressureProjectionDegree=cfg['degree'])
                else:
                    fns = Mechanics.create_mechanics_functions(fs, cfg['mode'], mat, pressureProjectionDegree=cfg['degree'])
                q = fns.compute_initial_state()
                K = asm(fns.compute_element_stiffnesses(U, q))
                H = jax.hessian(lambda x: fns.compute_strain_energy(dm.create_field(x, Ubc), q))(Uu)
            _cmp('pressure projection degree %d via %s (%s)' % (cfg['degree'], fac, cfg['mode']), K, H, bad, info)
        except Exception as ex:
            info['error'] = '%s: %s' % (type(ex).__name__, str(ex)[:160])
            bad.append('advertised option pressureProjectionDegree=%d of Mechanics.%s is unusable: %s' % (cfg['degree'], fac, info['error']))
        return bad, info
    if kind == 'static':
        fns = Mechanics.create_mechanics_functions(fs, cfg['mode'], mat)
        q = fns.compute_initial_state()
        if cfg['material'] == 'j2':
            q = fns.compute_updated_internal_variables(U0, q, dt)          # an admissible, non-virgin internal state
            info['max_eqps'] = float(onp.asarray(q)[..., 0].max())
        Ke = fns.compute_element_stiffnesses(U, q, dt)
        K = asm(Ke)
        H = jax.hessian(lambda x: fns.compute_strain_energy(dm.create_field(x, Ubc), q, dt))(Uu)
        name = 'static %s %s order %d' % (cfg['material'], cfg['mode'], cfg['order'])
        _cmp(name, K, H, bad, info)
        _directional(name, lambda x: fns.compute_strain_energy(dm.create_field(x, Ubc), q, dt), Uu, K, cfg['seed'], bad, info)
        if cfg.get('decomp', True):
            _decomposition(name, fs, mat, cfg['mode'], U, q, dt, fns.compute_strain_energy(U, q, dt), Ke, bad, info)
        if cfg.get('twice'):
            # multi-call history: the same function objects at a second displacement, and a second assembly with a DIFFERENT
            # DofManager that has the same number of unknowns / constrained dofs and the same array shapes
            from optimism import FunctionSpace as FS
            U2 = 0.5 * UP
            K2 = asm(fns.compute_element_stiffnesses(U2, q, dt))
            H2 = jax.hessian(lambda x: fns.compute_strain_energy(dm.create_field(x, dm.get_bc_values(U2)), q, dt))(dm.get_unknown_values(U2))
            _cmp('second call (same functions, other displacement)', K2, H2, bad, info)
            dm2 = FS.DofManager(fs, 2, [FS.EssentialBC('s0', 1), FS.EssentialBC('s1', 0)])
            info['equal_counts'] = [int(dm.get_unknown_size()), int(dm2.get_unknown_size())]
            K3 = SparseMatrixAssembler.assemble_sparse_stiffness_matrix(fns.compute_element_stiffnesses(U, q, dt), mesh.conns, dm2).toarray()
            H3 = jax.hessian(lambda x: fns.compute_strain_energy(dm2.create_field(x, dm2.get_bc_values(U)), q, dt))(dm2.get_unknown_values(U))
            _cmp('second assembly with another DofManager of equal counts', K3, H3, bad, info)
            K1 = asm(fns.compute_element_stiffnesses(U, q, dt))
            if float(onp.abs(K1 - K).max()) > 0:
                bad.append('re-assembling with the first DofManager after using a second one gives a different matrix')
    elif kind == 'crossfactory':
        _crossfactory(cfg, mesh, fs, dm, U, U0, UP, mat, bad, info)
    elif kind == 'large':
        _large(cfg, mesh, fs, dm, U, U0, UP, mat, bad, info)
    elif kind == 'multiblock':
        single = Mechanics.create_mechanics_functions(fs, 'plane strain', mat)
        multi = Mechanics.create_multi_block_mechanics_functions(fs, 'plane strain', {k: mat for k in mesh.blocks})
        qs, qm = single.compute_initial_state(), multi.compute_initial_state()
        if cfg['material'] == 'j2':
            qs1, qm1 = single.compute_updated_internal_variables(U0, qs, dt), multi.compute_updated_internal_variables(U0, qm, dt)
            d = float(onp.abs(onp.asarray(qs1) - onp.asarray(qm1)).max())
            info['max|state diff|'] = d
            if qs1.shape != qm1.shape or d > 1e-12 * max(1.0, float(onp.abs(onp.asarray(qs1)).max())):
                bad.append('multi-block internal-variable update differs from the single-block one by %.3g' % d)
            qs, qm = qs1, qm1
        info['blocks'] = LAST.get('blocks')
        Es, Em = float(single.compute_strain_energy(U, qs, dt)), float(multi.compute_strain_energy(U, qm, dt))
        info['energies'] = [Es, Em]
        if abs(Es - Em) > 1e-12 * max(1.0, abs(Es)):
            bad.append('multi-block strain energy %.17g differs from the single-block energy %.17g' % (Em, Es))
        Ks, Km = asm(single.compute_element_stiffnesses(U, qs, dt)), asm(multi.compute_element_stiffnesses(U, qm, dt))
        d = float(onp.abs(Ks - Km).max())
        info['max|K_single-K_multi|'] = d
        if d > 1e-11 * max(1.0, float(onp.abs(Ks).max())):
            bad.append('multi-block stiffness differs from the single-block stiffness by %.3g' % d)
        if cfg.get('dense', True):      # the dense Hessian of the J2 multi-block energy costs ~1 min of XLA compilation: thorough tier only
            H = jax.hessian(lambda x: multi.compute_strain_energy(dm.create_field(x, Ubc), qm, dt))(Uu)
            _cmp('multi-block %s (%d blocks)' % (cfg['material'], cfg['nblocks']), Km, H, bad, info)
    elif kind == 'newmark':
        dt = cfg.get('dt', dt)
        fns = Mechanics.create_dynamics_functions(fs, cfg['mode'], mat, Mechanics.NewmarkParameters(gamma=cfg.get('gamma', 0.5), beta=cfg.get('beta', 0.25)))
        q = fns.compute_initial_state()
        if cfg['material'] == 'j2':
            q = fns.compute_updated_internal_variables(U0, q, dt)
        UPred = UP if cfg['upred'] else np.zeros_like(U)
        K = asm(fns.compute_element_hessians(U, UPred, q, dt))
        H = jax.hessian(lambda x: fns.compute_algorithmic_energy(dm.create_field(x, Ubc), UPred, q, dt))(Uu)
        _cmp('Newmark %s %s UPredicted%s0' % (cfg['material'], cfg['mode'], '!=' if cfg['upred'] else '='), K, H, bad, info)
        _directional('Newmark %s %s' % (cfg['material'], cfg['mode']), lambda x: fns.compute_algorithmic_energy(dm.create_field(x, Ubc), UPred, q, dt),
                     Uu, K, cfg['seed'], bad, info)
        if bad and cfg['upred']:
            # signature probe for F6: K is exactly the Hessian of the algorithmic energy at the shifted point U-UPredicted with UPredicted = 0
            Ush = U - UPred
            H2 = jax.hessian(lambda x: fns.compute_algorithmic_energy(dm.create_field(x, dm.get_bc_values(Ush)), np.zeros_like(U), q, dt))(dm.get_unknown_values(Ush))
            info['max|K-H(U-UPredicted,0)|'] = float(onp.abs(K - onp.asarray(H2)).max())
        M = asm(fns.compute_element_masses())
        if float(onp.abs(M - M.T).max()) > RTOL * max(1.0, float(onp.abs(M).max())):
            bad.append('assembled mass matrix not symmetric')
        # the mass matrix is the Hessian of the kinetic energy w.r.t. the unknown velocities
        V = UP
        HM = onp.asarray(jax.hessian(lambda x: fns.compute_output_kinetic_energy(dm.create_field(x, dm.get_bc_values(V))))(dm.get_unknown_values(V)))
        dM = float(onp.abs(M - HM).max()) if M.size else 0.0
        info['max|M-d2KE|'] = dM
        if dM > RTOL * max(1.0, float(onp.abs(HM).max()) if HM.size else 1.0):
            bad.append('assembled mass matrix differs from the Hessian of the kinetic energy by %.3g' % dM)
    return bad, info


# ============================================================================= driver hooks

def static_refs(ctx, model_ok):
    """the reference / free-name / hook-arity table of Mechanics.py: the flag is computed in Coq (gen/Refs_Mechanics.v), the names
    of the broken items are read from the same extraction for the report"""
    from vlib import refs_c02
    t = refs_c02.table(C.REPO)
    broken = (['%s.%s (line %d) does not exist' % (m, a, ln) for (m, a, ln, ok) in t['attr_refs'] if not ok]
              + ['%s reads the unbound name %s (line %d)' % (f, n, ln) for (f, n, ln) in t['free']]
              + ['%s (line %d) takes %d parameters, the hook is called with %d' % (s, ln, n, e) for (s, ln, n, e) in t['hooks'] if n != e])
    keys = sorted({'%s.%s' % (m, a) for (m, a, ln, ok) in t['attr_refs'] if not ok} | {'%s:%s' % (f, n) for (f, n, ln) in t['free']}
                  | {'%s/%d' % (s, n) for (s, ln, n, e) in t['hooks'] if n != e})
    ctx.cov['mechanics_refs'] = dict(attribute_references=len(t['attr_refs']), hooks=len(t['hooks']), broken=broken)
    flag_ok = not broken
    if model_ok:
        z = C.coq_eval(['From OV.gen Require Import Refs_Mechanics.'], ['(if refs_all_ok then 1 else 0) :: map Z.of_nat broken_counts'], 'C02refs')[0]
        ctx.cov['mechanics_refs']['coq_refs_all_ok'] = bool(z[0])
        ctx.cov['mechanics_refs']['coq_broken_counts'] = z[1:]
        flag_ok = bool(z[0])
        if sum(z[1:]) != len(broken):
            ctx.fail('correspondence', 'Coq table reports %s broken items, the extraction %d' % (z[1:], len(broken)), case=dict(layer='refs', broken=keys))
    ctx.count('evaluations')
    if not flag_ok:
        ctx.fail('conclusion', 'Mechanics.py is not statically well-formed (C02_refs_resolve is refuted on this tree): ' + '; '.join(broken)[:900],
                 case=dict(layer='refs', broken=keys), concrete=True)
    # ---- round 4: option sites (pressureProjectionDegree / mode2D through every factory, call arities)
    sbroken = (['%s (line %d): %d of %d truth tests on pressureProjectionDegree are not `is [not] None`%s%s'
                % (f, ln, nt - nn, nt, ', the parameter is rebound' if rb else '', '' if re else ', volume_average_J_gradient_transformation is not reached')
                for (f, ln, nt, nn, rb, re, di) in t['pp_sites'] if not (nt == nn and rb == 0 and re)]
               + ['%s (line %d) does not handle both 2D modes (plane strain: %s, axisymmetric: %s, delegated: %s)' % (f, ln, p_, a, d)
                  for (f, ln, p_, a, d) in t['mode_sites'] if not (d or (p_ and a))]
               + ['%s calls %s (line %d) with %d arguments, accepted: %d..%d%s' % (f, g, ln, n, lo, hi, '' if k else ' (bad keyword)')
                  for (f, g, ln, n, lo, hi, k) in t['call_arities'] if not (lo <= n <= hi and k)])
    ctx.cov['mechanics_option_sites'] = dict(pressure_projection_sites=[list(x) for x in t['pp_sites']], mode_sites=[list(x) for x in t['mode_sites']],
                                             calls=len(t['call_arities']), broken=sbroken)
    sites_ok = not sbroken
    if model_ok:
        z = C.coq_eval(['From OV.gen Require Import Refs_Mechanics.'], ['(if sites_all_ok then 1 else 0) :: map Z.of_nat site_broken_counts'], 'C02sites')[0]
        ctx.cov['mechanics_option_sites']['coq_sites_all_ok'] = bool(z[0])
        ctx.cov['mechanics_option_sites']['coq_broken_counts'] = z[1:]
        sites_ok = bool(z[0])
        if sum(z[1:]) != len(sbroken):
            ctx.fail('correspondence', 'Coq option-site table reports %s broken items, the extraction %d' % (z[1:], len(sbroken)), case=dict(layer='sites', broken=sbroken))
    ctx.count('evaluations')
    if not sites_ok:
        # not an input by itself: the cross-factory stream (kind 'crossfactory') is what turns it into a concrete failing input
        ctx.fail('static tie', 'option sites of Mechanics.py (C02_option_sites_resolve is refuted on this tree): ' + '; '.join(sbroken)[:900],
                 case=dict(layer='sites', broken=sbroken))


F5_STATIC = {'Interpolants.make_master_tri_element', 'Interpolants.compute_shapes_on_tri',
             'define_pressure_projection_gradient_tranformation:functionSpace',
             'create_multi_block_mechanics_functions.modify_element_gradient/2'}


def correspondence(ctx, model_ok, l2_cfgs=None, do_l1=True):
    distinct = set()
    if do_l1:
        static_refs(ctx, model_ok)
    # ---- L1 part 1: the implementation's assembled integer matrices satisfy the theorem's entry formula
    outs, kept = [], []
    if do_l1:
        for case in gen_l1(ctx):
            ctx.count('evaluations')
            try:
                o = run_l1(case)
            except Exception as ex:
                ctx.fail('conclusion', 'DofManager/assembler raised %s: %s on a valid input' % (type(ex).__name__, str(ex)[:200]),
                         case=dict(layer='l1', **case), concrete=True)
                continue
            outs.append(o)
            kept.append(case)
            if 0 < sum(o['isBc']) < len(o['isBc']):
                distinct.add(('l1', o['nNodes'], o['dim'], tuple(map(tuple, o['conns'])), tuple(o['isBc'])))
            for b in l1_conclusions(o)[:2]:
                ctx.fail('conclusion', 'assembly of integer blocks (%d nodes, %d fields, %s BCs): %s' % (o['nNodes'], o['dim'], case['kind'], b),
                         case=dict(layer='l1', **case), concrete=True)
        ctx.count('assembly_cases', len(outs))
    # ---- gather semantics of evaluate_on_block / integrate_over_block (exact, integer data)
    gouts = []
    if do_l1:
        for gc in gen_gather(ctx):
            ctx.count('evaluations')
            try:
                go = run_gather(gc)
            except Exception as ex:
                ctx.fail('conclusion', 'evaluate_on_block/integrate_over_block raised %s: %s for a %s block' % (type(ex).__name__, str(ex)[:200], gc['form']),
                         case=dict(layer='gather', **gc), concrete=True)
                continue
            gouts.append((gc, go))
            if len(go['ids']) > 1 and go['ids'] != sorted(go['ids']):
                distinct.add(('gather', gc['seed']))
            for b in gather_conclusions(go):
                ctx.fail('conclusion', 'block %s (%s): %s' % (go['ids'], gc['form'], b), case=dict(layer='gather', **gc), concrete=True)
        ctx.count('gather_cases', len(gouts))
    # ---- local fields / affine create_field (exact, integer data): the identity C02_hessian_chain rests on, on the implementation
    louts = []
    if do_l1:
        for lc in gen_local(ctx):
            ctx.count('evaluations')
            try:
                lo = run_local(lc)
            except Exception as ex:
                ctx.fail('conclusion', 'DofManager.create_field / U[conn,:] raised %s: %s on a valid input' % (type(ex).__name__, str(ex)[:200]),
                         case=dict(layer='local', **lc), concrete=True)
                continue
            louts.append((lc, lo))
            if 0 < lo['nb'] and 0 < lo['nu']:
                distinct.add(('local', lc['bcseed']))
            if lo['lhs'] != lo['rhs']:
                ctx.fail('conclusion', 'create_field is not affine in the unknowns: create_field(Uu + %d v, Ubc) = %s... but create_field(Uu, Ubc) + %d create_field(v, 0) = %s...'
                         % (lo['t'], lo['lhs'][:10], lo['t'], lo['rhs'][:10]), case=dict(layer='local', **lc), concrete=True)
        ctx.count('local_field_cases', len(louts))
    # ---- the per-block loops of Mechanics on integer data (exact): C02_multiblock_same_material on the implementation
    mouts = []
    if do_l1:
        for mc in gen_mb(ctx):
            ctx.count('evaluations')
            try:
                mo = run_mb(mc)
            except Exception as ex:
                ctx.fail('conclusion', 'Mechanics._compute_*_multi_block raised %s: %s (blocks %s)' % (type(ex).__name__, str(ex)[:200], mc['blocks']),
                         case=dict(layer='mb', **mc), concrete=True)
                continue
            mouts.append((mc, mo))
            if len(mc['blocks']) > 1:
                distinct.add(('mb', mc['seed']))
            for b in mb_conclusions(mo):
                ctx.fail('conclusion', 'blocks %s materials %s: %s' % (mc['blocks'], mc['mats'], b), case=dict(layer='mb', **mc), concrete=True)
        ctx.count('multi_block_loop_cases', len(mouts))
        ctx.count('multi_block_same_material_cases', sum(1 for (_, mo) in mouts if mo['single'] is not None))
    # ---- L2: K vs dense Hessian on the real mechanics functions
    cfgs = l2_cfgs if l2_cfgs is not None else gen_l2(ctx)
    hist = {}
    for cfg in cfgs:
        ctx.count('evaluations')
        try:
            bad, info = run_l2(cfg)
        except Exception as ex:
            bad, info = ['mechanics functions raised %s: %s on a valid configuration' % (type(ex).__name__, str(ex)[:200])], {}
        hist[cfg['kind']] = hist.get(cfg['kind'], 0) + 1
        if cfg['kind'] == 'crossfactory':
            ctx.count('cross_factory_cases')
            ctx.count('cross_factory_degree_%s' % cfg['degree'])
            if info.get('|E(projected)-E(plain)|/|E|', 0.0) > 1e-6:
                ctx.count('cross_factory_cases_where_projection_changes_energy')
        if cfg['kind'] == 'large':
            ctx.count('large_mesh_cases')
            ne = info.get('nElements', 0)
            ctx.count('large_mesh_cases_above_1024_elements_not_multiple_of_1024', 1 if (ne > 1024 and ne % 1024) else 0)
            ctx.cov.setdefault('large_mesh_element_counts', []).append(ne)
        distinct.add(('l2', json.dumps(cfg, sort_keys=True)))
        ctx.sample(dict(cfg={k: cfg[k] for k in cfg if k != 'seed'}, info=info), limit=8)
        for b in bad:
            ctx.fail('conclusion', b, case=dict(layer='l2', cfg=cfg, info=info), concrete=True)
        ctx.log('L2 %-10s %-18s %-13s order %d: %s' % (cfg['kind'], cfg.get('material', cfg.get('factory', '')), cfg['mode'], cfg['order'],
                                                       '; '.join(bad)[:160] if bad else 'ok  ' + json.dumps({k: v for k, v in info.items() if k.startswith('max')})))
    ctx.cov['l2_kinds'] = hist
    ctx.cov['tolerance'] = 'max|K-H|, max|K-K^T| <= %g * max(1, |H|_inf); energies 1e-12 rel; multi vs single block K 1e-11 rel' % RTOL
    ctx.count('distinct_nontrivial', len(distinct))
    if not (model_ok and do_l1):
        return
    # ---- L1 part 2: model vs implementation, exact
    res = C.coq_eval(IMPORTS, [l1_expr(o) for o in outs], 'C02', shard=ctx.n(6, 12), timeout=900)
    nm = 0
    for case, o, zs in zip(kept, outs, res):
        parts = D.unpack(zs)
        want = [o['rows'], o['cols'], o['vals'], o['dense']]
        ctx.count('model_vs_impl_comparisons', 4)
        for nm_, m, w in zip(['COO rows', 'COO cols', 'COO values kValues[mask]', 'dense matrix'], parts, want):
            if list(m) != list(w):
                nm += 1
                ctx.fail('correspondence', 'assembly model and implementation disagree on %s (%d nodes, %d fields, %s BCs): model %s... impl %s...'
                         % (nm_, o['nNodes'], o['dim'], case['kind'], str(m)[:100], str(w)[:100]), case=dict(layer='l1', **case))
                break
    sc = gen_scatter(ctx)
    got = [run_scatter(c) for c in sc]
    zl = D.zl
    res = C.coq_eval(IMPORTS, ['run_scatter_case %s %s %s' % (zl(c['base']), '[' + '; '.join(zl(b) for b in c['blocks']) + ']', zl(c['vals'])) for c in sc],
                     'C02s', shard=100)
    for c, g, m in zip(sc, got, res):
        ctx.count('model_vs_impl_comparisons')
        if list(g) != list(m):
            nm += 1
            ctx.fail('correspondence', 'block scatter model %s differs from jnp .at[ids].set loop %s' % (m, g), case=dict(layer='scatter', **c))
    zll = lambda ll: '[' + '; '.join(zl(x) for x in ll) + ']'
    res = C.coq_eval(IMPORTS, ['run_gather_case %s %s %s' % (zll(go['kv']), zll(go['vl']), zl(go['ids'])) for (_, go) in gouts], 'C02g', shard=200)
    for (gc, go), zs in zip(gouts, res):
        parts = D.unpack(zs)
        ctx.count('model_vs_impl_comparisons', 2)
        if list(parts[0]) != go['vals'] or [float(parts[1][0])] != [go['integ']]:
            nm += 1
            ctx.fail('correspondence', 'gather model and evaluate_on_block/integrate_over_block disagree for block %s (%s): model %s / %s, impl %s / %s'
                     % (go['ids'], gc['form'], str(list(parts[0]))[:80], parts[1], str(go['vals'])[:80], go['integ']), case=dict(layer='gather', **gc))
    res = C.coq_eval(['From OV.model Require Import M_C14_Dof M_C02_Assembly M_C02_Energy.'], [local_expr(lo) for (_, lo) in louts], 'C02l', shard=60)
    for (lc, lo), zs in zip(louts, res):
        parts = D.unpack(zs)
        ctx.count('model_vs_impl_comparisons', 3)
        for nm_, m, w in zip(['the local fields U[conn,:].ravel()', 'create_field(Uu + t v, Ubc)', 'create_field(Uu, Ubc) + t create_field(v, 0)'],
                             parts, [lo['local'], lo['lhs'], lo['rhs']]):
            if list(m) != list(w):
                nm += 1
                ctx.fail('correspondence', 'energy model and implementation disagree on %s (%d nodes, %d fields, %s BCs): model %s... impl %s...'
                         % (nm_, lo['nNodes'], lo['dim'], lc['kind'], str(list(m))[:100], str(w)[:100]), case=dict(layer='local', **lc))
                break
    res = C.coq_eval(MB_IMPORTS, [mb_expr(mo) for (_, mo) in mouts], 'C02m', shard=20)
    for (mc, mo), zs in zip(mouts, res):
        parts = D.unpack(zs)
        ctx.count('model_vs_impl_comparisons', 3)
        for nm_, m, w in zip(['the block-loop energy', 'the block-loop state update', 'the block-loop element Hessians'], parts,
                             [[int(mo['energy'])], mo['snew'], mo['hess']]):
            if list(m) != list(w):
                nm += 1
                ctx.fail('correspondence', 'multi-block model and Mechanics._compute_*_multi_block disagree on %s (blocks %s, materials %s): model %s... impl %s...'
                         % (nm_, mc['blocks'], mc['mats'], str(list(m))[:100], str(w)[:100]), case=dict(layer='mb', **mc))
                break
    ctx.count('model_vs_impl_mismatches', nm)


def search(ctx, reasons):
    import copy
    c2 = copy.copy(ctx)
    c2.tier = 'thorough'
    c2.failures, c2.counts, c2.cov, c2.samples = [], {}, {}, []
    c2.seed = ctx.seed + 1
    correspondence(c2, False)
    findings = [f for f in C.load_known_findings() if f['property'] == ID and f['status'] == 'open']
    conc = [f for f in c2.failures if f.get('concrete') and not any(matches_finding(f, k) for k in findings)]
    return conc[0] if conc else None


F5_ERRORS = ("has no attribute 'make_master_tri_element'", "has no attribute 'compute_shapes_on_tri'", "name 'functionSpace' is not defined",
             'modify_element_gradient() takes 2 positional arguments')


def matches_finding(fl, f):
    case = fl.get('case') or {}
    if case.get('layer') == 'refs':
        return f['id'] == 'F5' and fl['kind'] == 'conclusion' and bool(case.get('broken')) and set(case['broken']) <= F5_STATIC
    if case.get('layer') != 'l2':
        return False
    cfg, info = case.get('cfg', {}), case.get('info', {})
    if f['id'] == 'F5':
        return cfg.get('kind') == 'pressure' and 'is unusable' in fl['what'] and any(e in info.get('error', '') for e in F5_ERRORS)
    if f['id'] == 'F6':
        # narrow: Newmark, UPredicted != 0, nonlinear material, K symmetric, and K IS the Hessian at the shifted point (U-UPredicted, 0)
        return (cfg.get('kind') == 'newmark' and cfg.get('upred') and cfg.get('material') != 'linear'
                and 'differs from the Hessian' in fl['what']
                and info.get('max|K-H(U-UPredicted,0)|', 1.0) <= RTOL * info.get('scale', 1.0)
                and info.get('max|K-K^T|', 1.0) <= RTOL * info.get('scale', 1.0))
    return False


def finding_fails(ctx, f):
    try:
        bad, info = run_l2(f['witness']['cfg'])
    except Exception:
        return True
    return bool(bad)


def replay(ctx, path):
    rep = json.load(open(path))
    case = rep.get('failing_input')
    print('replay of', path)
    print(json.dumps(rep.get('reasons'), indent=1)[:3000])
    if not case:
        print('no concrete failing input recorded; broken obligations:', rep.get('broken'))
        return 1
    if case.get('layer') == 'refs':
        from vlib import refs_c02
        t = refs_c02.table(C.REPO)
        now = [r for r in t['attr_refs'] if not r[3]] + t['free'] + [h for h in t['hooks'] if h[2] != h[3]]
        print('broken references in Mechanics.py now:', now or 'none')
        return 1 if now else 0
    if case.get('layer') == 'sites':
        from vlib import refs_c02
        t = refs_c02.table(C.REPO)
        now = ([x for x in t['pp_sites'] if not (x[2] == x[3] and x[4] == 0 and x[5])] + [x for x in t['mode_sites'] if not (x[4] or (x[2] and x[3]))]
               + [x for x in t['call_arities'] if not (x[4] <= x[3] <= x[5] and x[6])])
        print('broken option sites in Mechanics.py now:', now or 'none')
        return 1 if now else 0
    if case.get('layer') == 'l2':
        try:
            bad, info = run_l2(case['cfg'])
        except Exception as ex:
            bad, info = ['raised %r' % ex], {}
        print('implementation now:', bad or 'conclusion holds', info)
        return 1 if bad else 0
    if case.get('layer') == 'gather':
        gc = {k: v for k, v in case.items() if k != 'layer'}
        try:
            bad = gather_conclusions(run_gather(gc))
        except Exception as ex:
            bad = ['raised %r' % ex]
        print('implementation now:', bad or 'gather semantics hold')
        return 1 if bad else 0
    if case.get('layer') == 'local':
        lc = {k: v for k, v in case.items() if k != 'layer'}
        try:
            lo = run_local(lc)
        except Exception as ex:
            print('implementation raises:', repr(ex)[:300])
            return 1
        affine = lo['lhs'] == lo['rhs']
        print('create_field affine on the implementation now:', affine)
        mism = False
        try:
            parts = D.unpack(C.coq_eval(['From OV.model Require Import M_C14_Dof M_C02_Assembly M_C02_Energy.'], [local_expr(lo)], 'C02r')[0])
            mism = [list(p) for p in parts] != [lo['local'], lo['lhs'], lo['rhs']]
            print('model vs implementation now:', 'DISAGREE' if mism else 'agree')
        except Exception as ex:
            print('model could not be evaluated:', str(ex)[:300])
        return 1 if (mism or not affine) else 0
    if case.get('layer') == 'mb':
        mc = {k: v for k, v in case.items() if k != 'layer'}
        try:
            mo = run_mb(mc)
        except Exception as ex:
            print('implementation raises:', repr(ex)[:300])
            return 1
        bad = mb_conclusions(mo)
        print('multi-block = single-block on the implementation now:', bad or 'holds')
        mism = False
        try:
            parts = D.unpack(C.coq_eval(MB_IMPORTS, [mb_expr(mo)], 'C02r')[0])
            mism = [list(p) for p in parts] != [[int(mo['energy'])], mo['snew'], mo['hess']]
            print('model vs implementation now:', 'DISAGREE' if mism else 'agree')
        except Exception as ex:
            print('model could not be evaluated:', str(ex)[:300])
        return 1 if (bad or mism) else 0
    if case.get('layer') == 'scatter':
        g = run_scatter(case)
        zl = D.zl
        m = C.coq_eval(IMPORTS, ['run_scatter_case %s %s %s' % (zl(case['base']), '[' + '; '.join(zl(b) for b in case['blocks']) + ']', zl(case['vals']))], 'C02r')[0]
        print('jnp loop', g, 'model', m)
        return 1 if list(g) != list(m) else 0
    c = {k: v for k, v in case.items() if k != 'layer'}
    try:
        o = run_l1(c)
    except Exception as ex:
        print('implementation raises:', repr(ex)[:300])
        return 1
    bad = l1_conclusions(o)
    print('entry formula on the implementation now:', bad or 'holds')
    mism = False
    try:
        parts = D.unpack(C.coq_eval(IMPORTS, [l1_expr(o)], 'C02r')[0])
        mism = [list(p) for p in parts] != [o['rows'], o['cols'], o['vals'], o['dense']]
        print('model vs implementation now:', 'DISAGREE' if mism else 'agree')
    except Exception as ex:
        print('model could not be evaluated:', str(ex)[:300])
    return 1 if (bad or mism) else 0
