"""C02 -- assembled stiffness equals the Hessian of the total energy (Mechanics / SparseMatrixAssembler / FunctionSpace)."""
import json
import random
import types

from vlib import common as C
from props import c14 as D          # shares the DofManager model, its case builder and BC patterns

ID = 'C02'
READY = True
LEVEL_TEXT = ('Partial. Proved (Coq, for every BC mask, connectivity, number of fields and element blocks): each entry of the assembled matrix is the '
              'sum of the block entries (a,b) with both dofs unknown and (unknown(b), unknown(a)) = (i,j) (duplicates summed, transposed placement); '
              'it is the restriction to the unknown dofs of the global scatter; the block integral of integrate_over_block is the sum over the listed elements of their values against their OWN volumes, invariant under reordering of the block list, additive over partitions (gather model tied by exact correspondence); with symmetric blocks it is symmetric and equals '
              'P^T(sum_e G_e^T K_e G_e)P; without symmetry it is the transpose (refuted with a witness); per-block scatter of states / element '
              'Hessians and per-block energy sums reproduce the unblocked results when the blocks cover / partition the elements. '
              'Not proved: that jax.hessian of the element energy is its Hessian and the chain rule through create_field -- that half is compared on '
              'the real code on every run (assembled K vs dense jax.hessian of the total energy: plane strain / axisymmetric, single / multi block, '
              'static / Newmark). Findings F5 (pressure-projection factories were dead code) and F6 (Newmark element Hessians were evaluated at U-UPredicted) are fixed in /repo and are replayed as regressions; the static reference table of Mechanics.py is now proved to resolve (C02_refs_resolve).')
TECHNIQUE = 'Coq proof over a hand-written model of the COO assembly and block scatter (shares the C14 DofManager model); exact vm_compute correspondence; K-vs-jax.hessian comparison on the real mechanics functions'
GEN = ['Refs_Mechanics']
TARGETS = ['model/M_C14_Dof.vo', 'model/M_C02_Assembly.vo', 'proofs/L_C14.vo', 'proofs/L_C02.vo', 'gen/Refs_Mechanics.vo', 'proofs/L_C02_refs.vo']
COQ_FILES = ['model/M_C14_Dof.v', 'model/M_C02_Assembly.v', 'proofs/L_C14.v', 'proofs/L_C02.v', 'proofs/L_C02_refs.v', 'props/P_C02.v']
TRUSTED = ['Coq 8.16.1 kernel + vm_compute (no native_compute)',
           'hand-written model of assemble_sparse_stiffness_matrix (boolean-mask ravel order, coo_matrix duplicate summation) and of the '
           '.at[elemIds].set block loops, and of the gather semantics of FunctionSpace.evaluate_on_block / integrate_over_block; tied to the source only by the exact correspondence on seeded random integer data',
           'JAX autodiff: jax.hessian of the element / total energy is taken to be the true second derivative (both sides of the L2 comparison use it)',
           'correspondence harness (case generators, tolerance 1e-9 * max(1, |H|_inf) for K vs H and symmetry)']
ASSUMPTIONS = ['node ids in range, rectangular connectivity, components < number of fields (as C14)',
               'element blocks are symmetric (true for autodiff Hessians) for the symmetry / P^T K P theorems; stated as a hypothesis',
               'chain rule through the affine map create_field and correctness of jax.hessian: not proved, compared numerically',
               'theorems over exact reals / integers; binary64 summation order differences are covered by the L2 tolerance']
RULE = ('gather: integer-valued FunctionSpace arrays (every per-element array distinct per element) through the real evaluate_on_block / integrate_over_block with blocks given as slice(None), python slices, permuted / reversed consecutive ranges, unsorted and sorted subsets, vs the model (exact); L1 twins: a second assembly on the same mesh with another DofManager of equal counts, then the first one again. L1: seeded random connectivity tables / small structured meshes, 1..3 fields, the C14 BC patterns, random NON-symmetric integer element blocks '
        'through the real DofManager + assemble_sparse_stiffness_matrix vs the model (exact); random .at[ids].set block loops vs the model. '
        'L2: small distorted structured meshes (order 1..2, shuffled element numbering), random BC node sets, random displacement; materials '
        'neo-Hookean, linear elastic, J2 (state produced by a previous load step); plane strain / axisymmetric; single / multi block; static / Newmark. '
        'non-trivial = has both constrained and unknown dofs; distinct = distinct configurations')
IMPORTS = ['From OV.model Require Import M_C14_Dof M_C02_Assembly.']

RTOL = 1e-9
LAST = {}


# ============================================================================= L1: assembler and scatter vs the model

def gen_l1(ctx):
    r = ctx.rng('l1')
    cases = []
    for i in range(ctx.n(18, 240)):
        dim = r.choice([1, 2, 2, 3])
        if i % 4 == 0:
            case = dict(src='structured', Nx=r.randrange(2, 4), Ny=r.randrange(2, 4), order=r.choice([1, 1, 2]), dim=dim)
            if case['order'] == 2 and dim == 3:
                case['Nx'] = case['Ny'] = 2
        else:
            npe = r.choice([3, 3, 6])
            nNodes = r.randrange(2, 13)
            nEl = r.randrange(1, 7 if npe == 3 else 4)
            conns = [(r.sample(range(nNodes), npe) if nNodes >= npe and r.random() < 0.8 else [r.randrange(nNodes) for _ in range(npe)])
                     for _ in range(nEl)]
            case = dict(src='random', nNodes=nNodes, conns=conns, dim=dim)
        case['kind'] = D.KINDS[i % len(D.KINDS)]
        case['bcseed'] = r.randrange(1 << 30)
        cases.append(case)
        if i % 3 == 1:
            cases.append(dict(case, twin=True))      # second assembly on the same mesh with another DofManager of equal counts
    return cases


def run_l1(case):
    import numpy as onp
    import optimism  # noqa: F401
    from optimism import FunctionSpace, SparseMatrixAssembler
    dim = case['dim']
    ints = lambda a: [int(x) for x in onp.asarray(a).ravel()]
    first = None
    if case.get('twin'):
        # history: assemble first with the untwinned DofManager (same mesh, same counts, same shapes), with the SAME block values
        caseA = {k: v for k, v in case.items() if k != 'twin'}
        fsA, _, connsA, ebcsA = D.build(caseA)
        dmA = FunctionSpace.DofManager(fsA, dim, [FunctionSpace.EssentialBC(nodeSet=n, component=c) for (n, _, c) in ebcsA])
    fs, nNodes, conns, ebcs = D.build(case)
    dm = FunctionSpace.DofManager(fs, dim, [FunctionSpace.EssentialBC(nodeSet=n, component=c) for (n, _, c) in ebcs])
    r = random.Random(case['bcseed'] ^ 0xbeef)
    nE, npe = len(conns), len(conns[0])
    nd = npe * dim
    kv = [[r.randrange(-9, 10) for _ in range(nd * nd)] for _ in range(nE)]       # non-symmetric integer blocks
    kValues = onp.array(kv, dtype=float).reshape(nE, npe, dim, npe, dim)
    if case.get('twin'):
        KA = SparseMatrixAssembler.assemble_sparse_stiffness_matrix(kValues, onp.asarray(fsA.mesh.conns), dmA)
        first = ints(KA.toarray()) if dmA.get_unknown_size() else []
    K = SparseMatrixAssembler.assemble_sparse_stiffness_matrix(kValues, onp.asarray(fs.mesh.conns), dm)
    changed = False
    if first is not None:
        KA2 = SparseMatrixAssembler.assemble_sparse_stiffness_matrix(kValues, onp.asarray(fsA.mesh.conns), dmA)
        changed = (ints(KA2.toarray()) if dmA.get_unknown_size() else []) != first
    nu = int(dm.get_unknown_size())
    dense = ints(K.toarray()) if nu else []
    return dict(nNodes=nNodes, dim=dim, conns=conns, ebcs=ebcs, kv=kv, nu=nu, shape=[int(x) for x in K.shape], first_changed=changed,
                rows=ints(dm.HessRowCoords), cols=ints(dm.HessColCoords),
                vals=ints(kValues.reshape(nE, nd, nd)[dm.hessian_bc_mask]), dense=dense,
                isBc=ints(dm.isBc), d2u=ints(dm.dofToUnknown), unk=ints(dm.unknownIndices))


def l1_conclusions(o):
    """C02_assembly_entries / _is_restriction evaluated on the implementation's matrix (integer blocks: exact)"""
    bad = []
    nu, dim = o['nu'], o['dim']
    if o.get('first_changed'):
        bad.append('re-assembling with the first DofManager after assembling with a second one of equal counts gives a different matrix')
    if o['shape'] != [nu, nu]:
        return ['assembled matrix has shape %s, expected (%d, %d)' % (o['shape'], nu, nu)]
    want = [[0] * nu for _ in range(nu)]
    want_straight = [[0] * nu for _ in range(nu)]
    for en, ke in zip(o['conns'], o['kv']):
        dofs = [n * dim + c for n in en for c in range(dim)]
        nd = len(dofs)
        for a in range(nd):
            for b in range(nd):
                ua, ub = o['d2u'][dofs[a]], o['d2u'][dofs[b]]
                if ua >= 0 and ub >= 0 and not o['isBc'][dofs[a]] and not o['isBc'][dofs[b]]:
                    want[ub][ua] += ke[a * nd + b]
                    want_straight[ua][ub] += ke[a * nd + b]
    got = [o['dense'][i * nu:(i + 1) * nu] for i in range(nu)]
    # either orientation realises "sum of scattered blocks restricted to the unknowns" up to transposition; the property (symmetric
    # blocks) cannot tell them apart, so L2 accepts both and L1 pins the one the source uses
    if got != want and got != want_straight:
        ij = [(i, j) for i in range(nu) for j in range(nu) if got[i][j] != want[i][j]][0]
        bad.append('assembled K[%d][%d] = %d but the blocks scatter %d there (%d in the straight orientation)'
                   % (ij[0], ij[1], got[ij[0]][ij[1]], want[ij[0]][ij[1]], want_straight[ij[0]][ij[1]]))
    return bad


def l1_expr(o):
    zl = D.zl
    ebcs = '[' + '; '.join('(%s, (%d))' % (zl(nodes), comp) for (_, nodes, comp) in o['ebcs']) + ']'
    conns = '[' + '; '.join(zl(c) for c in o['conns']) + ']'
    kv = '[' + '; '.join(zl(k) for k in o['kv']) + ']'
    return 'run_asm_case (%d) (%d) %s %s %s' % (o['nNodes'], o['dim'], ebcs, conns, kv)


def gen_scatter(ctx):
    r = ctx.rng('scatter')
    out = []
    for _ in range(ctx.n(20, 200)):
        ne = r.randrange(1, 14)
        ids = list(range(ne))
        r.shuffle(ids)
        k = r.randrange(1, 4)
        cuts = sorted(r.randrange(0, ne + 1) for _ in range(k - 1))
        blocks = [ids[a:b] for a, b in zip([0] + cuts, cuts + [ne])]
        mode = r.randrange(3)
        if mode == 1 and ne > 1:          # overlap
            blocks.append(r.sample(range(ne), r.randrange(1, ne)))
        if mode == 2:                     # not covering
            blocks = [b[:max(0, len(b) - 1)] for b in blocks]
        out.append(dict(base=[r.randrange(100, 200) for _ in range(ne)], blocks=blocks, vals=[r.randrange(-50, 50) for _ in range(ne)]))
    return out


def run_scatter(case):
    import numpy as onp
    import jax.numpy as np
    arr = np.array(onp.array(case['base'], dtype=float))
    vals = onp.array(case['vals'], dtype=float)
    for ids in case['blocks']:
        ids = onp.array(ids, dtype=int)
        arr = arr.at[ids].set(np.array(vals[ids]))       # the statement used by Mechanics._compute_*_multi_block
    return [int(x) for x in onp.asarray(arr)]


# ============================================================================= gather semantics of evaluate_on_block / integrate_over_block

BLOCK_FORMS = ['slice_none', 'perm_range', 'perm_all', 'unsorted_subset', 'sorted_subset', 'reversed_range', 'single', 'py_slice']


def gen_gather(ctx):
    r = ctx.rng('gather')
    out = []
    for i in range(ctx.n(24, 320)):
        out.append(dict(ne=r.randrange(1, 11), nq=r.randrange(1, 4), nNodes=r.randrange(3, 9), seed=r.randrange(1 << 30),
                        form=BLOCK_FORMS[i % len(BLOCK_FORMS)]))
    return out


def run_gather(case):
    """integer-valued FunctionSpace arrays with a different value on every (element, quadrature point), so that gathering ANY of
    the per-element arrays (states, shapes, shapeGrads, vols, conns) with a wrong or differently ordered index changes the result"""
    import numpy as onp
    import jax.numpy as np
    import optimism  # noqa: F401
    from optimism import FunctionSpace, Mesh, QuadratureRule
    rs = onp.random.RandomState(case['seed'] % (1 << 31))
    r = random.Random(case['seed'])
    ne, nq, nN = case['ne'], case['nq'], case['nNodes']
    shapes = rs.randint(-3, 4, size=(ne, nq, 3)).astype(float)
    grads = rs.randint(-3, 4, size=(ne, nq, 3, 2)).astype(float)
    vols = rs.randint(1, 10, size=(ne, nq)).astype(float)
    states = rs.randint(-9, 10, size=(ne, nq, 1)).astype(float)
    coords = rs.randint(-5, 6, size=(nN, 2)).astype(float)
    conns = rs.randint(0, nN, size=(ne, 3))
    U = rs.randint(-9, 10, size=(nN,)).astype(float)
    form = case['form']
    if form == 'slice_none':
        ids, block = list(range(ne)), slice(None)
    elif form == 'py_slice':
        a = r.randrange(0, ne)
        b = r.randrange(a + 1, ne + 1)
        ids, block = list(range(a, b)), slice(a, b)
    else:
        if form in ('perm_range', 'reversed_range'):
            a = r.randrange(0, max(1, ne - 1))
            b = r.randrange(min(ne, a + 2), ne + 1)
            ids = list(range(a, b))
            if form == 'reversed_range':
                ids.reverse()
            else:
                r.shuffle(ids)
        elif form == 'perm_all':
            ids = list(range(ne))
            r.shuffle(ids)
        elif form == 'single':
            ids = [r.randrange(ne)]
        else:
            ids = r.sample(range(ne), r.randrange(1, ne + 1))
            if form == 'sorted_subset':
                ids.sort()
        block = np.array(onp.array(ids, dtype=int))
    mesh = Mesh.Mesh(np.array(coords), np.array(conns), np.arange(nN), None, None, {'b': np.arange(ne)}, None, None)
    fs = FunctionSpace.FunctionSpace(np.array(shapes), np.array(vols), np.array(grads), mesh,
                                     QuadratureRule.create_quadrature_rule_on_triangle(1), False)
    func = lambda u, dudx, q, x, dt: 3 * u + 5 * dudx[0] + 7 * dudx[1] + 11 * q[0] + 13 * x[0] + 17 * x[1]
    vals = onp.asarray(FunctionSpace.evaluate_on_block(fs, np.array(U), np.array(states), 0.0, func, block))
    integ = float(FunctionSpace.integrate_over_block(fs, np.array(U), np.array(states), 0.0, func, block))
    # per-element reference values, computed from the element's own rows only
    kv = []
    for e in range(ne):
        ue, xe = U[conns[e]], coords[conns[e]]
        row = []
        for q in range(nq):
            u = shapes[e, q] @ ue
            g = ue @ grads[e, q]
            x = shapes[e, q] @ xe
            row.append(int(3 * u + 5 * g[0] + 7 * g[1] + 11 * states[e, q, 0] + 13 * x[0] + 17 * x[1]))
        kv.append(row)
    return dict(ids=ids, kv=kv, vl=[[int(v) for v in row] for row in vols], vals=[int(v) for v in vals.ravel()], shape=list(vals.shape),
                integ=integ)


def gather_conclusions(o):
    """C02_integrate_over_block_gather evaluated on the implementation's numbers (exact: integers)"""
    bad = []
    want = [v for i in o['ids'] for v in o['kv'][i]]
    if o['shape'] != [len(o['ids']), len(o['kv'][0])] or o['vals'] != want:
        bad.append('evaluate_on_block rows are not the kernel values of the listed elements in block order: got %s, expected %s' % (o['vals'][:12], want[:12]))
    tot = sum(a * b for i in o['ids'] for a, b in zip(o['kv'][i], o['vl'][i]))
    if o['integ'] != float(tot):
        bad.append('integrate_over_block = %r, the sum over the listed elements of values times their own volumes is %d' % (o['integ'], tot))
    return bad


# ============================================================================= L2: K vs dense Hessian on the real mechanics functions

MATERIALS = {
    'neohookean': lambda: _mat('Neohookean', {'elastic modulus': 10.0, 'poisson ratio': 0.25, 'density': 2.0}),
    'neohookean_coupled': lambda: _mat('Neohookean', {'elastic modulus': 4.0, 'poisson ratio': 0.3, 'density': 1.5, 'version': 'coupled'}),
    'linear': lambda: _mat('LinearElastic', {'elastic modulus': 10.0, 'poisson ratio': 0.25, 'density': 2.0}),
    'j2': lambda: _mat('J2Plastic', {'elastic modulus': 10.0, 'poisson ratio': 0.25, 'yield strength': 0.1, 'density': 2.0,
                                     'kinematics': 'small deformations', 'hardening model': 'linear', 'hardening modulus': 1.0}),
}


def _mat(module, props):
    import importlib
    return importlib.import_module('optimism.material.' + module).create_material_model_functions(props)


def gen_l2(ctx):
    r = ctx.rng('l2')
    cfgs = []

    def mk(kind, **kw):
        c = dict(kind=kind, Nx=r.randrange(2, 4), Ny=r.randrange(2, 4), order=1, mode='plane strain', material='neohookean',
                 seed=r.randrange(1 << 30), amp=0.03)
        c.update(kw)
        cfgs.append(c)

    mk('static', material='neohookean', mode='plane strain', order=1, mesh='delaunay')                 # unstructured mesh
    mk('static', material='neohookean_coupled', mode='axisymmetric', order=2, Nx=2, Ny=3, qdeg=r.choice([3, 4, 5]))
    mk('static', material='j2', mode='plane strain', order=1)
    mk('static', material='linear', mode='axisymmetric', order=r.choice([3, 4]), Nx=2, Ny=2, twice=True)   # high order + multi-call history
    mk('static', material='linear', mode='plane strain', order=1, Nx=2, Ny=2, bc='none')              # no essential BC at all
    # blocks list their elements in arbitrary order; 'permuted_range': a consecutive id range in non-ascending order
    mk('multiblock', material='neohookean', nblocks=3, Nx=3, Ny=3, blockorder='permuted_range')
    mk('multiblock', material='j2', nblocks=2, Nx=2, Ny=3, dense=(ctx.tier != 'quick'), blockorder=r.choice(['shuffled', 'permuted_range']))
    mk('newmark', material='neohookean', upred=False, Nx=3, Ny=3)
    mk('newmark', material='linear', upred=True, mode='axisymmetric', beta=r.choice([0.3, 0.2]), gamma=0.6, dt=r.choice([0.05, 0.2]))
    mk('newmark', material='neohookean', upred=True, Nx=3, Ny=3)            # F6 (fixed): must now agree
    modes = ['plane strain', 'axisymmetric', 'plane strain']
    r.shuffle(modes)
    for fac, md in zip(('create_mechanics_functions', 'create_dynamics_functions', 'create_multi_block_mechanics_functions'), modes):
        if fac == 'create_multi_block_mechanics_functions':
            md = 'plane strain'                                               # axisymmetric multi-block raises NotImplementedError (not advertised)
        mk('pressure', factory=fac, degree=r.choice([0, 1]), Nx=2, Ny=2, mode=md)      # F5 (fixed): must now work and agree
    if ctx.tier != 'quick':
        mats = ['neohookean', 'neohookean_coupled', 'linear', 'j2']
        for _ in range(ctx.n(0, 14)):
            mk('static', material=r.choice(mats), mode=r.choice(['plane strain', 'axisymmetric']), order=r.choice([1, 1, 2]),
               amp=r.choice([0.01, 0.05, 0.1]))
        for _ in range(ctx.n(0, 6)):
            mk('multiblock', material=r.choice(mats), nblocks=r.choice([2, 3]), order=r.choice([1, 2]), Nx=3, Ny=r.randrange(2, 4),
               blockorder=r.choice(['shuffled', 'permuted_range', 'sorted']), mesh=r.choice([None, 'delaunay']))
        mk('static', material='neohookean', mode='plane strain', order=4, Nx=2, Ny=2, twice=True)
        mk('static', material='neohookean', mode='axisymmetric', order=3, Nx=2, Ny=2, qdeg=6)
        mk('static', material='j2', mode='axisymmetric', order=2, mesh='delaunay', twice=True)
        for fac in ('create_mechanics_functions', 'create_dynamics_functions'):
            mk('pressure', factory=fac, degree=1, Nx=2, Ny=2, mode='axisymmetric', order=2)
        for _ in range(ctx.n(0, 6)):
            m = r.choice(mats)
            mk('newmark', material=m, upred=(m == 'linear' or r.random() < 0.3), mode=r.choice(['plane strain', 'axisymmetric']),
               order=r.choice([1, 2]))
        for fac in ('create_mechanics_functions', 'create_dynamics_functions', 'create_multi_block_mechanics_functions'):
            mk('pressure', factory=fac, degree=0, Nx=2, Ny=2)
            mk('pressure', factory=fac, degree=1, Nx=2, Ny=2)
    return cfgs


def setup_problem(cfg):
    import numpy as onp
    import jax.numpy as np
    import optimism  # noqa: F401
    from optimism import Mesh, FunctionSpace, QuadratureRule
    r = random.Random(cfg['seed'])
    Nx, Ny, order = cfg['Nx'], cfg['Ny'], cfg['order']
    if cfg.get('mesh') == 'delaunay':
        # unstructured triangulation (random Delaunay, counter-clockwise, random cyclic vertex rotation), shifted to x > 0
        from scipy.spatial import Delaunay
        pts = onp.array([[0.0, 0.0], [1.0, 0.0], [1.0, 1.0], [0.0, 1.0]] + [[r.uniform(0.1, 0.9), r.uniform(0.1, 0.9)] for _ in range(r.randrange(2, 5))])
        tri = onp.array(Delaunay(pts).simplices, dtype=int)
        keep = []
        for c in tri:
            a, b, d = pts[c[0]], pts[c[1]], pts[c[2]]
            j = (b[0] - a[0]) * (d[1] - a[1]) - (b[1] - a[1]) * (d[0] - a[0])
            if abs(j) > 1e-6:
                keep.append(c if j > 0 else c[[0, 2, 1]])
        coords, conns = pts + onp.array([0.5, 0.0]), onp.array(keep, dtype=int)
    else:
        coords, conns = Mesh.create_structured_mesh_data(Nx, Ny, [0.5, 1.5], [0.0, 1.0])       # x > 0: valid radius for axisymmetry
        coords = onp.array(coords)
        hx, hy = 1.0 / (Nx - 1), 1.0 / (Ny - 1)
        coords = coords + onp.array([[r.uniform(-0.15, 0.15) * hx, r.uniform(-0.15, 0.15) * hy] for _ in range(coords.shape[0])])   # distorted
    conns = onp.array(conns)
    perm = list(range(conns.shape[0]))
    r.shuffle(perm)                                      # arbitrary element numbering
    conns = conns[perm]
    conns = onp.array([list(onp.roll(row, r.randrange(3))) for row in conns])     # arbitrary (orientation-preserving) local numbering
    nE = conns.shape[0]
    blocks = {'block_0': onp.arange(nE)}
    mesh = Mesh.construct_mesh_from_basic_data(np.array(coords), np.array(conns), blocks)
    if order > 1:
        mesh = Mesh.create_higher_order_mesh_from_simplex_mesh(mesh, order)
    nNodes = int(mesh.coords.shape[0])
    nodes = list(range(nNodes))
    s0 = sorted(r.sample(nodes, r.randrange(1, max(2, nNodes // 2))))
    s1 = sorted(r.sample(nodes, r.randrange(1, max(2, nNodes // 2))))
    nodeSets = {'s0': onp.array(s0, dtype=int), 's1': onp.array(s1 + s1[:1], dtype=int)}
    if cfg['kind'] == 'multiblock':
        ids = list(range(nE))
        r.shuffle(ids)
        k = cfg['nblocks']
        cuts = sorted(r.sample(range(1, nE), k - 1))
        order_ = cfg.get('blockorder', 'shuffled')
        if order_ == 'permuted_range':
            # every block is a CONSECUTIVE range of element ids listed in a random (non-ascending) order
            ids = list(range(nE))
            parts = [ids[a:b] for a, b in zip([0] + cuts, cuts + [nE])]
            for p_ in parts:
                while len(p_) > 1 and p_ == sorted(p_):
                    r.shuffle(p_)
        elif order_ == 'sorted':
            parts = [sorted(ids[a:b]) for a, b in zip([0] + cuts, cuts + [nE])]
        else:                                   # arbitrary subsets in arbitrary order
            parts = [ids[a:b] for a, b in zip([0] + cuts, cuts + [nE])]
        LAST['blocks'] = parts
        blocks = {'b%d' % i: np.array(onp.array(p, dtype=int)) for i, p in enumerate(parts)}
    mesh = Mesh.Mesh(mesh.coords, mesh.conns, mesh.simplexNodesOrdinals, mesh.parentElement, mesh.parentElement1d, blocks, nodeSets, None)
    quad = QuadratureRule.create_quadrature_rule_on_triangle(degree=cfg.get('qdeg', max(1, 2 * order - 1)))
    fs = FunctionSpace.construct_function_space(mesh, quad, mode2D='axisymmetric' if cfg['mode'] == 'axisymmetric' else 'cartesian')
    if cfg.get('bc') == 'none':
        dm = FunctionSpace.DofManager(fs, 2, [])
    else:
        dm = FunctionSpace.DofManager(fs, 2, [FunctionSpace.EssentialBC('s0', 0), FunctionSpace.EssentialBC('s1', 1)])
    rs = onp.random.RandomState(cfg['seed'] % (1 << 31))
    def admissible(W):
        # the property quantifies over displacement fields that keep the elements uninverted: det F > 0 at every quadrature point
        # (and a positive hoop stretch in axisymmetry); random nodal noise is scaled down until a safety margin holds
        for _ in range(12):
            g = onp.asarray(FunctionSpace.compute_field_gradient(fs, W))
            J = onp.linalg.det(g + onp.eye(2))
            hoop = 1.0 + onp.asarray(W)[:, 0] / onp.asarray(mesh.coords)[:, 0]
            if J.min() > 0.4 and hoop.min() > 0.4:
                return W
            W = 0.5 * W
        return 0.0 * W

    U = admissible(np.array(cfg['amp'] * rs.standard_normal(mesh.coords.shape)))
    U0 = admissible(np.array(3 * cfg['amp'] * rs.standard_normal(mesh.coords.shape)))
    UP = admissible(np.array(cfg['amp'] * rs.standard_normal(mesh.coords.shape)))
    return mesh, fs, dm, U, U0, UP


def _cmp(name, K, H, bad, info):
    import numpy as onp
    K, H = onp.asarray(K), onp.asarray(H)
    scale = max(1.0, float(onp.abs(H).max()) if H.size else 1.0)
    info['scale'] = scale
    if not onp.all(onp.isfinite(K)) or not onp.all(onp.isfinite(H)):
        bad.append('%s: non-finite entries' % name)
        return
    dsym = float(onp.abs(K - K.T).max()) if K.size else 0.0
    dkh = float(onp.abs(K - H).max()) if K.size else 0.0
    info['max|K-K^T|'], info['max|K-H|'] = dsym, dkh
    if dsym > RTOL * scale:
        bad.append('%s: assembled matrix not symmetric: max|K-K^T| = %.3g on a scale of %.3g' % (name, dsym, scale))
    if dkh > RTOL * scale:
        bad.append('%s: assembled matrix differs from the Hessian of the energy: max|K-H| = %.3g on a scale of %.3g' % (name, dkh, scale))


def run_l2(cfg):
    """-> (list of violated clauses, info dict).  Exceptions of the implementation on valid input are violations too."""
    import numpy as onp
    import jax
    import jax.numpy as np
    from optimism import Mechanics, SparseMatrixAssembler
    bad, info = [], {}
    mesh, fs, dm, U, U0, UP = setup_problem(cfg)
    mat = MATERIALS[cfg.get('material', 'neohookean')]()
    Uu, Ubc = dm.get_unknown_values(U), dm.get_bc_values(U)
    asm = lambda Ke: SparseMatrixAssembler.assemble_sparse_stiffness_matrix(Ke, mesh.conns, dm).toarray()
    info.update(nUnknowns=int(dm.get_unknown_size()), nBc=int(dm.get_bc_size()), nElements=int(mesh.conns.shape[0]))
    dt = 0.1
    kind = cfg['kind']
    if kind == 'pressure':
        fac = cfg['factory']
        try:
            if fac == 'create_dynamics_functions':
                fns = Mechanics.create_dynamics_functions(fs, cfg['mode'], mat, Mechanics.NewmarkParameters(), pressureProjectionDegree=cfg['degree'])
                q = fns.compute_initial_state()
                K = asm(fns.compute_element_hessians(U, UP, q, dt))
                H = jax.hessian(lambda x: fns.compute_algorithmic_energy(dm.create_field(x, Ubc), UP, q, dt))(Uu)
            else:
                if fac == 'create_multi_block_mechanics_functions':
                    fns = Mechanics.create_multi_block_mechanics_functions(fs, 'plane strain', {'block_0': mat}, pressureProjectionDegree=cfg['degree'])
                else:
                    fns = Mechanics.create_mechanics_functions(fs, cfg['mode'], mat, pressureProjectionDegree=cfg['degree'])
                q = fns.compute_initial_state()
                K = asm(fns.compute_element_stiffnesses(U, q))
                H = jax.hessian(lambda x: fns.compute_strain_energy(dm.create_field(x, Ubc), q))(Uu)
            _cmp('pressure projection degree %d via %s (%s)' % (cfg['degree'], fac, cfg['mode']), K, H, bad, info)
        except Exception as ex:
            info['error'] = '%s: %s' % (type(ex).__name__, str(ex)[:160])
            bad.append('advertised option pressureProjectionDegree=%d of Mechanics.%s is unusable: %s' % (cfg['degree'], fac, info['error']))
        return bad, info
    if kind == 'static':
        fns = Mechanics.create_mechanics_functions(fs, cfg['mode'], mat)
        q = fns.compute_initial_state()
        if cfg['material'] == 'j2':
            q = fns.compute_updated_internal_variables(U0, q, dt)          # an admissible, non-virgin internal state
            info['max_eqps'] = float(onp.asarray(q)[..., 0].max())
        K = asm(fns.compute_element_stiffnesses(U, q, dt))
        H = jax.hessian(lambda x: fns.compute_strain_energy(dm.create_field(x, Ubc), q, dt))(Uu)
        _cmp('static %s %s order %d' % (cfg['material'], cfg['mode'], cfg['order']), K, H, bad, info)
        if cfg.get('twice'):
            # multi-call history: the same function objects at a second displacement, and a second assembly with a DIFFERENT
            # DofManager that has the same number of unknowns / constrained dofs and the same array shapes
            from optimism import FunctionSpace as FS
            U2 = 0.5 * UP
            K2 = asm(fns.compute_element_stiffnesses(U2, q, dt))
            H2 = jax.hessian(lambda x: fns.compute_strain_energy(dm.create_field(x, dm.get_bc_values(U2)), q, dt))(dm.get_unknown_values(U2))
            _cmp('second call (same functions, other displacement)', K2, H2, bad, info)
            dm2 = FS.DofManager(fs, 2, [FS.EssentialBC('s0', 1), FS.EssentialBC('s1', 0)])
            info['equal_counts'] = [int(dm.get_unknown_size()), int(dm2.get_unknown_size())]
            K3 = SparseMatrixAssembler.assemble_sparse_stiffness_matrix(fns.compute_element_stiffnesses(U, q, dt), mesh.conns, dm2).toarray()
            H3 = jax.hessian(lambda x: fns.compute_strain_energy(dm2.create_field(x, dm2.get_bc_values(U)), q, dt))(dm2.get_unknown_values(U))
            _cmp('second assembly with another DofManager of equal counts', K3, H3, bad, info)
            K1 = asm(fns.compute_element_stiffnesses(U, q, dt))
            if float(onp.abs(K1 - K).max()) > 0:
                bad.append('re-assembling with the first DofManager after using a second one gives a different matrix')
    elif kind == 'multiblock':
        single = Mechanics.create_mechanics_functions(fs, 'plane strain', mat)
        multi = Mechanics.create_multi_block_mechanics_functions(fs, 'plane strain', {k: mat for k in mesh.blocks})
        qs, qm = single.compute_initial_state(), multi.compute_initial_state()
        if cfg['material'] == 'j2':
            qs1, qm1 = single.compute_updated_internal_variables(U0, qs, dt), multi.compute_updated_internal_variables(U0, qm, dt)
            d = float(onp.abs(onp.asarray(qs1) - onp.asarray(qm1)).max())
            info['max|state diff|'] = d
            if qs1.shape != qm1.shape or d > 1e-12 * max(1.0, float(onp.abs(onp.asarray(qs1)).max())):
                bad.append('multi-block internal-variable update differs from the single-block one by %.3g' % d)
            qs, qm = qs1, qm1
        info['blocks'] = LAST.get('blocks')
        Es, Em = float(single.compute_strain_energy(U, qs, dt)), float(multi.compute_strain_energy(U, qm, dt))
        info['energies'] = [Es, Em]
        if abs(Es - Em) > 1e-12 * max(1.0, abs(Es)):
            bad.append('multi-block strain energy %.17g differs from the single-block energy %.17g' % (Em, Es))
        Ks, Km = asm(single.compute_element_stiffnesses(U, qs, dt)), asm(multi.compute_element_stiffnesses(U, qm, dt))
        d = float(onp.abs(Ks - Km).max())
        info['max|K_single-K_multi|'] = d
        if d > 1e-11 * max(1.0, float(onp.abs(Ks).max())):
            bad.append('multi-block stiffness differs from the single-block stiffness by %.3g' % d)
        if cfg.get('dense', True):      # the dense Hessian of the J2 multi-block energy costs ~1 min of XLA compilation: thorough tier only
            H = jax.hessian(lambda x: multi.compute_strain_energy(dm.create_field(x, Ubc), qm, dt))(Uu)
            _cmp('multi-block %s (%d blocks)' % (cfg['material'], cfg['nblocks']), Km, H, bad, info)
    elif kind == 'newmark':
        dt = cfg.get('dt', dt)
        fns = Mechanics.create_dynamics_functions(fs, cfg['mode'], mat, Mechanics.NewmarkParameters(gamma=cfg.get('gamma', 0.5), beta=cfg.get('beta', 0.25)))
        q = fns.compute_initial_state()
        if cfg['material'] == 'j2':
            q = fns.compute_updated_internal_variables(U0, q, dt)
        UPred = UP if cfg['upred'] else np.zeros_like(U)
        K = asm(fns.compute_element_hessians(U, UPred, q, dt))
        H = jax.hessian(lambda x: fns.compute_algorithmic_energy(dm.create_field(x, Ubc), UPred, q, dt))(Uu)
        _cmp('Newmark %s %s UPredicted%s0' % (cfg['material'], cfg['mode'], '!=' if cfg['upred'] else '='), K, H, bad, info)
        if bad and cfg['upred']:
            # signature probe for F6: K is exactly the Hessian of the algorithmic energy at the shifted point U-UPredicted with UPredicted = 0
            Ush = U - UPred
            H2 = jax.hessian(lambda x: fns.compute_algorithmic_energy(dm.create_field(x, dm.get_bc_values(Ush)), np.zeros_like(U), q, dt))(dm.get_unknown_values(Ush))
            info['max|K-H(U-UPredicted,0)|'] = float(onp.abs(K - onp.asarray(H2)).max())
        M = asm(fns.compute_element_masses())
        if float(onp.abs(M - M.T).max()) > RTOL * max(1.0, float(onp.abs(M).max())):
            bad.append('assembled mass matrix not symmetric')
        # the mass matrix is the Hessian of the kinetic energy w.r.t. the unknown velocities
        V = UP
        HM = onp.asarray(jax.hessian(lambda x: fns.compute_output_kinetic_energy(dm.create_field(x, dm.get_bc_values(V))))(dm.get_unknown_values(V)))
        dM = float(onp.abs(M - HM).max()) if M.size else 0.0
        info['max|M-d2KE|'] = dM
        if dM > RTOL * max(1.0, float(onp.abs(HM).max()) if HM.size else 1.0):
            bad.append('assembled mass matrix differs from the Hessian of the kinetic energy by %.3g' % dM)
    return bad, info


# ============================================================================= driver hooks

def static_refs(ctx, model_ok):
    """the reference / free-name / hook-arity table of Mechanics.py: the flag is computed in Coq (gen/Refs_Mechanics.v), the names
    of the broken items are read from the same extraction for the report"""
    from vlib import refs_c02
    t = refs_c02.table(C.REPO)
    broken = (['%s.%s (line %d) does not exist' % (m, a, ln) for (m, a, ln, ok) in t['attr_refs'] if not ok]
              + ['%s reads the unbound name %s (line %d)' % (f, n, ln) for (f, n, ln) in t['free']]
              + ['%s (line %d) takes %d parameters, the hook is called with %d' % (s, ln, n, e) for (s, ln, n, e) in t['hooks'] if n != e])
    keys = sorted({'%s.%s' % (m, a) for (m, a, ln, ok) in t['attr_refs'] if not ok} | {'%s:%s' % (f, n) for (f, n, ln) in t['free']}
                  | {'%s/%d' % (s, n) for (s, ln, n, e) in t['hooks'] if n != e})
    ctx.cov['mechanics_refs'] = dict(attribute_references=len(t['attr_refs']), hooks=len(t['hooks']), broken=broken)
    flag_ok = not broken
    if model_ok:
        z = C.coq_eval(['From OV.gen Require Import Refs_Mechanics.'], ['(if refs_all_ok then 1 else 0) :: map Z.of_nat broken_counts'], 'C02refs')[0]
        ctx.cov['mechanics_refs']['coq_refs_all_ok'] = bool(z[0])
        ctx.cov['mechanics_refs']['coq_broken_counts'] = z[1:]
        flag_ok = bool(z[0])
        if sum(z[1:]) != len(broken):
            ctx.fail('correspondence', 'Coq table reports %s broken items, the extraction %d' % (z[1:], len(broken)), case=dict(layer='refs', broken=keys))
    ctx.count('evaluations')
    if not flag_ok:
        ctx.fail('conclusion', 'Mechanics.py is not statically well-formed (C02_refs_resolve is refuted on this tree): ' + '; '.join(broken)[:900],
                 case=dict(layer='refs', broken=keys), concrete=True)


F5_STATIC = {'Interpolants.make_master_tri_element', 'Interpolants.compute_shapes_on_tri',
             'define_pressure_projection_gradient_tranformation:functionSpace',
             'create_multi_block_mechanics_functions.modify_element_gradient/2'}


def correspondence(ctx, model_ok, l2_cfgs=None, do_l1=True):
    distinct = set()
    if do_l1:
        static_refs(ctx, model_ok)
    # ---- L1 part 1: the implementation's assembled integer matrices satisfy the theorem's entry formula
    outs, kept = [], []
    if do_l1:
        for case in gen_l1(ctx):
            ctx.count('evaluations')
            try:
                o = run_l1(case)
            except Exception as ex:
                ctx.fail('conclusion', 'DofManager/assembler raised %s: %s on a valid input' % (type(ex).__name__, str(ex)[:200]),
                         case=dict(layer='l1', **case), concrete=True)
                continue
            outs.append(o)
            kept.append(case)
            if 0 < sum(o['isBc']) < len(o['isBc']):
                distinct.add(('l1', o['nNodes'], o['dim'], tuple(map(tuple, o['conns'])), tuple(o['isBc'])))
            for b in l1_conclusions(o)[:2]:
                ctx.fail('conclusion', 'assembly of integer blocks (%d nodes, %d fields, %s BCs): %s' % (o['nNodes'], o['dim'], case['kind'], b),
                         case=dict(layer='l1', **case), concrete=True)
        ctx.count('assembly_cases', len(outs))
    # ---- gather semantics of evaluate_on_block / integrate_over_block (exact, integer data)
    gouts = []
    if do_l1:
        for gc in gen_gather(ctx):
            ctx.count('evaluations')
            try:
                go = run_gather(gc)
            except Exception as ex:
                ctx.fail('conclusion', 'evaluate_on_block/integrate_over_block raised %s: %s for a %s block' % (type(ex).__name__, str(ex)[:200], gc['form']),
                         case=dict(layer='gather', **gc), concrete=True)
                continue
            gouts.append((gc, go))
            if len(go['ids']) > 1 and go['ids'] != sorted(go['ids']):
                distinct.add(('gather', gc['seed']))
            for b in gather_conclusions(go):
                ctx.fail('conclusion', 'block %s (%s): %s' % (go['ids'], gc['form'], b), case=dict(layer='gather', **gc), concrete=True)
        ctx.count('gather_cases', len(gouts))
    # ---- L2: K vs dense Hessian on the real mechanics functions
    cfgs = l2_cfgs if l2_cfgs is not None else gen_l2(ctx)
    hist = {}
    for cfg in cfgs:
        ctx.count('evaluations')
        try:
            bad, info = run_l2(cfg)
        except Exception as ex:
            bad, info = ['mechanics functions raised %s: %s on a valid configuration' % (type(ex).__name__, str(ex)[:200])], {}
        hist[cfg['kind']] = hist.get(cfg['kind'], 0) + 1
        distinct.add(('l2', json.dumps(cfg, sort_keys=True)))
        ctx.sample(dict(cfg={k: cfg[k] for k in cfg if k != 'seed'}, info=info), limit=8)
        for b in bad:
            ctx.fail('conclusion', b, case=dict(layer='l2', cfg=cfg, info=info), concrete=True)
        ctx.log('L2 %-10s %-18s %-13s order %d: %s' % (cfg['kind'], cfg.get('material', cfg.get('factory', '')), cfg['mode'], cfg['order'],
                                                       '; '.join(bad)[:160] if bad else 'ok  ' + json.dumps({k: v for k, v in info.items() if k.startswith('max')})))
    ctx.cov['l2_kinds'] = hist
    ctx.cov['tolerance'] = 'max|K-H|, max|K-K^T| <= %g * max(1, |H|_inf); energies 1e-12 rel; multi vs single block K 1e-11 rel' % RTOL
    ctx.count('distinct_nontrivial', len(distinct))
    if not (model_ok and do_l1):
        return
    # ---- L1 part 2: model vs implementation, exact
    res = C.coq_eval(IMPORTS, [l1_expr(o) for o in outs], 'C02', shard=ctx.n(6, 12), timeout=900)
    nm = 0
    for case, o, zs in zip(kept, outs, res):
        parts = D.unpack(zs)
        want = [o['rows'], o['cols'], o['vals'], o['dense']]
        ctx.count('model_vs_impl_comparisons', 4)
        for nm_, m, w in zip(['COO rows', 'COO cols', 'COO values kValues[mask]', 'dense matrix'], parts, want):
            if list(m) != list(w):
                nm += 1
                ctx.fail('correspondence', 'assembly model and implementation disagree on %s (%d nodes, %d fields, %s BCs): model %s... impl %s...'
                         % (nm_, o['nNodes'], o['dim'], case['kind'], str(m)[:100], str(w)[:100]), case=dict(layer='l1', **case))
                break
    sc = gen_scatter(ctx)
    got = [run_scatter(c) for c in sc]
    zl = D.zl
    res = C.coq_eval(IMPORTS, ['run_scatter_case %s %s %s' % (zl(c['base']), '[' + '; '.join(zl(b) for b in c['blocks']) + ']', zl(c['vals'])) for c in sc],
                     'C02s', shard=100)
    for c, g, m in zip(sc, got, res):
        ctx.count('model_vs_impl_comparisons')
        if list(g) != list(m):
            nm += 1
            ctx.fail('correspondence', 'block scatter model %s differs from jnp .at[ids].set loop %s' % (m, g), case=dict(layer='scatter', **c))
    zll = lambda ll: '[' + '; '.join(zl(x) for x in ll) + ']'
    res = C.coq_eval(IMPORTS, ['run_gather_case %s %s %s' % (zll(go['kv']), zll(go['vl']), zl(go['ids'])) for (_, go) in gouts], 'C02g', shard=200)
    for (gc, go), zs in zip(gouts, res):
        parts = D.unpack(zs)
        ctx.count('model_vs_impl_comparisons', 2)
        if list(parts[0]) != go['vals'] or [float(parts[1][0])] != [go['integ']]:
            nm += 1
            ctx.fail('correspondence', 'gather model and evaluate_on_block/integrate_over_block disagree for block %s (%s): model %s / %s, impl %s / %s'
                     % (go['ids'], gc['form'], str(list(parts[0]))[:80], parts[1], str(go['vals'])[:80], go['integ']), case=dict(layer='gather', **gc))
    ctx.count('model_vs_impl_mismatches', nm)


def search(ctx, reasons):
    import copy
    c2 = copy.copy(ctx)
    c2.tier = 'thorough'
    c2.failures, c2.counts, c2.cov, c2.samples = [], {}, {}, []
    c2.seed = ctx.seed + 1
    correspondence(c2, False)
    findings = [f for f in C.load_known_findings() if f['property'] == ID and f['status'] == 'open']
    conc = [f for f in c2.failures if f.get('concrete') and not any(matches_finding(f, k) for k in findings)]
    return conc[0] if conc else None


F5_ERRORS = ("has no attribute 'make_master_tri_element'", "has no attribute 'compute_shapes_on_tri'", "name 'functionSpace' is not defined",
             'modify_element_gradient() takes 2 positional arguments')


def matches_finding(fl, f):
    case = fl.get('case') or {}
    if case.get('layer') == 'refs':
        return f['id'] == 'F5' and fl['kind'] == 'conclusion' and bool(case.get('broken')) and set(case['broken']) <= F5_STATIC
    if case.get('layer') != 'l2':
        return False
    cfg, info = case.get('cfg', {}), case.get('info', {})
    if f['id'] == 'F5':
        return cfg.get('kind') == 'pressure' and 'is unusable' in fl['what'] and any(e in info.get('error', '') for e in F5_ERRORS)
    if f['id'] == 'F6':
        # narrow: Newmark, UPredicted != 0, nonlinear material, K symmetric, and K IS the Hessian at the shifted point (U-UPredicted, 0)
        return (cfg.get('kind') == 'newmark' and cfg.get('upred') and cfg.get('material') != 'linear'
                and 'differs from the Hessian' in fl['what']
                and info.get('max|K-H(U-UPredicted,0)|', 1.0) <= RTOL * info.get('scale', 1.0)
                and info.get('max|K-K^T|', 1.0) <= RTOL * info.get('scale', 1.0))
    return False


def finding_fails(ctx, f):
    try:
        bad, info = run_l2(f['witness']['cfg'])
    except Exception:
        return True
    return bool(bad)


def replay(ctx, path):
    rep = json.load(open(path))
    case = rep.get('failing_input')
    print('replay of', path)
    print(json.dumps(rep.get('reasons'), indent=1)[:3000])
    if not case:
        print('no concrete failing input recorded; broken obligations:', rep.get('broken'))
        return 1
    if case.get('layer') == 'refs':
        from vlib import refs_c02
        t = refs_c02.table(C.REPO)
        now = [r for r in t['attr_refs'] if not r[3]] + t['free'] + [h for h in t['hooks'] if h[2] != h[3]]
        print('broken references in Mechanics.py now:', now or 'none')
        return 1 if now else 0
    if case.get('layer') == 'l2':
        try:
            bad, info = run_l2(case['cfg'])
        except Exception as ex:
            bad, info = ['raised %r' % ex], {}
        print('implementation now:', bad or 'conclusion holds', info)
        return 1 if bad else 0
    if case.get('layer') == 'gather':
        gc = {k: v for k, v in case.items() if k != 'layer'}
        try:
            bad = gather_conclusions(run_gather(gc))
        except Exception as ex:
            bad = ['raised %r' % ex]
        print('implementation now:', bad or 'gather semantics hold')
        return 1 if bad else 0
    if case.get('layer') == 'scatter':
        g = run_scatter(case)
        zl = D.zl
        m = C.coq_eval(IMPORTS, ['run_scatter_case %s %s %s' % (zl(case['base']), '[' + '; '.join(zl(b) for b in case['blocks']) + ']', zl(case['vals']))], 'C02r')[0]
        print('jnp loop', g, 'model', m)
        return 1 if list(g) != list(m) else 0
    c = {k: v for k, v in case.items() if k != 'layer'}
    try:
        o = run_l1(c)
    except Exception as ex:
        print('implementation raises:', repr(ex)[:300])
        return 1
    bad = l1_conclusions(o)
    print('entry formula on the implementation now:', bad or 'holds')
    mism = False
    try:
        parts = D.unpack(C.coq_eval(IMPORTS, [l1_expr(o)], 'C02r')[0])
        mism = [list(p) for p in parts] != [o['rows'], o['cols'], o['vals'], o['dense']]
        print('model vs implementation now:', 'DISAGREE' if mism else 'agree')
    except Exception as ex:
        print('model could not be evaluated:', str(ex)[:300])
    return 1 if (bad or mism) else 0
