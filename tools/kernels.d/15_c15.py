"""Kernel specs for C15 (Newmark time stepping): the nested predict / correct of Mechanics.create_dynamics_functions with the
closure variable newmarkParameters turned into leading parameters (gamma, beta), arrays taken elementwise (U, V, A scalars: the
source expressions are elementwise in the nodal arrays), and the kinetic energy density at a 2-vector velocity."""
NP = 'NT(gamma:S,beta:S)'
SPECS = [
    dict(name='Mechanics', file='optimism/Mechanics.py',
         funcs=[('create_dynamics_functions.predict', ['S', 'S', 'S', 'S'], dict(free=[('newmarkParameters', NP)])),
                ('create_dynamics_functions.correct', ['S', 'S', 'S', 'S'], dict(free=[('newmarkParameters', NP)])),
                ('kinetic_energy_density', ['V2', 'S'])]),
]
