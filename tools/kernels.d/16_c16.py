"""Kernel specs for C16 (contact geometry): level-set obstacle functions in pointwise form (one sample point = a 1x2 array;
the source indexes x[:,0], x[:,1], so a single-row array is the pointwise instance of the vectorised function).
The closest-point kernels (EdgeCpp, Surface, MortarContact) are in 00_base.py."""
SPECS = [
    dict(name='Levelset', file='optimism/contact/Levelset.py',
         funcs=[('plane', ['A1x2', 'S']), ('corner', ['A1x2', 'S', 'S']), ('sphere', ['A1x2', 'S', 'S', 'S'])]),
]
