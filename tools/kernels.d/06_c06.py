"""C06: scalar kernels of the trust-region sub-problem solvers (EquationSolver.py).
project_to_boundary_with_coefs is polymorphic in (z, d); translating it at scalar (z, d) gives z + tau*d, so that
`project_to_boundary_with_coefs 0 1 Delta zz zd dd` IS the source's tau expression.  cg_inner_products_preconditioned does not read z, d."""
SPECS = [
    dict(name='EquationSolver', file='optimism/EquationSolver.py',
         funcs=[('project_to_boundary_with_coefs', ['S', 'S', 'S', 'S', 'S', 'S']),
                ('update_step_length_squared', ['S', 'S', 'S', 'S']),
                ('cg_inner_products_preconditioned', ['S', 'S', 'S', 'S', 'S', 'S', 'S'])]),
    dict(name='EquationSolverSubspace', file='optimism/EquationSolverSubspace.py',
         funcs=[('project_to_boundary_with_coefs', ['S', 'S', 'S', 'S', 'S', 'S'], dict(coq_name='ss_project_to_boundary_with_coefs'))]),
]
