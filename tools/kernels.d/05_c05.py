"""C05: scalar line-search kernels of the SPG sub-problem solver (TrustRegionSPG.py); `settings` is not read by either."""
SPECS = [
    dict(name='TrustRegionSPG', file='optimism/TrustRegionSPG.py',
         funcs=[('nonmonotone_line_search', ['S', 'S', 'S', 'S', 'S']),
                ('kouri_exact_line_search', ['S', 'S', 'S', 'S', 'S'])]),
]
