"""C05: kernels of the SPG sub-problem solver (TrustRegionSPG.py) regenerated from the source:
  * the two scalar line searches (`settings` is not read by either);
  * spg_step_clip: the statement `alpha = min(1.0, max(0.0, alpha)) if sBs > 0 else 1.0` of solve_spg_subproblem (the 2nd of
    exactly 2 assignments to `alpha` in that function), python builtins min/max with CPython's evaluation order;
  * project at fixed dimensions 1, 2, 3 (finite bounds as an n x 2 array): the componentwise formula
    np.maximum(lb, np.minimum(x, ub)); the list model `clamp`/`project` of model/M_C05_SPG.v is proved equal to these."""
SPECS = [
    dict(name='TrustRegionSPG', file='optimism/TrustRegionSPG.py',
         funcs=[('nonmonotone_line_search', ['S', 'S', 'S', 'S', 'S']),
                ('kouri_exact_line_search', ['S', 'S', 'S', 'S', 'S']),
                ('solve_spg_subproblem', ['S', 'S'],
                 dict(coq_name='spg_step_clip', extract=dict(target='alpha', index=1, count=2, params=['alpha', 'sBs']))),
                ('project', ['V1', 'M12'], dict(coq_name='project_n1')),
                ('project', ['V2', 'M22'], dict(coq_name='project_n2')),
                ('project', ['V3', 'M32'], dict(coq_name='project_n3'))]),
]
