"""Kernel specs for C10: the branching relative log difference of optimism/TensorMath.py (its two branches are re-listed under
new Coq names so that this module is self-contained; the sqrt/exp kernels, the unbranched log kernels and the argsort-based
_log_relative_difference / _pow_relative_difference live in module TensorMathFun, 12_c12.py) -- the safe_sqrt JVP body is in
module Math (00_base.py).

Module TensorMathJVP: the WHOLE body of _symmetric_matrix_function_jvp_helper (the x2 == x1 guard, the divided-difference matrix,
W = V^T sym(Cdot) V, h *= W, the symmetrised V[i]^T h V[j] entries).  Its function-valued parameters `func` and
`relative_difference` are oracle parameters, jax.jacfwd(func) is the oracle `dfunc` (its derivative), eigen_sym33_unit is an
opaque function returning (lam : V3, V : M33) -- the eigh contract is a hypothesis of the theorems, the eigen-solver itself is C12's."""
SPECS = [
    dict(name='TensorMathAD', file='optimism/TensorMath.py',
         funcs=[('_relative_log_difference_taylor', ['S', 'S'], dict(coq_name='ad_rel_log_taylor')),
                ('_relative_log_difference_no_tolerance_check', ['S', 'S'], dict(coq_name='ad_rel_log_plain')),
                ('_relative_log_difference', ['S', 'S'], dict(coq_name='ad_rel_log'))]),
    dict(name='TensorMathJVP', file='optimism/TensorMath.py',
         funcs=[('sym', ['M33'], dict(coq_name='jh_sym')),
                ('_symmetric_matrix_function_jvp_helper', ['FN', 'FN', 'TUP(M33)', 'TUP(M33)'],
                 dict(coq_name='jvp_helper_gen',
                      oracles=[('func', 1, 1), ('relative_difference', 2, 1), ('dfunc', 1, 1)],
                      derivs={'func': 'dfunc'},
                      opaque=[('eigen_sym33_unit', 'eigh', ['M33'], 'TUP(V3,M33)')]))]),
]
