"""Kernel specs for C10: the branching relative log difference of optimism/TensorMath.py (its two branches are re-listed under
new Coq names so that this module is self-contained; the sqrt/exp kernels and the unbranched log kernels live in module
TensorMathFun, 12_c12.py) -- the safe_sqrt JVP body is in module Math (00_base.py)."""
SPECS = [
    dict(name='TensorMathAD', file='optimism/TensorMath.py',
         funcs=[('_relative_log_difference_taylor', ['S', 'S'], dict(coq_name='ad_rel_log_taylor')),
                ('_relative_log_difference_no_tolerance_check', ['S', 'S'], dict(coq_name='ad_rel_log_plain')),
                ('_relative_log_difference', ['S', 'S'], dict(coq_name='ad_rel_log'))]),
]
