"""Kernel specs for C11: the viscous-state update of HyperViscoelastic.py (matrix exponential and logarithmic strain are
opaque function parameters).  Builder-G's module HyperViscoelastic (08_c08.py) carries the energy kernels; this module only
adds _compute_state_new with its two callees under c11_-prefixed Coq names."""
_LOGS = ('TensorMath.log_sqrt_symm', 'log_sqrt_symm', ['M33'], 'M33')
_EXPM = ('linalg.expm', 'expm', ['M33'], 'M33')

SPECS = [
    dict(name='ViscoState', file='optimism/material/HyperViscoelastic.py', deps=['TensorMath'],
         funcs=[('_compute_state_increment', ['M33', 'S', 'V4'], dict(coq_name='c11_state_increment')),
                ('_compute_elastic_logarithmic_strain', ['M33', 'V9'], dict(opaque=[_LOGS], coq_name='c11_elastic_log_strain')),
                ('_compute_state_new', ['M33', 'V9', 'S', 'V4'], dict(opaque=[_LOGS, _EXPM], coq_name='c11_state_new'))]),
]
