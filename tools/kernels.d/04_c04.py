"""C04: scalar (elementwise) kernels of the augmented-Lagrangian machinery (ConstrainedObjective.py).
fischer_burmeister / fischer_burmeister_jac_l are vmapped over the constraints in the source, so the scalar form is the
code itself.  The nested `f` of ConstrainedObjective.create_augmented_lagrangian is translated for ONE constraint and ONE
unknown with the objective and the constraint as oracles (closure variables): `al_value obj con x p l k`
= obj x p + penalty(con x p, l, k); with obj := 0 and con := (x |-> x) it IS the source's penalty expression.

Module AlSolver: the three state-update statements of AlSolver.solve_sub_step, each extracted as a kernel of its own and read
ELEMENTWISE (one constraint; the statements are vectorised numpy expressions without cross-component coupling except through
len(ncpError), which becomes the scalar parameter `nconstr`):
  sub_lam_update lam kappa c                     alObjective.lam = np.maximum(alObjective.lam-kappa*c, 0.0)
  sub_poor_progress ncpError ncpErrorOld tdf tol nconstr
                                                 poorProgress = ncpError > np.maximum(tdf * ncpErrorOld, 10 * tol / np.sqrt(len(ncpError)))
  sub_kappa_update kappa poorProgress ps         alObjective.kappa = kappa.at[poorProgress].set(ps*kappa[poorProgress])
The hand model of the outer loop (model/M_C04_AL.v) CALLS these generated definitions; the `np.any(poorProgress) and solverSuccess`
guard, the sub-problem solver call and the evaluation order stay in the hand model (tied by the trace correspondence).
Module BoundConstrainedObjective: the clipping of the initial multipliers in BoundConstrainedObjective.__init__."""
_SUB = ['S'] * 7
SPECS = [
    dict(name='ConstrainedObjective', file='optimism/ConstrainedObjective.py',
         funcs=[('fischer_burmeister', ['S', 'S', 'S']),
                ('fischer_burmeister_jac_l', ['S', 'S', 'S']),
                ('ConstrainedObjective.create_augmented_lagrangian.f', ['S', 'S', 'S', 'S'],
                 dict(coq_name='al_value', oracles=[('objective_func', 2, 1), ('constraint_func', 2, 1)]))]),
    dict(name='AlSolver', file='optimism/AlSolver.py',
         funcs=[('solve_sub_step', ['S', 'S', 'S'],
                 dict(coq_name='sub_lam_update',
                      extract=dict(target='alObjective.lam', index=0, count=1, params=['lam', 'kappa', 'c'],
                                   attrs={'alObjective.lam': 'lam'}))),
                ('solve_sub_step', ['S', 'S', 'NT(target_constraint_decrease_factor:S,tol:S)', 'S'],
                 dict(coq_name='sub_poor_progress',
                      extract=dict(target='poorProgress', index=0, count=1, params=['ncpError', 'ncpErrorOld', 'alSettings', 'nconstr'],
                                   lens={'ncpError': 'nconstr'}))),
                ('solve_sub_step', ['S', 'B', 'NT(penalty_scaling:S)'],
                 dict(coq_name='sub_kappa_update',
                      extract=dict(target='alObjective.kappa', index=0, count=1, params=['kappa', 'poorProgress', 'alSettings'],
                                   attrs={'alObjective.kappa': 'kappa_new'}, masked_set=True)))]),
    dict(name='BoundConstrainedObjective', file='optimism/BoundConstrainedObjective.py',
         funcs=[('BoundConstrainedObjective.__init__', ['S'],
                 dict(coq_name='bc_initial_multiplier', extract=dict(target='lam0', index=1, count=2, params=['lam0'])))]),
]
