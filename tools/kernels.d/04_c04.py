"""C04: scalar (elementwise) kernels of the augmented-Lagrangian machinery (ConstrainedObjective.py).
fischer_burmeister / fischer_burmeister_jac_l are vmapped over the constraints in the source, so the scalar form is the
code itself.  The nested `f` of ConstrainedObjective.create_augmented_lagrangian is translated for ONE constraint and ONE
unknown with the objective and the constraint as oracles (closure variables): `al_value obj con x p l k`
= obj x p + penalty(con x p, l, k); with obj := 0 and con := (x |-> x) it IS the source's penalty expression."""
SPECS = [
    dict(name='ConstrainedObjective', file='optimism/ConstrainedObjective.py',
         funcs=[('fischer_burmeister', ['S', 'S', 'S']),
                ('fischer_burmeister_jac_l', ['S', 'S', 'S']),
                ('ConstrainedObjective.create_augmented_lagrangian.f', ['S', 'S', 'S', 'S'],
                 dict(coq_name='al_value', oracles=[('objective_func', 2, 1), ('constraint_func', 2, 1)]))]),
]
