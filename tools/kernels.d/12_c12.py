"""Kernel specs for C12: the scalar helpers of optimism/TensorMath.py used by the 3x3 eigen-solver and by the derivative rules of
the spectral tensor functions (the 3x3 algebra helpers trace/det/detpIm1/inv/deviator/sym/skw are in module TensorMath, 08_c08.py)."""
SPECS = [
    dict(name='TensorMathFun', file='optimism/TensorMath.py',
         funcs=[('cos_of_acos_divided_by_3', ['S']),
                ('_sqrt_relative_difference', ['S', 'S']),
                ('_exp_relative_difference', ['S', 'S']),
                ('_relative_log_difference_taylor', ['S', 'S']),
                ('_relative_log_difference_no_tolerance_check', ['S', 'S']),
                # round 3: the branching reference kernel and the two argsort-based kernels wired into log_symm / pow_symm
                ('_relative_log_difference', ['S', 'S']),
                ('_log_relative_difference', ['S', 'S']),
                ('_pow_relative_difference', ['S', 'S', 'S']),
                # round 3: the first stage of eigen_sym33_non_unit -- mean, deviatoric invariants c2, c3, the trisection argument rr and the
                # closed-form trigonometric root eval2 (with the Pade kernel) -- translated as a prefix of the routine's body
                ('eigen_sym33_non_unit', ['M33'], dict(coq_name='eig_trig_stage',
                                                       prefix=dict(upto='eval2', returns=['c1', 'c2', 'c3', 'rr', 'arg', 'eval2'])))]),
]
