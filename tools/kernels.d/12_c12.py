"""Kernel specs for C12: the scalar helpers of optimism/TensorMath.py used by the 3x3 eigen-solver and by the derivative rules of
the spectral tensor functions (the 3x3 algebra helpers trace/det/detpIm1/inv/deviator/sym/skw are in module TensorMath, 08_c08.py)."""
SPECS = [
    dict(name='TensorMathFun', file='optimism/TensorMath.py',
         funcs=[('cos_of_acos_divided_by_3', ['S']),
                ('_sqrt_relative_difference', ['S', 'S']),
                ('_exp_relative_difference', ['S', 'S']),
                ('_relative_log_difference_taylor', ['S', 'S']),
                ('_relative_log_difference_no_tolerance_check', ['S', 'S']),
                # round 3: the branching reference kernel and the two argsort-based kernels wired into log_symm / pow_symm
                ('_relative_log_difference', ['S', 'S']),
                ('_log_relative_difference', ['S', 'S']),
                ('_pow_relative_difference', ['S', 'S', 'S'])]),
]
