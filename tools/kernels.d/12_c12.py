"""Kernel specs for C12: the scalar helpers of optimism/TensorMath.py used by the 3x3 eigen-solver and by the derivative rules of
the spectral tensor functions (the 3x3 algebra helpers trace/det/detpIm1/inv/deviator/sym/skw are in module TensorMath, 08_c08.py)."""
SPECS = [
    dict(name='TensorMathFun', file='optimism/TensorMath.py',
         funcs=[('cos_of_acos_divided_by_3', ['S']),
                ('_sqrt_relative_difference', ['S', 'S']),
                ('_exp_relative_difference', ['S', 'S']),
                ('_relative_log_difference_taylor', ['S', 'S']),
                ('_relative_log_difference_no_tolerance_check', ['S', 'S']),
                # round 3: the branching reference kernel and the two argsort-based kernels wired into log_symm / pow_symm
                ('_relative_log_difference', ['S', 'S']),
                ('_log_relative_difference', ['S', 'S']),
                ('_pow_relative_difference', ['S', 'S', 'S']),
                # round 3: the first stage of eigen_sym33_non_unit -- mean, deviatoric invariants c2, c3, the trisection argument rr and the
                # closed-form trigonometric root eval2 (with the Pade kernel) -- translated as a prefix of the routine's body
                ('eigen_sym33_non_unit', ['M33'], dict(coq_name='eig_trig_stage',
                                                       prefix=dict(upto='eval2', returns=['c1', 'c2', 'c3', 'rr', 'arg', 'eval2'])))]),
]

# round 4: the part of eigen_sym33_non_unit AFTER the trigonometric root -- pivoted deflation, 2x2 Wilkinson shift, eigenvectors.
# A separate module (its own copy of the Pade kernel) so that Gen_TensorMathFun, shared with C10, is untouched.
#   eig_full_pre : the routine from its first statement to `evec1` (everything before the isotropic fallback / argsort), for execution
#   eig_deflate  : the SEGMENT after `eval2 = ...` up to `evec1`, with the deviatoric entries and eval2 as free variables
#   eig_pivot / eig_gs / eig_wilkinson / eig_vectors : the same segment cut at ki_ki / evec2 / eval1 (the theorems are about their composition)
_D6 = [(n, 'S') for n in ('cxx', 'cyy', 'czz', 'cxy', 'cyz', 'czx')]
_E = 'eigen_sym33_non_unit'
_SQ = ['cxy_cxy', 'cyz_cyz', 'czx_czx']
SPECS.append(
    dict(name='TensorMathEig', file='optimism/TensorMath.py', deps=['Math'],
         funcs=[('cos_of_acos_divided_by_3', ['S']),
                (_E, ['M33'], dict(coq_name='eig_full_pre',
                                   prefix=dict(upto='evec1', returns=['c1', 'c2', 'eval0', 'eval1', 'eval2', 'evec0', 'evec1', 'evec2']))),
                (_E, ['M33'], dict(coq_name='eig_deflate', free=_D6 + [('eval2', 'S')],
                                   segment=dict(after='eval2', upto='evec1', keep=_SQ, drop_params=True,
                                                returns=['eval0', 'eval1', 'evec0', 'evec1', 'evec2']))),
                (_E, ['M33'], dict(coq_name='eig_pivot', free=_D6 + [('eval2', 'S')],
                                   segment=dict(after='eval2', upto='ki_ki', keep=_SQ, drop_params=True,
                                                returns=['k_row1', 'row2', 'row3', 'ki_ki']))),
                (_E, ['M33'], dict(coq_name='eig_gs', free=[('k_row1', 'V3'), ('row2', 'V3'), ('row3', 'V3'), ('ki_ki', 'S')],
                                   segment=dict(after='ki_ki', upto='evec2', drop_params=True, returns=['a_row2', 'ai_ai', 'evec2']))),
                (_E, ['M33'], dict(coq_name='eig_wilkinson',
                                   free=_D6 + [('k_row1', 'V3'), ('a_row2', 'V3'), ('ki_ki', 'S'), ('ai_ai', 'S')],
                                   segment=dict(after='evec2', upto='eval1', drop_params=True,
                                                returns=['rm2xx', 'rm2yy', 'k_a_rm2xy', 'rm2xy_rm2xy', 'eval0', 'eval1']))),
                (_E, ['M33'], dict(coq_name='eig_vectors',
                                   free=[('rm2xx', 'S'), ('rm2yy', 'S'), ('k_a_rm2xy', 'S'), ('rm2xy_rm2xy', 'S'), ('eval0', 'S'),
                                         ('k_row1', 'V3'), ('a_row2', 'V3'), ('ki_ki', 'S'), ('ai_ai', 'S'), ('evec2', 'V3')],
                                   segment=dict(after='eval1', upto='evec1', drop_params=True, returns=['evec0', 'evec1'])))]))
