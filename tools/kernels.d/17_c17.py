"""Kernel specs for C17 (and used by C09/C10): the two step kernels and the loop body / loop test of rtsafe_ in
optimism/ScalarRootFind.py.  The loop body's closure variables become parameters: the tolerances and the black-box
oracle f_and_fprime : T -> T * T (value and derivative of the user's function)."""
CARRY = 'TUP(S,S,S,S,S,S,S,B,S)'   # root, dx, dxOld, F, DF, xl, xh, converged, i

SPECS = [
    dict(name='ScalarRootFind', file='optimism/ScalarRootFind.py',
         funcs=[('bisection_step', ['S', 'S', 'S', 'S', 'S']),
                ('newton_step', ['S', 'S', 'S', 'S', 'S']),
                ('rtsafe_.cond', [CARRY], dict(free=[('max_iters', 'S')], coq_name='loop_cond')),
                ('rtsafe_.loop_body', [CARRY], dict(free=[('x_tol', 'S'), ('r_tol', 'S')],
                                                    oracles=[('f_and_fprime', 1, 2)]))]),
]
