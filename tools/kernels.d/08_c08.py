"""Kernel specs for C08 (shared with C11, C12): tensor helpers of TensorMath.py and the closed-form energy densities /
strain measures of the material models.  The spectral tensor functions (log_sqrt_symm, pow_symm) are NOT translated: they
are declared `opaque`, i.e. they become leading function parameters of the generated definitions
(T^9 -> T^9, resp. T^9 -> T -> T^9); theorems quantify over every function satisfying the TensorSpec hypotheses.
Module names of leaf modules carry no suffix except `J2Elastic` (= elastic-regime kernels of J2Plastic.py; the name
J2Plastic is left to C09/C10)."""
LOGS = ('TensorMath.log_sqrt_symm', 'log_sqrt_symm', ['M33'], 'M33')
POWS = ('TensorMath.pow_symm', 'pow_symm', ['M33', 'S'], 'M33')

_VISCO_MB = []
for _b, _pid in ((1, 2), (2, 4), (3, 6)):
    _VISCO_MB += [
        ('_neq_strain_energy', ['M33', 'V8', 'S'], dict(static={'prop_id': _pid}, coq_name='_neq_strain_energy_b%d' % _b)),
        ('_dissipation_potential', ['M33', 'V8', 'S'], dict(static={'prop_id': _pid}, coq_name='_dissipation_potential_b%d' % _b)),
        ('_compute_state_increment', ['M33', 'S', 'V8', 'S'], dict(static={'prop_id': _pid}, coq_name='_compute_state_increment_b%d' % _b)),
    ]

SPECS = [
    dict(name='TensorMath', file='optimism/TensorMath.py', deps=['Math'],
         funcs=[('trace', ['M33']), ('I2', ['M33']), ('det', ['M33']), ('detpIm1', ['M33']), ('inv', ['M33']),
                ('deviator', ['M33']), ('dev', ['M33']), ('sym', ['M33']), ('skw', ['M33']), ('norm', ['M33']),
                ('norm_of_deviator_squared', ['M33'])]),
    dict(name='LinearElastic', file='optimism/material/LinearElastic.py', deps=['TensorMath'],
         funcs=[('_make_properties', ['S', 'S'], dict(coq_name='le_make_properties')),
                ('_linear_elastic_energy_density', ['M33', 'V4']),
                ('green_lagrange_strain', ['M33']), ('linear_strain', ['M33']),
                ('log_strain', ['M33'], dict(opaque=[LOGS]))]),
    dict(name='Neohookean', file='optimism/material/Neohookean.py',
         funcs=[('_make_properties', ['S', 'S'], dict(coq_name='nh_make_properties')),
                ('_neohookean_3D_energy_density', ['M33', 'V0', 'V5']),
                ('_adagio_neohookean', ['M33', 'V0', 'V5'])]),
    dict(name='Gent', file='optimism/material/Gent.py',
         funcs=[('_gent_3D_energy_density', ['M33', 'V3'])]),
    dict(name='J2Elastic', file='optimism/material/J2Plastic.py', deps=['TensorMath'],
         funcs=[('make_properties', ['S', 'S', 'S'], dict(coq_name='j2_make_properties')),
                ('elastic_deviatoric_free_energy', ['M33', 'V5'], dict(coq_name='j2_elastic_deviatoric_free_energy')),
                ('elastic_volumetric_free_energy', ['M33', 'V5'], dict(coq_name='j2_elastic_volumetric_free_energy')),
                ('elastic_free_energy', ['M33', 'V5'], dict(coq_name='j2_elastic_free_energy')),
                ('compute_elastic_logarithmic_strain', ['M33', 'V10'], dict(opaque=[LOGS])),
                ('compute_elastic_linear_strain', ['M33', 'V10']),
                ('compute_elastic_seth_hill_strain', ['M33', 'V10'], dict(opaque=[POWS]))]),
    dict(name='HyperViscoelastic', file='optimism/material/HyperViscoelastic.py', deps=['TensorMath'],
         funcs=[('_eq_strain_energy', ['M33', 'V4']),
                ('_neq_strain_energy', ['M33', 'V4']),
                ('_dissipation_potential', ['M33', 'V4']),
                ('_compute_state_increment', ['M33', 'S', 'V4']),
                ('_compute_elastic_logarithmic_strain', ['M33', 'V9'], dict(opaque=[LOGS])),
                ('_energy_density', ['M33', 'V9', 'S', 'V4'], dict(opaque=[LOGS], coq_name='hv_energy_density')),
                ('_compute_dissipated_energy', ['M33', 'V9', 'S', 'V4'], dict(opaque=[LOGS], coq_name='hv_dissipated_energy'))]),
    dict(name='MultiBranchHyperViscoelastic', file='optimism/material/MultiBranchHyperViscoelastic.py', deps=['TensorMath'],
         funcs=[('_eq_strain_energy', ['M33', 'V8'], dict(coq_name='mb_eq_strain_energy')),
                ('_compute_elastic_logarithmic_strain', ['M33', 'V9'], dict(opaque=[LOGS], coq_name='mb_compute_elastic_logarithmic_strain'))]
         + _VISCO_MB),
    dict(name='PhaseFieldThreshold', file='optimism/phasefield/PhaseFieldThreshold.py', deps=['TensorMath'],
         funcs=[('degradation', ['S']),
                ('elastic_deviatoric_free_energy', ['M33', 'S', 'V6'], dict(coq_name='pf_elastic_deviatoric_free_energy')),
                ('elastic_volumetric_free_energy', ['M33', 'S', 'V6'], dict(coq_name='pf_elastic_volumetric_free_energy')),
                ('strain_energy_density', ['M33', 'S', 'V6'], dict(coq_name='pf_strain_energy_density')),
                ('phase_potential_density', ['S', 'V3', 'V6'], dict(coq_name='pf_phase_potential_density')),
                ('energy_density', ['M33', 'S', 'V3', 'V6'], dict(coq_name='pf_energy_density')),
                ('compute_linear_strain', ['M33'], dict(coq_name='pf_compute_linear_strain')),
                ('compute_logarithmic_strain', ['M33'], dict(opaque=[LOGS], coq_name='pf_compute_logarithmic_strain'))]),
]
