"""Kernel specs shared by several properties (C18, C16, C10).  One dict per source module; see tools/BUILDER_GUIDE.md."""
FP = 'NT(mu:S,sReg:S)'

SPECS = [
    dict(name='SmoothFunctions', file='optimism/SmoothFunctions.py', consts=['safeTol'],
         funcs=[('zmax', ['S', 'S']), ('min_base', ['S', 'S', 'S']), ('min', ['S', 'S', 'S']),
                ('max', ['S', 'S', 'S']), ('abs', ['S', 'S'])]),
    dict(name='Math', file='optimism/Math.py',
         funcs=[('safe_sqrt', ['S']),
                ('safe_sqrt_jvp', ['TUP(S)', 'TUP(S)']),
                ('_two_sum', ['S', 'S'])]),
    dict(name='Friction', file='optimism/contact/Friction.py', deps=['Math'],
         funcs=[('compute_friction_energy_from_perp_slip', ['V2', FP])]),
    dict(name='Surface', file='optimism/Surface.py',
         funcs=[('compute_normal', ['M22'])]),
    dict(name='MortarContact', file='optimism/contact/MortarContact.py',
         funcs=[('compute_normal', ['M22']), ('eval_linear_field_on_edge', ['V2', 'S']),
                ('smooth_linear', ['S', 'S'])]),
    dict(name='EdgeCpp', file='optimism/contact/EdgeCpp.py', deps=['Surface', 'SmoothFunctions'],
         funcs=[('norm_squared', ['V2']), ('dot', ['V2', 'V2']), ('cross', ['V2', 'V2']),
                ('cpp_line', ['M22', 'V2']), ('cpp', ['M22', 'V2']), ('cpp_distance', ['M22', 'V2']),
                ('area', ['V2', 'V2', 'V2']), ('smooth_distance', ['A2x2x2', 'V2', 'S']), ('smoothstep', ['S'])]),
]
