"""Kernel specs for C09 (J2 plasticity): hardening potentials and the flow direction."""
SPECS = [
    dict(name='Hardening', file='optimism/material/Hardening.py',
         funcs=[('linear', ['S', 'S', 'S']), ('voce', ['S', 'S', 'S', 'S']), ('power_law', ['S', 'S', 'S', 'S']),
                ('power_law_rate_sensitivity', ['S', 'S', 'S', 'S', 'S', 'S'])]),
    dict(name='J2Flow', file='optimism/material/J2Plastic.py', deps=['TensorMath'],
         consts=['_TOLERANCE'],
         funcs=[('compute_flow_direction', ['M33'])]),
    # round 4: the tail of compute_state_new_finite_deformations AFTER `stateInc = compute_state_increment(...)`:
    #   eqpsNew = stateOld[EQPS] + stateInc[EQPS];  FpNew = TensorMath.exp_symm(stateInc[PLASTIC_DISTORTION]) @ FpOld
    # (stateOld / stateInc are free variables, TensorMath.exp_symm an opaque function parameter).  The ORDER of the product
    # exp_symm(dEp) @ FpOld is what the coaxial commit-invariance proof of proofs/L_C09F.v depends on.
    dict(name='J2Finite', file='optimism/material/J2Plastic.py', deps=['TensorMath'],
         funcs=[('compute_state_new_finite_deformations', ['M33', 'V10', 'S', 'V5', 'S'],
                 dict(coq_name='j2_state_new_finite_tail', free=[('stateOld', 'V10'), ('stateInc', 'V10')],
                      opaque=[('TensorMath.exp_symm', 'exp_symm', ['M33'], 'M33')],
                      segment=dict(after='stateInc', upto='FpNew', drop_params=True, returns=['eqpsNew', 'FpNew'])))]),
]
