"""Kernel specs for C09 (J2 plasticity): hardening potentials and the flow direction."""
SPECS = [
    dict(name='Hardening', file='optimism/material/Hardening.py',
         funcs=[('linear', ['S', 'S', 'S']), ('voce', ['S', 'S', 'S', 'S']), ('power_law', ['S', 'S', 'S', 'S']),
                ('power_law_rate_sensitivity', ['S', 'S', 'S', 'S', 'S', 'S'])]),
    dict(name='J2Flow', file='optimism/material/J2Plastic.py', deps=['TensorMath'],
         consts=['_TOLERANCE'],
         funcs=[('compute_flow_direction', ['M33'])]),
]
