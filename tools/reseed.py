#!/usr/bin/env python3
"""tools/reseed.py <Cxx-k> [tier]  -- re-run the property's check against an already stored seeded change (seeded/<Cxx-k>/patch.diff)
in private copies (tools/seedtest.sh) and append the outcome to its detection history.  Used to refresh the detection matrix after
the checks or /repo changed.  Run several in parallel with xargs -P."""
import json
import os
import subprocess
import sys
import time

sid = sys.argv[1]
tier = sys.argv[2] if len(sys.argv) > 2 else 'quick'
pid = sid.split('-')[0]
dst = '/verif/seeded/%s' % sid


def sh(cmd, **kw):
    return subprocess.run(cmd, shell=True, stdout=subprocess.PIPE, stderr=subprocess.STDOUT, text=True, **kw)


meta = json.load(open(dst + '/meta.json'))
t0 = time.time()
c = sh('TAIL=14 /verif/tools/seedtest.sh %s %s/patch.diff %s' % (pid, dst, tier))
lines = [l for l in c.stdout.splitlines() if l.strip()]
viol = [l for l in lines if l.startswith('VIOLATION')]
applies = 'PATCH DOES NOT APPLY' not in c.stdout
detected = bool(viol) and 'EXIT=1' in c.stdout
hist = meta.get('detection_history', [])
hist.append(dict(when=time.strftime('%Y-%m-%d %H:%M'), detected=detected, concrete=bool(viol) and 'no-failing-input-found' not in viol[0],
                 tier=tier, applies=applies, wall_s=round(time.time() - t0),
                 verif_commit=sh('git -C /verif rev-parse --short HEAD').stdout.strip(), repo_commit=sh('git -C /repo rev-parse --short HEAD').stdout.strip()))
meta['detection_history'] = hist
if applies:
    meta.update(detected_by_quick_check=detected, check_output_tail=lines[-14:],
                concrete_input_found=bool(viol) and 'no-failing-input-found' not in viol[0])
json.dump(meta, open(dst + '/meta.json', 'w'), indent=1)
print('%s: applies=%s detected=%s concrete=%s %.0fs' % (sid, applies, detected, meta.get('concrete_input_found'), time.time() - t0))
if not detected:
    for l in lines[-6:]:
        print('    ', l[:240])
