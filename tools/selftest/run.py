#!/venv/bin/python
"""Translator self-test: synthetic functions are run with numpy (IEEE op by op) and through py2coq + PrimFloat
vm_compute; results must agree bit for bit.  Exit 0 on success."""
import os
import random
import shutil
import sys
import tempfile

HERE = os.path.dirname(os.path.abspath(__file__))
sys.path.insert(0, os.path.join(HERE, '..'))
import numpy as np
from vlib import common as C, py2coq

SPEC = dict(name='SelfTestSynth', file='synth.py', consts=['CONST'],
            funcs=[('arith', ['S', 'S']), ('branches', ['S', 'S', 'S']), ('vecs', ['V2', 'V2', 'S']),
                   ('mats', ['M33', 'M33']), ('helper', ['S', 'S']), ('calls', ['S', 'S', 'NT(a:S,b:S)'])])


def flat(v):
    if isinstance(v, tuple):
        out = []
        for x in v:
            out += flat(x)
        return out
    return [float(x) for x in np.asarray(v, dtype=float).ravel()]


def main():
    sys.path.insert(0, HERE)
    import synth
    res = py2coq.generate(HERE, [SPEC], os.path.join(C.COQ, 'gen'))
    ok, msg, path = res['SelfTestSynth']
    if not ok:
        print('selftest: translation failed:', msg)
        return 1
    rc, out, _ = C.coqc(path)
    if rc != 0:
        print('selftest: generated file does not compile\n', out[-2000:])
        return 1
    r = random.Random(12345)
    g = lambda: r.choice([0.0, 1.0, -1.0, 0.5]) if r.random() < 0.2 else r.uniform(-3, 3)
    exprs, want = [], []
    for _ in range(120):
        x, y, e = g(), g(), abs(g())
        p, q = [g(), g()], [g(), g()]
        A = [[g() for _ in range(3)] for _ in range(3)]
        B = [[g() for _ in range(3)] for _ in range(3)]
        a, b = g(), g()
        cs = C.cf
        fl = lambda M: ' '.join(cs(v) for row in M for v in row)
        with np.errstate(all='ignore'):
            want.append(flat(synth.arith(np.float64(x), np.float64(y))) + flat(synth.branches(np.float64(x), np.float64(y), np.float64(e)))
                        + flat(synth.vecs(np.array(p), np.array(q), np.float64(e))) + flat(synth.mats(np.array(A), np.array(B)))
                        + flat(synth.calls(np.float64(x), np.float64(y), synth.P(np.float64(a), np.float64(b)))))
        exprs.append('(fencs [arith %s %s] ++ (let \'(u, v) := branches %s %s %s in fencs [u; v]) ++ '
                     '(let \'(r0, r1, dd, m) := vecs %s %s %s %s %s in fencs [r0; r1; dd; m]) ++ '
                     '(let \'(t, d, v0, v1, w) := mats %s %s in fencs [t; d; v0; v1; w]) ++ '
                     '(let \'(s, c) := calls %s %s %s %s in fencs [s; c]))'
                     % (cs(x), cs(y), cs(x), cs(y), cs(e), cs(p[0]), cs(p[1]), cs(q[0]), cs(q[1]), cs(e), fl(A), fl(B), cs(x), cs(y), cs(a), cs(b)))
    got = C.coq_eval(['From OV.gen Require Import Gen_SelfTestSynth.'], exprs, 'selftest')
    bad = 0
    for w, gz in zip(want, got):
        gv = C.dec_floats(gz)
        # numpy's matmul/dot may sum in a different order than the left-to-right model: a few ulp on those entries
        if len(gv) != len(w) or any(not (a == b or (a != a and b != b) or abs(a - b) <= 1e-13 * max(1.0, abs(a), abs(b))) for a, b in zip(gv, w)):
            bad += 1
            if bad < 4:
                print('selftest mismatch:\n want', w, '\n got ', gv)
    for ext in ('.v', '.vo', '.vok', '.vos', '.glob'):
        try:
            os.remove(path[:-2] + ext)
        except OSError:
            pass
    print('selftest: %d cases, %d mismatches' % (len(want), bad))
    return 1 if bad else 0


if __name__ == '__main__':
    sys.exit(main())
