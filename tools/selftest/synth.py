# synthetic module exercising the translator's accepted subset; executed with numpy and translated to Coq
import numpy as np
from collections import namedtuple

P = namedtuple('P', ['a', 'b'])
CONST = 0.1


def if_then_else(c, a, b):
    return a if c else b


class lax:
    @staticmethod
    def cond(c, f, g, *ops):
        return f(*ops) if c else g(*ops)


def arith(x, y):
    z = x * y + 3.5 - y / (x * x + 1.0)
    z = -z + x ** 3 - (x + y) ** 2
    return z * CONST


def branches(x, y, e):
    inside = (np.abs(x - y) < e) & ~(x == 0.0)
    other = (x >= y) | (y <= -1.0)
    t = np.where(inside, x * 0.5, y)
    u = if_then_else(other, t, -t)
    return np.where(x != y, u, 2.0), np.minimum(x, y) + np.maximum(x, e) + np.sign(x - y)


def vecs(p, q, s):
    d = q - p
    n = np.array([d[1], -d[0]])
    m = np.array([p, q]).T
    r = m @ n + s * d
    nn = np.sqrt(n @ n + 1.0)
    return r / nn, np.dot(d, d), m[1, 0] - m[0][1]


def mats(A, B):
    C = A.T @ B + 2.0 * np.identity(3) - B
    tr = np.trace(C)
    dd = np.tensordot(A, C)
    v = C[0:2, 1]
    return tr, dd, v, C[2, 2] * A[-1, 0]


def helper(x, y):
    return x * y, x - y


def calls(x, y, prm):
    a, b = helper(x, y)
    c = lax.cond(a < b, lambda u, v: (u + prm.a, v), lambda u, v: (v, u * prm.b), a, b)

    def inner(t):
        w = t * a
        return w + b
    return inner(c[0]) + inner(c[1]), np.clip(x, -0.5, 0.5)
