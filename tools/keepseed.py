#!/usr/bin/env python3
"""tools/keepseed.py <Cxx> <k> [<seed_out_dir>]  -- confirm a seeded change (demo passes on HEAD, fails with the patch) in a scratch
worktree, run the property's check against it in private copies (tools/seedtest.sh), and store it as /verif/seeded/<Cxx>-<k>/."""
import json
import os
import shutil
import subprocess
import sys
import time

pid, k = sys.argv[1].upper(), sys.argv[2]
src = sys.argv[3] if len(sys.argv) > 3 else '/tmp/seed_out/%s' % pid.lower()
sk = sys.argv[4] if len(sys.argv) > 4 else k   # index of the change inside the source directory
dst = '/verif/seeded/%s-%s' % (pid, k)
wt = '/tmp/ks_%d' % os.getpid()
env = dict(os.environ, PYTHONHASHSEED='0', JAX_PLATFORMS='cpu')


def sh(cmd, **kw):
    return subprocess.run(cmd, shell=True, stdout=subprocess.PIPE, stderr=subprocess.STDOUT, text=True, **kw)


ran = []
sh('git -C /repo worktree add -q %s HEAD' % wt)
try:
    e = dict(env, REPO_UNDER_TEST=wt, PYTHONPATH=wt)
    r0 = sh('/venv/bin/python %s/demo%s.py' % (src, sk), env=e)
    ran.append('demo on HEAD worktree: exit %d' % r0.returncode)
    a = sh('git -C %s apply %s/change%s.diff' % (wt, src, sk))
    ran.append('git apply: exit %d %s' % (a.returncode, a.stdout.strip()[:200]))
    r1 = sh('/venv/bin/python %s/demo%s.py' % (src, sk), env=e)
    ran.append('demo with patch: exit %d; last lines: %s' % (r1.returncode, ' | '.join(r1.stdout.strip().splitlines()[-3:])[:500]))
finally:
    sh('git -C /repo worktree remove --force %s' % wt)
confirmed = (r0.returncode == 0 and a.returncode == 0 and r1.returncode != 0)
t0 = time.time()
c = sh('TAIL=14 /verif/tools/seedtest.sh %s %s/change%s.diff' % (pid, src, sk))
lines = [l for l in c.stdout.splitlines() if l.strip()]
viol = [l for l in lines if l.startswith('VIOLATION')]
detected = bool(viol) and 'EXIT=1' in c.stdout
ran.append('tools/seedtest.sh %s change%s.diff (quick tier, private copies): %s in %.0fs' % (pid, k, 'VIOLATION' if detected else 'NOT DETECTED', time.time() - t0))
os.makedirs(dst, exist_ok=True)
shutil.copy('%s/change%s.diff' % (src, sk), dst + '/patch.diff')
shutil.copy('%s/demo%s.py' % (src, sk), dst + '/demo.py')
meta = {}
try:
    meta = json.load(open('%s/meta%s.json' % (src, sk)))
except Exception as ex:
    meta = {'note': 'seed agent meta unreadable: %r' % ex}
prev = {}
try:
    prev = json.load(open(dst + '/meta.json'))
except Exception:
    pass
history = prev.get('detection_history', [])
if not history and 'detected_by_quick_check' in prev:
    history.append(dict(when='earlier run', detected=prev['detected_by_quick_check'], concrete=prev.get('concrete_input_found')))
history.append(dict(when=time.strftime('%Y-%m-%d %H:%M'), detected=detected, concrete=bool(viol) and 'no-failing-input-found' not in viol[0],
                    verif_commit=sh('git -C /verif rev-parse --short HEAD').stdout.strip(), repo_commit=sh('git -C /repo rev-parse --short HEAD').stdout.strip()))
meta.update(detection_history=history)
meta.update(property=pid, seed_id='%s-%s' % (pid, k), confirmed_by_integrator=confirmed, integrator_ran=ran,
            detected_by_quick_check=detected, check_output_tail=lines[-14:],
            concrete_input_found=bool(viol) and 'no-failing-input-found' not in viol[0])
json.dump(meta, open(dst + '/meta.json', 'w'), indent=1)
print('%s-%s: confirmed=%s detected=%s concrete=%s' % (pid, k, confirmed, detected, meta['concrete_input_found']))
for l in lines[-8:]:
    print('   ', l[:300])
