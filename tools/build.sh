#!/bin/sh
# tools/build.sh [make targets...]   -- regenerate models from $VERIF_REPO (default /repo) and run make under the build lock
cd "$(dirname "$0")/.." || exit 2
exec flock .build.lock /venv/bin/python - "$@" <<'PY'
import subprocess, sys
sys.path.insert(0, 'tools')
from vlib import common
res = common.regen()
for k, v in res.items():
    if not v[0]:
        print('TRANSLATION FAILED', k, v[1])
t = sys.argv[1:]
p = subprocess.run(['timeout', '1800', 'make', '-j12', '-k'] + t, cwd='coq', stdout=subprocess.PIPE, stderr=subprocess.STDOUT, text=True)
skip = ('Axioms:', '  ', 'ClassicalDedekindReals', 'FunctionalExtensionality', 'Classical_Prop', 'Warning:', 'New coercion path', '[ambiguous-paths')
for l in p.stdout.splitlines():
    if l.startswith(skip) or 'is not definitionally an identity' in l or ('characters 0-4' in l and 'Warning' not in l and 'Error' not in l and False):
        continue
    print(l)
sys.exit(p.returncode)
PY
