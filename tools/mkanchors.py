#!/usr/bin/env python3
"""Write tools/anchors.json: fingerprints of every property's anchored source files in /repo's working tree (run by the integrator after
every commit to /repo and after a model was re-validated; never run by a check)."""
import importlib
import json
import os
import sys

sys.path.insert(0, os.path.dirname(os.path.abspath(__file__)))
os.environ.setdefault('VERIF_REPO', '/repo')
from vlib import anchors, common as C

out = {}
for l in open(os.path.join(C.VERIF, 'properties.jsonl')):
    pid = json.loads(l)['id']
    try:
        mod = importlib.import_module('props.' + pid.lower())
    except Exception:
        mod = None
    out[pid] = anchors.current(pid, mod, repo='/repo')
json.dump(out, open(anchors.ANCHORS_JSON, 'w'), indent=1, sort_keys=True)
print('anchors.json:', {k: len(v) for k, v in out.items()})
