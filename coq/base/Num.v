(* Numeric interface shared by generated kernels and hand-written models.
   Instances: R (theorems), PrimFloat binary64 (execution for correspondence), Q (exact execution). *)
From Coq Require Import ZArith QArith Bool List.
From Coq Require Import Floats.PrimFloat Floats.SpecFloat Floats.FloatOps Numbers.Cyclic.Int63.Uint63.
From Coq Require Import Reals Lra.
Import ListNotations.

Class Num (T : Type) := {
  nconst : Q -> (Z * Z) -> T;      (* exact decimal value as a rational; binary64 value as mantissa*2^exponent *)
  nadd : T -> T -> T;
  nsub : T -> T -> T;
  nmul : T -> T -> T;
  ndiv : T -> T -> T;
  nopp : T -> T;
  nabs : T -> T;
  nsqrt : T -> T;
  nexp : T -> T;
  nln : T -> T;
  nltb : T -> T -> bool;
  nleb : T -> T -> bool;
  neqb : T -> T -> bool;
}.

Declare Scope num_scope.
Delimit Scope num_scope with num.
Infix "+" := nadd : num_scope.
Infix "-" := nsub : num_scope.
Infix "*" := nmul : num_scope.
Infix "/" := ndiv : num_scope.
Notation "- x" := (nopp x) : num_scope.
Infix "<?" := nltb : num_scope.
Infix "<=?" := nleb : num_scope.
Infix "=?" := neqb : num_scope.

Section Derived.
  Context {T : Type} {NT : Num T}.
  Definition nZ (z : Z) : T := nconst (inject_Z z) (z, 0%Z).
  Definition nzero : T := nZ 0.
  Definition nunit : T := nZ 1.
  Definition ntwo : T := nZ 2.
  Definition nhalf : T := nconst (1 # 2) (1%Z, (-1)%Z).
  Definition ngtb (x y : T) : bool := nltb y x.
  Definition ngeb (x y : T) : bool := nleb y x.
  Definition nneb (x y : T) : bool := negb (neqb x y).
  Definition nmin (x y : T) : T := if nltb x y then x else y.   (* np.minimum, NaN aside *)
  Definition nmax (x y : T) : T := if nltb x y then y else x.
  Definition nsign (x : T) : T := if nltb nzero x then nunit else if nltb x nzero then nopp nunit else nzero.
  Fixpoint npow (x : T) (n : nat) : T :=
    match n with O => nunit | S O => x | S m => nmul x (npow x m) end.
  Definition nsq (x : T) : T := nmul x x.
  (* x ** y for a non-literal exponent: exp (y ln x), with 0 ** y = 0 (only used with y > 0) *)
  Definition npowr (x y : T) : T := if neqb x nzero then nzero else nexp (nmul y (nln x)).
  Fixpoint nsum (l : list T) : T := match l with [] => nzero | x :: r => nadd x (nsum r) end.
  Fixpoint ndot (a b : list T) : T :=
    match a, b with x :: a', y :: b' => nadd (nmul x y) (ndot a' b') | _, _ => nzero end.
End Derived.

(* ---------- R instance ---------- *)
Definition Rltb (x y : R) : bool := if Rlt_dec x y then true else false.
Definition Rleb (x y : R) : bool := if Rle_dec x y then true else false.
Definition Reqb (x y : R) : bool := if Req_EM_T x y then true else false.

(* rational constant as a real: integers stay integers (no "* / 1") *)
Definition Q2R' (q : Q) : R :=
  match Qden q with xH => IZR (Qnum q) | d => (IZR (Qnum q) / IZR (Zpos d))%R end.
Lemma Q2R'_Q2R q : Q2R' q = Q2R q.
Proof. destruct q as [n d]. unfold Q2R', Q2R; simpl. destruct d; try reflexivity. rewrite Rinv_1, Rmult_1_r. reflexivity. Qed.

#[export] Instance NumR : Num R := {|
  nconst := fun q _ => Q2R' q;
  nadd := Rplus; nsub := Rminus; nmul := Rmult; ndiv := Rdiv;
  nopp := Ropp; nabs := Rabs; nsqrt := sqrt; nexp := exp; nln := ln;
  nltb := Rltb; nleb := Rleb; neqb := Reqb |}.

Lemma Rltb_true x y : Rltb x y = true <-> (x < y)%R.
Proof. unfold Rltb; destruct (Rlt_dec x y); split; intros; auto; discriminate. Qed.
Lemma Rltb_false x y : Rltb x y = false <-> (y <= x)%R.
Proof. unfold Rltb; destruct (Rlt_dec x y); split; intros; auto; try discriminate; lra. Qed.
Lemma Rleb_true x y : Rleb x y = true <-> (x <= y)%R.
Proof. unfold Rleb; destruct (Rle_dec x y); split; intros; auto; discriminate. Qed.
Lemma Rleb_false x y : Rleb x y = false <-> (y < x)%R.
Proof. unfold Rleb; destruct (Rle_dec x y); split; intros; auto; try discriminate; lra. Qed.
Lemma Reqb_true x y : Reqb x y = true <-> x = y.
Proof. unfold Reqb; destruct (Req_EM_T x y); split; intros; auto; discriminate. Qed.
Lemma Reqb_false x y : Reqb x y = false <-> x <> y.
Proof. unfold Reqb; destruct (Req_EM_T x y); split; intros; auto; try discriminate; contradiction. Qed.

(* case analysis on one boolean comparison, leaving the real (in)equality in context *)
Ltac rcases_on c :=
  let H := fresh "Hc" in
  destruct c eqn:H;
  [ first [apply Rltb_true in H | apply Rleb_true in H | apply Reqb_true in H | idtac]
  | first [apply Rltb_false in H | apply Rleb_false in H | apply Reqb_false in H | idtac] ].

Ltac rcases :=
  repeat match goal with
  | |- context [if ?c then _ else _] => rcases_on c
  | H : context [if ?c then _ else _] |- _ => rcases_on c
  end.

Ltac unfold_num :=
  cbn [nconst nadd nsub nmul ndiv nopp nabs nsqrt nexp nln nltb nleb neqb NumR
       nZ nzero nunit ntwo nhalf ngtb ngeb nneb nmin nmax nsign nsq npow npowr] in *.

Ltac q2r := unfold Q2R' in *; cbn [Qnum Qden inject_Z] in *.

(* ---------- binary64 instance ---------- *)
Definition float_of_Z (z : Z) : float :=
  match z with
  | Z0 => PrimFloat.zero
  | Zpos p => PrimFloat.of_uint63 (Uint63.of_Z (Zpos p))
  | Zneg p => PrimFloat.opp (PrimFloat.of_uint63 (Uint63.of_Z (Zpos p)))
  end.
Definition float_of_me (me : Z * Z) : float := FloatOps.Z.ldexp (float_of_Z (fst me)) (snd me).

(* exp and ln in binary64 for *executing* models only (never used by a theorem):
   argument reduction by ln2 and a Taylor/atanh series; relative error ~1e-15 on the ranges used. *)
Module FApprox.
  Local Open Scope float_scope.
  Definition ln2 : float := 0x1.62e42fefa39efp-1.
  Fixpoint exp_series (x term acc : float) (k : float) (n : nat) : float :=
    match n with O => acc | S m =>
      let term' := term * x / k in exp_series x term' (acc + term') (k + 1) m end.
  Definition fexp (x : float) : float :=
    if PrimFloat.ltb x (-745) then 0 else
    if PrimFloat.ltb 710 x then infinity else
    if PrimFloat.eqb x x then
      let kf := x / ln2 in
      
      let kz := match FloatOps.Prim2SF kf with
                | S754_finite s m e =>
                    let v := (if (0 <=? e)%Z then Z.shiftl (Zpos m) e else Z.shiftr (Zpos m) (- e))%Z in
                    if s then (- v - 1)%Z else v
                | _ => 0%Z end in
      let r := x - float_of_Z kz * ln2 in
      let r8 := r / 8 in
      let e8 := exp_series r8 1 1 1 14 in
      let e4 := e8 * e8 in let e2 := e4 * e4 in let e1 := e2 * e2 in
      FloatOps.Z.ldexp e1 kz
    else x.
  Fixpoint atanh_series (z2 term acc : float) (k : float) (n : nat) : float :=
    match n with O => acc | S m =>
      let term' := term * z2 in atanh_series z2 term' (acc + term' / k) (k + 2) m end.
  Definition fln (x : float) : float :=
    if PrimFloat.ltb x 0 then nan else
    if PrimFloat.eqb x 0 then neg_infinity else
    if PrimFloat.eqb x infinity then infinity else
    if PrimFloat.eqb x x then
      let (m, e) := FloatOps.Z.frexp x in   (* x = m * 2^e, 0.5 <= m < 1 *)
      let '(m, e) := if PrimFloat.ltb m 0x1.6a09e667f3bcdp-1 then (m * 2, (e - 1)%Z) else (m, e) in
      let z := (m - 1) / (m + 1) in
      let z2 := z * z in
      2 * (z * atanh_series z2 1 1 3 22) + float_of_Z e * ln2
    else x.
End FApprox.

#[export] Instance NumF : Num float := {|
  nconst := fun _ me => float_of_me me;
  nadd := PrimFloat.add; nsub := PrimFloat.sub; nmul := PrimFloat.mul; ndiv := PrimFloat.div;
  nopp := PrimFloat.opp; nabs := PrimFloat.abs; nsqrt := PrimFloat.sqrt;
  nexp := FApprox.fexp; nln := FApprox.fln;
  nltb := PrimFloat.ltb; nleb := PrimFloat.leb; neqb := PrimFloat.eqb |}.

(* output: a float as (mantissa, exponent) with value mantissa * 2^exponent; specials tagged *)
Inductive fout := FNum (m e : Z) | FInf (neg : bool) | FNaN.
Definition fout_of (x : float) : fout :=
  match FloatOps.Prim2SF x with
  | S754_zero _ => FNum 0 0
  | S754_infinity s => FInf s
  | S754_nan => FNaN
  | S754_finite s m e => FNum (if s then Zneg m else Zpos m) e
  end.

(* ---------- Q instance (exact; sqrt/exp/ln unsupported -> returns 0 and is never used where it matters) ---------- *)
Definition Qltb (x y : Q) : bool := negb (Qle_bool y x).
#[export] Instance NumQ : Num Q := {|
  nconst := fun q _ => q;
  nadd := Qplus; nsub := Qminus; nmul := Qmult; ndiv := Qdiv;
  nopp := Qopp; nabs := Qabs.Qabs; nsqrt := fun _ => 0%Q; nexp := fun _ => 0%Q; nln := fun _ => 0%Q;
  nltb := Qltb; nleb := Qle_bool; neqb := Qeq_bool |}.

(* ---------- exchange format with the harness: everything is a list of Z ---------- *)
Definition F (m e : Z) : float := float_of_me (m, e).
Definition fenc (x : float) : list Z :=
  match fout_of x with
  | FNum m e => [m; e]
  | FInf neg => [if neg then (-1)%Z else 1%Z; 7778%Z]
  | FNaN => [0%Z; 7777%Z]
  end.
Definition benc (b : bool) : list Z := [if b then 1%Z else 0%Z].
Definition fencs (l : list float) : list Z := flat_map fenc l.
