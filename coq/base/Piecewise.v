(* Gluing lemmas: a function defined piecewise by two differentiable pieces that agree in value and
   derivative at the junction is differentiable, with the piecewise derivative, and that derivative is
   continuous when the pieces' derivatives are. *)
From Coq Require Import Reals Lra.
From Coquelicot Require Import Coquelicot.
Local Open Scope R_scope.

Lemma is_derive_glue (f g h : R -> R) (a l : R) :
  (forall x, x <= a -> f x = g x) -> (forall x, a <= x -> f x = h x) ->
  is_derive g a l -> is_derive h a l -> is_derive f a l.
Proof.
  intros Hg Hh [Lg Dg] [Lh Dh]. split; [exact Lg|].
  intros x Hx. specialize (Dg x Hx). specialize (Dh x Hx).
  assert (Hxa : x = a).
  { symmetry. apply (is_filter_lim_locally_unique a x Hx). }
  subst x. intros eps. specialize (Dg eps). specialize (Dh eps).
  generalize (filter_and _ _ Dg Dh). apply filter_imp. intros y [H1 H2].
  destruct (Rle_dec y a) as [Hy|Hy].
  - rewrite (Hg y Hy), (Hg a (Rle_refl a)). exact H1.
  - rewrite (Hh y) by lra. rewrite (Hh a (Rle_refl a)). exact H2.
Qed.

Lemma continuous_glue (f g h : R -> R) (a : R) :
  (forall x, x <= a -> f x = g x) -> (forall x, a <= x -> f x = h x) ->
  continuous g a -> continuous h a -> continuous f a.
Proof.
  intros Hg Hh Cg Ch. intros P HP.
  assert (HPg : locally (g a) P) by (rewrite <- (Hg a (Rle_refl a)); exact HP).
  assert (HPh : locally (h a) P) by (rewrite <- (Hh a (Rle_refl a)); exact HP).
  specialize (Cg P HPg). specialize (Ch P HPh).
  unfold filtermap in *.
  generalize (filter_and _ _ Cg Ch). apply filter_imp. intros y [H1 H2].
  destruct (Rle_dec y a) as [Hy|Hy].
  - rewrite (Hg y Hy). exact H1.
  - rewrite (Hh y) by lra. exact H2.
Qed.

Definition pw (a : R) (g h : R -> R) (x : R) : R := if Rle_dec x a then g x else h x.

Lemma locally_lt (a x : R) : x < a -> locally x (fun y => y < a).
Proof.
  intros H. exists (mkposreal (a - x) (Rlt_Rminus _ _ H)). intros y Hy.
  unfold ball in Hy; simpl in Hy. unfold AbsRing_ball, abs, minus, plus, opp in Hy; simpl in Hy.
  apply Rabs_def2 in Hy. lra.
Qed.
Lemma locally_gt (a x : R) : a < x -> locally x (fun y => a < y).
Proof.
  intros H. exists (mkposreal (x - a) (Rlt_Rminus _ _ H)). intros y Hy.
  unfold ball in Hy; simpl in Hy. unfold AbsRing_ball, abs, minus, plus, opp in Hy; simpl in Hy.
  apply Rabs_def2 in Hy. lra.
Qed.

(* derivative of a two-piece function *)
Lemma pw_derive (a : R) (g h g' h' : R -> R) :
  (forall x, x <= a -> is_derive g x (g' x)) -> (forall x, a <= x -> is_derive h x (h' x)) ->
  g a = h a -> g' a = h' a ->
  forall x, is_derive (pw a g h) x (pw a g' h' x).
Proof.
  intros Dg' Dh' Hv Hd x.
  assert (Dg : x <= a -> is_derive g x (g' x)) by (apply Dg').
  assert (Dh : a <= x -> is_derive h x (h' x)) by (apply Dh').
  destruct (Rtotal_order x a) as [Hlt|[Heq|Hgt]].
  - unfold pw at 2. destruct (Rle_dec x a); [|lra].
    apply (is_derive_ext_loc g); [|apply Dg; lra].
    generalize (locally_lt a x Hlt). apply filter_imp. intros y Hy. unfold pw. destruct (Rle_dec y a); [reflexivity|lra].
  - subst x. unfold pw at 2. destruct (Rle_dec a a); [|lra].
    apply (is_derive_glue _ g h a).
    + intros y Hy. unfold pw. destruct (Rle_dec y a); [reflexivity|lra].
    + intros y Hy. unfold pw. destruct (Rle_dec y a); [|reflexivity].
      assert (y = a) by lra. subst y. exact Hv.
    + apply Dg; lra.
    + rewrite Hd. apply Dh; lra.
  - unfold pw at 2. destruct (Rle_dec x a); [lra|].
    apply (is_derive_ext_loc h); [|apply Dh; lra].
    generalize (locally_gt a x Hgt). apply filter_imp. intros y Hy. unfold pw. destruct (Rle_dec y a); [lra|reflexivity].
Qed.

Lemma pw_continuous (a : R) (g h : R -> R) :
  (forall x, x <= a -> continuous g x) -> (forall x, a <= x -> continuous h x) -> g a = h a ->
  forall x, continuous (pw a g h) x.
Proof.
  intros Cg' Ch' Hv x.
  assert (Cg : x <= a -> continuous g x) by (apply Cg').
  assert (Ch : a <= x -> continuous h x) by (apply Ch').
  destruct (Rtotal_order x a) as [Hlt|[Heq|Hgt]].
  - apply (continuous_ext_loc _ g); [|apply Cg; lra].
    generalize (locally_lt a x Hlt). apply filter_imp. intros y Hy. unfold pw. destruct (Rle_dec y a); [reflexivity|lra].
  - subst x. apply (continuous_glue _ g h a).
    + intros y Hy. unfold pw. destruct (Rle_dec y a); [reflexivity|lra].
    + intros y Hy. unfold pw. destruct (Rle_dec y a); [|reflexivity].
      assert (y = a) by lra. subst y. exact Hv.
    + apply Cg; lra.
    + apply Ch; lra.
  - apply (continuous_ext_loc _ h); [|apply Ch; lra].
    generalize (locally_gt a x Hgt). apply filter_imp. intros y Hy. unfold pw. destruct (Rle_dec y a); [lra|reflexivity].
Qed.

(* "continuously differentiable with derivative f'" *)
Definition C1_with (f f' : R -> R) : Prop :=
  (forall x, is_derive f x (f' x)) /\ (forall x, continuous f' x).

Lemma C1_ext (f1 f1' f2 f2' : R -> R) :
  (forall x, f1 x = f2 x) -> (forall x, f1' x = f2' x) -> C1_with f1 f1' -> C1_with f2 f2'.
Proof.
  intros Hf Hf' [D C]. split; intros x.
  - rewrite <- Hf'. apply (is_derive_ext f1); [intros; apply Hf|apply D].
  - apply (continuous_ext f1'); [intros; apply Hf'|apply C].
Qed.

(* one-sided version: C1 on a half line *)
Definition C1_on (P : R -> Prop) (f f' : R -> R) : Prop :=
  (forall x, P x -> is_derive f x (f' x)) /\ (forall x, P x -> continuous f' x).

Lemma C1_on_all f f' : C1_with f f' -> forall P, C1_on P f f'.
Proof. intros [D C] P. split; intros x _; [apply D|apply C]. Qed.

Lemma C1_pw_on (a : R) (g h g' h' : R -> R) :
  C1_on (fun x => x <= a) g g' -> C1_on (fun x => a <= x) h h' -> g a = h a -> g' a = h' a ->
  C1_with (pw a g h) (pw a g' h').
Proof.
  intros [Dg Cg] [Dh Ch] Hv Hd. split.
  - apply pw_derive; assumption.
  - apply pw_continuous; assumption.
Qed.

Lemma C1_pw (a : R) (g h g' h' : R -> R) :
  C1_with g g' -> C1_with h h' -> g a = h a -> g' a = h' a ->
  C1_with (pw a g h) (pw a g' h').
Proof.
  intros Hg Hh. apply C1_pw_on; apply C1_on_all; assumption.
Qed.

(* x |-> - f (- x) *)
Lemma C1_flip (f f' : R -> R) : C1_with f f' -> C1_with (fun x => - f (- x)) (fun x => f' (- x)).
Proof.
  intros [D C]. split; intros x.
  - evar_last. apply (is_derive_opp (fun x => f (- x)) x). apply (is_derive_comp f (fun x => - x) x). apply D.
    apply (is_derive_opp (fun x : R => x) x). apply (is_derive_id x).
    unfold scal, opp, one; simpl. unfold mult; simpl. ring.
  - apply (continuous_comp (fun x => - x) f'). apply (continuous_opp (fun x : R => x)). apply continuous_id. apply C.
Qed.

(* polynomials and other auto_derive-able pieces *)
Ltac c1_auto :=
  split; intros x; [ auto_derive; [try tauto|try (field; lra); try ring]
                   | match goal with |- continuous ?f ?x0 => apply (ex_derive_continuous f x0) end; auto_derive; try tauto ].
