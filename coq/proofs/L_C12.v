(* C12: (a) algebraic identities of the generated 3x3 helpers, (b) error bound of the minimax Pade approximation of
   cos(acos(x)/3) used by the eigen-solver (interval arithmetic), (c) the stable relative-difference kernels are the divided
   differences, (d) soundness of the executable result checkers of model/M_C12.v. *)
From Coq Require Import Reals Lra QArith Qabs List Bool.
From Coquelicot Require Import Coquelicot.
From Interval Require Import Tactic.
From OV.base Require Import Num.
From OV.gen Require Import Gen_TensorMath Gen_TensorMathFun.
From OV.model Require Import M_C08 M_C12.
From OV.proofs Require Import L_C08.
Import ListNotations.
Local Open Scope R_scope.

Notation M := (mat R).
Ltac tnum := cbv beta iota zeta delta [t_trace I2 t_det detpIm1 t_inv deviator dev sym skw norm_of_deviator_squared
   cos_of_acos_divided_by_3 _sqrt_relative_difference _exp_relative_difference _relative_log_difference_taylor
   _relative_log_difference_no_tolerance_check tinv]; mnum.

(* ---------- (a) helper algebra ---------- *)
Theorem detpIm1_exact (A : M) : ap9 (@detpIm1 R NumR) A = mdet (madd A mid) - 1.
Proof. dm A. tnum. field. Qed.
Theorem I2_exact (A : M) : ap9 (@I2 R NumR) A = / 2 * (mtrace A * mtrace A - mtrace (mmul A A)).
Proof. dm A. tnum. field. Qed.
Theorem det_exact (A : M) : ap9 (@t_det R NumR) A = mdet A.
Proof. dm A. tnum. ring. Qed.
Theorem inv_right (A : M) : mdet A <> 0 -> mmul A (tinv A) = mid.
Proof. dm A. tnum. intros Hd. f_equal; field; intro Hx; apply Hd; (etransitivity; [|exact Hx]); ring. Qed.
Theorem inv_left (A : M) : mdet A <> 0 -> mmul (tinv A) A = mid.
Proof. dm A. tnum. intros Hd. f_equal; field; intro Hx; apply Hd; (etransitivity; [|exact Hx]); ring. Qed.
Theorem dev_traceless (A : M) : mtrace (of9 (ap9 (@dev R NumR) A)) = 0.
Proof. dm A. tnum. field. Qed.
Theorem dev_of_spherical (s : R) : of9 (ap9 (@dev R NumR) (mscal s mid)) = mzero.
Proof. tnum. f_equal; field. Qed.
Theorem sym_symmetric (A : M) : mtr (of9 (ap9 (@sym R NumR) A)) = of9 (ap9 (@sym R NumR) A).
Proof. dm A. tnum. f_equal; field. Qed.
Theorem skw_antisymmetric (A : M) : mtr (of9 (ap9 (@skw R NumR) A)) = mscal (-1) (of9 (ap9 (@skw R NumR) A)).
Proof. dm A. tnum. f_equal; field. Qed.
Theorem sym_plus_skw (A : M) : madd (of9 (ap9 (@sym R NumR) A)) (of9 (ap9 (@skw R NumR) A)) = A.
Proof. dm A. tnum. f_equal; field. Qed.
(* right polar decomposition R = F inv(U), given that U is a symmetric invertible square root of F^T F *)
Theorem polar_identities (F U : M) : mtr U = U -> mmul U U = mmul (mtr F) F -> mdet U <> 0 ->
  let Rm := mmul F (tinv U) in mmul Rm U = F /\ mmul (mtr Rm) Rm = mid.
Proof.
  intros HU HS Hd. cbv zeta. split.
  - rewrite mmul_assoc, inv_left, mmul_id_r by exact Hd. reflexivity.
  - rewrite mtr_mmul, mmul_assoc, <- (mmul_assoc (mtr F)), <- HS.
    rewrite (mmul_assoc U U), inv_right, mmul_id_r by exact Hd.
    rewrite <- HU at 2. rewrite <- mtr_mmul, inv_right by exact Hd. reflexivity.
Qed.

(* ---------- (b) the Pade approximation P of cos(acos(x)/3): c = P(x) solves 4c^3 - 3c = x to 1e-13 on [0,1] ---------- *)
Definition pade (x : R) : R := @cos_of_acos_divided_by_3 R NumR x.
Theorem pade_residual x : 0 <= x <= 1 -> Rabs (4 * pade x * pade x * pade x - 3 * pade x - x) <= 1 / 10000000000000.
Proof.
  intros Hx. unfold pade. tnum.
  interval with (i_taylor x, i_degree 12, i_bisect x, i_prec 80, i_depth 20).
Qed.
Theorem pade_range x : 0 <= x <= 1 -> 866 / 1000 <= pade x <= 10000001 / 10000000.
Proof. intros Hx. unfold pade. tnum. interval with (i_taylor x, i_degree 8, i_bisect x, i_prec 60, i_depth 18). Qed.
(* consequence: P(x) is within 1e-13 * (1/ (12 c^2 - 3)) of the root; at x = 1 the exact value is 1, at x = 0 sqrt(3)/2 *)
Theorem pade_endpoints : Rabs (pade 1 - 1) <= 1 / 100000000000000 /\ Rabs (pade 0 - sqrt 3 / 2) <= 1 / 100000000000000.
Proof. unfold pade. tnum. split; interval with (i_prec 80). Qed.

(* ---------- (c) relative-difference kernels = divided differences ---------- *)
Theorem sqrt_relative_difference_exact l1 l2 : 0 < l1 -> 0 < l2 -> l1 <> l2 ->
  @_sqrt_relative_difference R NumR l1 l2 = (sqrt l1 - sqrt l2) / (l1 - l2).
Proof.
  intros H1 H2 Hne. tnum.
  assert (S1 := sqrt_lt_R0 l1 H1). assert (S2 := sqrt_lt_R0 l2 H2).
  assert (E1 : sqrt l1 * sqrt l1 = l1) by (apply sqrt_sqrt; lra).
  assert (E2 : sqrt l2 * sqrt l2 = l2) by (apply sqrt_sqrt; lra).
  assert (Hd : l1 - l2 = (sqrt l1 - sqrt l2) * (sqrt l1 + sqrt l2)) by (rewrite <- E1 at 1; rewrite <- E2 at 1; ring).
  assert (Hs : sqrt l1 - sqrt l2 <> 0). { intro Hz. apply Hne. rewrite <- E1, <- E2. replace (sqrt l1) with (sqrt l2) by lra. reflexivity. }
  rewrite Hd. field. split; lra.
Qed.
Theorem sqrt_relative_difference_confluent l : 0 < l -> @_sqrt_relative_difference R NumR l l = / (2 * sqrt l).
Proof. intros H. tnum. assert (S := sqrt_lt_R0 l H). field. lra. Qed.
Theorem exp_relative_difference_exact l1 l2 : l1 <> l2 -> @_exp_relative_difference R NumR l1 l2 = (exp l1 - exp l2) / (l1 - l2).
Proof.
  intros Hne. tnum. replace (exp l1) with (exp l2 * exp (l1 - l2)) by (rewrite <- exp_plus; f_equal; ring). field. lra.
Qed.
Theorem log_relative_difference_exact l1 l2 : 0 < l1 -> 0 < l2 -> l1 <> l2 ->
  @_relative_log_difference_no_tolerance_check R NumR l1 l2 = (ln l1 - ln l2) / (l1 - l2).
Proof. intros H1 H2 Hne. tnum. unfold Rdiv at 2. rewrite ln_mult, ln_Rinv by (try apply Rinv_0_lt_compat; lra). field. lra. Qed.
(* the Taylor branch (taken when |l1 - l2| <= 0.05 min(l1,l2)): closed form of the kernel; its truncation error is NOT proved *)
Theorem log_taylor_kernel_form l1 l2 : l1 + l2 <> 0 ->
  @_relative_log_difference_taylor R NumR l1 l2 =
  let r := (l1 - l2) / (l1 + l2) in
  (2 + 2 / 3 * (r * r) + 2 / 5 * (r * r * r * r) + 2 / 7 * (r * r * r * r * r * r) + 2 / 9 * (r * r * r * r * r * r * r * r)) / (l1 + l2).
Proof. intros H. tnum. field. exact H. Qed.

(* ---------- (d) soundness of the result checkers ---------- *)
Local Open Scope Q_scope.
Definition entry_close (tol : Q) (x y : Q) : Prop := Qabs (x - y) <= tol.
Lemma leQ_true x y : leQ x y = true -> x <= y.
Proof. unfold leQ. apply Qle_bool_iff. Qed.
Lemma close_row_sound a b tol : close_row a b tol = true -> Forall2 (entry_close tol) a b.
Proof.
  revert b. induction a as [|x a IH]; intros [|y b] H; simpl in H; try discriminate; constructor.
  - apply andb_true_iff in H. apply leQ_true. apply H.
  - apply IH. apply andb_true_iff in H. apply H.
Qed.
Theorem close_sound A B tol : close A B tol = true -> Forall2 (Forall2 (entry_close tol)) A B.
Proof.
  revert B. induction A as [|r A IH]; intros [|s B] H; simpl in H; try discriminate; constructor.
  - apply close_row_sound. apply andb_true_iff in H. apply H.
  - apply IH. apply andb_true_iff in H. apply H.
Qed.
Lemma sortedQ_sound l : sortedQ l = true -> forall i, (S i < length l)%nat -> nth i l 0 <= nth (S i) l 0.
Proof.
  induction l as [|x [|y r] IH]; intros H i Hi; simpl in Hi; try (exfalso; inversion Hi; fail).
  - exfalso. apply PeanoNat.Nat.succ_lt_mono in Hi. inversion Hi.
  - change (sortedQ (x :: y :: r)) with (leQ x y && sortedQ (y :: r))%bool in H. apply andb_true_iff in H. destruct H as [H1 H2].
    destruct i as [|i]; [apply leQ_true; exact H1|].
    change (nth (S i) (x :: y :: r) 0) with (nth i (y :: r) 0). change (nth (S (S i)) (x :: y :: r) 0) with (nth (S i) (y :: r) 0).
    apply IH; [exact H2|]. simpl. simpl in Hi. apply PeanoNat.Nat.succ_lt_mono. exact Hi.
Qed.
Theorem check_eig_sound A lam V tol : check_eig A lam V tol = true ->
  Forall2 (Forall2 (entry_close (tol * norm_inf A))) (mmulQ (mmulQ V (diagQ lam)) (transposeQ V)) A
  /\ Forall2 (Forall2 (entry_close tol)) (mmulQ (transposeQ V) V) (identQ (length V))
  /\ (forall i, (S i < length lam)%nat -> nth i lam 0 <= nth (S i) lam 0).
Proof.
  unfold check_eig. intros H. apply andb_true_iff in H. destruct H as [H H3]. apply andb_true_iff in H. destruct H as [H1 H2].
  split; [apply close_sound; exact H1|]. split; [apply close_sound; exact H2|]. apply sortedQ_sound. exact H3.
Qed.
Theorem check_prod_sound X Y Z tol : check_prod X Y Z tol = true -> Forall2 (Forall2 (entry_close tol)) (mmulQ X Y) Z.
Proof. apply close_sound. Qed.
Theorem check_equivariant_sound fQAQ Qm fA tol : check_equivariant fQAQ Qm fA tol = true ->
  Forall2 (Forall2 (entry_close tol)) fQAQ (mmulQ (mmulQ (transposeQ Qm) fA) Qm).
Proof. apply close_sound. Qed.
Theorem check_sylvester_sound S L D tol : check_sylvester S L D tol = true ->
  Forall2 (Forall2 (entry_close tol)) (maddQ (mmulQ S L) (mmulQ L S)) D.
Proof. apply close_sound. Qed.
Theorem check_inverse_jvp_sound A L D tol : check_inverse_jvp A L D tol = true ->
  Forall2 (Forall2 (entry_close tol)) (mmulQ (mmulQ A L) A) (mscalQ (-1) D).
Proof. apply close_sound. Qed.
Theorem check_symmetric_sound A tol : check_symmetric A tol = true -> Forall2 (Forall2 (entry_close tol)) A (transposeQ A).
Proof. apply close_sound. Qed.
(* the checkers are not vacuous: an exact decomposition passes, a wrong one fails *)
Example check_eig_accepts : check_eig [[2; 0; 0]; [0; 3; 0]; [0; 0; 5]] [2; 3; 5] (identQ 3) 0 = true.
Proof. vm_compute. reflexivity. Qed.
Example check_eig_rejects : check_eig [[2; 1; 0]; [1; 3; 0]; [0; 0; 5]] [2; 3; 5] (identQ 3) (1 # 10) = false.
Proof. vm_compute. reflexivity. Qed.
Example transpose_mmul_example : mmulQ [[1; 2]; [3; 4]] (transposeQ [[1; 2]; [3; 4]]) = [[5; 11]; [11; 25]].
Proof. vm_compute. reflexivity. Qed.
