(* C02: lemmas about the COO assembly model and the per-block scatter loops (model/M_C02_Assembly.v). *)
From Coq Require Import ZArith List Bool Arith Lia Permutation.
From Coq Require Import ZifyBool.
From OV.model Require Import M_C14_Dof M_C02_Assembly.
From OV.proofs Require Import L_C14.
Import ListNotations.

(* ------------------------------------------------------------------ generic list facts *)
Lemma combine_map_fst_snd {A B C} (f : A -> C) (F : list (A * B)) :
  combine (map f (map fst F)) (map snd F) = map (fun pv => (f (fst pv), snd pv)) F.
Proof. induction F as [|[a b] F IH]; simpl; auto. rewrite IH; reflexivity. Qed.

Lemma filter_fst_combine {A B} (P : A -> bool) (l : list A) (vs : list B) :
  length l = length vs -> filter P l = map fst (filter (fun pv => P (fst pv)) (combine l vs)).
Proof.
  revert vs; induction l as [|a l IH]; intros [|v vs] H; simpl in *; try discriminate; auto.
  destruct (P a); simpl; rewrite (IH vs) by lia; reflexivity.
Qed.

Section Entries.
  Context {V : Type} (vzero : V) (vadd : V -> V -> V).
  Variable isBc : list bool.
  Variable dim : nat.

  Definition blocks_ok (conns : list (list nat)) (kvals : list (list V)) : Prop :=
    Forall2 (fun en ke => length ke = length (el_pairs dim en)) conns kvals.

  (* one element: the stored triples are the both-unknown block entries with their (transposed) coordinates *)
  Lemma el_coo en (ke : list V) : el_in_range isBc dim en -> length ke = length (el_pairs dim en) ->
    combine (combine (el_rows isBc dim en) (el_cols isBc dim en)) (mask_select (el_mask isBc dim en) ke)
    = map (fun pv => (el_coord isBc dim en (fst pv), snd pv))
          (filter (fun pv => el_both_unknown isBc dim en (fst pv)) (combine (el_pairs dim en) ke)).
  Proof.
    intros Hr Hl. rewrite el_coords_spec by assumption. rewrite el_mask_selects_values by assumption.
    unfold el_selected. rewrite (filter_fst_combine _ _ ke) by (symmetry; assumption).
    apply combine_map_fst_snd.
  Qed.

  Lemma coo_as_filter conns (kvals : list (list V)) :
    Forall (el_in_range isBc dim) conns -> blocks_ok conns kvals ->
    coo_triples isBc dim conns kvals
    = map (fun xv => (el_coord isBc dim (fst (fst xv)) (snd (fst xv)), snd xv))
          (filter (fun xv => el_both_unknown isBc dim (fst (fst xv)) (snd (fst xv))) (all_entries dim conns kvals)).
  Proof.
    intros HR HB. unfold coo_triples, masked_values, HessRowCoords, HessColCoords, hessian_bc_mask, all_entries.
    induction HB as [|en ke conns kvals Hl HB IH]; simpl; auto.
    inversion HR as [|? ? Hen HR']; subst.
    rewrite combine_app' by (apply el_rows_cols_length).
    rewrite mask_select_app by (rewrite el_mask_length by assumption; symmetry; assumption).
    rewrite combine_app'.
    - rewrite filter_app, map_app. rewrite IH by assumption. f_equal.
      rewrite el_coo by assumption.
      rewrite filter_map_comm, map_map. reflexivity.
    - rewrite combine_length, <- el_rows_cols_length, Nat.min_id.
      destruct (el_lengths isBc dim en Hen) as (L1 & _ & _). rewrite L1.
      symmetry. apply mask_select_length. rewrite el_mask_length by assumption. symmetry; assumption.
  Qed.

  Lemma dense_map_filter {X} (g : X -> Z * Z) (P : X -> bool) (l : list (X * V)) i j :
    dense vzero vadd (map (fun xv => (g (fst xv), snd xv)) (filter (fun xv => P (fst xv)) l)) i j
    = sum_where vzero vadd (fun x => P x && (fst (g x) =? i)%Z && (snd (g x) =? j)%Z) l.
  Proof.
    unfold dense, sum_where. induction l as [|[x v] l IH]; simpl; auto.
    destruct (P x); simpl; rewrite IH; reflexivity.
  Qed.

  (* T1: every entry of the assembled matrix, duplicates summed *)
  Lemma assembly_entries conns kvals i j :
    Forall (el_in_range isBc dim) conns -> blocks_ok conns kvals ->
    dense vzero vadd (coo_triples isBc dim conns kvals) i j
    = sum_where vzero vadd (lands_at isBc dim i j) (all_entries dim conns kvals).
  Proof.
    intros HR HB. rewrite coo_as_filter by assumption.
    rewrite (dense_map_filter (fun x => el_coord isBc dim (fst x) (snd x)) (fun x => el_both_unknown isBc dim (fst x) (snd x))).
    reflexivity.
  Qed.

  Lemma sum_where_ext_in {X} (P Q : X -> bool) (l : list (X * V)) :
    (forall x v, In (x, v) l -> P x = Q x) -> sum_where vzero vadd P l = sum_where vzero vadd Q l.
  Proof.
    unfold sum_where. induction l as [|[x v] l IH]; simpl; intros H; auto.
    rewrite (H x v) by (left; reflexivity). rewrite IH by (intros; eapply H; right; eassumption). reflexivity.
  Qed.

  Lemma In_all_entries conns (kvals : list (list V)) en a b (v : V) :
    In ((en, (a, b)), v) (all_entries dim conns kvals) ->
    In en conns /\ a < length (el_dofs dim en) /\ b < length (el_dofs dim en).
  Proof.
    unfold all_entries. rewrite in_flat_map. intros ([en' ke] & Hek & Hin).
    apply in_map_iff in Hin. destruct Hin as ([[a' b'] v'] & E & Hin). simpl in E. inversion E; subst.
    apply in_combine_l in Hek. apply in_combine_l in Hin. unfold el_pairs in Hin. cbv zeta in Hin. simpl fst in *.
    apply in_prod_iff in Hin. destruct Hin as [H1 H2]. apply in_seq in H1. apply in_seq in H2.
    repeat split; auto; lia.
  Qed.

  (* T2: the reduced matrix is the restriction of the global (transposed) scatter to the unknown dofs:
     K[i, j] = G[unknownIndices[i], unknownIndices[j]] *)
  Lemma assembly_is_restriction conns kvals i j :
    Forall (el_in_range isBc dim) conns -> blocks_ok conns kvals ->
    i < get_unknown_size isBc -> j < get_unknown_size isBc ->
    dense vzero vadd (coo_triples isBc dim conns kvals) (Z.of_nat i) (Z.of_nat j)
    = sum_where vzero vadd (scatters_to dim (nth i (unknownIndices isBc) 0) (nth j (unknownIndices isBc) 0))
                (all_entries dim conns kvals).
  Proof.
    intros HR HB Hi Hj. rewrite assembly_entries by assumption.
    apply sum_where_ext_in. intros [en [a b]] v Hin.
    apply In_all_entries in Hin. destruct Hin as (Hen & Ha & Hb).
    rewrite Forall_forall in HR. specialize (HR _ Hen). unfold el_in_range in HR. rewrite Forall_forall in HR.
    assert (Ra : nth a (el_dofs dim en) 0 < length isBc) by (apply HR, nth_In; assumption).
    assert (Rb : nth b (el_dofs dim en) 0 < length isBc) by (apply HR, nth_In; assumption).
    unfold lands_at, scatters_to, el_both_unknown, el_coord; simpl.
    set (da := nth a (el_dofs dim en) 0) in *. set (db := nth b (el_dofs dim en) 0) in *.
    rewrite <- length_unknownIndices in Hi, Hj.
    assert (K : forall d k, d < length isBc -> k < length (unknownIndices isBc) ->
               (is_unknown isBc d && (unk isBc d =? Z.of_nat k)%Z) = (d =? nth k (unknownIndices isBc) 0)).
    { intros d k Hd Hk. rewrite is_unknown_in_range by assumption.
      destruct (Nat.eqb_spec d (nth k (unknownIndices isBc) 0)) as [E|NE].
      - assert (Hin : In d (unknownIndices isBc)) by (rewrite E; apply nth_In; assumption).
        apply In_unknownIndices in Hin. destruct Hin as [_ Hb']. rewrite Hb'. simpl.
        rewrite E, unk_inverse_right by assumption. apply Z.eqb_refl.
      - destruct (is_bc isBc d) eqn:Eb; simpl; auto.
        destruct (unk_inverse_left isBc d Hd Eb) as (k' & U1 & U2 & U3).
        rewrite U1. destruct (Z.eqb_spec (Z.of_nat k') (Z.of_nat k)) as [E'|]; auto.
        apply Nat2Z.inj in E'. subst k'. congruence. }
    rewrite <- (K db i Rb Hi), <- (K da j Ra Hj).
    destruct (is_unknown isBc da), (is_unknown isBc db); simpl; auto using andb_false_r.
  Qed.
End Entries.
