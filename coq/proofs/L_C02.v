(* C02: lemmas about the COO assembly model and the per-block scatter loops (model/M_C02_Assembly.v). *)
From Coq Require Import ZArith List Bool Arith Lia Permutation.
From Coq Require Import ZifyBool.
From OV.model Require Import M_C14_Dof M_C02_Assembly.
From OV.proofs Require Import L_C14.
Import ListNotations.

(* ------------------------------------------------------------------ generic list facts *)
Lemma combine_map_fst_snd {A B C} (f : A -> C) (F : list (A * B)) :
  combine (map f (map fst F)) (map snd F) = map (fun pv => (f (fst pv), snd pv)) F.
Proof. induction F as [|[a b] F IH]; simpl; auto. rewrite IH; reflexivity. Qed.

Lemma filter_fst_combine {A B} (P : A -> bool) (l : list A) (vs : list B) :
  length l = length vs -> filter P l = map fst (filter (fun pv => P (fst pv)) (combine l vs)).
Proof.
  revert vs; induction l as [|a l IH]; intros [|v vs] H; simpl in *; try discriminate; auto.
  destruct (P a); simpl; rewrite (IH vs) by lia; reflexivity.
Qed.

Lemma Forall2_len {A B} (R : A -> B -> Prop) l l' : Forall2 R l l' -> length l = length l'.
Proof. induction 1; simpl; auto. Qed.

Section Entries.
  Context {V : Type} (vzero : V) (vadd : V -> V -> V).
  Variable isBc : list bool.
  Variable dim : nat.

  Definition blocks_ok (conns : list (list nat)) (kvals : list (list V)) : Prop :=
    Forall2 (fun en ke => length ke = length (el_pairs dim en)) conns kvals.

  (* one element: the stored triples are the both-unknown block entries with their (transposed) coordinates *)
  Lemma el_coo en (ke : list V) : el_in_range isBc dim en -> length ke = length (el_pairs dim en) ->
    combine (combine (el_rows isBc dim en) (el_cols isBc dim en)) (mask_select (el_mask isBc dim en) ke)
    = map (fun pv => (el_coord isBc dim en (fst pv), snd pv))
          (filter (fun pv => el_both_unknown isBc dim en (fst pv)) (combine (el_pairs dim en) ke)).
  Proof.
    intros Hr Hl. rewrite el_coords_spec by assumption. rewrite el_mask_selects_values by assumption.
    unfold el_selected. rewrite (filter_fst_combine _ _ ke) by (symmetry; assumption).
    apply combine_map_fst_snd.
  Qed.

  Lemma coo_as_filter conns (kvals : list (list V)) :
    Forall (el_in_range isBc dim) conns -> blocks_ok conns kvals ->
    coo_triples isBc dim conns kvals
    = map (fun xv => (el_coord isBc dim (fst (fst xv)) (snd (fst xv)), snd xv))
          (filter (fun xv => el_both_unknown isBc dim (fst (fst xv)) (snd (fst xv))) (all_entries dim conns kvals)).
  Proof.
    intros HR HB. unfold coo_triples, masked_values, HessRowCoords, HessColCoords, hessian_bc_mask, all_entries.
    induction HB as [|en ke conns kvals Hl HB IH]; simpl; auto.
    inversion HR as [|? ? Hen HR']; subst.
    rewrite combine_app' by (apply el_rows_cols_length).
    rewrite mask_select_app by (rewrite el_mask_length by assumption; symmetry; assumption).
    rewrite combine_app'.
    - rewrite filter_app, map_app. rewrite IH by assumption. f_equal.
      rewrite el_coo by assumption.
      rewrite filter_map_comm, map_map. reflexivity.
    - rewrite combine_length, <- el_rows_cols_length, Nat.min_id.
      destruct (el_lengths isBc dim en Hen) as (L1 & _ & _). rewrite L1.
      symmetry. apply mask_select_length. rewrite el_mask_length by assumption. symmetry; assumption.
  Qed.

  Lemma dense_map_filter {X} (g : X -> Z * Z) (P : X -> bool) (l : list (X * V)) i j :
    dense vzero vadd (map (fun xv => (g (fst xv), snd xv)) (filter (fun xv => P (fst xv)) l)) i j
    = sum_where vzero vadd (fun x => P x && (fst (g x) =? i)%Z && (snd (g x) =? j)%Z) l.
  Proof.
    unfold dense, sum_where. induction l as [|[x v] l IH]; simpl; auto.
    destruct (P x); simpl; rewrite IH; reflexivity.
  Qed.

  (* T1: every entry of the assembled matrix, duplicates summed *)
  Lemma assembly_entries conns kvals i j :
    Forall (el_in_range isBc dim) conns -> blocks_ok conns kvals ->
    dense vzero vadd (coo_triples isBc dim conns kvals) i j
    = sum_where vzero vadd (lands_at isBc dim i j) (all_entries dim conns kvals).
  Proof.
    intros HR HB. rewrite coo_as_filter by assumption.
    rewrite (dense_map_filter (fun x => el_coord isBc dim (fst x) (snd x)) (fun x => el_both_unknown isBc dim (fst x) (snd x))).
    reflexivity.
  Qed.

  Lemma sum_where_ext_in {X} (P Q : X -> bool) (l : list (X * V)) :
    (forall x v, In (x, v) l -> P x = Q x) -> sum_where vzero vadd P l = sum_where vzero vadd Q l.
  Proof.
    unfold sum_where. induction l as [|[x v] l IH]; simpl; intros H; auto.
    rewrite (H x v) by (left; reflexivity). rewrite IH by (intros; eapply H; right; eassumption). reflexivity.
  Qed.

  Lemma In_all_entries conns (kvals : list (list V)) en a b (v : V) :
    In ((en, (a, b)), v) (all_entries dim conns kvals) ->
    In en conns /\ a < length (el_dofs dim en) /\ b < length (el_dofs dim en).
  Proof.
    unfold all_entries. rewrite in_flat_map. intros ([en' ke] & Hek & Hin).
    apply in_map_iff in Hin. destruct Hin as ([[a' b'] v'] & E & Hin). simpl in E. inversion E; subst.
    apply in_combine_l in Hek. apply in_combine_l in Hin. unfold el_pairs in Hin. cbv zeta in Hin. simpl fst in *.
    apply in_prod_iff in Hin. destruct Hin as [H1 H2]. apply in_seq in H1. apply in_seq in H2.
    repeat split; auto; lia.
  Qed.

  (* T2: the reduced matrix is the restriction of the global (transposed) scatter to the unknown dofs:
     K[i, j] = G[unknownIndices[i], unknownIndices[j]] *)
  Lemma assembly_is_restriction conns kvals i j :
    Forall (el_in_range isBc dim) conns -> blocks_ok conns kvals ->
    i < get_unknown_size isBc -> j < get_unknown_size isBc ->
    dense vzero vadd (coo_triples isBc dim conns kvals) (Z.of_nat i) (Z.of_nat j)
    = sum_where vzero vadd (scatters_to dim (nth i (unknownIndices isBc) 0) (nth j (unknownIndices isBc) 0))
                (all_entries dim conns kvals).
  Proof.
    intros HR HB Hi Hj. rewrite assembly_entries by assumption.
    apply sum_where_ext_in. intros [en [a b]] v Hin.
    apply In_all_entries in Hin. destruct Hin as (Hen & Ha & Hb).
    rewrite Forall_forall in HR. specialize (HR _ Hen). unfold el_in_range in HR. rewrite Forall_forall in HR.
    assert (Ra : nth a (el_dofs dim en) 0 < length isBc) by (apply HR, nth_In; assumption).
    assert (Rb : nth b (el_dofs dim en) 0 < length isBc) by (apply HR, nth_In; assumption).
    unfold lands_at, scatters_to, el_both_unknown, el_coord; simpl.
    set (da := nth a (el_dofs dim en) 0) in *. set (db := nth b (el_dofs dim en) 0) in *.
    rewrite <- length_unknownIndices in Hi, Hj.
    assert (K : forall d k, d < length isBc -> k < length (unknownIndices isBc) ->
               (is_unknown isBc d && (unk isBc d =? Z.of_nat k)%Z) = (d =? nth k (unknownIndices isBc) 0)).
    { intros d k Hd Hk. rewrite is_unknown_in_range by assumption.
      destruct (Nat.eqb_spec d (nth k (unknownIndices isBc) 0)) as [E|NE].
      - assert (Hin : In d (unknownIndices isBc)) by (rewrite E; apply nth_In; assumption).
        apply In_unknownIndices in Hin. destruct Hin as [_ Hb']. rewrite Hb'. simpl.
        rewrite E, unk_inverse_right by assumption. apply Z.eqb_refl.
      - destruct (is_bc isBc d) eqn:Eb; simpl; auto.
        destruct (unk_inverse_left isBc d Hd Eb) as (k' & U1 & U2 & U3).
        rewrite U1. destruct (Z.eqb_spec (Z.of_nat k') (Z.of_nat k)) as [E'|]; auto.
        apply Nat2Z.inj in E'. subst k'. congruence. }
    rewrite <- (K db i Rb Hi), <- (K da j Ra Hj).
    destruct (is_unknown isBc da), (is_unknown isBc db); simpl; auto using andb_false_r.
  Qed.
End Entries.

(* ------------------------------------------------------------------ symmetry (commutative monoid of values) *)
Section CMon.
  Context {V : Type} (vzero : V) (vadd : V -> V -> V).
  Hypothesis vadd_comm : forall x y, vadd x y = vadd y x.
  Hypothesis vadd_assoc : forall x y z, vadd x (vadd y z) = vadd (vadd x y) z.
  Hypothesis vadd_0_l : forall x, vadd vzero x = x.

  Definition msum (l : list V) : V := fold_right vadd vzero l.

  Lemma msum_app l1 l2 : msum (l1 ++ l2) = vadd (msum l1) (msum l2).
  Proof. induction l1; simpl; [symmetry; apply vadd_0_l|rewrite IHl1; apply vadd_assoc]. Qed.

  Lemma msum_flat_map {A} (g : A -> list V) l : msum (flat_map g l) = msum (map (fun a => msum (g a)) l).
  Proof. induction l; simpl; auto. rewrite msum_app, IHl; reflexivity. Qed.

  Lemma msum_map_add {A} (F G : A -> V) Y :
    msum (map (fun b => vadd (F b) (G b)) Y) = vadd (msum (map F Y)) (msum (map G Y)).
  Proof.
    induction Y as [|b Y IH]; simpl; [symmetry; apply vadd_0_l|]. rewrite IH.
    rewrite !vadd_assoc. f_equal. rewrite <- !vadd_assoc. f_equal. apply vadd_comm.
  Qed.

  Lemma msum_zero {A} (Y : list A) : msum (map (fun _ => vzero) Y) = vzero.
  Proof. induction Y; simpl; auto. rewrite IHY; apply vadd_0_l. Qed.

  Lemma msum_swap {A B} (F : A -> B -> V) X Y :
    msum (map (fun a => msum (map (F a) Y)) X) = msum (map (fun b => msum (map (fun a => F a b) X)) Y).
  Proof.
    induction X as [|a X IH]; simpl; [symmetry; apply msum_zero|].
    rewrite IH, <- msum_map_add. reflexivity.
  Qed.

  Lemma msum_list_prod_swap {A B} (h : A -> B -> V) X Y :
    msum (map (fun ab => h (fst ab) (snd ab)) (list_prod X Y)) = msum (map (fun ba => h (snd ba) (fst ba)) (list_prod Y X)).
  Proof.
    rewrite !map_list_prod, !msum_flat_map. simpl. apply msum_swap.
  Qed.

  Lemma sum_where_msum {X} (P : X -> bool) (l : list (X * V)) :
    sum_where vzero vadd P l = msum (map (fun xv => if P (fst xv) then snd xv else vzero) l).
  Proof.
    unfold sum_where. induction l as [|[x v] l IH]; simpl; auto.
    rewrite IH. destruct (P x); [reflexivity|symmetry; apply vadd_0_l].
  Qed.

  Lemma sum_where_app {X} (P : X -> bool) (l1 l2 : list (X * V)) :
    sum_where vzero vadd P (l1 ++ l2) = vadd (sum_where vzero vadd P l1) (sum_where vzero vadd P l2).
  Proof. rewrite !sum_where_msum, map_app. apply msum_app. Qed.

  (* one symmetric block: re-indexing the selection by (b, a) does not change the selected sum *)
  Lemma el_sym (K : nat -> nat -> V) X (f : nat * nat -> bool) :
    (forall a b, In a X -> In b X -> K a b = K b a) ->
    msum (map (fun ab => if f ab then K (fst ab) (snd ab) else vzero) (list_prod X X))
    = msum (map (fun ab => if f (snd ab, fst ab) then K (fst ab) (snd ab) else vzero) (list_prod X X)).
  Proof.
    intros Hs. set (h := fun a b => if f (a, b) then K a b else vzero).
    transitivity (msum (map (fun ab => h (fst ab) (snd ab)) (list_prod X X))).
    { f_equal. apply map_ext. intros [a b]. reflexivity. }
    rewrite msum_list_prod_swap. f_equal. apply map_ext_in. intros [x y] Hin.
    apply in_prod_iff in Hin. destruct Hin as [Hx Hy]. unfold h. simpl.
    rewrite (Hs y x) by assumption. reflexivity.
  Qed.

  Variable isBc : list bool.
  Variable dim : nat.

  (* element matrices given as functions of the local indices; kvals is their row-major flattening *)
  Definition kvals_of (conns : list (list nat)) (Ks : list (nat -> nat -> V)) : list (list V) :=
    map (fun eK => map (fun ab => snd eK (fst ab) (snd ab)) (el_pairs dim (fst eK))) (combine conns Ks).

  Definition blocks_symmetric (conns : list (list nat)) (Ks : list (nat -> nat -> V)) : Prop :=
    Forall2 (fun en K => forall a b, a < length (el_dofs dim en) -> b < length (el_dofs dim en) -> K a b = K b a) conns Ks.

  Lemma kvals_of_ok conns Ks : length conns = length Ks -> blocks_ok dim conns (kvals_of conns Ks).
  Proof.
    unfold blocks_ok, kvals_of. revert Ks; induction conns as [|en conns IH]; intros [|K Ks] H; simpl in *; try discriminate; constructor.
    - rewrite map_length; reflexivity.
    - apply IH; lia.
  Qed.

  Lemma combine_map_r {A B} (G : A -> B) l : combine l (map G l) = map (fun a => (a, G a)) l.
  Proof. induction l; simpl; auto. rewrite IHl; reflexivity. Qed.

  Lemma all_entries_of conns Ks : length conns = length Ks ->
    all_entries dim conns (kvals_of conns Ks)
    = flat_map (fun eK => map (fun ab => ((fst eK, ab), snd eK (fst ab) (snd ab))) (el_pairs dim (fst eK))) (combine conns Ks).
  Proof.
    unfold all_entries, kvals_of. revert Ks; induction conns as [|en conns IH]; intros [|K Ks] H; simpl in *; try discriminate; auto.
    rewrite IH by lia. f_equal. rewrite combine_map_r, map_map. reflexivity.
  Qed.

  Lemma sum_where_sym_swap conns Ks (f : list nat -> nat * nat -> bool) :
    blocks_symmetric conns Ks ->
    sum_where vzero vadd (fun x => f (fst x) (snd x)) (all_entries dim conns (kvals_of conns Ks))
    = sum_where vzero vadd (fun x => f (fst x) (snd (snd x), fst (snd x))) (all_entries dim conns (kvals_of conns Ks)).
  Proof.
    intros HS. assert (HL : length conns = length Ks) by (eapply Forall2_len; eassumption).
    rewrite all_entries_of by assumption. clear HL.
    induction HS as [|en K conns Ks Hs HS IH]; simpl; auto.
    rewrite !sum_where_app, IH. f_equal.
    rewrite !sum_where_msum, !map_map. simpl.
    unfold el_pairs. cbv zeta.
    apply (el_sym K (seq 0 (length (el_dofs dim en))) (fun ab => f en ab)).
    intros a b Ha Hb. apply in_seq in Ha. apply in_seq in Hb. apply Hs; lia.
  Qed.

  (* T3: symmetric element blocks give a symmetric assembled matrix *)
  Lemma assembly_symmetric conns Ks i j :
    Forall (el_in_range isBc dim) conns -> blocks_symmetric conns Ks ->
    dense vzero vadd (coo_triples isBc dim conns (kvals_of conns Ks)) i j
    = dense vzero vadd (coo_triples isBc dim conns (kvals_of conns Ks)) j i.
  Proof.
    intros HR HS. assert (HL : length conns = length Ks) by (eapply Forall2_len; eassumption).
    rewrite !assembly_entries by (auto using kvals_of_ok).
    pose proof (sum_where_sym_swap conns Ks (fun en ab => lands_at isBc dim i j (en, ab)) HS) as E.
    etransitivity; [|etransitivity; [exact E|]]; apply sum_where_ext_in; intros [en [a b]] v _; [reflexivity|].
    unfold lands_at, el_both_unknown, el_coord. simpl.
    destruct (is_unknown isBc (nth a (el_dofs dim en) 0)), (is_unknown isBc (nth b (el_dofs dim en) 0)); simpl; auto.
    apply andb_comm.
  Qed.

  (* T3': with symmetric blocks the transposition is invisible: the reduced matrix is also the restriction of the
     straight scatter  P^T (sum_e G_e^T K_e G_e) P *)
  Lemma assembly_is_PtKP conns Ks i j :
    Forall (el_in_range isBc dim) conns -> blocks_symmetric conns Ks ->
    i < get_unknown_size isBc -> j < get_unknown_size isBc ->
    dense vzero vadd (coo_triples isBc dim conns (kvals_of conns Ks)) (Z.of_nat i) (Z.of_nat j)
    = sum_where vzero vadd (scatters_to_straight dim (nth i (unknownIndices isBc) 0) (nth j (unknownIndices isBc) 0))
                (all_entries dim conns (kvals_of conns Ks)).
  Proof.
    intros HR HS Hi Hj. assert (HL : length conns = length Ks) by (eapply Forall2_len; eassumption).
    rewrite assembly_is_restriction by (auto using kvals_of_ok).
    pose proof (sum_where_sym_swap conns Ks
               (fun en ab => scatters_to dim (nth i (unknownIndices isBc) 0) (nth j (unknownIndices isBc) 0) (en, ab)) HS) as E.
    etransitivity; [|etransitivity; [exact E|]]; apply sum_where_ext_in; intros [en [a b]] v _; reflexivity.
  Qed.
End CMon.

(* ------------------------------------------------------------------ per-block scatter loops *)
Section BlockScatter.
  Context {W : Type}.

  Lemma scatter_map_spec (f : nat -> W) ids : forall acc,
    length (scatter acc ids (map f ids)) = length acc
    /\ forall e d, nth e (scatter acc ids (map f ids)) d
                   = if existsb (Nat.eqb e) ids && (e <? length acc) then f e else nth e acc d.
  Proof.
    unfold scatter. induction ids as [|i ids IH]; intros acc; simpl.
    - split; auto.
    - destruct (IH (set_nth i (f i) acc)) as [L S]. rewrite set_nth_length in *. split; [assumption|].
      intros e d. rewrite S. destruct (Nat.eqb_spec e i) as [->|NE]; simpl.
      + destruct (Nat.ltb_spec i (length acc)) as [Hlt|Hge]; rewrite ?andb_true_r, ?andb_false_r.
        * rewrite nth_set_nth_eq by assumption. destruct (existsb (Nat.eqb i) ids); reflexivity.
        * rewrite !nth_overflow by (rewrite ?set_nth_length; assumption). reflexivity.
      + rewrite nth_set_nth_neq by assumption. reflexivity.
  Qed.

  (* after the loop over all blocks every covered element holds f(e); uncovered ones keep the base value *)
  Lemma multi_block_scatter_spec (f : nat -> W) blocks : forall base,
    length (multi_block_scatter f blocks base) = length base
    /\ forall e d, nth e (multi_block_scatter f blocks base) d
                   = if existsb (fun ids => existsb (Nat.eqb e) ids) blocks && (e <? length base) then f e else nth e base d.
  Proof.
    unfold multi_block_scatter. induction blocks as [|ids blocks IH]; intros base; simpl.
    - split; auto.
    - destruct (IH (scatter base ids (map f ids))) as [L S].
      destruct (scatter_map_spec f ids base) as [L0 S0]. rewrite L0 in *. split; [assumption|].
      intros e d. rewrite S, S0.
      destruct (existsb (Nat.eqb e) ids), (existsb (fun ids0 => existsb (Nat.eqb e) ids0) blocks), (e <? length base); reflexivity.
  Qed.

  Definition covers (nElements : nat) (blocks : list (list nat)) : Prop :=
    forall e, e < nElements -> exists ids, In ids blocks /\ In e ids.

  (* blocks that cover 0..ne-1 (overlaps and any order allowed) reproduce the unblocked per-element array *)
  Lemma multi_block_scatter_full (f : nat -> W) blocks base :
    covers (length base) blocks -> multi_block_scatter f blocks base = map f (seq 0 (length base)).
  Proof.
    intros HC. destruct (multi_block_scatter_spec f blocks base) as [L S].
    destruct base as [|w0 base'] eqn:Eb.
    { destruct (multi_block_scatter f blocks []); simpl in *; [reflexivity|discriminate]. }
    rewrite <- Eb in *. apply (nth_ext _ _ w0 (f 0)).
    - rewrite L, map_length, seq_length. reflexivity.
    - intros e He. rewrite L in He. rewrite S.
      assert (Hex : existsb (fun ids => existsb (Nat.eqb e) ids) blocks = true).
      { destruct (HC e He) as (ids & H1 & H2). apply existsb_exists. exists ids. split; auto.
        apply existsb_exists. exists e. split; auto. apply Nat.eqb_refl. }
      rewrite Hex. replace (e <? length base) with true by (symmetry; apply Nat.ltb_lt; assumption). simpl.
      rewrite (map_nth f (seq 0 (length base)) 0 e). rewrite seq_nth by assumption. reflexivity.
  Qed.
End BlockScatter.

Section BlockEnergy.
  Context {V : Type} (vzero : V) (vadd : V -> V -> V).
  Hypothesis vadd_comm : forall x y, vadd x y = vadd y x.
  Hypothesis vadd_assoc : forall x y z, vadd x (vadd y z) = vadd (vadd x y) z.
  Hypothesis vadd_0_l : forall x, vadd vzero x = x.

  Lemma msum_perm l l' : Permutation l l' -> msum vzero vadd l = msum vzero vadd l'.
  Proof.
    induction 1; simpl; auto; try congruence.
  Qed.

  Lemma multi_block_energy_concat ee blocks : forall acc,
    fold_left (fun a ids => vadd a (block_energy vzero vadd ee ids)) blocks acc
    = vadd acc (msum vzero vadd (map ee (concat blocks))).
  Proof.
    induction blocks as [|ids blocks IH]; intros acc; simpl.
    - rewrite vadd_comm. symmetry; apply vadd_0_l.
    - rewrite IH. rewrite map_app, (msum_app vzero vadd vadd_assoc vadd_0_l). unfold block_energy, msum.
      rewrite vadd_assoc. reflexivity.
  Qed.

  (* blocks that partition 0..ne-1 (each element exactly once, any order): the multi-block energy is the single-block one *)
  Lemma multi_block_energy_partition ee blocks nElements :
    Permutation (concat blocks) (seq 0 nElements) ->
    multi_block_energy vzero vadd ee blocks = single_block_energy vzero vadd ee nElements.
  Proof.
    intros HP. unfold multi_block_energy, single_block_energy. rewrite multi_block_energy_concat, vadd_0_l.
    unfold block_energy. apply (msum_perm (map ee (concat blocks)) (map ee (seq 0 nElements))).
    apply Permutation_map; assumption.
  Qed.
End BlockEnergy.

(* ------------------------------------------------------------------ the transposition is real: a non-symmetric block *)
(* one 1-node element, 2 fields, no BC, block [[1 2] [3 4]]: the assembled (0,1) entry is K_e[1,0] = 3, not K_e[0,1] = 2 *)
Lemma transposed_witness :
  let isBc := mk_isBc 1 2 [] in
  let t := coo_triples isBc 2 [[0]] [[1; 2; 3; 4]%Z] in
  dense 0%Z Z.add t 0 1 = 3%Z /\ dense 0%Z Z.add t 1 0 = 2%Z
  /\ sum_where 0%Z Z.add (scatters_to_straight 2 0 1) (all_entries 2 [[0]] [[1; 2; 3; 4]%Z]) = 2%Z
  /\ Forall (el_in_range isBc 2) [[0]] /\ blocks_ok 2 [[0]] [[1; 2; 3; 4]%Z].
Proof.
  repeat split; try reflexivity.
  - repeat constructor.
  - repeat constructor.
Qed.

Lemma transposed_refuted :
  exists (isBc : list bool) (dim : nat) (conns : list (list nat)) (kvals : list (list Z)) (i j : nat),
    Forall (el_in_range isBc dim) conns /\ blocks_ok dim conns kvals
    /\ i < get_unknown_size isBc /\ j < get_unknown_size isBc
    /\ dense 0%Z Z.add (coo_triples isBc dim conns kvals) (Z.of_nat i) (Z.of_nat j)
       <> sum_where 0%Z Z.add (scatters_to_straight dim (nth i (unknownIndices isBc) 0) (nth j (unknownIndices isBc) 0))
                    (all_entries dim conns kvals).
Proof.
  exists (mk_isBc 1 2 []), 2, [[0]], [[1; 2; 3; 4]%Z], 0, 1.
  destruct transposed_witness as (H1 & H2 & H3 & H4 & H5).
  repeat split; auto; try (vm_compute; lia).
Qed.

(* non-vacuity of the hypotheses used above: a two-element mesh with BCs, symmetric integer blocks, two blocks covering it *)
Definition ex_Ks : list (nat -> nat -> Z) := [(fun a b => Z.of_nat (a + b + a * b)); (fun a b => Z.of_nat (7 * a * b + 1))].
Lemma c02_nonvacuous :
  Forall (el_in_range ex_isBc 2) ex_conns /\ blocks_symmetric 2 ex_conns ex_Ks
  /\ blocks_ok 2 ex_conns (kvals_of 2 ex_conns ex_Ks)
  /\ covers 2 [[1]; [0]] /\ Permutation (concat [[1]; [0]]) (seq 0 2)
  /\ dense_matrix 0%Z Z.add 5 (coo_triples ex_isBc 2 ex_conns (kvals_of 2 ex_conns ex_Ks))
     = [[3; 5; 7; 11; 0]; [5; 37; 54; 32; 71]; [7; 54; 79; 45; 106]; [11; 32; 45; 43; 36]; [0; 71; 106; 36; 176]]%Z.
Proof.
  split; [apply ex_values|]. split.
  { repeat constructor; intros a b _ _; f_equal; lia. }
  split; [apply kvals_of_ok; reflexivity|]. split.
  { intros e He. destruct e as [|[|e]]; [exists [0]|exists [1]|lia]; simpl; auto. }
  split; [simpl; apply perm_swap|].
  vm_compute. reflexivity.
Qed.

(* ------------------------------------------------------------------ packaged statements (valid connectivity instead of el_in_range) *)
From Coq Require Import Reals.

Lemma assembly_entries_full (V : Type) (vzero : V) (vadd : V -> V -> V) isBc dim nNodes conns (kvals : list (list V)) i j :
  length isBc = nNodes * dim -> valid_conns nNodes conns -> blocks_ok dim conns kvals ->
  dense vzero vadd (coo_triples isBc dim conns kvals) i j
  = sum_where vzero vadd (lands_at isBc dim i j) (all_entries dim conns kvals).
Proof. intros HN HV HB. apply assembly_entries; eauto using valid_conns_in_range. Qed.

Lemma assembly_is_restriction_full (V : Type) (vzero : V) (vadd : V -> V -> V) isBc dim nNodes conns (kvals : list (list V)) i j :
  length isBc = nNodes * dim -> valid_conns nNodes conns -> blocks_ok dim conns kvals ->
  i < get_unknown_size isBc -> j < get_unknown_size isBc ->
  dense vzero vadd (coo_triples isBc dim conns kvals) (Z.of_nat i) (Z.of_nat j)
  = sum_where vzero vadd (scatters_to dim (nth i (unknownIndices isBc) 0) (nth j (unknownIndices isBc) 0))
              (all_entries dim conns kvals).
Proof. intros HN HV HB. apply assembly_is_restriction; eauto using valid_conns_in_range. Qed.

Lemma Rplus_assoc' (x y z : R) : (x + (y + z) = x + y + z)%R.
Proof. symmetry; apply Rplus_assoc. Qed.

Lemma assembly_symmetric_R isBc dim nNodes conns (Ks : list (nat -> nat -> R)) i j :
  length isBc = nNodes * dim -> valid_conns nNodes conns -> blocks_symmetric dim conns Ks ->
  dense 0%R Rplus (coo_triples isBc dim conns (kvals_of dim conns Ks)) i j
  = dense 0%R Rplus (coo_triples isBc dim conns (kvals_of dim conns Ks)) j i.
Proof.
  intros HN HV HS. apply (assembly_symmetric 0%R Rplus Rplus_comm Rplus_assoc' Rplus_0_l); eauto using valid_conns_in_range.
Qed.

Lemma assembly_is_PtKP_R isBc dim nNodes conns (Ks : list (nat -> nat -> R)) i j :
  length isBc = nNodes * dim -> valid_conns nNodes conns -> blocks_symmetric dim conns Ks ->
  i < get_unknown_size isBc -> j < get_unknown_size isBc ->
  dense 0%R Rplus (coo_triples isBc dim conns (kvals_of dim conns Ks)) (Z.of_nat i) (Z.of_nat j)
  = sum_where 0%R Rplus (scatters_to_straight dim (nth i (unknownIndices isBc) 0) (nth j (unknownIndices isBc) 0))
              (all_entries dim conns (kvals_of dim conns Ks)).
Proof.
  intros HN HV HS. apply (assembly_is_PtKP 0%R Rplus Rplus_comm Rplus_assoc' Rplus_0_l); eauto using valid_conns_in_range.
Qed.

(* ------------------------------------------------------------------ gather semantics of evaluate_on_block / integrate_over_block *)
Section GatherProofs.
  Context {V : Type} (vzero : V) (vadd vmul : V -> V -> V).
  Hypothesis vadd_comm : forall x y, vadd x y = vadd y x.
  Hypothesis vadd_assoc : forall x y z, vadd x (vadd y z) = vadd (vadd x y) z.
  Hypothesis vadd_0_l : forall x, vadd vzero x = x.
  Context {E : Type} (edef : E).
  Variables kernel vols : E -> list V.
  (* every element has as many kernel values as quadrature-point volumes (nq) *)
  Hypothesis same_nq : forall e, length (kernel e) = length (vols e).

  Lemma vdot_app a a' c c' : length a = length c ->
    vdot vzero vadd vmul (a ++ a') (c ++ c') = vadd (vdot vzero vadd vmul a c) (vdot vzero vadd vmul a' c').
  Proof.
    intros HL. unfold vdot.
    assert (E1 : combine (a ++ a') (c ++ c') = combine a c ++ combine a' c').
    { revert c HL. induction a as [|x a IH]; intros [|y c] HL; simpl in *; try discriminate; [reflexivity|]. rewrite IH by congruence. reflexivity. }
    rewrite E1, map_app. apply (msum_app vzero vadd vadd_assoc vadd_0_l).
  Qed.

  (* the block integral is the sum, in block order, of the energies of the listed elements: each element's values meet its OWN volumes *)
  Lemma integrate_over_block_sum elems block :
    integrate_over_block vzero vadd vmul edef kernel vols elems block
    = block_energy vzero vadd (element_energy vzero vadd vmul edef kernel vols elems) block.
  Proof.
    unfold integrate_over_block, evaluate_on_block, gather, block_energy, element_energy.
    induction block as [|i block IH]; [reflexivity|].
    cbn [map concat fold_right]. rewrite vdot_app by apply same_nq. rewrite IH. reflexivity.
  Qed.
  (* hence it does not depend on the order in which the block lists its elements ... *)
  Lemma integrate_over_block_perm elems block block' : Permutation block block' ->
    integrate_over_block vzero vadd vmul edef kernel vols elems block
    = integrate_over_block vzero vadd vmul edef kernel vols elems block'.
  Proof.
    intros HP. rewrite !integrate_over_block_sum. unfold block_energy.
    apply (msum_perm vzero vadd vadd_comm vadd_assoc). apply Permutation_map, HP.
  Qed.
  (* ... and blocks that list every element exactly once (any order inside and across blocks) add up to the integral over
     slice(None) *)
  Lemma fold_integrate_eq elems blocks : forall acc,
    fold_left (fun a ids => vadd a (integrate_over_block vzero vadd vmul edef kernel vols elems ids)) blocks acc
    = fold_left (fun a ids => vadd a (block_energy vzero vadd (element_energy vzero vadd vmul edef kernel vols elems) ids)) blocks acc.
  Proof.
    induction blocks as [|ids blocks IH]; intros acc; [reflexivity|].
    cbn [fold_left]. rewrite integrate_over_block_sum. apply IH.
  Qed.
  Lemma integrate_multi_block elems blocks :
    Permutation (concat blocks) (seq 0 (length elems)) ->
    fold_left (fun acc ids => vadd acc (integrate_over_block vzero vadd vmul edef kernel vols elems ids)) blocks vzero
    = integrate_over_block vzero vadd vmul edef kernel vols elems (seq 0 (length elems)).
  Proof.
    intros HP.
    pose proof (multi_block_energy_partition vzero vadd vadd_comm vadd_assoc vadd_0_l
                  (element_energy vzero vadd vmul edef kernel vols elems) blocks (length elems) HP) as H.
    unfold multi_block_energy, single_block_energy in H. rewrite integrate_over_block_sum, <- H. apply fold_integrate_eq.
  Qed.
  (* evaluate_on_block returns, row k, the kernel of element block[k] *)
  Lemma evaluate_on_block_rows elems block k i : nth_error block k = Some i ->
    nth_error (evaluate_on_block edef kernel elems block) k = Some (kernel (nth i elems edef)).
  Proof.
    intros H. unfold evaluate_on_block, gather. rewrite map_map. rewrite nth_error_map, H. reflexivity.
  Qed.
End GatherProofs.

Lemma gather_full :
  forall (E : Type) (edef : E) (kernel vols : E -> list R), (forall e, length (kernel e) = length (vols e)) ->
  (forall elems block,
      integrate_over_block 0%R Rplus Rmult edef kernel vols elems block
      = block_energy 0%R Rplus (element_energy 0%R Rplus Rmult edef kernel vols elems) block)
  /\ (forall elems block block', Permutation block block' ->
      integrate_over_block 0%R Rplus Rmult edef kernel vols elems block
      = integrate_over_block 0%R Rplus Rmult edef kernel vols elems block')
  /\ (forall elems blocks, Permutation (concat blocks) (seq 0 (length elems)) ->
      fold_left (fun acc ids => (acc + integrate_over_block 0%R Rplus Rmult edef kernel vols elems ids)%R) blocks 0%R
      = integrate_over_block 0%R Rplus Rmult edef kernel vols elems (seq 0 (length elems)))
  /\ (forall elems block k i, nth_error block k = Some i ->
      nth_error (evaluate_on_block edef kernel elems block) k = Some (kernel (nth i elems edef))).
Proof.
  intros E edef kernel vols Hnq. repeat split.
  - intros. apply (integrate_over_block_sum 0%R Rplus Rmult Rplus_assoc' Rplus_0_l); assumption.
  - intros. apply (integrate_over_block_perm 0%R Rplus Rmult Rplus_comm Rplus_assoc' Rplus_0_l); assumption.
  - intros. apply (integrate_multi_block 0%R Rplus Rmult Rplus_comm Rplus_assoc' Rplus_0_l); assumption.
  - intros. apply evaluate_on_block_rows; assumption.
Qed.

Lemma blocks_partition_full :
  (* states / element Hessians: blocks that cover all elements (any order, overlaps allowed, same per-element function) *)
  (forall (W : Type) (f : nat -> W) blocks base,
      covers (length base) blocks -> multi_block_scatter f blocks base = map f (seq 0 (length base)))
  (* energies: blocks that contain every element exactly once *)
  /\ (forall (ee : nat -> R) blocks nElements,
      Permutation (concat blocks) (seq 0 nElements) ->
      multi_block_energy 0%R Rplus ee blocks = single_block_energy 0%R Rplus ee nElements).
Proof.
  split.
  - intros; apply multi_block_scatter_full; assumption.
  - intros; apply (multi_block_energy_partition 0%R Rplus Rplus_comm Rplus_assoc' Rplus_0_l); assumption.
Qed.
