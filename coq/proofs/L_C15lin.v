(* C15: LINEARITY of the Newmark update.  The regenerated predict / correct are linear maps of (U, V, A) resp. (UCorrection, V, A)
   for every gamma, beta, dt (no side condition: also for beta = 0 or dt = 0, where Coq's x / 0 = 0 keeps correct linear);
   hence scale invariant: scaling the state by s scales every output by s -- an ABSOLUTE threshold anywhere in these functions
   (e.g. "flush |UCorrection| < 1e-14 to zero") contradicts these theorems.  The whole step / run is linear as soon as the
   minimiser is; for linear elasticity (quadratic strain energy, M positive definite, K >= 0, beta > 0) the stationary point
   of the algorithmic energy is unique, so EVERY oracle returning stationary points is linear and the run commutes with
   scaling and addition of states. *)
From Coq Require Import Reals Lra QArith List FunctionalExtensionality.
From Coquelicot Require Import Coquelicot.
From OV.base Require Import Num.
From OV.gen Require Import Gen_Mechanics.
From OV.model Require Import M_C15_Newmark.
From OV.proofs Require Import L_C15.
Import ListNotations.
Local Open Scope R_scope.

(* ---------- the regenerated scalar kernels: homogeneous and additive, no side conditions ---------- *)
Lemma correct_closed_total g b UC V A dt :
  @correct R NumR g b UC V A dt = (V + dt * g * (UC / (b * dt * dt)), UC / (b * dt * dt)).
Proof. unfold correct. unfold_num. q2r. cbv zeta. apply pair_eq2; unfold Rdiv; ring. Qed.

Theorem predict_homogeneous g b s U V A dt :
  @predict R NumR g b (s * U) (s * V) (s * A) dt
  = (s * fst (@predict R NumR g b U V A dt), s * snd (@predict R NumR g b U V A dt)).
Proof. rewrite !predict_closed. cbn [fst snd]. apply pair_eq2; ring. Qed.
Theorem predict_additive g b U V A U' V' A' dt :
  @predict R NumR g b (U + U') (V + V') (A + A') dt
  = (fst (@predict R NumR g b U V A dt) + fst (@predict R NumR g b U' V' A' dt),
     snd (@predict R NumR g b U V A dt) + snd (@predict R NumR g b U' V' A' dt)).
Proof. rewrite !predict_closed. cbn [fst snd]. apply pair_eq2; ring. Qed.
Theorem correct_homogeneous g b s UC V A dt :
  @correct R NumR g b (s * UC) (s * V) (s * A) dt
  = (s * fst (@correct R NumR g b UC V A dt), s * snd (@correct R NumR g b UC V A dt)).
Proof. rewrite !correct_closed_total. cbn [fst snd]. apply pair_eq2; unfold Rdiv; ring. Qed.
Theorem correct_additive g b UC V A UC' V' A' dt :
  @correct R NumR g b (UC + UC') (V + V') (A + A') dt
  = (fst (@correct R NumR g b UC V A dt) + fst (@correct R NumR g b UC' V' A' dt),
     snd (@correct R NumR g b UC V A dt) + snd (@correct R NumR g b UC' V' A' dt)).
Proof. rewrite !correct_closed_total. cbn [fst snd]. apply pair_eq2; unfold Rdiv; ring. Qed.
(* the acceleration returned by correct does not depend on the A and V handed in, and vanishes ONLY for a zero correction *)
Theorem correct_acceleration_zero_iff g b UC V A dt : b <> 0 -> dt <> 0 ->
  (snd (@correct R NumR g b UC V A dt) = 0 <-> UC = 0).
Proof.
  intros Hb Hdt. rewrite correct_closed_total. cbn [snd].
  assert (H : b * dt * dt <> 0) by (repeat apply Rmult_integral_contrapositive_currified; assumption).
  split; intros E.
  - apply (Rmult_eq_compat_r (b * dt * dt)) in E. unfold Rdiv in E. rewrite Rmult_assoc, Rinv_l, Rmult_1_r, Rmult_0_l in E by exact H. exact E.
  - rewrite E. unfold Rdiv. ring.
Qed.

(* ---------- fields ---------- *)
Section Fields.
  Variable I : Type.
  Notation fld := (@field R I).
  Notation "u +f v" := (@fadd R NumR I u v) (at level 50, left associativity).
  Notation "u -f v" := (@fsub R NumR I u v) (at level 50, left associativity).
  Notation "a *f u" := (@fscal R NumR I a u) (at level 40, left associativity).
  Notation stepR := (@newmark_step R NumR I).
  Notation runR := (@newmark_run R NumR I).

  Definition scaleS (s : R) (st : @state R I) : @state R I := mkState (s *f sU st) (s *f sV st) (s *f sA st).
  Definition addS (st st' : @state R I) : @state R I := mkState (sU st +f sU st') (sV st +f sV st') (sA st +f sA st').

  Lemma state_ext (a b : @state R I) : sU a = sU b -> sV a = sV b -> sA a = sA b -> a = b.
  Proof. destruct a as [u v w], b as [u' v' w']; cbn [sU sV sA]; intros -> -> ->; reflexivity. Qed.

  Lemma predictF_homogeneous g b s (U V A : fld) dt :
    @predictF R NumR I g b (s *f U) (s *f V) (s *f A) dt
    = (s *f fst (@predictF R NumR I g b U V A dt), s *f snd (@predictF R NumR I g b U V A dt)).
  Proof.
    unfold predictF. cbn [fst snd]. f_equal; apply (fext I); intro i; unfold fscal; cbn [nmul NumR]; rewrite predict_homogeneous; reflexivity.
  Qed.
  Lemma predictF_additive g b (U V A U' V' A' : fld) dt :
    @predictF R NumR I g b (U +f U') (V +f V') (A +f A') dt
    = (fst (@predictF R NumR I g b U V A dt) +f fst (@predictF R NumR I g b U' V' A' dt),
       snd (@predictF R NumR I g b U V A dt) +f snd (@predictF R NumR I g b U' V' A' dt)).
  Proof.
    unfold predictF. cbn [fst snd]. f_equal; apply (fext I); intro i; unfold fadd; cbn [nadd NumR]; rewrite predict_additive; reflexivity.
  Qed.
  Lemma correctF_homogeneous g b s (UC V A : fld) dt :
    @correctF R NumR I g b (s *f UC) (s *f V) (s *f A) dt
    = (s *f fst (@correctF R NumR I g b UC V A dt), s *f snd (@correctF R NumR I g b UC V A dt)).
  Proof.
    unfold correctF. cbn [fst snd]. f_equal; apply (fext I); intro i; unfold fscal; cbn [nmul NumR]; rewrite correct_homogeneous; reflexivity.
  Qed.
  Lemma correctF_additive g b (UC V A UC' V' A' : fld) dt :
    @correctF R NumR I g b (UC +f UC') (V +f V') (A +f A') dt
    = (fst (@correctF R NumR I g b UC V A dt) +f fst (@correctF R NumR I g b UC' V' A' dt),
       snd (@correctF R NumR I g b UC V A dt) +f snd (@correctF R NumR I g b UC' V' A' dt)).
  Proof.
    unfold correctF. cbn [fst snd]. f_equal; apply (fext I); intro i; unfold fadd; cbn [nadd NumR]; rewrite correct_additive; reflexivity.
  Qed.

  Lemma fsub_scal s (u v : fld) : s *f u -f s *f v = s *f (u -f v).
  Proof. apply (fext I); intro i. unfold fsub, fscal. cbn [nsub nmul NumR]. ring. Qed.
  Lemma fsub_add (u v u' v' : fld) : (u +f u') -f (v +f v') = (u -f v) +f (u' -f v').
  Proof. apply (fext I); intro i. unfold fsub, fadd. cbn [nsub nadd NumR]. ring. Qed.

  (* one step commutes with scaling / addition of the state whenever the minimiser does (any gamma, beta, dt) *)
  Theorem step_homogeneous g b (solve : fld -> R -> fld) s st dt :
    (forall Up, solve (s *f Up) dt = s *f solve Up dt) ->
    stepR g b solve (scaleS s st) dt = scaleS s (stepR g b solve st dt).
  Proof.
    intros Hs. unfold newmark_step, scaleS. cbn [sU sV sA].
    rewrite predictF_homogeneous.
    destruct (@predictF R NumR I g b (sU st) (sV st) (sA st) dt) as [Up Vp] eqn:EP. cbn [fst snd].
    rewrite Hs, fsub_scal, correctF_homogeneous.
    destruct (@correctF R NumR I g b (solve Up dt -f Up) Vp (sA st) dt) as [V1 A1]. cbn [fst snd sU sV sA]. reflexivity.
  Qed.
  Theorem step_additive g b (solve : fld -> R -> fld) st st' dt :
    (forall Up Up', solve (Up +f Up') dt = solve Up dt +f solve Up' dt) ->
    stepR g b solve (addS st st') dt = addS (stepR g b solve st dt) (stepR g b solve st' dt).
  Proof.
    intros Hs. unfold newmark_step, addS. cbn [sU sV sA].
    rewrite predictF_additive.
    destruct (@predictF R NumR I g b (sU st) (sV st) (sA st) dt) as [Up Vp].
    destruct (@predictF R NumR I g b (sU st') (sV st') (sA st') dt) as [Up' Vp']. cbn [fst snd].
    rewrite Hs, fsub_add, correctF_additive.
    destruct (@correctF R NumR I g b (solve Up dt -f Up) Vp (sA st) dt) as [V1 A1].
    destruct (@correctF R NumR I g b (solve Up' dt -f Up') Vp' (sA st') dt) as [V1' A1']. cbn [fst snd sU sV sA]. reflexivity.
  Qed.

  (* the total energy is a quadratic form of the state: scaling the state by s scales kinetic + strain energy by s^2 *)
  Theorem energy_scale (m k : fld -> fld -> R) : sbf I m -> sbf I k ->
    forall s st, energy I m k (scaleS s st) = s * s * energy I m k st.
  Proof.
    intros Hm Hk s st. unfold energy, total_energy, SEq, scaleS. cbn [sU sV sA].
    rewrite !(sbf_scal I m Hm), !(sbf_scal I k Hk), (m_scal_r I m Hm), (m_scal_r I k Hk).
    unfold_num. q2r. ring.
  Qed.

  (* ---------- linear elasticity: the minimiser IS linear (uniqueness of the stationary point) ---------- *)
  Section Forms.
    Variables m k : fld -> fld -> R.
    Hypothesis Hm : sbf I m.
    Hypothesis Hk : sbf I k.
    Variable b : R.
    Hypothesis Hb : 0 < b.
    Hypothesis m_pos : forall x, 0 <= m x x.
    Hypothesis m_def : forall x, m x x = 0 -> x = (@fzero R NumR I).
    Hypothesis k_psd : forall x, 0 <= k x x.

    Let Hb' : b <> 0.
    Proof. apply Rgt_not_eq. exact Hb. Qed.

    Lemma balance_stationary dt Up U1 : dt <> 0 ->
      (forall w, m ((1 / (b * dt * dt)) *f (U1 -f Up)) w + k U1 w = 0) -> stationary_at I m k b dt Up U1.
    Proof.
      intros Hdt H. unfold stationary_at.
      apply (proj2 (balance_iff_stationary I m Hm (SEq I k) k (SEq_derive I k Hk) b dt Hb' Hdt Up U1)). exact H.
    Qed.

    Lemma stationary_scale dt s Up U1 : dt <> 0 ->
      stationary_at I m k b dt Up U1 -> stationary_at I m k b dt (s *f Up) (s *f U1).
    Proof.
      intros Hdt H. apply balance_stationary; [exact Hdt|]. intros w.
      pose proof (stationary_balance I m k Hm Hk b dt Up U1 Hb' Hdt H w) as B.
      rewrite fsub_scal.
      replace ((1 / (b * dt * dt)) *f (s *f (U1 -f Up))) with (s *f ((1 / (b * dt * dt)) *f (U1 -f Up)))
        by (apply (fext I); intro i; unfold fscal; cbn [nmul NumR]; ring).
      rewrite (sbf_scal I m Hm), (sbf_scal I k Hk). rewrite <- Rmult_plus_distr_l, B. ring.
    Qed.
    Lemma stationary_add dt Up U1 Up' U1' : dt <> 0 ->
      stationary_at I m k b dt Up U1 -> stationary_at I m k b dt Up' U1' -> stationary_at I m k b dt (Up +f Up') (U1 +f U1').
    Proof.
      intros Hdt H H'. apply balance_stationary; [exact Hdt|]. intros w.
      pose proof (stationary_balance I m k Hm Hk b dt Up U1 Hb' Hdt H w) as B.
      pose proof (stationary_balance I m k Hm Hk b dt Up' U1' Hb' Hdt H' w) as B'.
      rewrite fsub_add.
      replace ((1 / (b * dt * dt)) *f ((U1 -f Up) +f (U1' -f Up')))
        with (((1 / (b * dt * dt)) *f (U1 -f Up)) +f ((1 / (b * dt * dt)) *f (U1' -f Up')))
        by (apply (fext I); intro i; unfold fscal, fadd; cbn [nmul nadd NumR]; ring).
      rewrite (sbf_add I m Hm), (sbf_add I k Hk). lra.
    Qed.

    (* strict convexity: at most one stationary point *)
    Lemma stationary_unique dt Up U1 U2 : dt <> 0 ->
      stationary_at I m k b dt Up U1 -> stationary_at I m k b dt Up U2 -> U1 = U2.
    Proof.
      intros Hdt H1 H2.
      set (D := U1 -f U2).
      pose proof (stationary_balance I m k Hm Hk b dt Up U1 Hb' Hdt H1 D) as B1.
      pose proof (stationary_balance I m k Hm Hk b dt Up U2 Hb' Hdt H2 D) as B2.
      rewrite (sbf_scal I m Hm) in B1, B2.
      rewrite (m_sub_l I m Hm) in B1, B2.
      assert (P : 0 < 1 / (b * dt * dt)).
      { assert (Hsq : 0 < dt * dt) by (destruct (Rtotal_order dt 0) as [Hn|[Hn|Hn]]; [nra|lra|nra]).
        assert (0 < b * dt * dt) by nra. apply Rdiv_lt_0_compat; lra. }
      assert (EM : m D D = m U1 D - m U2 D) by (unfold D at 1; apply (m_sub_l I m Hm)).
      assert (EK : k D D = k U1 D - k U2 D) by (unfold D at 1; apply (m_sub_l I k Hk)).
      assert (Z : 1 / (b * dt * dt) * m D D + k D D = 0) by (rewrite EM, EK; lra).
      pose proof (m_pos D) as P1. pose proof (k_psd D) as P2.
      assert (M0 : m D D = 0).
      { assert (0 <= 1 / (b * dt * dt) * m D D) by (apply Rmult_le_pos; lra). nra. }
      apply m_def in M0.
      apply (fext I); intro i. assert (E : D i = 0).
      { rewrite M0. unfold fzero, nzero, nZ. cbn [nconst NumR]. unfold Q2R'. cbn [Qnum Qden inject_Z]. lra. }
      unfold D, fsub in E. cbn [nsub NumR] in E. lra.
    Qed.

    Variable solve : fld -> R -> fld.
    Hypothesis Hsolve : forall Up dt, dt <> 0 -> stationary_at I m k b dt Up (solve Up dt).

    Theorem solve_homogeneous dt s Up : dt <> 0 -> solve (s *f Up) dt = s *f solve Up dt.
    Proof.
      intros Hdt. apply (stationary_unique dt (s *f Up)); [exact Hdt|apply Hsolve; exact Hdt|].
      apply stationary_scale; [exact Hdt|apply Hsolve; exact Hdt].
    Qed.
    Theorem solve_additive dt Up Up' : dt <> 0 -> solve (Up +f Up') dt = solve Up dt +f solve Up' dt.
    Proof.
      intros Hdt. apply (stationary_unique dt (Up +f Up')); [exact Hdt|apply Hsolve; exact Hdt|].
      apply stationary_add; [exact Hdt|apply Hsolve; exact Hdt|apply Hsolve; exact Hdt].
    Qed.

    (* the whole run is a linear map of the initial state: every gamma, every sequence of non-zero steps *)
    Theorem run_homogeneous g s : forall (dts : list R) (st : @state R I), (forall dt, In dt dts -> dt <> 0) ->
      runR g b solve (scaleS s st) dts = scaleS s (runR g b solve st dts).
    Proof.
      induction dts as [|dt r IH]; intros st Hnz; cbn [newmark_run]; [reflexivity|].
      assert (Hdt : dt <> 0) by (apply Hnz; left; reflexivity).
      rewrite step_homogeneous by (intros Up; apply solve_homogeneous; exact Hdt).
      apply IH. intros; apply Hnz; right; assumption.
    Qed.
    Theorem run_additive g : forall (dts : list R) (st st' : @state R I), (forall dt, In dt dts -> dt <> 0) ->
      runR g b solve (addS st st') dts = addS (runR g b solve st dts) (runR g b solve st' dts).
    Proof.
      induction dts as [|dt r IH]; intros st st' Hnz; cbn [newmark_run]; [reflexivity|].
      assert (Hdt : dt <> 0) by (apply Hnz; left; reflexivity).
      rewrite step_additive by (intros Up Up'; apply solve_additive; exact Hdt).
      apply IH. intros; apply Hnz; right; assumption.
    Qed.
  End Forms.
End Fields.

(* an absolute threshold breaks homogeneity: the corrector "flush |UCorrection| <= tau to zero, then divide" (tau > 0) is NOT
   homogeneous -- witness UCorrection = tau, s = 2 (refutes scale invariance of the thresholded variant for every tau > 0) *)
Definition correct_flushed (tau g b UC V A dt : R) : R * R :=
  @correct R NumR g b (if Rle_dec (Rabs UC) tau then 0 else UC) V A dt.
Theorem flushed_corrector_not_homogeneous tau : 0 < tau ->
  exists s UC V A dt : R,
    snd (correct_flushed tau (1 / 2) (1 / 4) (s * UC) (s * V) (s * A) dt) <> s * snd (correct_flushed tau (1 / 2) (1 / 4) UC V A dt).
Proof.
  intros Ht. exists 2, tau, 0, 0, 1. unfold correct_flushed.
  destruct (Rle_dec (Rabs (2 * tau)) tau) as [H|H].
  - exfalso. rewrite Rabs_pos_eq in H by lra. lra.
  - destruct (Rle_dec (Rabs tau) tau) as [H2|H2].
    + rewrite !correct_closed_total. cbn [snd]. unfold Rdiv. intros E. field_simplify in E. lra.
    + exfalso. apply H2. rewrite Rabs_pos_eq by lra. lra.
Qed.
