(* C03 -- (1) the mapped shape gradients of FunctionSpace.map_element_shape_grads ARE J^{-T} times the reference gradients
   (they solve J^T g = dN, uniquely, for J = [v0 - v2 | v1 - v2] non-singular) and their sum over the nodes is the mapped sum of
   the reference gradients (hence exactly zero when the reference gradients sum to zero);
   (2) axisymmetric quadrature summed over a mesh. *)
From Coq Require Import ZArith List Lia Reals Lra Psatz.
From Coquelicot Require Import Coquelicot.
From OV.base Require Import Num.
From OV.model Require Import M_C03.
From OV.proofs Require Import L_C03sn L_C03cert L_C03lift.
Import ListNotations.
Local Open Scope R_scope.

(* J^T g = dN, J = [[x0 - x2, x1 - x2], [y0 - y2, y1 - y2]] (columns v0 - v2, v1 - v2) *)
Definition JT_apply (v0 v1 v2 g : R * R) : R * R :=
  ((fst v0 - fst v2) * fst g + (snd v0 - snd v2) * snd g, (fst v1 - fst v2) * fst g + (snd v1 - snd v2) * snd g).

Theorem mapped_gradient_solves v0 v1 v2 dN : jacR v0 v1 v2 <> 0 -> JT_apply v0 v1 v2 (mgR v0 v1 v2 dN) = dN.
Proof.
  intros Hj. rewrite mgR_eq. unfold JT_apply; cbn [fst snd]. pose proof (jacR_det v0 v1 v2) as E.
  destruct dN as [a c]; cbn [fst snd]. f_equal; rewrite E in *; field; exact Hj.
Qed.
Theorem mapped_gradient_unique v0 v1 v2 dN g : jacR v0 v1 v2 <> 0 -> JT_apply v0 v1 v2 g = dN -> g = mgR v0 v1 v2 dN.
Proof.
  intros Hj H. rewrite mgR_eq. pose proof (jacR_det v0 v1 v2) as E. rewrite E in *. subst dN.
  destruct g as [gx gy]. unfold JT_apply; cbn [fst snd]. f_equal; field; exact Hj.
Qed.
(* the element map has Jacobian J: X(xi + h) - X(xi) = J h, so that grad_x (phi o X^-1) = J^{-T} grad_xi phi *)
Lemma elmap_jacobian v0 v1 v2 xi h :
  elmap v0 v1 v2 (fst xi + fst h, snd xi + snd h) =
  (fst (elmap v0 v1 v2 xi) + ((fst v0 - fst v2) * fst h + (fst v1 - fst v2) * snd h),
   snd (elmap v0 v1 v2 xi) + ((snd v0 - snd v2) * fst h + (snd v1 - snd v2) * snd h)).
Proof. unfold elmap, affmap; cbn [fst snd]. f_equal; ring. Qed.

(* sum over the nodes of the mapped gradients = mapped sum of the reference gradients *)
Lemma rdot_ones_r {A} (l : list A) N : length N = length l -> rdot (map (fun _ => 1) l) N = rsum N.
Proof. intros H. rewrite rdot_comm. apply rdot_ones, H. Qed.
Theorem mapped_gradient_sum v0 v1 v2 Gx Gy : length Gx = length Gy ->
  let sg := phys_grads v0 v1 v2 Gx Gy in
  (rsum (map fst sg), rsum (map snd sg)) = mgR v0 v1 v2 (rsum Gx, rsum Gy).
Proof.
  intros HL sg.
  pose proof (field_grad_linear v0 v1 v2 Gx Gy (map (fun _ => 1) Gx) HL) as H. fold sg in H. unfold field_grad in H.
  assert (Ls : length sg = length Gx) by (unfold sg, phys_grads; rewrite map_length, combine_length; lia).
  rewrite !rdot_ones_r in H by (rewrite map_length; exact Ls).
  rewrite (rdot_comm Gx), (rdot_comm Gy), !rdot_ones_r in H by congruence. exact H.
Qed.
Corollary mapped_gradient_sum_zero v0 v1 v2 Gx Gy : length Gx = length Gy -> rsum Gx = 0 -> rsum Gy = 0 ->
  let sg := phys_grads v0 v1 v2 Gx Gy in rsum (map fst sg) = 0 /\ rsum (map snd sg) = 0.
Proof.
  intros HL Hx Hy sg. pose proof (mapped_gradient_sum v0 v1 v2 Gx Gy HL) as H. cbv zeta in H. fold sg in H.
  rewrite Hx, Hy, mgR_eq in H; cbn [fst snd] in H. inversion H as [[E1 E2]]. rewrite E1, E2.
  split; unfold Rdiv; ring.
Qed.

(* ------------------------------------------------------------------ axisymmetric quadrature over a mesh *)
Definition tri_vols_axi (Ns : list (list R)) (nodes : list (R * R)) (ws : list R) (t : tri) : list R :=
  let '(a, c, d) := t in vols_axiR a c d Ns (map fst (map (elmap a c d) nodes)) ws.

(* one polynomial integrand f of degree <= d - 1 on the whole domain; every element carries the same reference tables
   (any nodal basis satisfying the reference identities of order p >= 1: with or without bubble enrichment) *)
Theorem lift_mesh_axisymmetric p d k nodes pts Ns ws f fx fy (mesh : list tri) eps_s eps_q :
  (1 <= p)%nat -> (k + 1 <= d)%nat -> PolyG k f fx fy ->
  TriQuadExact d eps_q pts ws ->
  Forall2 (fun q N => exists Gx Gy, RefIds p eps_s nodes q N Gx Gy) pts Ns -> 0 <= eps_s ->
  exists Ps : list poly, length Ps = length mesh /\
    Forall2 (fun t P => pdeg_le d P /\ forall xi, fst (tri_X t xi) * f (tri_X t xi) = peval P xi) mesh Ps /\
    forall Ms : list R, Forall2 (fun t M => 0 <= M /\ forall q, In q pts -> Rabs (f (tri_X t q)) <= M) mesh Ms ->
      Rabs (rsum (map (fun t => rdot (tri_vols_axi Ns nodes ws t) (map f (map (tri_X t) pts))) mesh)
            - 2 * PI * rsum (map (fun tP => tri_jac (fst tP) * pint_ref (snd tP)) (combine mesh Ps)))
        <= 2 * PI * rsum (map (fun tPM => let '(t, P, M) := tPM in
              Rabs (tri_jac t) * (eps_q * pnorm1 P
                 + eps_s * (let '(a, c, e) := t in Rabs (fst e) + Rabs (fst a - fst e) + Rabs (fst c - fst e)) * M * (1 / 2 + eps_q)))
            (combine (combine mesh Ps) Ms)).
Proof.
  intros Hp Hk Hf HQ HN Hes. induction mesh as [|t mesh IH].
  - exists []. split; [reflexivity|]. split; [constructor|]. intros Ms HM. inversion HM; subst. cbn [map rsum combine].
    rewrite Rmult_0_r, Rminus_0_r, Rabs_R0. lra.
  - destruct IH as [Ps [L [HF HB]]]. destruct t as [[a c] e].
    destruct (axisymmetric_integrand_form a c e k f fx fy Hf) as [P [DP EP]].
    assert (DP' : pdeg_le d P) by (eapply pdeg_mono; [|exact DP]; lia).
    exists (P :: Ps). split; [cbn; f_equal; exact L|]. split; [constructor; [split; [exact DP' | exact EP] | exact HF]|].
    intros Ms HM. inversion HM as [|t0 M mesh0 Ms0 [HM0 HMq] HM' E1 E2]; subst.
    specialize (HB Ms0 HM').
    pose proof (lift_axisymmetric_tol a c e p d k nodes pts Ns ws f fx fy P eps_s eps_q M Hp Hk Hf HQ HN DP' EP HM0 HMq Hes) as HT.
    cbn [combine map rsum fst snd tri_vols_axi tri_X tri_jac].
    set (S0 := rdot (vols_axiR a c e Ns (map fst (map (elmap a c e) nodes)) ws) (map f (map (elmap a c e) pts))) in *.
    set (S1 := rsum (map (fun t => rdot (tri_vols_axi Ns nodes ws t) (map f (map (tri_X t) pts))) mesh)) in *.
    set (I1 := rsum (map (fun tP => tri_jac (fst tP) * pint_ref (snd tP)) (combine mesh Ps))) in *.
    replace (S0 + S1 - 2 * PI * (jacR a c e * pint_ref P + I1)) with ((S0 - 2 * PI * (jacR a c e * pint_ref P)) + (S1 - 2 * PI * I1)) by ring.
    eapply Rle_trans; [apply Rabs_triang|]. lra.
Qed.

(* exact tables: exact integrals, on every mesh *)
Theorem lift_mesh_axisymmetric_exact p d k nodes pts Ns ws f fx fy (mesh : list tri) :
  (1 <= p)%nat -> (k + 1 <= d)%nat -> PolyG k f fx fy ->
  TriQuadExact d 0 pts ws ->
  Forall2 (fun q N => exists Gx Gy, RefIds p 0 nodes q N Gx Gy) pts Ns ->
  exists Ps : list poly, length Ps = length mesh /\
    Forall2 (fun t P => pdeg_le d P /\ forall xi, fst (tri_X t xi) * f (tri_X t xi) = peval P xi) mesh Ps /\
    rsum (map (fun t => rdot (tri_vols_axi Ns nodes ws t) (map f (map (tri_X t) pts))) mesh)
    = 2 * PI * rsum (map (fun tP => tri_jac (fst tP) * pint_ref (snd tP)) (combine mesh Ps)).
Proof.
  intros Hp Hk Hf HQ HN. induction mesh as [|t mesh IH].
  - exists []. split; [reflexivity|]. split; [constructor|]. cbn [map rsum combine]. ring.
  - destruct IH as [Ps [L [HF HB]]]. destruct t as [[a c] e].
    destruct (axisymmetric_integrand_form a c e k f fx fy Hf) as [P [DP EP]].
    assert (DP' : pdeg_le d P) by (eapply pdeg_mono; [|exact DP]; lia).
    exists (P :: Ps). split; [cbn; f_equal; exact L|]. split; [constructor; [split; [exact DP' | exact EP] | exact HF]|].
    pose proof (lift_axisymmetric a c e p d k nodes pts Ns ws f fx fy P Hp Hk Hf HQ HN DP' EP) as HT.
    cbn [combine map rsum fst snd tri_vols_axi tri_X tri_jac]. rewrite HB, HT. ring.
Qed.
