(* C11: EXISTENCE of an eigen-solver that meets the contract eigh_ok of proofs/L_C11s.v at EVERY symmetric 3x3 matrix (the spectral
   theorem in dimension 3, proved here from scratch over the classical reals of the standard library, without a choice axiom: the
   solver eigh_sym is built from sigma types -- IVT for a real root of the characteristic cubic, a kernel vector of the singular matrix
   A - lam I from cross products of its rows, a Householder reflection that deflates to a 2x2 block, and one Givens rotation). *)
From Coq Require Import Reals Lra Psatz QArith List.
From OV.base Require Import Num.
From OV.gen Require Import Gen_TensorMath Gen_HyperViscoelastic Gen_MultiBranchHyperViscoelastic Gen_ViscoState.
From OV.model Require Import M_C08 M_C11.
From OV.model Require Import M_C11s.
From OV.proofs Require Import L_C08 L_C11a L_C11.
From OV.proofs Require Import L_C11s.
Import ListNotations.
Local Open Scope R_scope.

(* ---- a real root of a monic cubic (intermediate value theorem) *)
Lemma cubic_sign (s2 s1 s0 c2 c1 c0 : R) : - s2 <= c2 <= s2 -> - s1 <= c1 <= s1 -> - s0 <= c0 <= s0 ->
  let B := 1 + s2 + s1 + s0 in
  0 < B * B * B - c2 * (B * B) - c1 * B - c0 /\ (- B) * (- B) * (- B) - c2 * ((- B) * (- B)) - c1 * (- B) - c0 < 0.
Proof.
  intros H2 H1 H0 B. assert (HB : 1 <= B) by (unfold B; lra).
  assert (Q : 1 <= B * B) by nra. assert (Q1 : B <= B * B) by nra.
  assert (A2 : - (s2 * (B * B)) <= c2 * (B * B) <= s2 * (B * B)) by (split; nra).
  assert (A1 : - (s1 * (B * B)) <= c1 * B <= s1 * (B * B)) by (split; nra).
  assert (A0 : - (s0 * (B * B)) <= c0 <= s0 * (B * B)) by (split; nra).
  assert (E : B * B * B = (B * B) * (1 + s2 + s1 + s0)) by (unfold B; ring).
  split; nra.
Qed.
Lemma Rabs_bounds x : - Rabs x <= x <= Rabs x.
Proof. unfold Rabs. destruct (Rcase_abs x); lra. Qed.
Lemma cubic_root (c2 c1 c0 : R) : {x : R | x * x * x - c2 * (x * x) - c1 * x - c0 = 0}.
Proof.
  set (f := fun x : R => x * x * x - c2 * (x * x) - c1 * x - c0).
  set (B := 1 + Rabs c2 + Rabs c1 + Rabs c0).
  assert (Hc : continuity f) by (unfold f; reg).
  destruct (cubic_sign _ _ _ c2 c1 c0 (Rabs_bounds c2) (Rabs_bounds c1) (Rabs_bounds c0)) as [Hhi Hlo]. fold B in Hhi, Hlo.
  assert (HB : - B < B) by (pose proof (Rabs_pos c2); pose proof (Rabs_pos c1); pose proof (Rabs_pos c0); unfold B; lra).
  destruct (IVT f (- B) B Hc HB Hlo Hhi) as [z [_ Hz]]. exists z. exact Hz.
Qed.

(* ---- vectors of R^3 *)
Definition V3 : Type := (R * R * R)%type.
Definition dot (u v : V3) : R := let '(a, b, c) := u in let '(x, y, z) := v in a * x + b * y + c * z.
Definition cross (u v : V3) : V3 := let '(a, b, c) := u in let '(x, y, z) := v in (b * z - c * y, c * x - a * z, a * y - b * x).
Definition vscal (s : R) (v : V3) : V3 := let '(x, y, z) := v in (s * x, s * y, s * z).
Definition vzero : V3 := (0, 0, 0).
Definition nz (v : V3) : Prop := 0 < dot v v.
Ltac dv v := destruct v as [[? ?] ?].

Lemma sq_pos x : x <> 0 -> 0 < x * x.
Proof. intros H. destruct (Rtotal_order x 0) as [L | [L | L]]; [nra | tauto | nra]. Qed.
Lemma nz_dec (v : V3) : {nz v} + {v = vzero}.
Proof.
  destruct v as [[a b] c]. unfold nz, dot, vzero.
  destruct (Req_EM_T a 0) as [E0 | N0]; [| left; pose proof (sq_pos a N0); nra].
  destruct (Req_EM_T b 0) as [E1 | N1]; [| left; pose proof (sq_pos b N1); nra].
  destruct (Req_EM_T c 0) as [E2 | N2]; [| left; pose proof (sq_pos c N2); nra].
  right. subst. reflexivity.
Qed.
Lemma dot_cross_l u v : dot u (cross u v) = 0.
Proof. dv u; dv v. unfold dot, cross. ring. Qed.
Lemma dot_cross_r u v : dot v (cross u v) = 0.
Proof. dv u; dv v. unfold dot, cross. ring. Qed.
Lemma triple_cyc u v w : dot u (cross v w) = dot v (cross w u).
Proof. dv u; dv v; dv w. unfold dot, cross. ring. Qed.
Lemma triple_rot u v w : dot u (cross v w) = dot w (cross u v).
Proof. dv u; dv v; dv w. unfold dot, cross. ring. Qed.
Lemma triple_swap u v w : dot u (cross v w) = - dot w (cross v u).
Proof. dv u; dv v; dv w. unfold dot, cross. ring. Qed.
Lemma dot_vzero u : dot u vzero = 0.
Proof. dv u. unfold dot, vzero. ring. Qed.
Lemma cross_anti u v : cross u v = vzero -> cross v u = vzero.
Proof. dv u; dv v. unfold cross, vzero. intros E. injection E as E0 E1 E2. f_equal; [f_equal |]; lra. Qed.

(* a non-zero vector has a non-zero cross product with a coordinate vector *)
Lemma cross_basis (r : V3) : nz r -> {e : V3 | nz (cross r e)}.
Proof.
  destruct r as [[a b] c]. unfold nz. intros Hn.
  destruct (Req_EM_T b 0) as [E1 | N1]; [| exists (1, 0, 0); unfold cross, dot in *; pose proof (sq_pos b N1); nra].
  destruct (Req_EM_T c 0) as [E2 | N2]; [| exists (1, 0, 0); unfold cross, dot in *; pose proof (sq_pos c N2); nra].
  exists (0, 1, 0). subst. unfold cross, dot in *. nra.
Qed.

(* kernel vector of a singular matrix given by its rows *)
Lemma kernel (r0 r1 r2 : V3) : dot r0 (cross r1 r2) = 0 -> {v : V3 | nz v /\ dot r0 v = 0 /\ dot r1 v = 0 /\ dot r2 v = 0}.
Proof.
  intros Hd.
  destruct (nz_dec (cross r1 r2)) as [N | Z12].
  { exists (cross r1 r2). repeat split; [exact N | exact Hd | apply dot_cross_l | apply dot_cross_r]. }
  destruct (nz_dec (cross r2 r0)) as [N | Z20].
  { exists (cross r2 r0). repeat split; [exact N | apply dot_cross_r | rewrite triple_cyc, triple_cyc; exact Hd | apply dot_cross_l]. }
  destruct (nz_dec (cross r0 r1)) as [N | Z01].
  { exists (cross r0 r1). repeat split; [exact N | apply dot_cross_l | apply dot_cross_r | rewrite triple_cyc; exact Hd]. }
  pose proof (cross_anti _ _ Z12) as Z21. pose proof (cross_anti _ _ Z20) as Z02. pose proof (cross_anti _ _ Z01) as Z10.
  assert (Hk : forall r s t e : V3, cross s r = vzero -> cross t r = vzero ->
             dot r (cross r e) = 0 /\ dot s (cross r e) = 0 /\ dot t (cross r e) = 0).
  { intros r s t e Zs Zt. split; [apply dot_cross_l |]. split.
    - rewrite triple_rot, Zs. apply dot_vzero.
    - rewrite triple_rot, Zt. apply dot_vzero. }
  destruct (nz_dec r0) as [N | Z0].
  { destruct (cross_basis r0 N) as [e Ne]. exists (cross r0 e). destruct (Hk r0 r1 r2 e Z10 Z20) as (K0 & K1 & K2). tauto. }
  destruct (nz_dec r1) as [N | Z1].
  { destruct (cross_basis r1 N) as [e Ne]. exists (cross r1 e). destruct (Hk r1 r0 r2 e Z01 Z21) as (K1 & K0 & K2). tauto. }
  destruct (nz_dec r2) as [N | Z2].
  { destruct (cross_basis r2 N) as [e Ne]. exists (cross r2 e). destruct (Hk r2 r0 r1 e Z02 Z12) as (K2 & K0 & K1). tauto. }
  exists (1, 0, 0). subst. unfold nz, dot, vzero. repeat split; lra.
Qed.

(* ---- matrices acting on vectors *)
Definition row0 (A : M) : V3 := (m00 A, m01 A, m02 A).
Definition row1 (A : M) : V3 := (m10 A, m11 A, m12 A).
Definition row2 (A : M) : V3 := (m20 A, m21 A, m22 A).
Definition col0 (A : M) : V3 := (m00 A, m10 A, m20 A).
Definition mv (A : M) (v : V3) : V3 := (dot (row0 A) v, dot (row1 A) v, dot (row2 A) v).
Ltac vnum := cbv beta iota zeta delta [row0 row1 row2 col0 mv dot cross vscal vzero nz
   mdiag madd msub map2 mscal mmul mtr mtrace mddot mdet mid mzero
   m00 m01 m02 m10 m11 m12 m20 m21 m22
   nconst nadd nsub nmul ndiv nopp NumR nZ nzero nunit ntwo nhalf Q2R' Qnum Qden inject_Z].
Ltac veq := apply f_equal2; [apply f_equal2 |].
Lemma col0_mmul (A B : M) : col0 (mmul A B) = mv A (col0 B).
Proof. dm A; dm B. vnum. veq; ring. Qed.
Lemma mv_vscal (A : M) s v : mv A (vscal s v) = vscal s (mv A v).
Proof. dm A; dv v. vnum. veq; ring. Qed.
Lemma col0_mid : col0 (@mid R NumR) = (1, 0, 0).
Proof. vnum. veq; ring. Qed.

Ltac hh k hn Hn0 i j := match goal with |- _ = ?d => transitivity (d + k * i * j * hn); [unfold hn; ring | rewrite Hn0; ring] end.
(* ---- Householder reflection whose first column is a given unit vector *)
Lemma householder (u : V3) : dot u u = 1 -> {Q : M | mmul (mtr Q) Q = mid /\ mmul Q (mtr Q) = mid /\ col0 Q = u}.
Proof.
  destruct u as [[x y] z]. unfold dot. intros Hu.
  destruct (Req_EM_T x 1) as [E | N].
  - exists mid. subst x. assert (y = 0) by nra. assert (z = 0) by nra. subst. split; [| split]; vnum; [f_equal; ring | f_equal; ring | veq; ring].
  - set (k := / (1 - x)). assert (Hk : k * (1 - x) = 1) by (unfold k; field; lra).
    set (a := x - 1).
    assert (Hn : k * (a * a + y * y + z * z) = 2) by (unfold a; replace ((x - 1) * (x - 1) + y * y + z * z) with (2 * (1 - x)) by nra; lra).
    exists (mk (1 - k * a * a) (- (k * a * y)) (- (k * a * z)) (- (k * y * a)) (1 - k * y * y) (- (k * y * z)) (- (k * z * a)) (- (k * z * y)) (1 - k * z * z)).
    assert (Hka : k * a = -1) by (unfold a; lra).
    pose (hn := k * (a * a + y * y + z * z) - 2). assert (Hn0 : hn = 0) by (unfold hn; lra).
    split; [| split].
    + vnum. f_equal.
      * hh k hn Hn0 a a.
      * hh k hn Hn0 a y.
      * hh k hn Hn0 a z.
      * hh k hn Hn0 y a.
      * hh k hn Hn0 y y.
      * hh k hn Hn0 y z.
      * hh k hn Hn0 z a.
      * hh k hn Hn0 z y.
      * hh k hn Hn0 z z.
    + vnum. f_equal.
      * hh k hn Hn0 a a.
      * hh k hn Hn0 a y.
      * hh k hn Hn0 a z.
      * hh k hn Hn0 y a.
      * hh k hn Hn0 y y.
      * hh k hn Hn0 y z.
      * hh k hn Hn0 z a.
      * hh k hn Hn0 z y.
      * hh k hn Hn0 z z.
    + vnum. veq.
      * replace (1 - k * a * a) with (1 - (k * a) * a) by ring. rewrite Hka. unfold a. ring.
      * replace (- (k * y * a)) with (- ((k * a) * y)) by ring. rewrite Hka. ring.
      * replace (- (k * z * a)) with (- ((k * a) * z)) by ring. rewrite Hka. ring.
Qed.

(* ---- one Givens rotation diagonalises a symmetric 2x2 block *)
Lemma givens (p q r : R) : {cs : R & {sn : R | cs * cs + sn * sn = 1 /\ q * (cs * cs - sn * sn) - (p - r) * (cs * sn) = 0}}.
Proof.
  destruct (Req_EM_T q 0) as [E | N].
  - exists 1, 0. subst. split; ring.
  - set (d := (p - r) / 2). set (rho := sqrt (d * d + q * q)).
    pose proof (sq_pos q N) as Hq.
    assert (Hrho : rho * rho = d * d + q * q) by (unfold rho; apply sqrt_sqrt; nra).
    set (t := rho - d). set (n2 := q * q + t * t). set (w := sqrt n2).
    assert (Hn2 : 0 < n2) by (unfold n2; nra).
    assert (Hw : w * w = n2) by (unfold w; apply sqrt_sqrt; lra).
    assert (Hw0 : w <> 0) by (intros Z; rewrite Z in Hw; lra).
    exists (q / w), (t / w). split.
    + replace (q / w * (q / w) + t / w * (t / w)) with ((q * q + t * t) / (w * w)) by (field; exact Hw0). rewrite Hw. unfold n2. field. fold n2. lra.
    + replace (q * (q / w * (q / w) - t / w * (t / w)) - (p - r) * (q / w * (t / w))) with (q * (q * q - t * t - 2 * d * t) / (w * w)) by (unfold d; field; exact Hw0).
      replace (q * q - t * t - 2 * d * t) with (q * q + d * d - rho * rho) by (unfold t; ring). rewrite Hrho. unfold Rdiv. ring.
Qed.

(* ---- the spectral theorem for symmetric 3x3 matrices, as a sigma type *)
Definition contract (A : M) (e : E3) : Prop :=
  let '((w0, w1, w2), V) := e in mmul (mtr V) V = mid /\ mmul V (mtr V) = mid /\ mmul (mmul V (mdiag w0 w1 w2)) (mtr V) = A.

Lemma mtr_mid : mtr (@mid R NumR) = mid.
Proof. vnum. reflexivity. Qed.

Definition minors2 (A : M) : R := m00 A * m11 A - m01 A * m10 A + (m00 A * m22 A - m02 A * m20 A) + (m11 A * m22 A - m12 A * m21 A).
Lemma charpoly (A : M) lam : lam * lam * lam - mtrace A * (lam * lam) - (- minors2 A) * lam - mdet A = 0 ->
  let B := msub A (mscal lam mid) in dot (row0 B) (cross (row1 B) (row2 B)) = 0.
Proof. destruct A as [a b c d e f g h i]. unfold minors2. vnum. intros H. lra. Qed.
Lemma eigvec (A : M) lam (v : V3) : let B := msub A (mscal lam mid) in
  dot (row0 B) v = 0 -> dot (row1 B) v = 0 -> dot (row2 B) v = 0 -> mv A v = vscal lam v.
Proof. destruct A as [a b c d e f g h i]. destruct v as [[x y] z]. vnum. intros K0 K1 K2. veq; lra. Qed.
Lemma diag_form (C : M) cs sn lam : col0 C = (lam, 0, 0) -> mtr C = C -> m12 C * (cs * cs - sn * sn) - (m11 C - m22 C) * (cs * sn) = 0 ->
  let G := mk 1 0 0 0 cs (- sn) 0 sn cs in let D := mmul (mtr G) (mmul C G) in D = mdiag (m00 D) (m11 D) (m22 D).
Proof.
  destruct C as [a b c d e f g h i]. vnum. intros HC0 HCs Hoff. injection HC0 as E0 E1 E2. injection HCs as S1 S2 S3 S4 S5 S6. subst. f_equal; nra.
Qed.

Lemma spectral_sig (A : M) : msym A -> {e : E3 | contract A e}.
Proof.
  intros HA.
  (* an eigenvalue: a real root of the characteristic cubic *)
  destruct (cubic_root (mtrace A) (- minors2 A) (mdet A)) as [lam Hlam].
  set (B := msub A (mscal lam mid)).
  pose proof (charpoly A lam Hlam) as HdB. cbv zeta in HdB. fold B in HdB.
  destruct (kernel _ _ _ HdB) as [v (Hnz & K0 & K1 & K2)].
  (* a unit eigenvector *)
  set (s := sqrt (dot v v)).
  assert (Hs : s * s = dot v v) by (apply sqrt_sqrt; unfold nz in Hnz; lra).
  assert (Hs0 : s <> 0) by (intros Z; rewrite Z in Hs; unfold nz in Hnz; lra).
  set (u := vscal (/ s) v).
  assert (Hu : dot u u = 1).
  { unfold u. revert Hs. destruct v as [[v0 v1] v2]. unfold vscal, dot. intros Hs.
    replace (/ s * v0 * (/ s * v0) + / s * v1 * (/ s * v1) + / s * v2 * (/ s * v2)) with ((v0 * v0 + v1 * v1 + v2 * v2) / (s * s)) by (field; exact Hs0).
    rewrite Hs. field. rewrite <- Hs. intros Z. apply Hs0. nra. }
  assert (HAu : mv A u = vscal lam u).
  { unfold u. rewrite mv_vscal, (eigvec A lam v K0 K1 K2). destruct v as [[v0 v1] v2]. unfold vscal. veq; ring. }
  (* deflation *)
  destruct (householder u Hu) as [Q (Q1 & Q2 & Qc)].
  set (C := mmul (mtr Q) (mmul A Q)).
  assert (HC0 : col0 C = (lam, 0, 0)).
  { unfold C. rewrite col0_mmul, col0_mmul, Qc, HAu, mv_vscal, <- Qc, <- col0_mmul, Q1, col0_mid. unfold vscal. veq; ring. }
  assert (HCs : mtr C = C).
  { unfold C. rewrite !mtr_mmul, mtr_mtr, HA, mmul_assoc. reflexivity. }
  destruct (givens (m11 C) (m12 C) (m22 C)) as [cs [sn [Hcs Hoff]]].
  set (G := mk 1 0 0 0 cs (- sn) 0 sn cs).
  assert (G1 : mmul (mtr G) G = mid) by (unfold G; vnum; f_equal; nra).
  assert (G2 : mmul G (mtr G) = mid) by (unfold G; vnum; f_equal; nra).
  set (V := mmul Q G).
  assert (V1 : mmul (mtr V) V = mid).
  { unfold V. rewrite mtr_mmul, mmul_assoc, <- (mmul_assoc (mtr Q)), Q1, mmul_id_l. exact G1. }
  assert (V2 : mmul V (mtr V) = mid).
  { unfold V. rewrite mtr_mmul, mmul_assoc, <- (mmul_assoc G), G2, mmul_id_l. exact Q2. }
  set (D := mmul (mtr V) (mmul A V)).
  assert (HD : D = mmul (mtr G) (mmul C G)).
  { unfold D, V, C. rewrite mtr_mmul, !mmul_assoc. reflexivity. }
  assert (Hdiag : D = mdiag (m00 D) (m11 D) (m22 D)).
  { rewrite HD. exact (diag_form C cs sn lam HC0 HCs Hoff). }
  exists ((m00 D, m11 D, m22 D), V). unfold contract. split; [exact V1 | split; [exact V2 |]].
  rewrite <- Hdiag. unfold D. rewrite <- !mmul_assoc, V2, mmul_id_l, mmul_assoc, V2, mmul_id_r. reflexivity.
Qed.

(* ---- a total eigen-solver: the construction applied to the symmetric part *)
Definition msymm (A : M) : M := mscal (/ 2) (madd A (mtr A)).
Lemma msymm_sym A : msym (msymm A).
Proof. unfold msym, msymm. dm A. vnum. f_equal; ring. Qed.
Lemma msymm_id A : msym A -> msymm A = A.
Proof. unfold msym, msymm. dm A. vnum. intros E. injection E as E1 E2 E3 E4 E5 E6. subst. f_equal; field. Qed.
Definition eigh_sym (A : M) : E3 := proj1_sig (spectral_sig (msymm A) (msymm_sym A)).
Lemma eigh_sym_ok (A : M) : msym A -> eigh_ok eigh_sym A.
Proof.
  intros HA. unfold eigh_ok, eigh_sym. destruct (spectral_sig (msymm A) (msymm_sym A)) as [[[[w0 w1] w2] V] Hc]. cbn [proj1_sig].
  unfold contract in Hc. rewrite (msymm_id A HA) in Hc. exact Hc.
Qed.
Lemma eigh_exists : exists eigh : M -> E3, forall A : M, msym A -> eigh_ok eigh A.
Proof. exists eigh_sym. exact eigh_sym_ok. Qed.
